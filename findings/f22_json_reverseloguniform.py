"""F22 (C07): a reverseloguniform domain written to its JSON form came back as loguniform (different encoding)."""
import numpy as np
from syne_tune.config_space import reverseloguniform, config_space_to_json_dict, config_space_from_json_dict
from syne_tune.optimizer.schedulers.searchers.utils.hp_ranges_factory import make_hyperparameter_ranges
cs = {"x": reverseloguniform(0.1, 0.9)}
cs2 = config_space_from_json_dict(config_space_to_json_dict(cs))
assert type(cs2["x"].get_sampler()).__name__ == type(cs["x"].get_sampler()).__name__, type(cs2["x"].get_sampler()).__name__
a = make_hyperparameter_ranges(cs).to_ndarray({"x": 0.5}); b = make_hyperparameter_ranges(cs2).to_ndarray({"x": 0.5})
assert np.allclose(a, b), (a, b)
print("OK")
