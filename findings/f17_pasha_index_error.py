"""F17 (C04): PASHA raises IndexError in on_trial_result (a) with a single rung level, (b) with several
brackets sharing one rung system when the top rung holds a trial that never visited the previous rung."""
import logging; logging.disable(logging.CRITICAL)
import datetime, sys
from syne_tune.optimizer.schedulers.hyperband import HyperbandScheduler
from syne_tune.config_space import uniform
from syne_tune.backend.trial_status import Trial

def run(kw, script):
    cs = {"x": uniform(0, 1), "epochs": kw.pop("max_t")}
    s = HyperbandScheduler(cs, searcher="random", metric="loss", mode="min", resource_attr="epoch",
                           max_resource_attr="epochs", type="pasha", random_seed=0, **kw)
    trials = {}
    for step in script:
        if step[0] == "s":
            sg = s.suggest(len(trials))
            if sg.spawn_new_trial_id:
                t = Trial(len(trials), sg.config, datetime.datetime.now()); trials[t.trial_id] = t; s.on_trial_add(t)
        else:
            _, tid, r, v = step
            d = s.on_trial_result(trials[tid], {"loss": v, "epoch": r})
            if d != "CONTINUE":
                s.on_trial_remove(trials[tid])
    return s

which = sys.argv[1] if len(sys.argv) > 1 else "both"
if which in ("single", "both"):
    # (a) grace_period=1, reduction_factor=3, max_t=3 -> rung_levels == [1]
    run(dict(max_t=3, grace_period=1, reduction_factor=3), [("s",), ("r", 0, 1, 0.5)])
    print("single-rung OK")
if which in ("multi", "both"):
    # (b) two brackets sharing the rung system [1, 3, 9]; bracket is drawn at random: run until both were used
    import random
    rng = random.Random(1)
    script = []
    s = None
    for seed in range(20):
        kw = dict(max_t=27, grace_period=1, reduction_factor=3, brackets=2)
        cs = {"x": uniform(0, 1), "epochs": 27}
        s = HyperbandScheduler(cs, searcher="random", metric="loss", mode="min", resource_attr="epoch",
                               max_resource_attr="epochs", type="pasha", random_seed=seed, brackets=2,
                               grace_period=1, reduction_factor=3)
        trials = {}; running = {}
        for step in range(200):
            if len(running) < 3:
                sg = s.suggest(len(trials))
                if sg.spawn_new_trial_id:
                    t = Trial(len(trials), sg.config, datetime.datetime.now()); trials[t.trial_id] = t; s.on_trial_add(t)
                    running[t.trial_id] = 1
                else:
                    tid = sg.checkpoint_trial_id
                    if sg.config is not None:
                        trials[tid] = Trial(tid, sg.config, trials[tid].creation_time)
                    running[tid] = [rs for rs in s.terminator._rung_systems][0]._running[str(tid)]["resume_from"] + 1
            tid = rng.choice(sorted(running)); r = running[tid]
            d = s.on_trial_result(trials[tid], {"loss": rng.randrange(64) / 64.0, "epoch": r})
            running[tid] = r + 1
            if d != "CONTINUE":
                s.on_trial_remove(trials[tid]); del running[tid]
    print("multi-bracket OK")
