"""F14 (C13, C05): np.NAN does not exist in numpy 2.x -> on_trial_error of synchronous Hyperband / DEHB raises."""
import logging; logging.disable(logging.CRITICAL)
import datetime
from syne_tune.optimizer.schedulers.synchronous import SynchronousGeometricHyperbandScheduler, GeometricDifferentialEvolutionHyperbandScheduler
from syne_tune.config_space import uniform
from syne_tune.backend.trial_status import Trial
cs = {"x": uniform(0, 1), "epochs": 9}
for cls in (SynchronousGeometricHyperbandScheduler, GeometricDifferentialEvolutionHyperbandScheduler):
    s = cls(cs, metric="loss", mode="min", resource_attr="epoch", max_resource_attr="epochs", grace_period=1, reduction_factor=3)
    sg = s.suggest(0); t = Trial(0, sg.config, datetime.datetime.now()); s.on_trial_add(t)
    s.on_trial_error(t)   # must not raise
print("OK")
