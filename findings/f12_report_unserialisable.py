"""F12 (C18): unserialisable values in a report were silently written as null instead of being rejected."""
import io, contextlib, numpy as np
from syne_tune.report import Reporter, retrieve
r = Reporter()
for bad in (np.arange(3), {1, 2}, object()):
    buf = io.StringIO()
    raised = False
    with contextlib.redirect_stdout(buf):
        try:
            r(loss=bad)
        except TypeError:
            raised = True
    got = retrieve(buf.getvalue().splitlines())
    assert raised and got == [], (type(bad).__name__, raised, got)
print("OK")
