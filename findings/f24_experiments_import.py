"""F24 (C17): syne_tune.experiments could not be imported under numpy 2 (np.NaN default argument), so the best
configuration of a loaded experiment could not be obtained at all."""
import logging; logging.disable(logging.CRITICAL)
import pandas as pd
from syne_tune.experiments.experiment_result import ExperimentResult
df = pd.DataFrame({"trial_id": [0, 1, 2], "loss": [0.5, 0.2, 0.9], "x": [1, 2, 3]})
er = ExperimentResult(name="e", results=df, metadata={"metric_names": ["loss"], "metric_mode": "min"}, tuner=None, path=None)
assert er.best_config()["x"] == 2
print("OK")
