"""F3 (C16): GridSearcher.clone_from_state re-shuffled the grid with the default seed -> repeats / skips."""
import logging; logging.disable(logging.CRITICAL)
from syne_tune.optimizer.schedulers.searchers.random_grid_searcher import GridSearcher
from syne_tune.config_space import choice, randint
cs = {"a": choice(["x", "y", "z"]), "b": randint(0, 3)}
for seed in (7, 11, 123):
    g = GridSearcher(cs, metric="m", points_to_evaluate=[], random_seed=seed)
    ref = GridSearcher(cs, metric="m", points_to_evaluate=[], random_seed=seed)
    first = [g.get_config() for _ in range(5)]
    [ref.get_config() for _ in range(5)]
    clone = g.clone_from_state(g.get_state())
    rest_clone = [clone.get_config() for _ in range(8)]
    rest_ref = [ref.get_config() for _ in range(8)]
    assert rest_clone == rest_ref, (seed, rest_clone, rest_ref)
    allc = first + [c for c in rest_clone if c is not None]
    assert len({tuple(sorted(c.items())) for c in allc}) == len(allc) == 12
print("OK")
