"""F20 (C06): GridSearcher listed a grid point several times when a finite range holds duplicate values
(finrange with cast_int and more points than integers)."""
import logging; logging.disable(logging.CRITICAL)
from syne_tune.optimizer.schedulers.searchers.random_grid_searcher import GridSearcher
from syne_tune.config_space import finrange
g = GridSearcher({"a": finrange(4.0, 6.0, 5, cast_int=True)}, metric="m", points_to_evaluate=[], shuffle_config=False)
vals = []
while True:
    c = g.get_config()
    if c is None:
        break
    vals.append(c["a"])
assert sorted(vals) == [4, 5, 6], f"grid enumerated as {vals}"
print("OK")
