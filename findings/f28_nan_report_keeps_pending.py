"""F28: a result whose metric is NaN / infinite left the pending evaluation of the trial in the GP searcher's state
(ModelBasedSearcher._update returned before label_trial dropped it): the trial is paused, its pending entry stays for ever.
Both for the asynchronous and the synchronous Hyperband scheduler."""
import sys, datetime, logging
sys.modules.setdefault("yahpo_gym", None)
logging.disable(logging.CRITICAL)
from syne_tune.config_space import uniform
from syne_tune.backend.trial_status import Trial
from syne_tune.optimizer.schedulers.synchronous.hyperband_impl import SynchronousGeometricHyperbandScheduler
from syne_tune.optimizer.schedulers.hyperband import HyperbandScheduler

cs = {"x": uniform(0, 1), "epochs": 9}
kw = dict(searcher="bayesopt", metric="loss", mode="min", resource_attr="epoch", max_resource_attr="epochs",
          grace_period=1, reduction_factor=3, random_seed=0)


def pending(s):
    return [(p.trial_id, p.resource) for p in s.searcher.state_transformer.state.pending_evaluations]


for name, s in [("synchronous", SynchronousGeometricHyperbandScheduler(cs, **kw)),
                ("promotion", HyperbandScheduler(cs, type="promotion", **kw))]:
    sg = s.suggest(0)
    t = Trial(trial_id=0, config=sg.config, creation_time=datetime.datetime.now())
    s.on_trial_add(t)
    assert pending(s) == [("0", 1)]
    d = s.on_trial_result(t, {"loss": float("nan"), "epoch": 1})
    assert d == "PAUSE", d
    s.on_trial_remove(t)
    assert pending(s) == [], f"{name}: trial 0 is paused, pending evaluations {pending(s)}"
print("OK")
