"""F29 (open): a GP searcher with restrict_configurations restored from get_state() does not continue like the original
 (a) after every allowed configuration has been suggested: the next get_config raises AssertionError (the original answers None);
 (b) when the list names a configuration twice: the restored searcher continues with other suggestions.
Prints what it sees; exits 1 while the defect is present."""
import sys, pickle, logging
sys.modules.setdefault("yahpo_gym", None)
logging.disable(logging.CRITICAL)
from syne_tune.config_space import randint, choice
from syne_tune.optimizer.schedulers.searchers.gp_fifo_searcher import GPFIFOSearcher

cs = {"a": randint(0, 20), "b": choice(["x", "y", "z"])}


def mk(lst, seed):
    return GPFIFOSearcher(dict(cs), metric="loss", points_to_evaluate=[], num_init_random=10 ** 6, random_seed=seed,
                          debug_log=False, restrict_configurations=[dict(c) for c in lst])


def run(lst, n, k):
    o = mk(lst, 1)
    outs, snap = [], None
    for i in range(n):
        if i == k:
            snap = pickle.dumps(o.get_state())
        c = o.get_config(trial_id=str(i))
        outs.append(c)
        if c is not None:
            o.register_pending(str(i), config=c)
    cl = mk(lst, 99).clone_from_state(pickle.loads(snap))
    cont = []
    for i in range(k, n):
        c = cl.get_config(trial_id=str(i))
        cont.append(c)
        if c is not None:
            cl.register_pending(str(i), config=c)
    return outs[k:], cont


bad = 0
L = [{"a": 1, "b": "x"}, {"a": 2, "b": "y"}, {"a": 3, "b": "z"}]
try:
    a, b = run(L, 5, 3)
    print("(a) original", a, "restored", b)
    bad += a != b
except AssertionError as e:
    print("(a) restored searcher raised AssertionError after the list was used up")
    bad += 1
D = [{"a": 12, "b": "y"}, {"a": 1, "b": "y"}, {"a": 16, "b": "y"}, {"a": 12, "b": "y"}, {"a": 15, "b": "y"}, {"a": 18, "b": "x"},
     {"a": 16, "b": "x"}, {"a": 9, "b": "x"}]
a, b = run(D, 6, 2)
print("(b) original", a, "\n    restored", b)
bad += a != b
sys.exit(1 if bad else 0)
