"""F21 (C16): a GPMultiFidelitySearcher restored with clone_from_state lost resource_attr -> KeyError(None) at the
first on_trial_result(update=True)."""
import logging; logging.disable(logging.CRITICAL)
import pickle
from syne_tune.optimizer.schedulers.hyperband import HyperbandScheduler
from syne_tune.config_space import randint
def make():
    sch = HyperbandScheduler({"x": randint(1, 4)}, searcher="bayesopt", metric="loss", resource_attr="epoch", max_t=9,
                             search_options={"num_init_random": 100, "debug_log": False})
    sch._initialize_searcher()
    return sch.searcher
s = make()
c = s.get_config(trial_id="0", milestone=1)
s.register_pending("0", config=c, milestone=1)
st = pickle.loads(pickle.dumps(s.get_state()))
cl = make().clone_from_state(st)
cl.on_trial_result("0", c, {"loss": 0.5, "epoch": 1}, update=True)   # must not raise
s.on_trial_result("0", c, {"loss": 0.5, "epoch": 1}, update=True)
print("OK")
