"""F25: DEHB with searcher_data="all" passed only milestone results to the model-based searcher."""
import sys
from syne_tune.config_space import uniform
from syne_tune.backend.trial_status import Trial
from syne_tune.optimizer.schedulers.synchronous import GeometricDifferentialEvolutionHyperbandScheduler
import datetime
sch = GeometricDifferentialEvolutionHyperbandScheduler({"x": uniform(0, 1)}, searcher="bayesopt", searcher_data="all", metric="loss",
        mode="min", resource_attr="epoch", grace_period=2, reduction_factor=2, max_resource_level=8, random_seed=0,
        search_options={"debug_log": False})
sg = sch.suggest(0)
t = Trial(0, sg.config, datetime.datetime.now())
sch.on_trial_add(t)
assert sch.on_trial_result(t, {"loss": 0.5, "epoch": 1}) == "CONTINUE"
sch.on_trial_result(t, {"loss": 0.25, "epoch": 2})
ev = sch.searcher.state_transformer.state.trials_evaluations[0].metrics["target"]
print(ev)
assert set(ev) == {"1", "2"}, f"searcher_data='all': observations at levels {sorted(ev)}, the trial reported levels 1 and 2"
