"""F27: with the simulator back-end, a StoppingCriterion combining max_wallclock_time with metric thresholds lost
the thresholds when SimulatorCallback rewrote the wall-clock part onto simulated time."""
from syne_tune import StoppingCriterion
from syne_tune.backend.simulator_backend.simulator_callback import SimulatorCallback


class T:  # the two attributes of the tuner the rewrite touches
    pass


t = T()
t.stop_criterion = StoppingCriterion(max_wallclock_time=100, min_metric_value={"loss": 0.1}, max_metric_value={"acc": 0.9})
SimulatorCallback()._modify_stop_criterion(t)
c = t.stop_criterion
assert c.min_metric_value == {"loss": 0.1}, f"min_metric_value after the rewrite: {c.min_metric_value}"
assert c.max_metric_value.get("acc") == 0.9, f"max_metric_value after the rewrite: {c.max_metric_value}"
assert c.max_metric_value.get("st_tuner_time") == 100
print("OK")
