"""F1 (C13, C14): GPMultiFidelitySearcher.cleanup_pending wipes OTHER trials' pending evaluations."""
import logging; logging.disable(logging.CRITICAL)
from syne_tune.optimizer.schedulers.hyperband import HyperbandScheduler
from syne_tune.config_space import uniform
from syne_tune.backend.trial_status import Trial
import datetime
cs = {"x": uniform(0, 1), "epochs": 9}
s = HyperbandScheduler(cs, searcher="bayesopt", search_options={"num_init_random": 10, "debug_log": False}, metric="loss", mode="min",
                       resource_attr="epoch", max_resource_attr="epochs", type="stopping", grace_period=1, reduction_factor=3)
trials = []
for i in range(3):
    sg = s.suggest(i); t = Trial(i, sg.config, datetime.datetime.now()); trials.append(t); s.on_trial_add(t)
pend = lambda: sorted((int(p.trial_id), p.resource) for p in s.searcher.state_transformer.state.pending_evaluations)
before = pend()
s.on_trial_complete(trials[0], {"loss": 0.5, "epoch": 9})
after = pend()
print("before", before, "after", after)
expected = [p for p in before if p[0] != 0]
assert after == expected, f"pending of other trials changed: expected {expected} got {after}"
print("OK")
