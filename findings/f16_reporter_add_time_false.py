"""F16 (C18): Reporter(add_time=False) raised AttributeError on every report (self.iter only initialised when add_time)."""
import io, contextlib
from syne_tune.report import Reporter, retrieve
r = Reporter(add_time=False)
buf = io.StringIO()
with contextlib.redirect_stdout(buf):
    r(loss=1.0); r(loss=2.0)
got = retrieve(buf.getvalue().splitlines())
assert [g["loss"] for g in got] == [1.0, 2.0] and [g["st_worker_iter"] for g in got] == [0, 1], got
print("OK")
