"""F23 (C07): sampling several values from a quantised integer domain returned np.float64 elements."""
import numpy as np
from syne_tune.config_space import qrandint
vals = qrandint(0, 12, 4).sample(size=3, random_state=np.random.RandomState(0))
assert all(type(v) is int for v in vals), [type(v).__name__ for v in vals]
print("OK")
