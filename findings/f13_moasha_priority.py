"""F13 (C19): NonDominatedPriority returned the sort ORDER (argsort) where priorities (ranks) are expected."""
import numpy as np
from syne_tune.optimizer.schedulers.multiobjective.multiobjective_priority import NonDominatedPriority
from syne_tune.optimizer.schedulers.multiobjective.moasha import _Bracket
X = np.array([[3., 3.], [1., 1.], [4., 4.], [2., 2.]])
p = NonDominatedPriority()(X)
print("priorities", p)
assert list(np.argsort(p)) == [1, 3, 0, 2], "priority order must be (1,1) < (2,2) < (3,3) < (4,4)"
b = _Bracket(min_t=1, max_t=9, reduction_factor=3, s=0)
acts = [b.on_result(i, 1, {"a": float(X[i, 0]), "b": float(X[i, 1])}) for i in range(4)]
print(acts)
# 4th trial (2,2) has 1 of 4 strictly better -> rank 1/4 <= 1/3 -> must continue
assert acts[3] == "CONTINUE", acts
print("OK")
