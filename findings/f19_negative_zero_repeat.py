"""F19 (C06): -0.0 and 0.0 had different match strings, so a searcher promising no repeats suggested the same
configuration twice (quantised float domains sample -0.0)."""
import logging; logging.disable(logging.CRITICAL)
from syne_tune.optimizer.schedulers.fifo import FIFOScheduler
from syne_tune.config_space import quniform
s = FIFOScheduler({"x": quniform(-0.5, 0.5, 0.5)}, searcher="random", metric="m", random_seed=0, points_to_evaluate=[])
cfgs = []
for i in range(4):
    sg = s.suggest(i)
    if sg is not None:
        cfgs.append(sg.config["x"])
assert len(cfgs) == len(set(cfgs)), f"repeated suggestion: {cfgs}"
print("OK", cfgs)
