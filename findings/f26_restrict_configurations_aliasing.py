"""F26: a searcher with restrict_configurations popped suggested entries off the list object the caller had passed."""
from syne_tune.config_space import randint, choice
from syne_tune.optimizer.schedulers.searchers.random_grid_searcher import RandomSearcher
cs = {"x": randint(0, 9), "y": choice(["a", "b"])}
allowed = [{"x": i, "y": "a"} for i in range(6)]
mine = list(allowed)
a = RandomSearcher(cs, metric="loss", points_to_evaluate=[], random_seed=3, restrict_configurations=allowed)
seq_a = [a.get_config(trial_id=str(i)) for i in range(4)]
assert allowed == mine, f"the caller's list was changed: {allowed}"
b = RandomSearcher(cs, metric="loss", points_to_evaluate=[], random_seed=3, restrict_configurations=allowed)
seq_b = [b.get_config(trial_id=str(i)) for i in range(4)]
assert seq_a == seq_b, f"same arguments, same seed: {seq_a} vs {seq_b}"
print("OK")
