"""F18 (C16): RandomSearcher.clone_from_state (a) always raised AssertionError with the default debug_log=False,
(b) with restrict_configurations the clone crashed at the next random get_config (_rc_returned_pos None)."""
import logging; logging.disable(logging.CRITICAL)
import sys
from syne_tune.optimizer.schedulers.searchers.random_grid_searcher import RandomSearcher
from syne_tune.config_space import randint
which = sys.argv[1] if len(sys.argv) > 1 else "both"
cs = {"x": randint(0, 9), "y": randint(0, 9)}
if which in ("a", "both"):
    s = RandomSearcher(cs, metric="m", points_to_evaluate=[], random_seed=3)
    ref = RandomSearcher(cs, metric="m", points_to_evaluate=[], random_seed=3)
    [s.get_config(trial_id=str(i)) for i in range(4)]; [ref.get_config(trial_id=str(i)) for i in range(4)]
    c = s.clone_from_state(s.get_state())
    assert [c.get_config(trial_id=str(i)) for i in range(4, 9)] == [ref.get_config(trial_id=str(i)) for i in range(4, 9)]
    print("a OK")
if which in ("b", "both"):
    rc = [{"x": i, "y": (3 * i) % 10} for i in range(10)]
    s = RandomSearcher(cs, metric="m", points_to_evaluate=[], random_seed=3, restrict_configurations=[dict(c) for c in rc], debug_log=True)
    ref = RandomSearcher(cs, metric="m", points_to_evaluate=[], random_seed=3, restrict_configurations=[dict(c) for c in rc], debug_log=True)
    [s.get_config(trial_id=str(i)) for i in range(3)]; [ref.get_config(trial_id=str(i)) for i in range(3)]
    import copy
    c = s.clone_from_state(copy.deepcopy(s.get_state()))
    assert [c.get_config(trial_id=str(i)) for i in range(3, 8)] == [ref.get_config(trial_id=str(i)) for i in range(3, 8)]
    print("b OK")
