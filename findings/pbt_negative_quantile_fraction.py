"""PBT (C20 / scheduler level): a NEGATIVE quantile_fraction passes the constructor and breaks `_quantiles`.

`_CONSTRAINTS["quantile_fraction"] = Float(0.0, 0.5)`; `Float.assert_valid` tests `(not self.lower) or value >= self.lower`,
and the lower bound 0.0 is falsy: only `value <= 0.5` is enforced.  With -0.25 and four scored trials
`num_trials_in_quantile = ceil(-1) = -1`, so lower = trials[:-1] and upper = trials[1:] overlap.  The second best trial is in
the lower quantile; depending on the generator it is asked to clone itself (the code's assert fires inside on_trial_result) or
it is stopped and replaced by a clone of a WORSE trial.
Lean twin: SyneTune.C20Pbt.quantiles_negative_fraction_counterexample (lean/SyneTune/Props/C20Pbt.lean).
Also shown: quantile_fraction = 0 gives lower = [] and upper = ALL candidates (`trials[-0:]`), harmless.
"""
import datetime, logging, sys
sys.modules.setdefault("yahpo_gym", None); logging.disable(logging.CRITICAL)
from syne_tune.backend.trial_status import Trial
from syne_tune.config_space import uniform
from syne_tune.optimizer.schedulers.pbt import PopulationBasedTraining


def make(q, seed):
    s = PopulationBasedTraining({"x": uniform(0, 1)}, metric="m", mode="max", resource_attr="epoch", max_t=10,
                                perturbation_interval=1, quantile_fraction=q, random_seed=seed)
    ts = {}
    for i in range(4):
        sg = s.suggest(i); ts[i] = Trial(i, sg.config, datetime.datetime(2020, 1, 1)); s.on_trial_add(ts[i])
    for i in range(4):
        assert s.on_trial_result(ts[i], {"m": float(i + 1), "epoch": 1}) == "CONTINUE"
    return s, ts


seen = set()
for seed in range(8):
    s, ts = make(-0.25, seed)
    assert s._quantiles() == ([0, 1, 2], [1, 2, 3]), s._quantiles()
    try:
        d = s.on_trial_result(ts[2], {"m": 3.0, "epoch": 2})
        src = [a for a, _ in s._trial_decisions_stack]
        print(f"seed {seed}: trial 2 (metric 3, second best) -> {d}, clone source queued: {src}")
        seen.add("worse" if src == [1] else "better")
    except AssertionError:
        print(f"seed {seed}: trial 2 -> AssertionError (assert trial_id != trial_id_to_clone)")
        seen.add("assert")
s, ts = make(0.0, 0)
print("quantile_fraction=0:", s._quantiles())
assert s._quantiles() == ([], [0, 1, 2, 3])
assert {"assert", "worse"} <= seen, seen
print("REPRODUCED: negative quantile_fraction accepted; overlapping quantiles; self-clone assertion and clone of a worse trial")
