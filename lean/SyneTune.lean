import SyneTune.Base.Basic
import SyneTune.Base.Wire
import SyneTune.Model.Rung
import SyneTune.Model.HB
