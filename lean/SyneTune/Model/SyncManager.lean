import SyneTune.Model.SyncBracket
/-
Model of `synchronous/hyperband_bracket_manager.py` (`SynchronousHyperbandBracketManager`),
of the bracket bookkeeping of `dehb_bracket_manager.py`
(`DifferentialEvolutionHyperbandBracketManager`: same `next_job` / `on_result`, brackets
of DEHB kind, `trial_id_from_parent_slot`, `top_of_previous_rung` with its cache) and of
`hyperband_rung_system.py` (`SynchronousHyperbandRungSystem.geometric`).
-/
namespace SyneTune.Sync
open SyneTune

structure Manager where
  kind : BKind
  mode : Mode
  bracketRungs : List (List (Nat × Nat))      -- `_bracket_rungs[offset] = [(size, level)…]`
  brackets : List Bracket := []               -- `_brackets` (complete ones are kept)
  idToOffset : List Nat := []                 -- `_bracket_id_to_offset`
  primary : Nat := 0                          -- `_primary_bracket_id`
  topCache : List ((Nat × Nat) × List (Option Nat)) := []   -- DEHB `_top_list_of_previous_rung_cache`
deriving Repr, Inhabited

/-- `num_bracket_offsets` -/
def Manager.numOffsets (g : Manager) : Nat := g.bracketRungs.length

def Manager.setBracket (g : Manager) (i : Nat) (b : Bracket) : Manager :=
  { g with brackets := g.brackets.set i b }

/-- `_create_new_bracket`. -/
def Manager.createBracket (g : Manager) : Except SErr (Manager × Nat) :=
  if g.brackets.length ≠ g.idToOffset.length then .error (.assertion "len(_brackets) == len(_bracket_id_to_offset)") else
  if g.numOffsets = 0 then .error (.other "ZeroDivisionError") else
  match g.bracketRungs[g.brackets.length % g.numOffsets]? with
  | none => .error (.other "IndexError")
  | some rs =>
    match mkBracket g.kind g.mode rs with
    | .error e => .error e
    | .ok br =>
      .ok ({ g with idToOffset := g.idToOffset ++ [g.brackets.length % g.numOffsets],
                    brackets := g.brackets ++ [br] }, g.brackets.length)

/-- the per-offset assertions of the constructor: `len(rungs) == max_num_rungs - offset`
and `assert_check_rungs(rungs)` -/
def checkSystems (maxNum : Nat) : List (List (Nat × Nat)) → Nat → Bool
  | [], _ => true
  | rs :: rest, offset => decide (rs.length + offset = maxNum) && checkRungs rs && checkSystems maxNum rest (offset + 1)

/-- `SynchronousHyperbandBracketManager(bracket_rungs, mode)`. -/
def Manager.init (kind : BKind) (mode : Mode) (bracketRungs : List (List (Nat × Nat))) : Except SErr Manager :=
  match bracketRungs with
  | [] => .error (.assertion "num_bracket_offsets > 0")
  | first :: _ =>
    if !checkSystems first.length bracketRungs 0 then .error (.assertion "bracket_rungs") else
    match ({ kind := kind, mode := mode, bracketRungs := bracketRungs } : Manager).createBracket with
    | .error e => .error e
    | .ok (g, id) => .ok { g with primary := id }

/-- `DifferentialEvolutionHyperbandBracketManager(rungs_first_bracket, mode, num_brackets_per_iteration)`. -/
def Manager.initDehb (mode : Mode) (first : List (Nat × Nat)) (numBrackets : Option Nat) : Except SErr Manager :=
  if first.length = 0 then .error (.assertion "max_num_offsets > 0") else
  let n := match numBrackets with | none => first.length | some k => k
  if ¬ (1 ≤ n ∧ n ≤ first.length) then .error (.assertion "num_brackets_per_iteration") else
  Manager.init .dehb mode ((List.range n).map (fun offset => first.drop offset))

/-- the `for bracket_id in range(primary, next_bracket_id)` loop of `next_job` -/
def Manager.scan (g : Manager) : List Nat → Except SErr (Option (Manager × Nat × SlotInRung))
  | [] => .ok none
  | id :: rest =>
    match g.brackets[id]? with
    | none => .error (.other "IndexError")
    | some br =>
      match br.nextFreeSlot with
      | .error e => .error e
      | .ok (br', some sl) => .ok (some (g.setBracket id br', id, sl))
      | .ok (_, none) => g.scan rest

/-- `range(a, b)` -/
def rangeFrom (a b : Nat) : List Nat := List.range' a (b - a)

/-- `next_job`: `(manager', bracket_id, slot_in_rung)`. -/
def Manager.nextJob (g : Manager) : Except SErr (Manager × Nat × SlotInRung) :=
  match g.scan (rangeFrom g.primary g.brackets.length) with
  | .error e => .error e
  | .ok (some r) => .ok r
  | .ok none =>
    match g.createBracket with
    | .error e => .error e
    | .ok (g', id) =>
      match g'.scan [id] with
      | .error e => .error e
      | .ok (some r) => .ok r
      | .ok none => .error (.assertion "Newly created bracket has to have a free slot")

/-- the `while bracket.is_bracket_complete() and primary < last_bracket` loop; `none` is an
`IndexError` -/
def skipComplete (brs : List Bracket) (last : Nat) : Nat → Nat → Option Nat
  | 0, p => some p
  | fuel + 1, p =>
    match brs[p]? with
    | none => none
    | some br => if br.isComplete ∧ p < last then skipComplete brs last fuel (p + 1) else some p

/-- the `if for_primary:` block of `on_result` -/
def Manager.movePrimary (g : Manager) : Except SErr Manager :=
  match skipComplete g.brackets (g.brackets.length - 1) (g.brackets.length - g.primary) g.primary with
  | none => .error (.other "IndexError")
  | some p =>
    match g.brackets[p]? with
    | none => .error (.other "IndexError")
    | some br =>
      if br.isComplete then
        match ({ g with primary := p } : Manager).createBracket with
        | .error e => .error e
        | .ok (g', id) => .ok { g' with primary := id }
      else .ok { g with primary := p }

/-- `on_result((bracket_id, slot_in_rung))`. -/
def Manager.onResult (g : Manager) (id : Nat) (res : SlotInRung) :
    Except SErr (Manager × Option (List (Option Nat))) :=
  if ¬ (g.primary ≤ id ∧ id < g.brackets.length) then .error (.assertion "Invalid bracket_id") else
  match g.brackets[id]? with
  | none => .error (.other "IndexError")
  | some br =>
    match br.onResult res with
    | .error e => .error e
    | .ok (br', notPromoted) =>
      if id = g.primary then
        match (g.setBracket id br').movePrimary with
        | .error e => .error e
        | .ok g' => .ok (g', notPromoted)
      else .ok (g.setBracket id br', notPromoted)

/-- previous level of `level` in `[(size, level)…]` (`_level_to_prev_level[(offset, level)]`) -/
def prevLevelIn : List (Nat × Nat) → Nat → Nat → Option Nat
  | [], _, _ => none
  | (_, lv) :: rest, level, prev => if lv = level then some prev else prevLevelIn rest level lv

/-- `level_to_prev_level(bracket_id, level)`. -/
def Manager.levelToPrevLevel (g : Manager) (id level : Nat) : Except SErr Nat :=
  match g.idToOffset[id]? with
  | none => .error (.other "IndexError")
  | some offset =>
    match g.bracketRungs[offset]? with
    | none => .error (.keyError "_level_to_prev_level")
    | some rs =>
      match prevLevelIn rs level 0 with
      | none => .error (.keyError "_level_to_prev_level")
      | some p => .ok p

/-! ### DEHB manager additions -/

/-- `_parent_rung[(offset, level)] = (bracket_delta, rung_index)`; for offset 0 the delta
`num_bracket_offsets - rung_index` can be zero or negative -/
def Manager.parentRung (g : Manager) (offset level : Nat) : Option (Int × Nat) :=
  match g.bracketRungs[offset]? with
  | none => none
  | some rs =>
    match rs.findIdx? (fun r => r.2 == level) with
    | none => none
    | some ri => if offset > 0 then some (1, ri + 1) else some ((g.numOffsets : Int) - (ri : Int), 0)

/-- `trial_id_from_parent_slot`; `fuel` bounds the `while` loop.  When the bracket id does
not decrease and the slot is empty the Python loop does not terminate: explicit error
(the harness never asks such a question). -/
def Manager.parentSlotLoop (g : Manager) (level slotIndex : Nat) : Nat → Nat → Except SErr (Option Nat)
  | 0, _ => .error (.other "non-termination")
  | fuel + 1, id =>
    if id = 0 then .ok none else
    match g.idToOffset[id]? with
    | none => .error (.other "IndexError")
    | some offset =>
      match g.parentRung offset level with
      | none => .error (.keyError "_parent_rung")
      | some (delta, ri) =>
        if (id : Int) - delta < 0 then .error (.other "negative bracket index") else
        match g.brackets[((id : Int) - delta).toNat]? with
        | none => .error (.other "IndexError")
        | some br =>
          match br.trialIdForSlot ri slotIndex with
          | .error e => .error e
          | .ok (some t) => .ok (some t)
          | .ok none =>
            if delta ≤ 0 then .error (.other "non-termination")
            else g.parentSlotLoop level slotIndex fuel ((id : Int) - delta).toNat

def Manager.trialIdFromParentSlot (g : Manager) (id level slotIndex : Nat) : Except SErr (Option Nat) :=
  g.parentSlotLoop level slotIndex (id + 1) id

def cacheLookup (k : Nat × Nat) : List ((Nat × Nat) × List (Option Nat)) → Option (List (Option Nat))
  | [] => none
  | (k', v) :: xs => if k = k' then some v else cacheLookup k xs

/-- `top_of_previous_rung(bracket_id, pos)`. -/
def Manager.topOfPreviousRung (g : Manager) (id pos : Nat) : Except SErr (Manager × Option Nat) :=
  match g.brackets[id]? with
  | none => .error (.other "IndexError")
  | some br =>
    match cacheLookup (id, br.current) g.topCache with
    | some tl =>
      (match tl[pos]? with
       | none => .error (.other "IndexError")
       | some t => .ok (g, t))
    | none =>
      match br.topListForPreviousRung with
      | .error e => .error e
      | .ok tl =>
        match tl[pos]? with
        | none => .error (.other "IndexError")
        | some t => .ok ({ g with topCache := ((id, br.current), tl) :: g.topCache }, t)

/-! ### `SynchronousHyperbandRungSystem.geometric` -/

def powRat (b : Rat) : Nat → Rat
  | 0 => 1
  | k + 1 => powRat b k * b

/-- `s_max`: number of iterations of `while min_resource * rf^s_max < max_resource` -/
def sMaxLoop (minR : Nat) (rf : Rat) (maxR : Nat) : Nat → Nat → Nat
  | 0, k => k
  | fuel + 1, k => if (minR : Rat) * powRat rf k < (maxR : Rat) then sMaxLoop minR rf maxR fuel (k + 1) else k

def ceilNat (x : Rat) : Nat := (-((-x).floor)).toNat

/-- is the denominator a power of two (the value is a binary floating-point number)? -/
def dyadic (x : Rat) : Bool := (x.den &&& (x.den - 1)) == 0

/-- `int(np.ceil(x))` for a product the code computes in floating point: exact ceiling when
the factors are dyadic (`inexact = false`, the float computation is then exact for the
small numbers involved); otherwise, within round-off of an integer (DESIGN §2.1 "free")
the implementation's value `hint` is adopted if it is one of the two candidates. -/
def ceilHint (x : Rat) (inexact : Bool) (hint : Option Nat) : Nat × Bool :=
  let n := roundHalfEven x
  if inexact ∧ absRat (x - (n : Rat)) ≤ tol x x then
    match hint with
    | some h => if (h : Int) = n ∨ (h : Int) = n + 1 then (h, true) else (ceilNat x, true)
    | none => (ceilNat x, true)
  else (ceilNat x, false)

/-- `geometric(min_resource, max_resource, reduction_factor, num_brackets)`; `hints` = the
implementation's result, consulted only for free ceilings. The assertions on the
arguments are `none`. -/
def geometric (minR maxR : Nat) (rf : Rat) (numBrackets : Option Nat)
    (hints : List (List (Nat × Nat))) : Option (List (List (Nat × Nat)) × Bool) :=
  if ¬ (1 ≤ minR ∧ 1 ≤ maxR ∧ minR < maxR ∧ 2 ≤ rf) then none else
  if numBrackets = some 0 then none else
  let sMax := sMaxLoop minR rf maxR maxR 0
  if sMax = 0 then some ([[(1, maxR)]], false) else
  let nb := match numBrackets with | none => sMax + 1 | some k => min k (sMax + 1)
  let hintAt (b r : Nat) : Option Nat := (hints[b]?.bind (·[r]?)).map (·.1)
  let systems := (List.range nb).map fun bracket =>
    let rNumM1 := sMax - bracket
    let preFact : Rat := ((sMax + 1 : Nat) : Rat) / ((rNumM1 + 1 : Nat) : Rat)
    let body := (List.range rNumM1).map fun rung =>
      let resource := (roundHalfEven ((minR : Rat) * powRat rf (rung + bracket))).toNat
      let c := ceilHint (preFact * powRat rf (rNumM1 - rung)) (!(dyadic preFact && dyadic rf)) (hintAt bracket rung)
      ((c.1, resource), c.2)
    let last := ceilHint preFact (!dyadic preFact) (hintAt bracket rNumM1)
    (body.map (·.1) ++ [(last.1, maxR)], body.any (·.2) || last.2)
  some (systems.map (·.1), systems.any (·.2))

end SyneTune.Sync
