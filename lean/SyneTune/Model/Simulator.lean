import SyneTune.Model.PollBackend
/-
Model of `syne_tune/backend/simulator_backend/`:
* `events.py`        : `SimulatorState` — event heap keyed `(time, events_added)`, `push`,
                       `next_until`, `remove_events`
* `time_keeper.py`   : `SimulatedTimeKeeper` — `advance`, `advance_to`, `mark_exit`,
                       `real_time_since_last_recent_exit`
* `simulator_backend.py` : `_process_events_until_now` and the four event handlers,
                       `fetch_status_results` (`_next_results_to_fetch`: not polled ⇒ dropped
                       but counted), `_schedule`, `_stop_or_pause_trial` (`delay_stop`,
                       `delay_complete_after_stop`, the two `1e-3` guards), `busy_trial_ids`
* `simulator_callback.py` : `on_tuning_sleep`
and of the inherited `TrialBackend.start_trial/resume_trial/pause_trial/stop_trial/stop_all`.

Numbers are exact rationals (the `Fraction` of the Python float).  Sums and differences the
code computes in floating point go through an `Arith` record: the driver instantiates it
with correctly rounded IEEE-754 double arithmetic (`Arith.ieee`), the theorems are stated
for an arbitrary `Arith` (monotonicity assumptions are explicit hypotheses where needed)
and specialise to exact arithmetic (`Arith.exact`).

The job of a trial (`_run_job_and_collect_results`) is a parameter `job`; the tabular
instance is in `Model/TabularBackend.lean`.  Fields marked ghost record history only.
-/
namespace SyneTune.Backend

/-- the floating-point operations of the modelled code -/
structure Arith where
  add : Rat → Rat → Rat
  sub : Rat → Rat → Rat

def Arith.exact : Arith := ⟨(· + ·), (· - ·)⟩

/-! #### IEEE-754 binary64 rounding (round to nearest, ties to even) on `Rat`;
overflow and subnormals are outside the model. -/

/-- largest `e` (searching downwards from `hi`) with `2^e ≤ x`, for `x ≥ 1`; `fuel` bounds the search -/
def log2Up (x : Rat) : Nat → Nat → Nat
  | 0, e => e
  | fuel + 1, e => if (2 : Rat) ^ (e + 1) ≤ x then log2Up x fuel (e + 1) else e

/-- smallest `k` with `x * 2^k ≥ 1`, for `0 < x < 1` -/
def log2Down (x : Rat) : Nat → Nat → Nat
  | 0, k => k
  | fuel + 1, k => if x * (2 : Rat) ^ k < 1 then log2Down x fuel (k + 1) else k

/-- round a positive rational to 53 significant bits, ties to even -/
def fl53pos (x : Rat) : Rat :=
  if 1 ≤ x then
    let e := log2Up x 1100 0           -- 2^e ≤ x < 2^(e+1)
    if e ≥ 52 then
      let u := (2 : Rat) ^ (e - 52)
      (roundHalfEven (x / u) : Rat) * u
    else
      let u := (2 : Rat) ^ (52 - e)
      (roundHalfEven (x * u) : Rat) / u
  else
    let k := log2Down x 1100 0         -- 2^(-k) ≤ x < 2^(-k+1)
    let u := (2 : Rat) ^ (52 + k)
    (roundHalfEven (x * u) : Rat) / u

def fl53 (x : Rat) : Rat :=
  if x = 0 then 0 else if x < 0 then - fl53pos (-x) else fl53pos x

def Arith.ieee : Arith := ⟨fun a b => fl53 (a + b), fun a b => fl53 (a - b)⟩

/-! ### events -/

/-- one reported result as the job returns it -/
structure Res where
  level : Nat            -- `result[resource_attr]`
  row : List Rat         -- the objectives (`blackbox.objectives_names` order)
  elapsed : Rat          -- `result[elapsed_time_attr]` as handed to the simulator
deriving DecidableEq, Repr, Inhabited

/-- ghost identity of a result: `idx`-th result of the `run`-th start event of its trial -/
structure Tag where
  run : Nat
  idx : Nat
deriving DecidableEq, Repr, Inhabited

inductive EvKind
  | start
  /-- `natural = some r`: the `CompleteEvent` pushed by the start event of run `r` (ghost);
  `none`: the one pushed by `_stop_or_pause_trial` -/
  | complete (status : St) (natural : Option Nat)
  | stop
  | result (r : Res) (tag : Tag)
deriving DecidableEq, Repr, Inhabited

structure Ev where
  time : Rat
  cnt : Nat
  trial : Nat
  kind : EvKind
deriving DecidableEq, Repr, Inhabited

/-- heap order: `(time, cnt)` lexicographic -/
def Ev.before (a b : Ev) : Bool := decide (a.time < b.time) || (decide (a.time = b.time) && decide (a.cnt < b.cnt))

/-- the heap as the list of its entries in pop order -/
def insertEv (e : Ev) : List Ev → List Ev
  | [] => [e]
  | x :: xs => if e.before x then e :: x :: xs else x :: insertEv e xs

/-- a result that has arrived at the backend (`_next_results_to_fetch` entry);
`time` is its `st_tuner_time` -/
structure Arrived where
  res : Res
  time : Rat
  tag : Tag
deriving DecidableEq, Repr, Inhabited

structure SimCfg where
  dResult : Rat          -- delay_on_trial_result
  dCompleteFinal : Rat   -- delay_complete_after_final_report
  dCompleteStop : Rat    -- delay_complete_after_stop
  dStart : Rat           -- delay_start
  dStop : Rat            -- delay_stop
  sleep : Rat            -- tuner_sleep_time
  guard : Rat            -- the literal `1e-3` of `_stop_or_pause_trial`
deriving Repr, Inhabited

/-- `_trial_dict[trial_id]`: a plain `Trial` (`isResult = false`) until the first result or
completion event, then a `TrialResult` with a status -/
structure STrial where
  isResult : Bool := false
  status : St := .inProgress
  -- ghost
  runs : Nat := 0            -- start events processed so far
  commanded : Bool := false  -- a pause/stop command was issued and no resume since
  flushed : Bool := false    -- ... and a poll not covering the trial happened since the command
  since : List Tag := []     -- delivered since the last start_trial / resume_trial
  droppedSince : Bool := false     -- some arrived result was dropped since then
  expectRun : Nat := 0             -- run number of the start event scheduled by it
  queuedAtResume : Bool := false   -- arrived-but-unfetched results existed at the last resume
  completedRun : Option Nat := none -- the run whose own completion event has been processed
deriving Repr, Inhabited

/-- ghost: one processed start event -/
structure RunRec (J : Type) where
  trial : Nat
  run : Nat
  start : Rat
  jsBefore : J
  jsAfter : J
  results : List Res

/-- ghost: what happened to an arrived result at a `fetch_status_results` -/
structure LogEntry where
  trial : Nat
  tag : Tag
  delivered : Bool     -- `false`: dropped (not covered by `trial_ids`) but counted
  arr : Arrived
deriving Repr

structure Sim (J : Type) where
  cfg : SimCfg
  heap : List Ev := []
  added : Nat := 0                       -- `events_added`
  now : Rat := 0                         -- `_current_time`
  realNow : Rat := 0                     -- the (stubbed) `time.time()`
  lastExit : Rat := 0                    -- `_last_recent_exit`
  next : List (Nat × List Arrived) := [] -- `_next_results_to_fetch`
  seen : List (Nat × Nat) := []          -- `_last_metric_seen_index`
  busy : List Nat := []                  -- `_busy_trial_ids`
  trials : List STrial := []
  js : J
  -- ghost
  runs : List (RunRec J) := []
  log : List LogEntry := []

abbrev JobFn (J : Type) := J → Nat → Except BErr (J × St × List Res)

variable {J : Type}

/-- `SimulatorState.push` -/
def Sim.push (s : Sim J) (time : Rat) (trial : Nat) (kind : EvKind) : Sim J :=
  { s with heap := insertEv ⟨time, s.added, trial, kind⟩ s.heap, added := s.added + 1 }

/-- `time_keeper.advance(step)`: `assert step >= 0` -/
def Sim.advance (A : Arith) (s : Sim J) (step : Rat) : Except BErr (Sim J) :=
  if step < 0 then .error (.assertion "step >= 0") else .ok { s with now := A.add s.now step }

/-- `time_keeper.advance_to(to_time)` -/
def Sim.advanceTo (s : Sim J) (t : Rat) : Sim J := { s with now := maxRat s.now t }

/-- `_advance_by_outside_time` -/
def Sim.advanceOutside (A : Arith) (s : Sim J) : Except BErr (Sim J) :=
  s.advance A (A.sub s.realNow s.lastExit)

/-- `time_keeper.mark_exit()` -/
def Sim.markExit (s : Sim J) : Sim J := { s with lastExit := s.realNow }

def Sim.updT (s : Sim J) (t : Nat) (f : STrial → STrial) : Sim J :=
  { s with trials := modifyAt f t s.trials }

/-! ### event handlers -/

/-- the `for i, result in enumerate(results)` loop of `_process_start_event`:
pushes the result events, returns `time_final_result` -/
def pushResults (A : Arith) (s : Sim J) (t : Nat) (te : Rat) (run : Nat) :
    List Res → Nat → Rat → Sim J × Rat
  | [], _, tf => (s, tf)
  | r :: rs, i, tf =>
    let tr := A.add te r.elapsed
    let s' := s.push (A.add tr s.cfg.dResult) t (.result r ⟨run, i⟩)
    pushResults A s' t te run rs (i + 1) (maxRat tf tr)

/-- `_process_start_event` -/
def Sim.processStart (A : Arith) (job : JobFn J) (s : Sim J) (t : Nat) (te : Rat) : Except BErr (Sim J) :=
  match s.trials[t]? with
  | none => .error (.assertion "not registered with backend")
  | some x =>
    match job s.js t with
    | .error e => .error e
    | .ok (js', status, rs) =>
      let s0 := { s with js := js' }
      let p := pushResults A s0 t te x.runs rs 0 te
      let s1 := p.1.push (A.add p.2 s.cfg.dCompleteFinal) t (.complete status (some x.runs))
      .ok { (s1.updT t fun y => { y with runs := y.runs + 1 }) with
            busy := insertNat t s1.busy,
            runs := s1.runs ++ [⟨t, x.runs, te, s.js, js', rs⟩] }

/-- `_process_complete_event` -/
def Sim.processComplete (s : Sim J) (t : Nat) (status : St) (natural : Option Nat) : Except BErr (Sim J) :=
  if t < s.trials.length then
    .ok { (s.updT t fun y => { y with isResult := true, status := status,
                                      completedRun := if natural.isSome then natural else y.completedRun }) with
          busy := s.busy.erase t }
  else .error (.keyError "_trial_dict")

/-- `_process_stop_event` -/
def Sim.processStop (s : Sim J) (t : Nat) : Sim J :=
  { s with heap := s.heap.filter (fun e => e.trial != t), busy := s.busy.erase t }

/-- `_process_on_trial_result_event` -/
def Sim.processResult (s : Sim J) (t : Nat) (te : Rat) (r : Res) (tag : Tag) : Except BErr (Sim J) :=
  if t < s.trials.length then
    let q := (alookup t s.next).getD []
    .ok { (s.updT t fun y => if y.isResult then y else { y with isResult := true, status := .inProgress }) with
          next := aset t (q ++ [⟨r, te, tag⟩]) s.next }
  else .error (.keyError "_trial_dict")

def Sim.processEvent (A : Arith) (job : JobFn J) (s : Sim J) (e : Ev) : Except BErr (Sim J) :=
  match e.kind with
  | .start => s.processStart A job e.trial e.time
  | .complete st nat => s.processComplete e.trial st nat
  | .stop => .ok (s.processStop e.trial)
  | .result r tag => s.processResult e.trial e.time r tag

/-- `_process_events_until_now`; `fuel` bounds the number of events (model artefact). -/
def Sim.processUntil (A : Arith) (job : JobFn J) : Nat → Sim J → Except BErr (Sim J)
  | 0, s =>
    (match s.heap with
     | [] => .ok s
     | e :: _ => if e.time ≤ s.now then .error .fuel else .ok s)
  | fuel + 1, s =>
    match s.heap with
    | [] => .ok s
    | e :: rest =>
      if e.time ≤ s.now then
        match ({ s with heap := rest }).processEvent A job e with
        | .error err => .error err
        | .ok s' => Sim.processUntil A job fuel s'
      else .ok s

def simFuel : Nat := 1000000

/-! ### backend methods -/

/-- `_schedule` -/
def Sim.schedule (A : Arith) (job : JobFn J) (s : Sim J) (t : Nat) : Except BErr (Sim J) :=
  match s.advanceOutside A with
  | .error e => .error e
  | .ok s1 =>
    match Sim.processUntil A job simFuel s1 with
    | .error e => .error e
    | .ok s2 => .ok (s2.push (A.add s2.now s2.cfg.dStart) t .start).markExit

/-- `_stop_or_pause_trial` -/
def Sim.stopOrPause (A : Arith) (job : JobFn J) (s : Sim J) (t : Nat) (status : St) : Except BErr (Sim J) :=
  match s.advanceOutside A with
  | .error e => .error e
  | .ok s1 =>
    let timeStop := A.add s1.now s1.cfg.dStop
    let s2 := (s1.push timeStop t .stop).advanceTo (A.add timeStop s1.cfg.guard)
    match Sim.processUntil A job simFuel s2 with
    | .error e => .error e
    | .ok s3 =>
      let timeComplete := A.add s3.now s3.cfg.dCompleteStop
      let s4 := (s3.push timeComplete t (.complete status none)).advanceTo (A.add timeComplete s3.cfg.guard)
      match Sim.processUntil A job simFuel s4 with
      | .error e => .error e
      | .ok s5 => .ok s5.markExit

def incSeen (seen : List (Nat × Nat)) (t n : Nat) : List (Nat × Nat) :=
  aset t ((alookup t seen).getD 0 + n) seen

/-- the `for trial_id in trial_ids` loop of `fetch_status_results` -/
def fetchCovered (s : Sim J) : List Nat → Sim J × List (Nat × Arrived)
  | [] => (s, [])
  | t :: rest =>
    match alookup t s.next with
    | none => fetchCovered s rest
    | some l =>
      let s' := { s with next := adel t s.next, seen := incSeen s.seen t l.length,
                         log := s.log ++ l.map (fun (a : Arrived) => (⟨t, a.tag, true, a⟩ : LogEntry)) }
      let r := fetchCovered (s'.updT t fun y => { y with since := y.since ++ l.map Arrived.tag }) rest
      (r.1, l.map (fun (a : Arrived) => (t, a)) ++ r.2)

/-- results of trials not covered by `trial_ids`: counted, dropped -/
def dropRest (s : Sim J) : List (Nat × List Arrived) → Sim J
  | [] => { s with next := [] }
  | (t, l) :: rest =>
    dropRest { (s.updT t fun y => { y with droppedSince := y.droppedSince || decide (l ≠ []) }) with
               seen := incSeen s.seen t l.length,
               log := s.log ++ l.map (fun (a : Arrived) => (⟨t, a.tag, false, a⟩ : LogEntry)) } rest

/-- ghost: a poll that does not cover a commanded trial flushes what was queued for it -/
def markFlushed (ids : List Nat) (trials : List STrial) : List STrial :=
  trials.zipIdx.map fun (y, t) => if y.commanded ∧ t ∉ ids then { y with flushed := true } else y

def Sim.statusOf (s : Sim J) (t : Nat) : Except BErr St :=
  match s.trials[t]? with
  | none => .error (.keyError "_trial_dict")
  | some x => .ok (if x.isResult then x.status else .inProgress)

def statusList (s : Sim J) : List Nat → Except BErr (List (Nat × St))
  | [] => .ok []
  | t :: rest =>
    match s.statusOf t with
    | .error e => .error e
    | .ok st =>
      match statusList s rest with
      | .error e => .error e
      | .ok l => .ok ((t, st) :: l)

/-- `fetch_status_results` -/
def Sim.fetch (A : Arith) (job : JobFn J) (s : Sim J) (ids : List Nat) :
    Except BErr (Sim J × List (Nat × St) × List (Nat × Arrived)) :=
  match s.advanceOutside A with
  | .error e => .error e
  | .ok s1 =>
    match Sim.processUntil A job simFuel s1 with
    | .error e => .error e
    | .ok s2 =>
      let c := fetchCovered s2 ids
      let s3' := dropRest c.1 c.1.next
      let s3 := { s3' with trials := markFlushed ids s3'.trials }
      match statusList s3 ids with
      | .error e => .error e
      | .ok sts => .ok (s3.markExit, sts, c.2)

/-- `busy_trial_ids` -/
def Sim.busyIds (A : Arith) (job : JobFn J) (s : Sim J) : Except BErr (Sim J × List Nat) :=
  match Sim.processUntil A job simFuel s with
  | .error e => .error e
  | .ok s' => .ok (s', s'.busy)

/-- `SimulatorCallback.on_tuning_sleep` -/
def Sim.sleep (A : Arith) (s : Sim J) : Except BErr (Sim J) := s.advance A s.cfg.sleep

/-- `start_trial` (without `checkpoint_trial_id`); `setCfg` stores the configuration of
the new trial in the job state (the `Trial` object's `config`). -/
def Sim.startTrial (A : Arith) (job : JobFn J) (s : Sim J) (setCfg : Nat → J → J) : Except BErr (Sim J × Nat) :=
  let tid := s.trials.length
  match s.schedule A job tid with
  | .error e => .error e
  | .ok s' => .ok ({ s' with trials := s'.trials ++ [{}], js := setCfg tid s'.js }, tid)

/-- `resume_trial`; `setCfg` replaces the configuration when `new_config` is given. -/
def Sim.resumeTrial (A : Arith) (job : JobFn J) (s : Sim J) (t : Nat) (setCfg : J → J) : Except BErr (Sim J) :=
  match s.trials[t]? with
  | none => .error (.assertion "cannot resume a trial id that is not present")
  | some x =>
    if ¬ x.isResult then .error (.attributeError "status") else
    if x.status ≠ .paused then .error (.assertion "Cannot resume trial_id from status") else
    let s0 := { s with js := setCfg s.js }
    match s0.schedule A job t with
    | .error e => .error e
    | .ok s' =>
      .ok (s'.updT t fun y => { y with status := .inProgress, commanded := false, flushed := false,
                                       since := [], droppedSince := false, expectRun := y.runs,
                                       queuedAtResume := (alookup t s'.next).isSome })

/-- `pause_trial` (`_pause_trial` of the subclass records the level afterwards: `after`) -/
def Sim.pauseTrial (A : Arith) (job : JobFn J) (s : Sim J) (t : Nat) (after : J → J) : Except BErr (Sim J) :=
  if t < s.trials.length then
    let s0 := s.updT t fun y => { y with status := .paused, commanded := true, flushed := false }
    match s0.stopOrPause A job t .paused with
    | .error e => .error e
    | .ok s' => .ok { s' with js := after s'.js }
  else .error (.assertion "Invalid trial_id")

/-- `stop_trial` -/
def Sim.stopTrial (A : Arith) (job : JobFn J) (s : Sim J) (t : Nat) : Except BErr (Sim J) :=
  (s.updT t fun y => { y with commanded := true, flushed := false }).stopOrPause A job t .stopped

/-- `stop_all`: the list of `TrialResult` objects is taken first, their status is read live -/
def simStopAllGo (A : Arith) (job : JobFn J) (s : Sim J) : List Nat → Except BErr (Sim J)
  | [] => .ok s
  | t :: rest =>
    match s.trials[t]? with
    | none => simStopAllGo A job s rest
    | some x =>
      if x.status = .inProgress then
        match s.stopTrial A job t with
        | .error e => .error e
        | .ok s' => simStopAllGo A job s' rest
      else simStopAllGo A job s rest

def Sim.stopAll (A : Arith) (job : JobFn J) (s : Sim J) : Except BErr (Sim J) :=
  simStopAllGo A job s ((List.range s.trials.length).filter fun t =>
    match s.trials[t]? with | some x => x.isResult | none => false)

end SyneTune.Backend
