import SyneTune.Base.Basic
/-
Model of `syne_tune/tuning_status.py` (`MetricsStatistics`, `TuningStatus`,
`print_best_metric_found`), `syne_tune/util.py: metric_name_mode` and the row lookup of
`syne_tune/experiments/experiment_result.py: ExperimentResult.best_config`.

Metric names are natural-number keys (the harness numbers the names), Python dicts are
association lists in insertion order.  A reported value is either a number
(`numbers.Number`: int, float, bool, numpy scalars — an extended rational with NaN/±inf)
or something else (string, list, …).
-/
namespace SyneTune.Tuner
open SyneTune

/-- a Python float/int as an exact value: NaN, −inf, a rational, +inf. -/
inductive XRat | nan | ninf | fin (q : Rat) | pinf
deriving DecidableEq, Repr, Inhabited

/-- Python `a < b` on numbers (every comparison with NaN is `False`). -/
def XRat.lt : XRat → XRat → Bool
  | .nan, _ => false
  | .ninf, .nan => false
  | .ninf, .ninf => false
  | .ninf, .fin _ => true
  | .ninf, .pinf => true
  | .fin _, .nan => false
  | .fin _, .ninf => false
  | .fin a, .fin b => decide (a < b)
  | .fin _, .pinf => true
  | .pinf, _ => false

/-- Python `a + b` on floats. -/
def XRat.add : XRat → XRat → XRat
  | .nan, _ => .nan
  | .ninf, .nan => .nan
  | .ninf, .ninf => .ninf
  | .ninf, .fin _ => .ninf
  | .ninf, .pinf => .nan
  | .fin _, .nan => .nan
  | .fin _, .ninf => .ninf
  | .fin a, .fin b => .fin (a + b)
  | .fin _, .pinf => .pinf
  | .pinf, .nan => .nan
  | .pinf, .ninf => .nan
  | .pinf, .fin _ => .pinf
  | .pinf, .pinf => .pinf

/-- Python `-a`. -/
def XRat.neg : XRat → XRat
  | .nan => .nan
  | .ninf => .pinf
  | .fin a => .fin (-a)
  | .pinf => .ninf

/-- Python `min(a, b)`: the first argument unless the second is strictly smaller. -/
def pyMin (a b : XRat) : XRat := if b.lt a then b else a

/-- Python `max(a, b)`: the first argument unless the second is strictly larger. -/
def pyMax (a b : XRat) : XRat := if a.lt b then b else a

/-- a reported metric value. -/
inductive Val | num (x : XRat) | other
deriving DecidableEq, Repr, Inhabited

/-- `isinstance(v, numbers.Number)`. -/
def Val.isNum : Val → Bool
  | .num _ => true
  | .other => false

/-- a result dictionary: metric key ↦ value, in insertion order. -/
abbrev Metrics := List (Nat × Val)

/-- `MetricsStatistics`. -/
structure MStat where
  count : Nat := 0
  isNum : List (Nat × Bool) := []
  mins : List (Nat × XRat) := []
  maxs : List (Nat × XRat) := []
  sums : List (Nat × XRat) := []
deriving DecidableEq, Repr, Inhabited

/-- numeric branch of the loop body of `MetricsStatistics.add`. -/
def MStat.addNum (s : MStat) (k : Nat) (x : XRat) : MStat :=
  { s with
    isNum := aset k true s.isNum
    mins := aset k (pyMin ((alookup k s.mins).getD .pinf) x) s.mins
    maxs := aset k (pyMax ((alookup k s.maxs).getD .ninf) x) s.maxs
    sums := aset k (((alookup k s.sums).getD (.fin 0)).add x) s.sums }

/-- one iteration of `for metric_name, current_metric in metrics.items()`:
`if self.is_numeric.get(name, True): self.is_numeric[name] = isinstance(v, Number); if …: min/max/sum`. -/
def MStat.addOne (s : MStat) (kv : Nat × Val) : MStat :=
  if (alookup kv.1 s.isNum).getD true then
    match kv.2 with
    | .num x => s.addNum kv.1 x
    | .other => { s with isNum := aset kv.1 false s.isNum }
  else s

/-- `MetricsStatistics.add`. -/
def MStat.add (s : MStat) (m : Metrics) : MStat :=
  let s' := m.foldl MStat.addOne s
  { s' with count := s'.count + 1 }

/-- `metric_names = list(self.min_metrics.keys())`. -/
def MStat.metricNames (s : MStat) : List Nat := s.mins.map (·.1)

/-- trial status (`syne_tune.backend.trial_status.Status`). -/
inductive St | inProgress | paused | stopped | stopping | completed | failed
deriving DecidableEq, Repr, Inhabited

def St.toString : St → String
  | .inProgress => "InProgress"
  | .paused => "Paused"
  | .stopped => "Stopped"
  | .stopping => "Stopping"
  | .completed => "Completed"
  | .failed => "Failed"

/-- `TuningStatus` (without `trial_rows`, which only feed the printed table). -/
structure TStatus where
  last : List (Nat × St) := []          -- `last_trial_status_seen`
  overall : MStat := {}
  perTrial : List (Nat × MStat) := []   -- `trial_metric_statistics` (a defaultdict)
deriving DecidableEq, Repr, Inhabited

/-- `dict.update` with a list of items. -/
def aupdate {β} (l : List (Nat × β)) (items : List (Nat × β)) : List (Nat × β) :=
  items.foldl (fun acc kv => aset kv.1 kv.2 acc) l

/-- `self.trial_metric_statistics[trial_id]` of a `defaultdict`: the entry, created when missing. -/
def touch (t : Nat) (p : List (Nat × MStat)) : List (Nat × MStat) :=
  match alookup t p with
  | some _ => p
  | none => p ++ [(t, {})]

/-- one iteration of `for trial_id, new_result in new_results`. -/
def TStatus.addResult (ts : TStatus) (r : Nat × Metrics) : TStatus :=
  let p := touch r.1 ts.perTrial
  { ts with
    overall := ts.overall.add r.2
    perTrial := aset r.1 (((alookup r.1 p).getD {}).add r.2) p }

/-- `TuningStatus.update(trial_status_dict, new_results)`. -/
def TStatus.update (ts : TStatus) (sd : List (Nat × St)) (res : List (Nat × Metrics)) : TStatus :=
  let ts1 := { ts with last := aupdate ts.last sd }
  let ts2 := res.foldl TStatus.addResult ts1
  { ts2 with perTrial := sd.foldl (fun p kv => touch kv.1 p) ts2.perTrial }

/-- `mark_running_job_as_stopped`. -/
def TStatus.markStopped (ts : TStatus) : TStatus :=
  { ts with last := ts.last.map (fun kv => (kv.1, if kv.2 = .inProgress then St.stopped else kv.2)) }

def TStatus.numStarted (ts : TStatus) : Nat := ts.last.length

/-- `_num_trials(status)`. -/
def TStatus.numIn (ts : TStatus) (p : St → Bool) : Nat := (ts.last.filter (fun kv => p kv.2)).length

def TStatus.numCompleted (ts : TStatus) : Nat := ts.numIn (· == .completed)
def TStatus.numFailed (ts : TStatus) : Nat := ts.numIn (· == .failed)
def St.isFinished : St → Bool
  | .completed | .stopped | .stopping | .failed => true
  | _ => false
def TStatus.numFinished (ts : TStatus) : Nat := ts.numIn St.isFinished
def TStatus.numRunning (ts : TStatus) : Nat := ts.numIn (· == .inProgress)

/-- Python `sum(list)` starting from `0`. -/
def xsum (l : List XRat) : XRat := l.foldl XRat.add (.fin 0)

/-- `TuningStatus.cost` (`keyCost` = key of `ST_WORKER_COST`). -/
def TStatus.cost (ts : TStatus) (keyCost : Nat) : XRat :=
  if keyCost ∈ ts.overall.metricNames then
    xsum (ts.perTrial.map (fun kv => (alookup keyCost kv.2.maxs).getD (.fin 0)))
  else .fin 0

/-! ### best trial -/

/-- first element of `sorted(l, key=lambda x: x[1])` (stable): the first entry whose key no
later entry is strictly below. -/
def firstMin : List (Nat × XRat) → Option (Nat × XRat)
  | [] => none
  | x :: xs =>
    match firstMin xs with
    | none => some x
    | some y => if y.2.lt x.2 then some y else some x

/-- `print_best_metric_found(tuning_status, metric_names=[name, …], mode)`; `useMin` is
`mode == "min"` (with `None ↦ "min"`); every other mode value — also a *list* of modes —
takes the `else` branch. Returns `(trial_id, best value)`. -/
def TStatus.best (ts : TStatus) (name : Nat) (useMin : Bool) : Option (Nat × XRat) :=
  if ts.overall.count = 0 then none
  else if useMin then
    firstMin (ts.perTrial.map (fun kv => (kv.1, (alookup name kv.2.mins).getD .pinf)))
  else
    match firstMin (ts.perTrial.map (fun kv => (kv.1, ((alookup name kv.2.maxs).getD .ninf).neg))) with
    | none => none
    | some y => some (y.1, y.2.neg)

/-! ### `metric_name_mode` -/

inductive MetricSel | byName (k : Nat) | byIndex (i : Int)
deriving DecidableEq, Repr

inductive ModeSpec | one (m : Mode) | many (ms : List Mode)
deriving DecidableEq, Repr

inductive LookupErr | assertion | indexError
deriving DecidableEq, Repr

/-- Python `l[i]` with negative indices. -/
def pyIndex {α} (l : List α) (i : Int) : Option α :=
  if 0 ≤ i then l[i.toNat]?
  else if (-i).toNat ≤ l.length then l[l.length - (-i).toNat]? else none

/-- `list.index(x)`. -/
def indexOf? (l : List Nat) (k : Nat) : Option Nat := l.findIdx? (· == k)

/-- `metric_name_mode(metric_names, metric_mode, metric)`. -/
def metricNameMode (names : List Nat) (mode : ModeSpec) (sel : MetricSel) : Except LookupErr (Nat × Mode) :=
  match sel with
  | .byName k =>
    if k ∈ names then
      match mode with
      | .one m => .ok (k, m)
      | .many ms =>
        match indexOf? names k with
        | none => .error .assertion
        | some i => match ms[i]? with
          | some m => .ok (k, m)
          | none => .error .indexError
    else .error .assertion
  | .byIndex i =>
    if i < names.length then
      match pyIndex names i with
      | none => .error .indexError
      | some k =>
        match mode with
        | .one m => .ok (k, m)
        | .many ms => match pyIndex ms i with
          | some m => .ok (k, m)
          | none => .error .indexError
    else .error .assertion

/-! ### best row of the results table (`ExperimentResult.best_config`) -/

/-- `Series.argmin()` / `argmax()` with `skipna=True`: position of the first row attaining the
optimum among the non-NaN entries; a missing cell is NaN. `none`: all entries NaN. -/
def argBest (useMin : Bool) : List XRat → Nat → Option (Nat × XRat)
  | [], _ => none
  | x :: xs, i =>
    match argBest useMin xs (i + 1) with
    | none => if x = .nan then none else some (i, x)
    | some y =>
      if x = .nan then some y
      else if (if useMin then y.2.lt x else x.lt y.2) then some y else some (i, x)

end SyneTune.Tuner
