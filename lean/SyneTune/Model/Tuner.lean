import SyneTune.Model.StoppingCriterion
/-
Model of the tuning loop `syne_tune/tuner.py: Tuner.run` (with `_process_new_results`,
`_update_running_trials`, `_schedule_new_tasks`, `_schedule_new_task`, `_stop_condition`,
`_sleep`, the `finally` block, `_handle_failure`), of the generic wrappers
`TrialBackend.stop_trial / start_trial / stop_all` (`backend/trial_backend.py`), of
`StoreResultsCallback.on_trial_result / on_tuning_end` (`results_callback.py`) and of
`RemoveCheckpointsCallback.on_loop_end` (`callbacks/remove_checkpoints_callback.py`).

Shape: a small-step machine `next : LState → Ans → LState`.  A control point (`Pc`) is either
*calling* — the loop has issued a call to its environment (backend, scheduler, the user's
callbacks, the wall clock of the stopping criterion) and waits for the answer `Ans`, which is
a return (`ret` or a value) or an exception (`raise`): every call is an exception point — or
*silent* — the loop computes without talking to anybody (the answer fed to a silent step is
ignored).  The call that is pending in a state is a function of the state (`pending`;
`Call.tau` at silent control points).  The Python frames' local variables
(`trial_status_dict`, `new_results`, `done_trials`, the loop counters, the *local*
`running_trials_ids` of `_schedule_new_tasks`) are registers of the state.
`save_tuner=False`, the status printer never fires (its period is an input of the harness).

Ghost components (never read by the loop): `log` (every call issued), `bst` (the backend
status of each trial as far as commands and polls tell), `kst` (what the scheduler has been
told about each trial), `deleted`, `removableSaid`, `visible`.
-/
namespace SyneTune.Tuner
open SyneTune

/-- a reported result: trial, identity, content. -/
structure Res where
  tid : Nat
  rid : Nat
  m : Metrics := []
deriving DecidableEq, Repr, Inhabited

/-- answer of `scheduler.suggest`. -/
inductive Sugg
  | start (cfg : Nat) (ckpt : Option Nat)
  | resume (id : Nat) (cfg : Option Nat)
  | none
deriving DecidableEq, Repr, Inhabited

/-- what the environment answers to a call. -/
inductive Ans
  | ret
  | raise
  | poll (sd : List (Nat × St)) (res : List Res)   -- `fetch_status_results`
  | decision (d : Decision) (m : Option Metrics)   -- `on_trial_result`; `m`: the result dict if the scheduler changed it
  | ids (l : List Nat)                             -- `busy_trial_ids`, `trials_checkpoints_can_be_removed`, `_all_trial_results`
  | sugg (s : Sugg)                                -- `suggest`
  | clock (t : Rat)                                -- `status.wallclock_time`
  | status (st : St)                               -- reading `trial.status` in `stop_all`
deriving Repr, Inhabited

/-- events of the `TunerCallback` interface. -/
inductive CbEv
  | tuningStart | tuningEnd | loopStart | loopEnd | fetch | sleep
  | result (t rid : Nat) (d : Decision) (st : St)
  | complete (t rid : Nat)
  | start (t : Nat)
  | resume (t : Nat)
deriving DecidableEq, Repr, Inhabited

/-- calls made by the loop (`tau`: none). -/
inductive Call
  | tau
  | cb (e : CbEv)
  | clock
  | fetch (ids : List Nat)
  | schedResult (t rid : Nat)
  | stop (t : Nat)
  | pause (t : Nat)
  | delete (t : Nat)
  | schedRemove (t : Nat)
  | schedComplete (t rid : Nat)
  | schedError (t : Nat)
  | stdout (t : Nat)
  | stderr (t : Nat)
  | busy
  | suggest (newId : Nat)
  | start (id cfg : Nat) (ckpt : Option Nat)
  | copy (src tgt : Nat)
  | schedAdd (t : Nat)
  | resume (t : Nat) (cfg : Option Nat)
  | removable
  | allResults
  | status (t : Nat)
  | exit
deriving DecidableEq, Repr, Inhabited

structure Cfg where
  nWorkers : Nat
  maxFailures : Nat
  async : Bool := true          -- `asynchronous_scheduling`
  wait : Bool := false          -- `wait_trial_completion_when_stopping`
  swd : Bool := true            -- `start_jobs_without_delay`
  deleteCkpt : Bool := false    -- `trial_backend.delete_checkpoints`
  ckptCb : Bool := false        -- a `RemoveCheckpointsCallback` is installed
  store : Bool := true          -- a `StoreResultsCallback` is installed
  crit : Criterion := {}
  keyCost : Nat := 1
deriving Repr, Inhabited

/-- how `run()` ends: the exception that propagates, if any. -/
inductive Raised
  | env                 -- an exception raised by the environment inside the loop
  | envFin              -- an exception raised by the environment inside the `finally` block
  | noMetrics (t : Nat) -- `ValueError("trial t completed and no metrics got observed")`
  | assertion           -- `assert len(running_trials_ids) <= self.n_workers`
  | keyError            -- `trial_status_dict[trial_id]` for a result of a trial that was not polled
  | failed (t : Nat)    -- `ValueError("Trial - t failed")`
deriving DecidableEq, Repr, Inhabited

/-- control points. Calling ones are named after the call whose answer is awaited. -/
inductive Pc
  -- calling
  | tuningStart | clock | loopStart | fetch | cbFetch
  | decision | cbResult | stopCmd | stopDel | removeS | pauseCmd | removeP
  | stdoutNM | stderrNM | completeS | completeCb | errorS
  | sleepWait | busy | sleepSched
  | suggest | startCmd | copyCmd | addS | startCb | resumeCmd | resumeCb
  | loopEnd | removable | delRem
  | finTuningEnd | finAll | finStatus | finStop | finStopDel | finDel | hfOut | hfErr
  | done
  -- silent
  | evalStop      -- `_stop_condition()`
  | loopHead      -- the `while` test
  | nextRes       -- head of `for trial_id, result in new_results`
  | second        -- head of `for trial_id, (trial, status) in trial_status_dict.items()`
  | afterUpd      -- rest of `_process_new_results` and the branch of `run`
  | schedNew      -- `_schedule_new_tasks`
  | suggestNext   -- head of `for _ in range(self.n_workers - num_busy_workers)`
  | delNext       -- head of the loop of `RemoveCheckpointsCallback.on_loop_end`
  | finStatusNext -- head of the loop of `stop_all`
  | finDelAll     -- `if self.delete_checkpoints:` of `stop_all`
  | finDelNext    -- head of `for trial_id in self.trial_ids`
  | finMark       -- `mark_running_job_as_stopped`, `_handle_failure`
deriving DecidableEq, Repr, Inhabited

/-- a row of `StoreResultsCallback.results`. -/
structure Row where
  tid : Nat
  rid : Nat
  cfg : Option Nat       -- the trial's configuration at that time
  decision : Decision
  status : St
  m : Metrics := []      -- the result's values (`copy.copy(result)`)
deriving DecidableEq, Repr, Inhabited

/-- what the scheduler has been told about a trial. -/
inductive KSt | live | paused | dead
deriving DecidableEq, Repr, Inhabited

structure LState where
  cfg : Cfg
  pc : Pc := .tuningStart
  -- variables of `Tuner` / `run`
  running : List Nat := []               -- `running_trials_ids` of `run`
  lastSeen : List (Nat × Nat) := []      -- `last_seen_result_per_trial` (trial ↦ result id)
  schedStopped : List Nat := []          -- `trials_scheduler_stopped`
  doneAll : List (Nat × St) := []        -- `done_trials_statuses`
  exhausted : Bool := false              -- `config_space_exhausted`
  stopReached : Bool := false            -- `stop_condition_reached`
  status : TStatus := {}                 -- `tuning_status`
  -- backend / callback state the loop relies on
  nStarted : Nat := 0                    -- `len(trial_backend.trial_ids)` = `new_trial_id()`
  configs : List (Nat × Nat) := []       -- `trial.config` per trial
  rows : List Row := []                  -- `StoreResultsCallback.results`
  stored : Option (List Row) := none     -- what `on_tuning_end` wrote
  err : Option Raised := none            -- exception in flight while the `finally` block runs
  -- registers: locals of `_process_new_results` / `_update_running_trials`
  sd : List (Nat × St) := []             -- `trial_status_dict`
  allRes : List Res := []                -- `new_results`
  rest : List Res := []                  -- results not yet looked at
  cur : Res := default
  curSt : St := .inProgress
  curD : Decision := .continue
  done : List (Nat × St) := []           -- `done_trials`
  items : List (Nat × St) := []          -- rest of `trial_status_dict.items()`
  t : Nat := 0
  tSt : St := .inProgress
  tRid : Nat := 0
  -- registers: locals of `_schedule_new_tasks`
  k : Nat := 0                           -- iterations of `for _ in range(...)` still to do
  loc : Option (List Nat) := none        -- the REBOUND local `running_trials_ids`, if rebound (F15)
  sId : Nat := 0
  sCfg : Nat := 0
  sCkpt : Option Nat := none
  sRCfg : Option Nat := none
  dels : List Nat := []                  -- ids still to delete / stop
  -- ghost
  log : List Call := []
  bst : List (Nat × St) := []
  kst : List (Nat × KSt) := []
  deleted : List Nat := []
  removableSaid : List Nat := []
  visible : List Nat := []
deriving Repr, Inhabited

/-- Python `set.add` on a duplicate-free list. -/
def sadd (x : Nat) (l : List Nat) : List Nat := if x ∈ l then l else l ++ [x]

/-- `set(xs)`. -/
def dedup : List Nat → List Nat
  | [] => []
  | x :: xs => sadd x (dedup xs)

def hasKey {β} (k : Nat) (l : List (Nat × β)) : Bool := (alookup k l).isSome

/-- the call that is pending in state `s` (`tau` at the silent control points). -/
def pending (s : LState) : Call :=
  match s.pc with
  | .tuningStart => .cb .tuningStart
  | .clock => .clock
  | .loopStart => .cb .loopStart
  | .fetch => .fetch s.running
  | .cbFetch => .cb .fetch
  | .decision => .schedResult s.cur.tid s.cur.rid
  | .cbResult => .cb (.result s.cur.tid s.cur.rid s.curD s.curSt)
  | .stopCmd => .stop s.cur.tid
  | .stopDel => .delete s.cur.tid
  | .removeS => .schedRemove s.cur.tid
  | .pauseCmd => .pause s.cur.tid
  | .removeP => .schedRemove s.cur.tid
  | .stdoutNM => .stdout s.t
  | .stderrNM => .stderr s.t
  | .completeS => .schedComplete s.t s.tRid
  | .completeCb => .cb (.complete s.t s.tRid)
  | .errorS => .schedError s.t
  | .sleepWait => .cb .sleep
  | .busy => .busy
  | .sleepSched => .cb .sleep
  | .suggest => .suggest s.nStarted
  | .startCmd => .start s.sId s.sCfg s.sCkpt
  | .copyCmd => .copy (s.sCkpt.getD 0) s.sId
  | .addS => .schedAdd s.sId
  | .startCb => .cb (.start s.sId)
  | .resumeCmd => .resume s.sId s.sRCfg
  | .resumeCb => .cb (.resume s.sId)
  | .loopEnd => .cb .loopEnd
  | .removable => .removable
  | .delRem => .delete s.t
  | .finTuningEnd => .cb .tuningEnd
  | .finAll => .allResults
  | .finStatus => .status s.t
  | .finStop => .stop s.t
  | .finStopDel => .delete s.t
  | .finDel => .delete s.t
  | .hfOut => .stdout s.t
  | .hfErr => .stderr s.t
  | .done => .exit
  | _ => .tau

/-- an exception raised inside the loop: the `finally` block starts (callbacks' `on_tuning_end`;
`print_best_metric_found` before it only prints). -/
def raiseFin (s : LState) (e : Raised) : LState := { s with err := some e, pc := .finTuningEnd }

/-- an exception raised inside the `finally` block replaces whatever was in flight. -/
def exitRaise (s : LState) : LState := { s with err := some .envFin, pc := .done }

/-- `_stop_condition()` given the clock reading. -/
def stopCond (s : LState) (clock : Rat) : Bool :=
  s.cfg.crit.eval s.status clock s.cfg.keyCost || decide (s.cfg.maxFailures < s.status.numFailed)

def threshold (c : Cfg) : Nat := if c.async then c.nWorkers else 1

/-- the set new trials are added to: the rebound local one, else the caller's. -/
def addRunning (s : LState) (t : Nat) : LState :=
  match s.loc with
  | some l => { s with loc := some (sadd t l) }
  | none => { s with running := sadd t s.running }

/-- after `backend.start_trial` has registered the new trial. -/
def started (s : LState) : LState :=
  { s with pc := .addS, nStarted := s.nStarted + 1, configs := aset s.sId s.sCfg s.configs,
           bst := aset s.sId .inProgress s.bst }

/-- `running_trials_ids.add(trial_id)`; `tuning_status.update({trial_id: in_progress}, [])`. -/
def scheduled (s : LState) (t : Nat) : LState :=
  let s1 := addRunning s t
  { s1 with k := s1.k - 1, status := s1.status.update [(t, .inProgress)] [], pc := .suggestNext }

/-- first trial of `done_trials_statuses` with status failed (`_handle_failure`). -/
def firstFailed : List (Nat × St) → Option Nat
  | [] => none
  | (t, st) :: xs => if st = .failed then some t else firstFailed xs

/-- the scheduler changed the result dict it was handed (e.g. `HyperbandScheduler` adds the total cost). -/
def Res.withMetrics (r : Res) (m : Metrics) : Res := { tid := r.tid, rid := r.rid, m := m }

def setMetrics (rid : Nat) (m : Metrics) (l : List Res) : List Res :=
  l.map (fun r => if r.rid = rid then r.withMetrics m else r)

/-- `StoreResultsCallback.on_trial_result`. -/
def addRow (s : LState) : LState :=
  if s.cfg.store then
    { s with rows := s.rows ++ [{ tid := s.cur.tid, rid := s.cur.rid, cfg := alookup s.cur.tid s.configs,
                                  decision := s.curD, status := s.curSt, m := s.cur.m }] }
  else s

/-- one iteration of `for trial_id, (trial, status) in trial_status_dict.items()` for the item
`(t, st)`; `rest` are the remaining items. -/
def secondItem (s : LState) (t : Nat) (st : St) (rest : List (Nat × St)) : LState :=
  match st with
  | .completed =>
    let st' := if alookup t s.done = some St.paused then St.paused else St.completed
    match alookup t s.lastSeen with
    | none => { s with pc := .stdoutNM, t := t, items := rest }
    | some rid =>
      if !hasKey t s.done then { s with pc := .completeS, t := t, tSt := st', tRid := rid, items := rest }
      else if st' = .completed then { s with pc := .completeCb, t := t, tSt := st', tRid := rid, items := rest }
      else { s with done := aset t st' s.done, items := rest }
  | .failed => { s with pc := .errorS, t := t, tSt := .failed, items := rest }
  | .stopped =>
    if t ∈ s.schedStopped then { s with items := rest }
    else { s with pc := .errorS, t := t, tSt := .stopped, items := rest }
  | _ => { s with items := rest }

/-- after `_update_running_trials`: `trial_status_dict.update(done)`, `tuning_status.update`,
`done_trials_statuses.update`, `running_trials_ids.difference_update`, then the branch of `run`. -/
def afterUpdate (s : LState) : LState :=
  let running' := s.running.filter (fun t => !hasKey t s.done)
  { s with
    status := s.status.update (aupdate s.sd s.done) (s.allRes.map fun r => (r.tid, r.m))
    doneAll := aupdate s.doneAll s.done
    running := running'
    pc := if s.exhausted || (s.cfg.wait && s.stopReached) then
            (if !running'.isEmpty then .sleepWait else .finTuningEnd)   -- `_sleep()` / `break`
          else .schedNew }

/-- the machine: one transition. -/
def next (s : LState) (a : Ans) : LState :=
  match s.pc with
  | .tuningStart => match a with
    | .ret => { s with pc := .evalStop }
    | _ => raiseFin s .env
  | .evalStop =>
    if s.cfg.crit.maxWallclock.isSome then { s with pc := .clock }
    else { s with stopReached := stopCond s 0, pc := .loopHead }
  | .clock => match a with
    | .clock t => { s with stopReached := stopCond s t, pc := .loopHead }
    | _ => raiseFin s .env
  | .loopHead =>
    if !s.stopReached || (s.cfg.wait && !s.running.isEmpty) then { s with pc := .loopStart }
    else { s with pc := .finTuningEnd }
  | .loopStart => match a with
    | .ret => { s with pc := .fetch }
    | _ => raiseFin s .env
  | .fetch => match a with
    | .poll sd res =>
      { s with pc := .cbFetch, sd := sd, allRes := res, rest := res, done := [], bst := aupdate s.bst sd }
    | _ => raiseFin s .env
  | .cbFetch => match a with
    | .ret => if s.running.length ≤ s.cfg.nWorkers then { s with pc := .nextRes } else raiseFin s .assertion
    | _ => raiseFin s .env
  | .nextRes =>
    match s.rest with
    | [] => { s with pc := .second, items := s.sd }
    | r :: rest =>
      if hasKey r.tid s.done then { s with rest := rest }
      else
        match alookup r.tid s.sd with
        | none => raiseFin { s with rest := rest } .keyError
        | some st =>
          { s with pc := .decision, cur := r, curSt := st, rest := rest, lastSeen := aset r.tid r.rid s.lastSeen }
  | .decision => match a with
    | .decision d m =>
      match m with
      | some m' => { s with pc := .cbResult, curD := d, cur := s.cur.withMetrics m',
                            allRes := setMetrics s.cur.rid m' s.allRes }
      | none => { s with pc := .cbResult, curD := d }
    | _ => raiseFin s .env
  | .cbResult => match a with
    | .ret =>
      match s.curD with
      | .stop => { addRow s with pc := if s.curSt ≠ .completed then .stopCmd else .removeS }
      | .pause => { addRow s with pc := .pauseCmd }
      | .continue => { addRow s with pc := .nextRes }
    | _ => raiseFin s .env
  | .stopCmd => match a with
    | .ret => { s with curSt := .stopped, bst := aset s.cur.tid .stopped s.bst,
                       pc := if s.cfg.deleteCkpt then .stopDel else .removeS }
    | _ => raiseFin s .env
  | .stopDel => match a with
    | .ret => { s with pc := .removeS, deleted := s.cur.tid :: s.deleted }
    | _ => raiseFin s .env
  | .removeS => match a with
    | .ret => { s with pc := .nextRes, done := aset s.cur.tid s.curSt s.done,
                       schedStopped := sadd s.cur.tid s.schedStopped, kst := aset s.cur.tid .dead s.kst }
    | _ => raiseFin s .env
  | .pauseCmd => match a with
    | .ret => { s with pc := .removeP, bst := aset s.cur.tid .paused s.bst }
    | _ => raiseFin s .env
  | .removeP => match a with
    | .ret => { s with pc := .nextRes, done := aset s.cur.tid .paused s.done, kst := aset s.cur.tid .paused s.kst }
    | _ => raiseFin s .env
  | .second =>
    match s.items with
    | [] => { s with pc := .afterUpd }
    | (t, st) :: rest => secondItem s t st rest
  | .stdoutNM => match a with
    | .ret => { s with pc := .stderrNM }
    | _ => raiseFin s .env
  | .stderrNM => match a with
    | .ret => raiseFin s (.noMetrics s.t)
    | _ => raiseFin s .env
  | .completeS => match a with
    | .ret =>
      if s.tSt = .completed then { s with pc := .completeCb, kst := aset s.t .dead s.kst }
      else { s with pc := .second, kst := aset s.t .dead s.kst, done := aset s.t s.tSt s.done }
    | _ => raiseFin s .env
  | .completeCb => match a with
    | .ret => { s with pc := .second, done := aset s.t s.tSt s.done }
    | _ => raiseFin s .env
  | .errorS => match a with
    | .ret => { s with pc := .second, done := aset s.t s.tSt s.done, kst := aset s.t .dead s.kst }
    | _ => raiseFin s .env
  | .afterUpd => afterUpdate s
  | .sleepWait => match a with
    | .ret => { s with pc := .loopEnd }
    | _ => raiseFin s .env
  | .schedNew =>
    if s.cfg.swd then
      if threshold s.cfg ≤ s.running.length then { s with pc := .sleepSched }
      else { s with k := s.cfg.nWorkers - s.running.length, loc := none, pc := .suggestNext }
    else { s with pc := .busy }
  | .busy => match a with
    | .ids l =>
      if threshold s.cfg ≤ l.length then { s with pc := .sleepSched }
      else { s with k := s.cfg.nWorkers - l.length,
                    loc := if l.length < s.running.length then some (dedup l) else none,   -- the REBINDING (F15)
                    pc := .suggestNext }
    | _ => raiseFin s .env
  | .sleepSched => match a with
    | .ret => { s with pc := .loopEnd }
    | _ => raiseFin s .env
  | .suggestNext =>
    match s.k with
    | 0 => { s with loc := none, pc := .loopEnd }
    | _ + 1 => { s with pc := .suggest }
  | .suggest => match a with
    | .sugg .none => { s with exhausted := true, loc := none, pc := .loopEnd }   -- `StopIteration`
    | .sugg (.start cfg ckpt) => { s with pc := .startCmd, sId := s.nStarted, sCfg := cfg, sCkpt := ckpt }
    | .sugg (.resume id cfg) => { s with pc := .resumeCmd, sId := id, sRCfg := cfg }
    | _ => raiseFin s .env
  | .startCmd => match a with
    | .ret => if s.sCkpt.isSome then { s with pc := .copyCmd } else started s
    | _ => raiseFin s .env
  | .copyCmd => match a with
    | .ret => started s
    | _ => raiseFin s .env
  | .addS => match a with
    | .ret => { s with pc := .startCb, kst := aset s.sId .live s.kst }
    | _ => raiseFin s .env
  | .startCb => match a with
    | .ret => scheduled s s.sId
    | _ => raiseFin s .env
  | .resumeCmd => match a with
    | .ret =>
      { s with pc := .resumeCb,
               configs := (match s.sRCfg with | some c => aset s.sId c s.configs | none => s.configs),
               bst := aset s.sId .inProgress s.bst, kst := aset s.sId .live s.kst }
    | _ => raiseFin s .env
  | .resumeCb => match a with
    | .ret => scheduled s s.sId
    | _ => raiseFin s .env
  | .loopEnd => match a with
    | .ret => if s.cfg.ckptCb then { s with pc := .removable } else { s with pc := .evalStop }
    | _ => raiseFin s .env
  | .removable => match a with
    | .ids l => { s with dels := l, removableSaid := l ++ s.removableSaid, pc := .delNext }
    | _ => raiseFin s .env
  | .delNext =>
    match s.dels with
    | [] => { s with pc := .evalStop }
    | t :: rest => { s with pc := .delRem, t := t, dels := rest }
  | .delRem => match a with
    | .ret => { s with pc := .delNext, deleted := s.t :: s.deleted }
    | _ => raiseFin s .env
  -- the `finally` block
  | .finTuningEnd => match a with
    | .ret => { s with pc := .finAll, stored := if s.cfg.store then some s.rows else none }
    | _ => exitRaise s
  | .finAll => match a with
    | .ids l => { s with dels := l, visible := l, pc := .finStatusNext }
    | _ => exitRaise s
  | .finStatusNext =>
    match s.dels with
    | [] => { s with pc := .finDelAll }
    | t :: rest => { s with pc := .finStatus, t := t, dels := rest }
  | .finStatus => match a with
    | .status st => { s with bst := aset s.t st s.bst, pc := if st = .inProgress then .finStop else .finStatusNext }
    | _ => exitRaise s
  | .finStop => match a with
    | .ret => { s with bst := aset s.t .stopped s.bst, pc := if s.cfg.deleteCkpt then .finStopDel else .finStatusNext }
    | _ => exitRaise s
  | .finStopDel => match a with
    | .ret => { s with pc := .finStatusNext, deleted := s.t :: s.deleted }
    | _ => exitRaise s
  | .finDelAll =>
    if s.cfg.deleteCkpt then { s with dels := List.range s.nStarted, pc := .finDelNext } else { s with pc := .finMark }
  | .finDelNext =>
    match s.dels with
    | [] => { s with pc := .finMark }
    | t :: rest => { s with pc := .finDel, t := t, dels := rest }
  | .finDel => match a with
    | .ret => { s with pc := .finDelNext, deleted := s.t :: s.deleted }
    | _ => exitRaise s
  | .finMark =>
    let st := s.status.markStopped
    if s.cfg.maxFailures < st.numFailed then
      match firstFailed s.doneAll with
      | some t => { s with status := st, pc := .hfOut, t := t }
      | none => { s with status := st, pc := .done }
    else { s with status := st, pc := .done }
  | .hfOut => match a with
    | .ret => { s with pc := .hfErr }
    | _ => exitRaise s
  | .hfErr => match a with
    | .ret => { s with err := some (.failed s.t), pc := .done }
    | _ => exitRaise s
  | .done => s

/-- is the control point silent? -/
def Pc.silent : Pc → Bool
  | .evalStop | .loopHead | .nextRes | .second | .afterUpd | .schedNew | .suggestNext | .delNext
  | .finStatusNext | .finDelAll | .finDelNext | .finMark => true
  | _ => false

/-- one step; a call that becomes pending is appended to the ghost log. -/
def step (s : LState) (a : Ans) : LState :=
  let s' := next s a
  if s'.pc.silent || s.pc = .done then s' else { s' with log := s'.log ++ [pending s'] }

/-- `Tuner.run()` up to its first call, `callback.on_tuning_start`. -/
def init (c : Cfg) : LState := { cfg := c, pc := .tuningStart, log := [.cb .tuningStart] }

/-- the state after a sequence of answers (answers fed to silent steps are ignored). -/
def run (s : LState) : List Ans → LState
  | [] => s
  | a :: as => run (step s a) as

end SyneTune.Tuner
