import SyneTune.Model.StoppingCriterion
/-
Model of the tuning loop `syne_tune/tuner.py: Tuner.run` (with `_process_new_results`,
`_update_running_trials`, `_schedule_new_tasks`, `_schedule_new_task`, `_stop_condition`,
`_sleep`, the `finally` block, `_handle_failure`), of the generic wrappers
`TrialBackend.stop_trial / start_trial / stop_all` (`backend/trial_backend.py`), of
`StoreResultsCallback.on_trial_result / on_tuning_end` (`results_callback.py`) and of
`RemoveCheckpointsCallback.on_loop_end` (`callbacks/remove_checkpoints_callback.py`).

Shape: a machine  `step : LState → Ans → LState × Call`.  The loop *calls* its environment
(backend, scheduler, the user's callbacks, the wall clock of the stopping criterion); every
call is answered by the environment (`Ans`): it returns (`ret` or a value) or it raises
(`raise`) — so every call is an exception point.  The Python frames' local variables
(`trial_status_dict`, `new_results`, `done_trials`, the loop counters, the *local*
`running_trials_ids` of `_schedule_new_tasks`) are registers of the state.
`save_tuner=False`, the status printer never fires (its period is an input of the harness).

Ghost components (never read by the loop): `log` (every call issued), `bst` (the backend
status of each trial as far as commands and polls tell), `kst` (what the scheduler has been
told about each trial), `deleted`, `removableSaid`, `visible`.
-/
namespace SyneTune.Tuner
open SyneTune

/-- a reported result: trial, identity, content. -/
structure Res where
  tid : Nat
  rid : Nat
  m : Metrics := []
deriving DecidableEq, Repr, Inhabited

/-- answer of `scheduler.suggest`. -/
inductive Sugg
  | start (cfg : Nat) (ckpt : Option Nat)
  | resume (id : Nat) (cfg : Option Nat)
  | none
deriving DecidableEq, Repr, Inhabited

/-- what the environment answers to a call. -/
inductive Ans
  | ret
  | raise
  | poll (sd : List (Nat × St)) (res : List Res)   -- `fetch_status_results`
  | decision (d : Decision) (m : Option Metrics)   -- `on_trial_result`; `m`: the result dict if the scheduler changed it
  | ids (l : List Nat)                             -- `busy_trial_ids`, `trials_checkpoints_can_be_removed`
  | sugg (s : Sugg)                                -- `suggest`
  | clock (t : Rat)                                -- `status.wallclock_time`
  | status (st : St)                               -- reading `trial.status` in `stop_all`
deriving Repr, Inhabited

/-- events of the `TunerCallback` interface. -/
inductive CbEv
  | tuningStart | tuningEnd | loopStart | loopEnd | fetch | sleep
  | result (t rid : Nat) (d : Decision) (st : St)
  | complete (t rid : Nat)
  | start (t : Nat)
  | resume (t : Nat)
deriving DecidableEq, Repr, Inhabited

/-- calls made by the loop. -/
inductive Call
  | cb (e : CbEv)
  | clock
  | fetch (ids : List Nat)
  | schedResult (t rid : Nat)
  | stop (t : Nat)
  | pause (t : Nat)
  | delete (t : Nat)
  | schedRemove (t : Nat)
  | schedComplete (t rid : Nat)
  | schedError (t : Nat)
  | stdout (t : Nat)
  | stderr (t : Nat)
  | busy
  | suggest (newId : Nat)
  | start (id cfg : Nat) (ckpt : Option Nat)
  | copy (src tgt : Nat)
  | schedAdd (t : Nat)
  | resume (t : Nat) (cfg : Option Nat)
  | removable
  | allResults
  | status (t : Nat)
  | exit
deriving DecidableEq, Repr, Inhabited

structure Cfg where
  nWorkers : Nat
  maxFailures : Nat
  async : Bool := true          -- `asynchronous_scheduling`
  wait : Bool := false          -- `wait_trial_completion_when_stopping`
  swd : Bool := true            -- `start_jobs_without_delay`
  deleteCkpt : Bool := false    -- `trial_backend.delete_checkpoints`
  ckptCb : Bool := false        -- a `RemoveCheckpointsCallback` is installed
  store : Bool := true          -- a `StoreResultsCallback` is installed
  crit : Criterion := {}
  keyCost : Nat := 1
deriving Repr, Inhabited

/-- how `run()` ends: the exception that propagates, if any. -/
inductive Raised
  | env                 -- an exception raised by the environment
  | noMetrics (t : Nat) -- `ValueError("trial t completed and no metrics got observed")`
  | assertion           -- `assert len(running_trials_ids) <= self.n_workers`
  | keyError            -- `trial_status_dict[trial_id]` for a result of a trial that was not polled
  | failed (t : Nat)    -- `ValueError("Trial - t failed")`
deriving DecidableEq, Repr, Inhabited

/-- control points: the call whose answer is awaited. -/
inductive Pc
  | tuningStart | clock | loopStart | fetch | cbFetch
  | decision | cbResult | stopCmd | stopDel | removeS | pauseCmd | removeP
  | stdoutNM | stderrNM | completeS | completeCb | errorS
  | sleepWait | busy | sleepSched
  | suggest | startCmd | copyCmd | addS | startCb | resumeCmd | resumeCb
  | loopEnd | removable | delRem
  | finTuningEnd | finAll | finStatus | finStop | finStopDel | finDel | hfOut | hfErr
  | done
deriving DecidableEq, Repr, Inhabited

/-- a row of `StoreResultsCallback.results`. -/
structure Row where
  tid : Nat
  rid : Nat
  cfg : Option Nat       -- the trial's configuration at that time
  decision : Decision
  status : St
deriving DecidableEq, Repr, Inhabited

/-- what the scheduler has been told about a trial. -/
inductive KSt | live | paused | dead
deriving DecidableEq, Repr, Inhabited

structure LState where
  cfg : Cfg
  pc : Pc := .tuningStart
  -- variables of `Tuner` / `run`
  running : List Nat := []               -- `running_trials_ids` of `run`
  lastSeen : List (Nat × Nat) := []      -- `last_seen_result_per_trial` (trial ↦ result id)
  schedStopped : List Nat := []          -- `trials_scheduler_stopped`
  doneAll : List (Nat × St) := []        -- `done_trials_statuses`
  exhausted : Bool := false              -- `config_space_exhausted`
  stopReached : Bool := false            -- `stop_condition_reached`
  status : TStatus := {}                 -- `tuning_status`
  -- backend / callback state the loop relies on
  nStarted : Nat := 0                    -- `len(trial_backend.trial_ids)` = `new_trial_id()`
  configs : List (Nat × Nat) := []       -- `trial.config` per trial
  rows : List Row := []                  -- `StoreResultsCallback.results`
  stored : Option (List Row) := none     -- what `on_tuning_end` wrote
  err : Option Raised := none            -- exception in flight while the `finally` block runs
  -- registers: locals of `_process_new_results` / `_update_running_trials`
  sd : List (Nat × St) := []             -- `trial_status_dict`
  allRes : List Res := []                -- `new_results`
  rest : List Res := []                  -- results not yet looked at
  cur : Res := default
  curSt : St := .inProgress
  curD : Decision := .continue
  done : List (Nat × St) := []           -- `done_trials`
  items : List (Nat × St) := []          -- rest of `trial_status_dict.items()`
  t : Nat := 0
  tSt : St := .inProgress
  tRid : Nat := 0
  -- registers: locals of `_schedule_new_tasks`
  k : Nat := 0                           -- iterations of `for _ in range(...)` still to do
  loc : Option (List Nat) := none        -- the REBOUND local `running_trials_ids`, if rebound (F15)
  sId : Nat := 0
  sCfg : Nat := 0
  sCkpt : Option Nat := none
  sRCfg : Option Nat := none
  dels : List Nat := []                  -- ids still to delete / stop
  -- ghost
  log : List Call := []
  bst : List (Nat × St) := []
  kst : List (Nat × KSt) := []
  deleted : List Nat := []
  removableSaid : List Nat := []
  visible : List Nat := []
deriving Repr, Inhabited

/-- Python `set.add` on a duplicate-free list. -/
def sadd (x : Nat) (l : List Nat) : List Nat := if x ∈ l then l else l ++ [x]

/-- `set(xs)`. -/
def dedup : List Nat → List Nat
  | [] => []
  | x :: xs => sadd x (dedup xs)

def hasKey {β} (k : Nat) (l : List (Nat × β)) : Bool := (alookup k l).isSome

/-! ### the `finally` block -/

def exitNow (s : LState) : LState × Call := ({ s with pc := .done }, .exit)

/-- first trial of `done_trials_statuses` with status failed (`_handle_failure`). -/
def firstFailed : List (Nat × St) → Option Nat
  | [] => none
  | (t, st) :: xs => if st = .failed then some t else firstFailed xs

/-- after `stop_all`: `mark_running_job_as_stopped`, then `_handle_failure` if too many failures. -/
def finMark (s : LState) : LState × Call :=
  let s1 := { s with status := s.status.markStopped }
  if s1.cfg.maxFailures < s1.status.numFailed then
    match firstFailed s1.doneAll with
    | some t => ({ s1 with pc := .hfOut, t := t }, .stdout t)
    | none => exitNow s1
  else exitNow s1

/-- `for trial_id in self.trial_ids: self.delete_checkpoint(trial_id)` of `stop_all`. -/
def finDelNext (s : LState) : LState × Call :=
  match s.dels with
  | [] => finMark s
  | t :: rest => ({ s with pc := .finDel, t := t, dels := rest }, .delete t)

def finDelAll (s : LState) : LState × Call :=
  if s.cfg.deleteCkpt then finDelNext { s with dels := List.range s.nStarted } else finMark s

/-- `for trial in trial_results: if trial.status == in_progress: self.stop_trial(trial.trial_id)`
of `stop_all`: the status of each trial is read when its turn comes. -/
def finStatusNext (s : LState) : LState × Call :=
  match s.dels with
  | [] => finDelAll s
  | t :: rest => ({ s with pc := .finStatus, t := t, dels := rest }, .status t)

/-- entering the `finally` block (`print_best_metric_found` prints only): callbacks' `on_tuning_end`. -/
def enterFin (s : LState) : LState × Call := ({ s with pc := .finTuningEnd }, .cb .tuningEnd)

/-- an exception raised inside the loop. -/
def raiseFin (s : LState) (e : Raised) : LState × Call := enterFin { s with err := some e }

/-- an exception raised inside the `finally` block replaces whatever was in flight. -/
def exitRaise (s : LState) : LState × Call := exitNow { s with err := some .env }

/-! ### loop head and stopping test -/

/-- the `while` condition. -/
def loopHead (s : LState) : LState × Call :=
  if !s.stopReached || (s.cfg.wait && !s.running.isEmpty) then
    ({ s with pc := .loopStart }, .cb .loopStart)
  else enterFin s

/-- `_stop_condition()` once the clock (if needed) has been read. -/
def finishStop (s : LState) (clock : Rat) : LState × Call :=
  let b := s.cfg.crit.eval s.status clock s.cfg.keyCost || decide (s.cfg.maxFailures < s.status.numFailed)
  loopHead { s with stopReached := b }

def evalStop (s : LState) : LState × Call :=
  if s.cfg.crit.maxWallclock.isSome then ({ s with pc := .clock }, .clock) else finishStop s 0

/-! ### end of an iteration -/

def toLoopEnd (s : LState) : LState × Call := ({ s with pc := .loopEnd }, .cb .loopEnd)

/-- `RemoveCheckpointsCallback.on_loop_end`: delete what the scheduler named. -/
def delNext (s : LState) : LState × Call :=
  match s.dels with
  | [] => evalStop s
  | t :: rest => ({ s with pc := .delRem, t := t, dels := rest }, .delete t)

/-! ### `_schedule_new_tasks` -/

/-- the set new trials are added to: the rebound local one, else the caller's. -/
def addRunning (s : LState) (t : Nat) : LState :=
  match s.loc with
  | some l => { s with loc := some (sadd t l) }
  | none => { s with running := sadd t s.running }

/-- next round of `for _ in range(self.n_workers - num_busy_workers)`. -/
def suggestNext (s : LState) : LState × Call :=
  match s.k with
  | 0 => toLoopEnd { s with loc := none }
  | _ + 1 => ({ s with pc := .suggest }, .suggest s.nStarted)

def threshold (c : Cfg) : Nat := if c.async then c.nWorkers else 1

def scheduleNew (s : LState) : LState × Call :=
  if s.cfg.swd then
    if threshold s.cfg ≤ s.running.length then ({ s with pc := .sleepSched }, .cb .sleep)
    else suggestNext { s with k := s.cfg.nWorkers - s.running.length, loc := none }
  else ({ s with pc := .busy }, .busy)

/-- after `backend.start_trial` has registered the new trial. -/
def started (s : LState) : LState × Call :=
  ({ s with pc := .addS, nStarted := s.nStarted + 1, configs := aset s.sId s.sCfg s.configs,
            bst := aset s.sId .inProgress s.bst, kst := aset s.sId .live s.kst }, .schedAdd s.sId)

/-- `running_trials_ids.add(trial_id)`; `tuning_status.update({trial_id: in_progress}, [])`. -/
def scheduled (s : LState) (t : Nat) : LState × Call :=
  let s1 := addRunning s t
  suggestNext { s1 with k := s1.k - 1, status := s1.status.update [(t, .inProgress)] [] }

/-! ### `_process_new_results`, second half -/

/-- after `_update_running_trials`: `trial_status_dict.update(done)`, `tuning_status.update`,
`done_trials_statuses.update`, `running_trials_ids.difference_update`, then the branch of `run`. -/
def afterUpdate (s : LState) : LState × Call :=
  let sd' := aupdate s.sd s.done
  let s1 := { s with
    status := s.status.update sd' (s.allRes.map fun r => (r.tid, r.m))
    doneAll := aupdate s.doneAll s.done
    running := s.running.filter (fun t => !hasKey t s.done) }
  if s1.exhausted || (s1.cfg.wait && s1.stopReached) then
    if !s1.running.isEmpty then ({ s1 with pc := .sleepWait }, .cb .sleep)
    else enterFin s1     -- `break`
  else scheduleNew s1

/-- the loop `for trial_id, (trial, status) in trial_status_dict.items()` from `items` on. -/
def secondLoop (s : LState) : List (Nat × St) → LState × Call
  | [] => afterUpdate s
  | (t, st) :: rest =>
    match st with
    | .completed =>
      let st' := if alookup t s.done = some St.paused then St.paused else St.completed
      match alookup t s.lastSeen with
      | none => ({ s with pc := .stdoutNM, t := t, items := rest }, .stdout t)
      | some rid =>
        if !hasKey t s.done then
          ({ s with pc := .completeS, t := t, tSt := st', tRid := rid, items := rest }, .schedComplete t rid)
        else if st' = .completed then
          ({ s with pc := .completeCb, t := t, tSt := st', tRid := rid, items := rest }, .cb (.complete t rid))
        else secondLoop { s with done := aset t st' s.done } rest
    | .failed => ({ s with pc := .errorS, t := t, tSt := .failed, items := rest }, .schedError t)
    | .stopped =>
      if t ∈ s.schedStopped then secondLoop s rest
      else ({ s with pc := .errorS, t := t, tSt := .stopped, items := rest }, .schedError t)
    | _ => secondLoop s rest

/-- the loop `for trial_id, result in new_results` from `rest` on. -/
def nextResult (s : LState) : List Res → LState × Call
  | [] => secondLoop { s with rest := [] } s.sd
  | r :: rest =>
    if hasKey r.tid s.done then nextResult s rest
    else
      match alookup r.tid s.sd with
      | none => raiseFin { s with rest := rest } .keyError
      | some st =>
        ({ s with pc := .decision, cur := r, curSt := st, rest := rest,
                  lastSeen := aset r.tid r.rid s.lastSeen }, .schedResult r.tid r.rid)

/-- the scheduler changed the result dict it was handed (e.g. `HyperbandScheduler` adds the total cost). -/
def Res.withMetrics (r : Res) (m : Metrics) : Res := { tid := r.tid, rid := r.rid, m := m }

def setMetrics (rid : Nat) (m : Metrics) (l : List Res) : List Res :=
  l.map (fun r => if r.rid = rid then r.withMetrics m else r)

/-! ### the machine -/

def stepCore (s : LState) (a : Ans) : LState × Call :=
  match s.pc with
  | .tuningStart => match a with
    | .ret => evalStop s
    | _ => raiseFin s .env
  | .clock => match a with
    | .clock t => finishStop s t
    | _ => raiseFin s .env
  | .loopStart => match a with
    | .ret => ({ s with pc := .fetch }, .fetch s.running)
    | _ => raiseFin s .env
  | .fetch => match a with
    | .poll sd res =>
      ({ s with pc := .cbFetch, sd := sd, allRes := res, rest := res, done := [],
                bst := aupdate s.bst sd }, .cb .fetch)
    | _ => raiseFin s .env
  | .cbFetch => match a with
    | .ret => if s.running.length ≤ s.cfg.nWorkers then nextResult s s.rest else raiseFin s .assertion
    | _ => raiseFin s .env
  | .decision => match a with
    | .decision d m =>
      let s1 := match m with
        | some m' => { s with cur := s.cur.withMetrics m', allRes := setMetrics s.cur.rid m' s.allRes }
        | none => s
      ({ s1 with pc := .cbResult, curD := d }, .cb (.result s1.cur.tid s1.cur.rid d s1.curSt))
    | _ => raiseFin s .env
  | .cbResult => match a with
    | .ret =>
      let s1 := if s.cfg.store then
          { s with rows := s.rows ++ [{ tid := s.cur.tid, rid := s.cur.rid, cfg := alookup s.cur.tid s.configs,
                                        decision := s.curD, status := s.curSt }] }
        else s
      match s1.curD with
      | .stop =>
        if s1.curSt ≠ .completed then ({ s1 with pc := .stopCmd }, .stop s1.cur.tid)
        else ({ s1 with pc := .removeS }, .schedRemove s1.cur.tid)
      | .pause => ({ s1 with pc := .pauseCmd }, .pause s1.cur.tid)
      | .continue => nextResult s1 s1.rest
    | _ => raiseFin s .env
  | .stopCmd => match a with
    | .ret =>
      let s1 := { s with curSt := .stopped, bst := aset s.cur.tid .stopped s.bst }
      if s1.cfg.deleteCkpt then ({ s1 with pc := .stopDel }, .delete s1.cur.tid)
      else ({ s1 with pc := .removeS }, .schedRemove s1.cur.tid)
    | _ => raiseFin s .env
  | .stopDel => match a with
    | .ret => ({ s with pc := .removeS, deleted := s.cur.tid :: s.deleted }, .schedRemove s.cur.tid)
    | _ => raiseFin s .env
  | .removeS => match a with
    | .ret =>
      nextResult { s with done := aset s.cur.tid s.curSt s.done, schedStopped := sadd s.cur.tid s.schedStopped,
                          kst := aset s.cur.tid .dead s.kst } s.rest
    | _ => raiseFin s .env
  | .pauseCmd => match a with
    | .ret => ({ s with pc := .removeP, bst := aset s.cur.tid .paused s.bst }, .schedRemove s.cur.tid)
    | _ => raiseFin s .env
  | .removeP => match a with
    | .ret => nextResult { s with done := aset s.cur.tid .paused s.done, kst := aset s.cur.tid .paused s.kst } s.rest
    | _ => raiseFin s .env
  | .stdoutNM => match a with
    | .ret => ({ s with pc := .stderrNM }, .stderr s.t)
    | _ => raiseFin s .env
  | .stderrNM => match a with
    | .ret => raiseFin s (.noMetrics s.t)
    | _ => raiseFin s .env
  | .completeS => match a with
    | .ret =>
      let s1 := { s with kst := aset s.t .dead s.kst }
      if s1.tSt = .completed then ({ s1 with pc := .completeCb }, .cb (.complete s1.t s1.tRid))
      else secondLoop { s1 with done := aset s1.t s1.tSt s1.done } s1.items
    | _ => raiseFin s .env
  | .completeCb => match a with
    | .ret => secondLoop { s with done := aset s.t s.tSt s.done } s.items
    | _ => raiseFin s .env
  | .errorS => match a with
    | .ret => secondLoop { s with done := aset s.t s.tSt s.done, kst := aset s.t .dead s.kst } s.items
    | _ => raiseFin s .env
  | .sleepWait => match a with
    | .ret => toLoopEnd s
    | _ => raiseFin s .env
  | .busy => match a with
    | .ids l =>
      if threshold s.cfg ≤ l.length then ({ s with pc := .sleepSched }, .cb .sleep)
      else
        suggestNext { s with k := s.cfg.nWorkers - l.length,
                             loc := if l.length < s.running.length then some (dedup l) else none }
    | _ => raiseFin s .env
  | .sleepSched => match a with
    | .ret => toLoopEnd s
    | _ => raiseFin s .env
  | .suggest => match a with
    | .sugg .none => toLoopEnd { s with exhausted := true, loc := none }   -- `StopIteration`
    | .sugg (.start cfg ckpt) =>
      ({ s with pc := .startCmd, sId := s.nStarted, sCfg := cfg, sCkpt := ckpt }, .start s.nStarted cfg ckpt)
    | .sugg (.resume id cfg) =>
      ({ s with pc := .resumeCmd, sId := id, sRCfg := cfg }, .resume id cfg)
    | _ => raiseFin s .env
  | .startCmd => match a with
    | .ret =>
      match s.sCkpt with
      | some src => ({ s with pc := .copyCmd }, .copy src s.sId)
      | none => started s
    | _ => raiseFin s .env
  | .copyCmd => match a with
    | .ret => started s
    | _ => raiseFin s .env
  | .addS => match a with
    | .ret => ({ s with pc := .startCb }, .cb (.start s.sId))
    | _ => raiseFin s .env
  | .startCb => match a with
    | .ret => scheduled s s.sId
    | _ => raiseFin s .env
  | .resumeCmd => match a with
    | .ret =>
      ({ s with pc := .resumeCb,
                configs := (match s.sRCfg with | some c => aset s.sId c s.configs | none => s.configs),
                bst := aset s.sId .inProgress s.bst, kst := aset s.sId .live s.kst }, .cb (.resume s.sId))
    | _ => raiseFin s .env
  | .resumeCb => match a with
    | .ret => scheduled s s.sId
    | _ => raiseFin s .env
  | .loopEnd => match a with
    | .ret => if s.cfg.ckptCb then ({ s with pc := .removable }, .removable) else evalStop s
    | _ => raiseFin s .env
  | .removable => match a with
    | .ids l => delNext { s with dels := l, removableSaid := l ++ s.removableSaid }
    | _ => raiseFin s .env
  | .delRem => match a with
    | .ret => delNext { s with deleted := s.t :: s.deleted }
    | _ => raiseFin s .env
  -- the `finally` block
  | .finTuningEnd => match a with
    | .ret => ({ s with pc := .finAll, stored := if s.cfg.store then some s.rows else none }, .allResults)
    | _ => exitRaise s
  | .finAll => match a with
    | .ids l => finStatusNext { s with dels := l, visible := l }
    | _ => exitRaise s
  | .finStatus => match a with
    | .status st =>
      let s1 := { s with bst := aset s.t st s.bst }
      if st = .inProgress then ({ s1 with pc := .finStop }, .stop s1.t) else finStatusNext s1
    | _ => exitRaise s
  | .finStop => match a with
    | .ret =>
      let s1 := { s with bst := aset s.t .stopped s.bst }
      if s1.cfg.deleteCkpt then ({ s1 with pc := .finStopDel }, .delete s1.t) else finStatusNext s1
    | _ => exitRaise s
  | .finStopDel => match a with
    | .ret => finStatusNext { s with deleted := s.t :: s.deleted }
    | _ => exitRaise s
  | .finDel => match a with
    | .ret => finDelNext { s with deleted := s.t :: s.deleted }
    | _ => exitRaise s
  | .hfOut => match a with
    | .ret => ({ s with pc := .hfErr }, .stderr s.t)
    | _ => exitRaise s
  | .hfErr => match a with
    | .ret => exitNow { s with err := some (.failed s.t) }
    | _ => exitRaise s
  | .done => (s, .exit)

/-- one step: the environment answers the pending call, the loop runs up to its next call
(which is appended to the ghost log). -/
def step (s : LState) (a : Ans) : LState × Call :=
  let r := stepCore s a
  ({ r.1 with log := r.1.log ++ [r.2] }, r.2)

/-- `Tuner.run()` up to its first call, `callback.on_tuning_start`. -/
def init (c : Cfg) : LState × Call :=
  ({ cfg := c, pc := .tuningStart, log := [.cb .tuningStart] }, .cb .tuningStart)

/-- the state after a sequence of answers. -/
def run (s : LState) : List Ans → LState
  | [] => s
  | a :: as => run (step s a).1 as

end SyneTune.Tuner
