import SyneTune.Base.Basic
/-
Model of `syne_tune/config_space.py` (C07): the domain kinds, `cast`, `is_valid`, the samplers
as functions of the draws of the `random_state` (tape), `to_dict` / `from_dict`.

Numbers.  Values of the code are exact rationals here.  `exp` / `log` have no exact executable
semantics: every use of them goes through an abstract `Scaling` (a pair of functions
`toInt`, `fromInt` on `Rat`) supplied by the environment `Env`; theorems state their
hypotheses on it explicitly (monotone, inverse on the range), the driver instantiates it with
`Float.log` / `Float.exp`.  The linear scaling is the identity and is exact.
Everything lives in namespace `SyneTune.Dom`.
-/
namespace SyneTune.Dom

inductive Err
  | assertion | keyError | typeError | notImplemented | valueError | attributeError | unsupported
deriving DecidableEq, Repr, Inhabited

/-- a hyperparameter value: Python `int`, `float` (incl. `np.float64`), `str` -/
inductive Val
  | int (i : Int)
  | flt (r : Rat)
  | str (s : String)
deriving DecidableEq, Repr, Inhabited

inductive VType | int | flt | str
deriving DecidableEq, Repr, Inhabited

def Val.vtype : Val → VType
  | .int _ => .int
  | .flt _ => .flt
  | .str _ => .str

/-- numeric value of an `int` / `float` -/
def Val.num? : Val → Option Rat
  | .int i => some (i : Rat)
  | .flt r => some r
  | .str _ => none

/-- Python `==` between values (`1 == 1.0` is `True`) -/
def Val.pyEq (a b : Val) : Bool :=
  match a.num?, b.num? with
  | some x, some y => decide (x = y)
  | none, none => decide (a = b)
  | _, _ => false

/-- Python `v in l` -/
def pyIn (v : Val) (l : List Val) : Bool := l.any (fun c => c.pyEq v)

/-- Python `l.index(v)` (`none` = `ValueError`) -/
def pyIndex (v : Val) : List Val → Option Nat
  | [] => none
  | c :: cs => if c.pyEq v then some 0 else (pyIndex v cs).map (· + 1)

/-- `np.clip(x, lo, hi) = minimum(maximum(x, lo), hi)` -/
def clipR (x lo hi : Rat) : Rat :=
  let y := if x < lo then lo else x
  if hi < y then hi else y

def clipI (x lo hi : Int) : Int :=
  let y := if x < lo then lo else x
  if hi < y then hi else y

/-! ### scalings -/

structure Scaling where
  toInt : Rat → Rat
  fromInt : Rat → Rat

inductive ScaleKind | lin | log | rlog
deriving DecidableEq, Repr, Inhabited

/-- the transcendental functions the code uses: `log`/`exp`, the encoder's
`-log(1-x)` / `1-exp(-x)` and the sampler's `-log1p(-x)` / `-expm1(-x)` (the same function
mathematically, different floating-point code). -/
structure Env where
  log : Scaling
  rlog : Scaling
  rlogS : Scaling

/-- `Scaling.to_internal` incl. the assertions of `LogScaling` / `ReverseLogScaling` -/
def Env.toInternal (e : Env) (k : ScaleKind) (v : Rat) : Except Err Rat :=
  match k with
  | .lin => .ok v
  | .log => if 0 < v then .ok (e.log.toInt v) else .error .assertion
  | .rlog => if 0 ≤ v ∧ v < 1 then .ok (e.rlog.toInt v) else .error .assertion

def Env.fromInternal (e : Env) (k : ScaleKind) (t : Rat) : Rat :=
  match k with
  | .lin => t
  | .log => e.log.fromInt t
  | .rlog => e.rlog.fromInt t

/-- numeric literals of the code, passed in by the harness as the exact value of their double -/
structure Consts where
  eps : Rat    -- hp_ranges_impl.EPS = 1e-8
  c499 : Rat   -- 0.499 in `_get_active_bounds`
  c001 : Rat   -- 0.01 in `Categorical.cast`

/-- one draw of the `random_state`: a unit draw `u` (`uniform(a, b) = a + (b - a) u`) or the
integer returned by `randint` / `choice` -/
inductive Draw
  | unit (u : Rat)
  | idx (k : Int)
deriving Repr, Inhabited

/-- `random_state.uniform(a, b)` as numpy computes it -/
def lerp (a b u : Rat) : Rat := a + (b - a) * u

/-! ### `Float` -/

structure FloatDom where
  lower : Rat
  upper : Rat
  scale : ScaleKind
  q : Option Rat := none      -- `Quantized` wrapper
deriving Repr, Inhabited

/-- `Quantized.sample`: `np.round(np.divide(v, q)) * q` -/
def quantizeR (q v : Rat) : Rat := ((roundHalfEven (v / q) : Int) : Rat) * q

/-- the un-quantised sampler of a `Float` domain (`_Uniform`, `_LogUniform`, `_ReverseLogUniform`) -/
def FloatDom.sampleRaw (env : Env) (d : FloatDom) (u : Rat) : Except Err Rat :=
  match d.scale with
  | .lin => .ok (lerp d.lower d.upper u)
  | .log =>
    if 0 < d.lower ∧ 0 < d.upper then
      .ok (env.log.fromInt (lerp (env.log.toInt d.lower) (env.log.toInt d.upper) u))
    else .error .assertion
  | .rlog =>
    if 0 ≤ d.lower ∧ d.lower ≤ d.upper ∧ d.upper < 1 then
      .ok (env.rlogS.fromInt (lerp (env.rlogS.toInt d.lower) (env.rlogS.toInt d.upper) u))
    else .error .assertion

def FloatDom.applyQ (d : FloatDom) (v : Rat) : Rat :=
  match d.q with
  | none => v
  | some q => quantizeR q v

/-- `Float.sample(size=1)`; the final `cast` is `float(.)` -/
def FloatDom.sample (env : Env) (d : FloatDom) (dr : Draw) : Except Err Val :=
  match dr with
  | .unit u =>
    match d.sampleRaw env u with
    | .ok v => .ok (.flt (d.applyQ v))
    | .error e => .error e
  | .idx _ => .error .unsupported

def FloatDom.cast (_d : FloatDom) (v : Val) : Except Err Val :=
  match v.num? with
  | some x => .ok (.flt x)
  | none => .error .unsupported

def FloatDom.isValid (d : FloatDom) (v : Val) : Except Err Bool :=
  match v.num? with
  | some x => .ok (decide (d.lower ≤ x ∧ x ≤ d.upper))
  | none => .error .typeError

/-! ### `Integer` -/

structure IntDom where
  lower : Int
  upper : Int
  scale : ScaleKind            -- `.lin` (`_Uniform`) or `.log` (`_LogUniform`)
  q : Option Int := none
deriving Repr, Inhabited

/-- `Quantized.sample` followed by `Integer.cast`: `int(round(np.round(k / q) * q))` -/
def quantizeI (q k : Int) : Int := roundHalfEven ((k : Rat) / (q : Rat)) * q

/-- the un-quantised sampler: `randint(lower, upper + 1)` returns the tape integer;
`_LogUniform`: `np.round(np.exp(uniform(log lower, log upper))).astype(int)` -/
def IntDom.sampleRaw (env : Env) (d : IntDom) (dr : Draw) : Except Err Int :=
  match d.scale, dr with
  | .lin, .idx k => .ok k
  | .log, .unit u =>
    if 0 < d.lower ∧ 0 < d.upper then
      .ok (roundHalfEven (env.log.fromInt (lerp (env.log.toInt d.lower) (env.log.toInt d.upper) u)))
    else .error .assertion
  | _, _ => .error .unsupported

def IntDom.applyQ (d : IntDom) (k : Int) : Int :=
  match d.q with
  | none => k
  | some q => quantizeI q k

def IntDom.sample (env : Env) (d : IntDom) (dr : Draw) : Except Err Val :=
  match d.sampleRaw env dr with
  | .ok k => .ok (.int (d.applyQ k))
  | .error e => .error e

/-- `Integer.cast`: `int(round(value))` -/
def IntDom.cast (_d : IntDom) (v : Val) : Except Err Val :=
  match v.num? with
  | some x => .ok (.int (roundHalfEven x))
  | none => .error .unsupported

def IntDom.isValid (d : IntDom) (v : Val) : Except Err Bool :=
  match v.num? with
  | some x => .ok (decide ((d.lower : Rat) ≤ x ∧ x ≤ (d.upper : Rat)))
  | none => .error .typeError

/-! ### `Categorical`, `Ordinal` -/

structure CatDom where
  cats : List Val
  ordinal : Bool := false
deriving Repr, Inhabited

def vtypeOf (cats : List Val) : VType :=
  match cats with
  | [] => .str
  | c :: _ => c.vtype

/-- `Categorical.__init__`: non-empty, all entries of the type of the first -/
def catsOk (cats : List Val) : Bool :=
  !cats.isEmpty && cats.all (fun c => c.vtype == vtypeOf cats)

/-- `value_type(value)` for the conversions the harness uses (numeric ↔ numeric, same type) -/
def convertTo (t : VType) (v : Val) : Except Err Val :=
  match t, v with
  | .int, .int i => .ok (.int i)
  | .int, .flt r => .ok (.int (if 0 ≤ r then r.floor else -((-r).floor)))   -- `int()` truncates
  | .flt, .int i => .ok (.flt (i : Rat))
  | .flt, .flt r => .ok (.flt r)
  | .str, .str s => .ok (.str s)
  | _, _ => .error .unsupported

/-- index of the first minimum (`np.argmin`) -/
def argminAux : List Rat → Nat → Nat → Rat → Nat
  | [], _, bi, _ => bi
  | x :: xs, i, bi, bv => if x < bv then argminAux xs (i + 1) i x else argminAux xs (i + 1) bi bv

def argminFirst : List Rat → Nat
  | [] => 0
  | x :: xs => argminAux xs 1 0 x

/-- nearest-neighbour branch of `Categorical.cast` for float values not listed -/
def CatDom.castNearest (c : Consts) (d : CatDom) (x : Rat) : Except Err Val :=
  let nums := d.cats.map (fun v => v.num?.getD 0)
  let dist := nums.map (fun y => absRat (y - x))
  let i := argminFirst dist
  match dist[i]?, nums[i]?, d.cats[i]? with
  | some di, some ci, some cv => if di < c.c001 * absRat ci then .ok cv else .error .assertion
  | _, _, _ => .error .assertion

def CatDom.cast (c : Consts) (d : CatDom) (v : Val) : Except Err Val :=
  match convertTo (vtypeOf d.cats) v with
  | .error e => .error e
  | .ok v' =>
    if pyIn v' d.cats then .ok v'
    else match v' with
      | .flt x => d.castNearest c x
      | _ => .error .assertion

def CatDom.sample (c : Consts) (d : CatDom) (dr : Draw) : Except Err Val :=
  match dr with
  | .idx k =>
    match d.cats[k.toNat]? with
    | some v => d.cast c v
    | none => .error .unsupported
  | .unit _ => .error .unsupported

def CatDom.isValid (d : CatDom) (v : Val) : Except Err Bool := .ok (pyIn v d.cats)

/-! ### `OrdinalNearestNeighbor` -/

structure NNDom where
  cats : List Val
  log : Bool
deriving Repr, Inhabited

def increasing : List Rat → Bool
  | [] => true
  | [_] => true
  | a :: b :: rest => decide (a < b) && increasing (b :: rest)

def NNDom.nums (d : NNDom) : List Rat := d.cats.map (fun v => v.num?.getD 0)

/-- `OrdinalNearestNeighbor._initialize` assertions -/
def NNDom.ok (d : NNDom) : Bool :=
  catsOk d.cats && (vtypeOf d.cats == .int || vtypeOf d.cats == .flt) && increasing d.nums &&
  (!d.log || decide (0 < d.nums.headD 0))

/-- `_categories_int` -/
def NNDom.catsInt (env : Env) (d : NNDom) : List Rat :=
  if d.log then d.nums.map env.log.toInt else d.nums

def diffs : List Rat → List Rat
  | [] => []
  | [_] => []
  | a :: b :: rest => (b - a) :: diffs (b :: rest)

/-- `0.5 * np.mean(c[1:] - c[:-1])` -/
def avgDist (xs : List Rat) : Rat := (1 / 2) * ((diffs xs).sum / ((xs.length - 1 : Nat) : Rat))

def NNDom.lowerInt (env : Env) (d : NNDom) : Option Rat :=
  let ci := d.catsInt env
  if 1 < d.cats.length then some (ci.headD 0 - avgDist ci) else none

def NNDom.upperInt (env : Env) (d : NNDom) : Option Rat :=
  let ci := d.catsInt env
  if 1 < d.cats.length then some (ci.getLastD 0 + avgDist ci) else none

/-- `cast_int`: nearest category in internal space, first one on ties -/
def NNDom.castInt (env : Env) (d : NNDom) (w : Rat) : Except Err Val :=
  let i := if 1 < d.cats.length then argminFirst ((d.catsInt env).map (fun y => absRat (y - w))) else 0
  match d.cats[i]? with
  | some v => .ok v
  | none => .error .assertion

def NNDom.toInternal (env : Env) (d : NNDom) (x : Rat) : Rat := if d.log then env.log.toInt x else x

def NNDom.cast (env : Env) (d : NNDom) (v : Val) : Except Err Val :=
  match v.num? with
  | some x => d.castInt env (d.toInternal env x)
  | none => .error .unsupported

/-- `sample`: `uniform(_lower_int, _upper_int)`; with one category both are `None` and numpy
raises `TypeError` -/
def NNDom.sample (env : Env) (d : NNDom) (dr : Draw) : Except Err Val :=
  match dr with
  | .unit u =>
    match d.lowerInt env, d.upperInt env with
    | some a, some b => d.castInt env (lerp a b u)
    | _, _ => .error .typeError
  | .idx _ => .error .unsupported

def NNDom.isValid (d : NNDom) (v : Val) : Except Err Bool := .ok (pyIn v d.cats)

/-! ### `FiniteRange` -/

structure FinDom where
  lower : Rat
  upper : Rat
  size : Nat
  log : Bool
  castInt : Bool
deriving Repr, Inhabited

def FinDom.ok (d : FinDom) : Bool :=
  decide (d.lower ≤ d.upper) && decide (1 ≤ d.size) && (!d.log || decide (0 < d.lower))

def FinDom.lowInt (env : Env) (d : FinDom) : Rat := if d.log then env.log.toInt d.lower else d.lower
def FinDom.upInt (env : Env) (d : FinDom) : Rat := if d.log then env.log.toInt d.upper else d.upper

def FinDom.step (env : Env) (d : FinDom) : Rat :=
  if 1 < d.size then (d.upInt env - d.lowInt env) / ((d.size - 1 : Nat) : Rat) else 0

/-- pre-rounding value of `_map_from_int` -/
def FinDom.valuePre (env : Env) (d : FinDom) (x : Nat) : Rat :=
  let y := (x : Rat) * d.step env + d.lowInt env
  clipR (if d.log then env.log.fromInt y else y) d.lower d.upper

/-- `_map_from_int` -/
def FinDom.valueAt (env : Env) (d : FinDom) (x : Nat) : Val :=
  if d.castInt then .int (roundHalfEven (d.valuePre env x)) else .flt (d.valuePre env x)

def FinDom.values (env : Env) (d : FinDom) : List Val := (List.range d.size).map (d.valueAt env)

/-- pre-rounding quotient of `_map_to_int` (for `step ≠ 0`) -/
def FinDom.indexPre (env : Env) (d : FinDom) (value : Rat) : Rat :=
  let v := clipR value d.lower d.upper
  ((if d.log then env.log.toInt v else v) - d.lowInt env) / d.step env

/-- `_map_to_int` -/
def FinDom.mapToInt (env : Env) (d : FinDom) (value : Rat) : Nat :=
  if d.step env = 0 then 0
  else (clipI (roundHalfEven (d.indexPre env value)) 0 ((d.size : Int) - 1)).toNat

def FinDom.cast (env : Env) (d : FinDom) (v : Val) : Except Err Val :=
  match v.num? with
  | some x =>
    match (d.values env)[d.mapToInt env x]? with
    | some r => .ok r
    | none => .error .assertion
  | none => .error .unsupported

/-- `sample`: index drawn by the internal `randint(0, size - 1)` -/
def FinDom.sample (env : Env) (d : FinDom) (dr : Draw) : Except Err Val :=
  match dr with
  | .idx k =>
    match (d.values env)[k.toNat]? with
    | some r => .ok r
    | none => .error .unsupported
  | .unit _ => .error .unsupported

/-! ### the sum of all kinds -/

inductive Domain
  | flt (d : FloatDom)
  | int (d : IntDom)
  | cat (d : CatDom)
  | nn (d : NNDom)
  | fin (d : FinDom)
deriving Repr, Inhabited

/-- what the public constructors accept (`Float.__init__`, `loguniform`, `reverseloguniform`,
`Integer.__init__`, `Categorical.__init__`, `OrdinalNearestNeighbor._initialize`,
`FiniteRange.__init__`) -/
def Domain.ok : Domain → Bool
  | .flt d => decide (d.lower ≤ d.upper) &&
      (match d.scale with
       | .lin => true
       | .log => decide (0 < d.lower)
       | .rlog => decide (0 ≤ d.lower ∧ d.upper < 1))
  | .int d => decide (d.lower ≤ d.upper) &&
      (match d.scale with
       | .lin => true
       | .log => decide (0 < d.lower)
       | .rlog => false)
  | .cat d => catsOk d.cats
  | .nn d => d.ok
  | .fin d => d.ok

def Domain.vtype : Domain → VType
  | .flt _ => .flt
  | .int _ => .int
  | .cat d => vtypeOf d.cats
  | .nn d => vtypeOf d.cats
  | .fin d => if d.castInt then .int else .flt

def Domain.sample (env : Env) (c : Consts) : Domain → Draw → Except Err Val
  | .flt d, dr => d.sample env dr
  | .int d, dr => d.sample env dr
  | .cat d, dr => d.sample c dr
  | .nn d, dr => d.sample env dr
  | .fin d, dr => d.sample env dr

def Domain.cast (env : Env) (c : Consts) : Domain → Val → Except Err Val
  | .flt d, v => d.cast v
  | .int d, v => d.cast v
  | .cat d, v => d.cast c v
  | .nn d, v => d.cast env v
  | .fin d, v => d.cast env v

/-- `is_valid`; `FiniteRange` does not implement it (`Domain.is_valid` raises) -/
def Domain.isValid : Domain → Val → Except Err Bool
  | .flt d, v => d.isValid v
  | .int d, v => d.isValid v
  | .cat d, v => d.isValid v
  | .nn d, v => d.isValid v
  | .fin _, _ => .error .notImplemented

/-- membership as the property reads it: right type, inside the bounds / among the listed values -/
def Domain.member (env : Env) : Domain → Val → Bool
  | .flt d, .flt x => decide (d.lower ≤ x ∧ x ≤ d.upper)
  | .int d, .int k => decide (d.lower ≤ k ∧ k ≤ d.upper)
  | .cat d, v => v.vtype == vtypeOf d.cats && pyIn v d.cats
  | .nn d, v => v.vtype == vtypeOf d.cats && pyIn v d.cats
  | .fin d, v => (d.values env).contains v
  | _, _ => false

def isQuantised : Domain → Bool
  | .flt d => d.q.isSome
  | .int d => d.q.isSome
  | _ => false

/-- `sample(size = n)` for `n > 1`: a list, every element cast to the domain type (also through
`Quantized`: `[domain.cast(x) for x in quantized]`) -/
def Domain.sampleList (env : Env) (c : Consts) (d : Domain) (drs : List Draw) : Except Err (List Val) :=
  drs.mapM (d.sample env c)

def Domain.sampleN (env : Env) (c : Consts) (d : Domain) (drs : List Draw) : Except Err (List Val) :=
  match drs with
  | [dr] => (d.sample env c dr).map (fun v => [v])
  | _ => d.sampleList env c drs

/-! ### `to_dict` / `from_dict` (`config_space_to_json_dict`, `config_space_from_json_dict`) -/

inductive JKw
  | bounds (lower upper : Rat)
  | ibounds (lower upper : Int)
  | cats (cats : List Val)
  | nn (cats : List Val) (log : Bool)
  | fin (lower upper : Rat) (size : Nat) (log castInt : Bool)
deriving Repr, Inhabited

/-- the JSON form of one domain: `domain_cls`, `domain_kwargs`, `sampler_cls` (`str(sampler)`) -/
structure JDom where
  cls : String
  kw : JKw
  sampler : Option String
deriving Repr, Inhabited

/-- `str(sampler)`: `Uniform.__str__` / `LogUniform.__str__` / `_ReverseLogUniform.__str__` -/
def samplerStr : ScaleKind → String
  | .lin => "Uniform"
  | .log => "LogUniform"
  | .rlog => "ReverseLogUniform"

/-- `to_dict` followed by `json.dumps`: the `sampler_kwargs` of a `Quantized` sampler hold the
wrapped sampler object, which `json` rejects with `TypeError` -/
def toDict : Domain → Except Err JDom
  | .flt d =>
    if d.q.isSome then .error .typeError
    else .ok ⟨"Float", .bounds d.lower d.upper, some (samplerStr d.scale)⟩
  | .int d =>
    if d.q.isSome then .error .typeError
    else .ok ⟨"Integer", .ibounds d.lower d.upper, some (samplerStr d.scale)⟩
  | .cat d => .ok ⟨if d.ordinal then "Ordinal" else "Categorical", .cats d.cats, some "Uniform"⟩
  | .nn d => .ok ⟨"OrdinalNearestNeighbor", .nn d.cats d.log, none⟩
  | .fin d => .ok ⟨"FiniteRange", .fin d.lower d.upper d.size d.log d.castInt, none⟩

/-- `getattr(domain_cls, "_" + sampler_cls)` -/
def samplerOf (s : String) : Except Err ScaleKind :=
  if s = "Uniform" then .ok .lin else if s = "LogUniform" then .ok .log
  else if s = "ReverseLogUniform" then .ok .rlog else .error .attributeError

/-- `from_dict`: the constructor of the class (with its assertions), then `set_sampler` -/
def fromDict (j : JDom) : Except Err Domain :=
  match j.kw with
  | .bounds lo hi =>
    if j.cls = "Float" then
      if lo ≤ hi then
        match j.sampler with
        | some s => match samplerOf s with
          | .ok k => .ok (.flt ⟨lo, hi, k, none⟩)
          | .error e => .error e
        | none => .ok (.flt ⟨lo, hi, .lin, none⟩)
      else .error .assertion
    else .error .typeError
  | .ibounds lo hi =>
    if j.cls = "Integer" then
      if lo ≤ hi then
        match j.sampler with
        | some s => match samplerOf s with
          | .ok .rlog => .error .attributeError      -- `Integer` has no `_ReverseLogUniform`
          | .ok k => .ok (.int ⟨lo, hi, k, none⟩)
          | .error e => .error e
        | none => .ok (.int ⟨lo, hi, .lin, none⟩)
      else .error .assertion
    else .error .typeError
  | .cats cs =>
    if catsOk cs then
      if j.cls = "Categorical" then .ok (.cat ⟨cs, false⟩)
      else if j.cls = "Ordinal" then .ok (.cat ⟨cs, true⟩)
      else .error .typeError
    else .error .assertion
  | .nn cs lg =>
    if j.cls = "OrdinalNearestNeighbor" then
      if (NNDom.mk cs lg).ok then .ok (.nn ⟨cs, lg⟩) else .error .assertion
    else .error .typeError
  | .fin lo hi sz lg ci =>
    if j.cls = "FiniteRange" then
      if (FinDom.mk lo hi sz lg ci).ok then .ok (.fin ⟨lo, hi, sz, lg, ci⟩) else .error .assertion
    else .error .typeError

/-- write to JSON and read back -/
def jsonRoundTrip (d : Domain) : Except Err Domain :=
  match toDict d with
  | .ok j => fromDict j
  | .error e => .error e

end SyneTune.Dom
