import SyneTune.Base.Basic
/-
Model of the decision logic of `syne_tune/optimizer/schedulers/pbt.py`
(`PopulationBasedTraining`): `on_trial_add`, `on_trial_result`, `_get_trial_id_to_continue`,
`_quantiles`, `_save_trial_state`, `_suggest`, and the inherited `on_trial_error`,
`on_trial_remove`, `on_trial_complete` (none of which touches PBT's own state).

What is modelled
* `_trial_state` — a Python `dict` — as an association list in insertion order, one record per
  trial: `last_score`, `last_perturbation_time`, `stopped`.
* `_trial_decisions_stack` — a `deque` used with `append` / `pop`, i.e. a LIFO stack — as the list
  of the source trial ids, newest entry first.
* parameters `max_t`, `perturbation_interval`, `quantile_fraction`, `mode`.

What is NOT modelled (inputs of the model or outside it)
* `_explore`: the perturbed configuration stored beside the source id in the stack is not
  modelled; nor are the configurations the random searcher proposes when the stack is empty.
  The model answers a `suggest` with "fresh configuration" or "clone from trial `src`" only.
* `random_state.choice(upper_quantile)` in `_get_trial_id_to_continue` is an INPUT (`pick`): the
  model checks that the pick is a member of the upper quantile it computes itself, that it differs
  from the reporting trial (the code's `assert`), and that a pick is there when one is needed.
* `math.ceil(len(trials) * quantile_fraction)` is a floating-point product.  The model computes
  the exact ceiling.  Only when the exact product lies just above a non-zero integer (within the
  round-off allowance `tol` of DESIGN §2.1) may the float product round down onto that integer; then,
  and only then, the model adopts the implementation's value `khint` if it is `ceiling - 1` (a
  FREE decision).
* `_elapsed_time()`, `_checkpointing_history`, `_num_perturbations`, logging.
* the searcher (`on_trial_error` → `searcher.evaluation_failed`, `on_trial_complete` →
  `searcher.on_trial_result(update=True)`; both are no-ops on PBT's own state).

Numbers: metric values, costs (`result[resource_attr]`), `max_t`, `perturbation_interval` and
`quantile_fraction` are rationals; the harness sends the exact value of every Python float.
The score is `_metric_op * metric` with `_metric_op = 1.0` (max) or `-1.0` (min): exact.
-/
namespace SyneTune.PBT
open SyneTune

/-- constructor arguments that enter the decisions -/
structure Params where
  maxT : Rat
  interval : Rat
  frac : Rat
  mode : Mode
deriving DecidableEq, Repr, Inhabited

/-- What the constructor checks about `quantile_fraction`: `_CONSTRAINTS["quantile_fraction"] =
Float(0.0, 0.5)`, and `Float.assert_valid` tests `(not self.lower) or value >= self.lower` — the
lower bound `0.0` is falsy, so only `value <= 0.5` is enforced.  Negative fractions are accepted. -/
def Params.accepted (p : Params) : Bool := decide (p.frac ≤ 1/2)

/-- the documented range of `quantile_fraction` ("Needs to be between 0 and 0.5") -/
def Params.documented (p : Params) : Prop := 0 ≤ p.frac ∧ p.frac ≤ 1/2

instance (p : Params) : Decidable p.documented := by unfold Params.documented; infer_instance

/-- `PBTTrialState` (without `trial`, `last_checkpoint`, `last_result`, `last_train_time`, which no
decision reads) -/
structure TState where
  lastScore : Option Rat := none
  lastPert : Rat := 0
  stopped : Bool := false
deriving DecidableEq, Repr, Inhabited

structure State where
  /-- `_trial_state`, insertion order -/
  trials : List (Nat × TState) := []
  /-- `_trial_decisions_stack`, newest first (source trial ids only) -/
  stack : List Nat := []
deriving DecidableEq, Repr, Inhabited

def State.init : State := {}

/-- `_metric_op * value` -/
def signed (m : Mode) (v : Rat) : Rat :=
  match m with
  | .max => v
  | .min => -v

/-! ### `_quantiles` -/

/-- the loop `for trial, state in self._trial_state.items(): if not state.stopped and
state.last_score is not None: trials.append(trial)`, keeping the score beside the id -/
def cands (tr : List (Nat × TState)) : List (Nat × Rat) :=
  tr.filterMap fun e => if e.2.stopped then none else e.2.lastScore.map fun sc => (e.1, sc)

/-- insertion before the first element whose score is not smaller: with `foldr` this is a
stable ascending sort, as Python's `list.sort(key=...)` -/
def insScore (x : Nat × Rat) : List (Nat × Rat) → List (Nat × Rat)
  | [] => [x]
  | y :: ys => if x.2 ≤ y.2 then x :: y :: ys else y :: insScore x ys

/-- `trials.sort(key=lambda t: self._trial_state[t].last_score)` -/
def sortScore (l : List (Nat × Rat)) : List (Nat × Rat) := l.foldr insScore []

/-- Python `l[:k]` for an integer `k` of either sign -/
def sliceTo {α} (l : List α) (k : Int) : List α :=
  if 0 ≤ k then l.take k.toNat else l.take (l.length - k.natAbs)

/-- Python `l[-k:]` for an integer `k` of either sign.  `l[-0:]` is `l[0:]`, the whole list. -/
def sliceLast {α} (l : List α) (k : Int) : List α :=
  if 0 < k then l.drop (l.length - k.toNat) else l.drop k.natAbs

/-- `math.ceil` on an exact rational -/
def ceilInt (x : Rat) : Int := -((-x).floor)

/-- Is `math.ceil(x)` of the float product FREE?  Only if the exact product lies above a non-zero
integer by no more than the round-off allowance: then the double may have been rounded onto that
integer, and its ceiling is one less than the exact ceiling. -/
def ceilFree (x : Rat) : Bool :=
  decide (x ≠ (x.floor : Rat)) && decide (x.floor ≠ 0) && decide (x - (x.floor : Rat) ≤ tol x x)

/-- `num_trials_in_quantile`:
```
num_trials_in_quantile = int(math.ceil(len(trials) * self._quantile_fraction))
if num_trials_in_quantile > len(trials) / 2:
    num_trials_in_quantile = int(math.floor(len(trials) / 2))
``` -/
def numInQuantile (frac : Rat) (n : Nat) (khint : Option Int) : Int :=
  let x := (n : Rat) * frac
  let k0 := ceilInt x
  let k := if ceilFree x = true ∧ khint = some (k0 - 1) then k0 - 1 else k0
  if (n : Rat) / 2 < (k : Rat) then ((n / 2 : Nat) : Int) else k

/-- the non-stopped trials that have a score, ascending by score (stable) -/
def sortedIds (s : State) : List Nat := (sortScore (cands s.trials)).map (·.1)

/-- `_quantiles()`: `(lower_quantile, upper_quantile)` -/
def quantiles (p : Params) (s : State) (khint : Option Int) : List Nat × List Nat :=
  let ids := sortedIds s
  if ids.length ≤ 1 then ([], [])
  else
    let k := numInQuantile p.frac ids.length khint
    (sliceTo ids k, sliceLast ids k)

/-! ### operations -/

inductive Err
  | keyError       -- `self._trial_state[trial_id]` for a trial never added
  | pickMissing    -- model contract: the trial is in the lower quantile and no pick was supplied
  | pickNotUpper   -- model contract: the pick is not a member of the upper quantile
  | selfPick       -- `assert trial_id != trial_id_to_clone`
deriving DecidableEq, Repr

inductive Out
  | done
  /-- answer of `on_trial_result`; `q` = what `_quantiles()` returned when it was called -/
  | decision (d : Decision) (q : Option (List Nat × List Nat))
  /-- `suggest` with an empty stack: `FIFOScheduler._suggest` (new random configuration) -/
  | fresh
  /-- `suggest` popped `(src, config)`: `start_suggestion(config, checkpoint_trial_id=src)` -/
  | clone (src : Nat)
  | err (e : Err)
deriving DecidableEq, Repr

inductive Op
  | add (tid : Nat)
  | result (tid : Nat) (cost metric : Rat) (pick : Option Nat) (khint : Option Int)
  | suggest
  | error (tid : Nat)
  | remove (tid : Nat)
  | complete (tid : Nat)
deriving DecidableEq, Repr

/-- `on_trial_add`: `self._trial_state[trial.trial_id] = PBTTrialState(trial=trial)` (a dict
assignment: an existing key keeps its position and gets a fresh record) -/
def onAdd (s : State) (tid : Nat) : State := { s with trials := aset tid {} s.trials }

/-- the state after `_save_trial_state(state, cost, result)` and
`state.last_perturbation_time = cost` -/
def saved (p : Params) (s : State) (tid : Nat) (st : TState) (cost metric : Rat) : State :=
  { s with trials := aset tid { st with lastScore := some (signed p.mode metric), lastPert := cost } s.trials }

/-- the record of `tid` with `stopped = True` -/
def markStopped (s : State) (tid : Nat) : State :=
  match alookup tid s.trials with
  | none => s
  | some st => { s with trials := aset tid { st with stopped := true } s.trials }

/-- `on_trial_result` (with `_get_trial_id_to_continue` inlined) -/
def onResult (p : Params) (s : State) (tid : Nat) (cost metric : Rat) (pick : Option Nat)
    (khint : Option Int) : State × Out :=
  match alookup tid s.trials with
  | none => (s, .err .keyError)
  | some st =>
    if p.maxT ≤ cost then (markStopped s tid, .decision .stop none)
    else if cost - st.lastPert < p.interval then (s, .decision .continue none)
    else
      let s1 := saved p s tid st cost metric
      let q := quantiles p s1 khint
      if tid ∈ q.1 then
        match pick with
        | none => (s1, .err .pickMissing)
        | some src =>
          if src ∉ q.2 then (s1, .err .pickNotUpper)
          else if src = tid then (s1, .err .selfPick)
          else ({ markStopped s1 tid with stack := src :: s1.stack }, .decision .stop (some q))
      else (s1, .decision .continue (some q))

/-- `_suggest`: pop the newest decision, or fall back to `FIFOScheduler._suggest` -/
def onSuggest (s : State) : State × Out :=
  match s.stack with
  | [] => (s, .fresh)
  | src :: rest => ({ s with stack := rest }, .clone src)

/-- one operation.  `on_trial_error`, `on_trial_remove`, `on_trial_complete` are inherited from
`TrialSchedulerWithSearcher` / `TrialScheduler`; they talk to the searcher only and leave
`_trial_state` and the stack alone: no-ops here. -/
def step (p : Params) (s : State) : Op → State × Out
  | .add tid => (onAdd s tid, .done)
  | .result tid cost metric pick khint => onResult p s tid cost metric pick khint
  | .suggest => onSuggest s
  | .error _ => (s, .done)
  | .remove _ => (s, .done)
  | .complete _ => (s, .done)

/-- state after a history -/
def run (p : Params) (s : State) (ops : List Op) : State := ops.foldl (fun s op => (step p s op).1) s

/-- the answers along a history -/
def outs (p : Params) (s : State) : List Op → List Out
  | [] => []
  | op :: ops => (step p s op).2 :: outs p (step p s op).1 ops

end SyneTune.PBT
