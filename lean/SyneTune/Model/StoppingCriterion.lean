import SyneTune.Model.TuningStatus
/-
Model of `syne_tune/stopping_criterion.py: StoppingCriterion.__call__` (every field, the
combined criterion is the disjunction) and of the rewrite of the wall-clock part onto
simulated time in `backend/simulator_backend/simulator_callback.py: _modify_stop_criterion`.
-/
namespace SyneTune.Tuner
open SyneTune

structure Criterion where
  maxWallclock : Option Rat := none
  maxEvals : Option Nat := none
  maxStarted : Option Nat := none
  maxCompleted : Option Nat := none
  maxCost : Option Rat := none
  maxFinished : Option Nat := none
  minMetric : Option (List (Nat × Rat)) := none
  maxMetric : Option (List (Nat × Rat)) := none
deriving DecidableEq, Repr, Inhabited

/-- `x is not None and v > x`. -/
def exceedsNat (bound : Option Nat) (v : Nat) : Bool :=
  match bound with
  | some b => decide (b < v)
  | none => false

/-- `for metric, thr in d.items(): if metric in observed and observed[metric] > thr` (`above`)
resp. `< thr`. -/
def anyBeyond (above : Bool) (thr : List (Nat × Rat)) (observed : List (Nat × XRat)) : Bool :=
  thr.any fun kv =>
    match alookup kv.1 observed with
    | none => false
    | some v => if above then (XRat.fin kv.2).lt v else v.lt (.fin kv.2)

/-- `StoppingCriterion.__call__(status)`; `clock` is `status.wallclock_time` (read only when
`max_wallclock_time` is set), `keyCost` the key of `ST_WORKER_COST`. -/
def Criterion.eval (c : Criterion) (ts : TStatus) (clock : Rat) (keyCost : Nat) : Bool :=
  (match c.maxWallclock with | some w => decide (w < clock) | none => false)
  || exceedsNat c.maxStarted ts.numStarted
  || exceedsNat c.maxCompleted ts.numCompleted
  || exceedsNat c.maxFinished ts.numFinished
  || (match c.maxCost with | some m => (XRat.fin m).lt (ts.cost keyCost) | none => false)
  || exceedsNat c.maxEvals ts.overall.count
  || (match c.maxMetric with
      | some thr => decide (0 < ts.overall.count) && anyBeyond true thr ts.overall.maxs
      | none => false)
  || (match c.minMetric with
      | some thr => decide (0 < ts.overall.count) && anyBeyond false thr ts.overall.mins
      | none => false)

/-- `SimulatorCallback._modify_stop_criterion`: a wall-clock bound becomes a bound on the
`st_tuner_time` metric, added to the user's `max_metric_value` thresholds (`dict` update: a
user threshold on `st_tuner_time` itself is overwritten); every other field is kept. Without a
wall-clock bound the criterion is left alone. (Before commit "fix: metric thresholds ... were
dropped" of /repo the rewrite dropped `min_metric_value` / `max_metric_value`.) -/
def Criterion.simRewrite (c : Criterion) (keyTunerTime : Nat) : Criterion :=
  match c.maxWallclock with
  | none => c
  | some w =>
    { maxWallclock := none, maxEvals := c.maxEvals, maxStarted := c.maxStarted,
      maxCompleted := c.maxCompleted, maxCost := c.maxCost, maxFinished := c.maxFinished,
      minMetric := c.minMetric,
      maxMetric := some (((c.maxMetric.getD []).filter (fun p => p.1 != keyTunerTime)) ++ [(keyTunerTime, w)]) }

end SyneTune.Tuner
