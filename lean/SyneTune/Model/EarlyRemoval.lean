import SyneTune.Base.Basic
/-
Model of the BOOKKEEPING of speculative early checkpoint removal:
`syne_tune/callbacks/hyperband_remove_checkpoints_callback.py`, class
`HyperbandRemoveCheckpointsCommon`, and what its two subclasses add to it.

What is modelled (all of the base class's mutable state that a decision reads)
* `_trial_status` — a Python `dict` `trial_id -> TrialStatus` — as an association list in
  insertion order (`aset` = `d[k] = v`: an existing key keeps its position, a new key goes to the
  end).  A trial the callback has never been told about is absent.
* `_trials_with_checkpoints_removed` — `dict` `trial_id -> level` — likewise
  (`d.pop(k, None)` / `del d[k]` = `aerase`).
* `_num_checkpoints_removed`, `_num_trials_resumed`, `_trials_resumed_without_checkpoint`
  (append order), the constructor argument `max_num_checkpoints` (a Python `int`: `Int` here).
* the callback methods `on_start_trial`, `on_resume_trial`, `on_trial_result` (the three scheduler
  decisions), `on_trial_complete`, `on_loop_end` with `_count_trials_with_checkpoints`,
  `_filter_paused_trials`, `_remove_checkpoint_of`.

Inputs of the model (not modelled here)
* `self._scheduler.terminator.paused_trials()` as returned inside `on_loop_end`: the list
  `paused` of `(trial_id, level)` (rank and metric value of the real entries are dropped: no
  bookkeeping reads them).  The scheduler is modelled elsewhere (`Model/HB.lean`).
* `_trials_to_be_removed(filtered, num_to_remove)`: the ORACLE `picks`, a list `(trial_id, level)`.
  The estimator-based subclass scores with estimated probabilities and `time.perf_counter()`, the
  baseline subclass draws from the terminator's `RandomState` ("random") or sorts by rung level
  and rank ("by_level").  All three return `num_to_remove` DISTINCT entries of the filtered list
  (`sorted(...)[:n]`, `choice(len, size=n, replace=False)`, `sorted(...)[:n]`).  The model checks
  exactly that (`checkPicks`: number forced, members of the filtered list, pairwise different
  trial ids) and REJECTS anything else (`Out.rejected`, state unchanged): a rejected answer is
  not a behaviour of the code — provided the scheduler's list names no trial twice (it does not: a
  trial has at most one rung entry not marked promoted); on a list with a repeated trial the two
  baselines could return both entries, and the model would reject that.  The oracle may also FAIL (`picks = none`): the exception leaves
  `on_loop_end` before anything was mutated (`Out.oracleRaised`).  Seen on the real code: the
  score computation `compute_probabilities_of_getting_resumed` raises `ValueError: zero-size array
  to reduction operation maximum` when EVERY candidate already meets its promotion condition
  (`rank <= prom_quant * rung_len` for all of them: the "non-trivial" index set is empty).
* `TrialBackend.delete_checkpoint(int(trial_id))`: the model OUTPUTS the ids it is called with.

IMPORTANT — what `_filter_paused_trials` really tests.  It keeps the entries whose trial is not a
key of `_trials_with_checkpoints_removed`; it does NOT look at `_trial_status`.  Whether a chosen
trial is PAUSED_WITH_CHECKPOINT therefore rests on the scheduler's list (see `OpOK`).

The three variants differ in the bookkeeping in ONE place: `num_to_remove > 0` with an EMPTY
filtered list.
* estimator (`HyperbandRemoveCheckpointsCallback`): `_compute_scores` → `_prepare_score_inputs`
  unpacks `zip(*[])` into six names → `ValueError: not enough values to unpack (expected 6, got 0)`
  comes out of `on_loop_end`, and out of `Tuner.run()`.  Nothing was mutated before.  `Out.raised`.
* baseline "random": `random_state.choice(0, size=0, replace=False)` is the empty array
  (numpy refuses an empty population only when samples are taken): no trial, no error.
* baseline "by_level": `sorted([])[:0] = []`: no trial, no error.
(The estimator subclass's `on_trial_result` calls the base method first and then updates its
Beta-binomial estimators; those are not bookkeeping and not modelled.)
-/
namespace SyneTune.Early
open SyneTune

/-- `TrialStatus` of the callback module -/
inductive Status | running | pausedCp | pausedNoCp | done
deriving DecidableEq, Repr, Inhabited

def Status.toString : Status → String
  | .running => "RUNNING"
  | .pausedCp => "PAUSED-WITH-CP"
  | .pausedNoCp => "PAUSED-NO-CP"
  | .done => "STOPPED-COMPLETED"

/-- which `_trials_to_be_removed` the instance has -/
inductive Variant | estimator | random | byLevel
deriving DecidableEq, Repr, Inhabited

structure Params where
  /-- `max_num_checkpoints` -/
  maxCp : Int
  variant : Variant
deriving DecidableEq, Repr, Inhabited

structure State where
  /-- `_trial_status`, insertion order -/
  status : List (Nat × Status) := []
  /-- `_trials_with_checkpoints_removed`, insertion order -/
  removed : List (Nat × Nat) := []
  /-- `_num_checkpoints_removed` -/
  numRemoved : Nat := 0
  /-- `_num_trials_resumed` -/
  numResumed : Nat := 0
  /-- `_trials_resumed_without_checkpoint`, oldest first -/
  resumedNoCp : List (Nat × Nat) := []
deriving DecidableEq, Repr, Inhabited

/-- state after `on_tuning_start` -/
def State.init : State := {}

/-- `d.pop(k, None)` / `del d[k]` -/
def aerase {β} (k : Nat) (l : List (Nat × β)) : List (Nat × β) := l.filter (fun e => e.1 != k)

def State.statusOf (s : State) (t : Nat) : Option Status := alookup t s.status

/-- `has_checkpoint = {RUNNING, PAUSED_WITH_CHECKPOINT}` -/
def hasCp : Status → Bool
  | .running | .pausedCp => true
  | _ => false

def isRunning : Status → Bool
  | .running => true
  | _ => false

/-- `_count_trials_with_checkpoints` -/
def countCp (s : State) : Nat := s.status.countP (fun e => hasCp e.2)

/-- number of trials the callback holds for RUNNING -/
def numRunning (s : State) : Nat := s.status.countP (fun e => isRunning e.2)

/-- `_filter_paused_trials`: `entry[0] not in self._trials_with_checkpoints_removed` -/
def filterPaused (s : State) (paused : List (Nat × Nat)) : List (Nat × Nat) :=
  paused.filter (fun e => (alookup e.1 s.removed).isNone)

/-- `_remove_checkpoint_of(trial_id, level)` (the `delete_checkpoint` call is the output) -/
def removeCp (s : State) (e : Nat × Nat) : State :=
  { s with status := aset e.1 .pausedNoCp s.status
           removed := aset e.1 e.2 s.removed
           numRemoved := s.numRemoved + 1 }

/-- `num_checkpoints - self.max_num_checkpoints` (before the `min`) -/
def excess (p : Params) (s : State) : Int := (countCp s : Int) - p.maxCp

/-- why an oracle answer cannot come from any of the three `_trials_to_be_removed` -/
inductive OracleErr | wrongNumber | notMember | duplicate
deriving DecidableEq, Repr, Inhabited

/-- the admissibility test of the oracle answer: `k` entries, each a member of the filtered list,
no trial twice -/
def checkPicks (filt picks : List (Nat × Nat)) (k : Nat) : Option OracleErr :=
  if picks.length ≠ k then some .wrongNumber
  else if ¬ (∀ e ∈ picks, e ∈ filt) then some .notMember
  else if ¬ (picks.map (·.1)).Nodup then some .duplicate
  else none

inductive Out
  /-- `on_start_trial` / `on_resume_trial` / `on_trial_result` / `on_trial_complete` returned -/
  | done
  /-- `on_loop_end` returned; `delete_checkpoint` was called with these ids, in this order -/
  | deleted (ids : List Nat)
  /-- `on_loop_end` raised `ValueError` (estimator variant, nothing left to choose from) -/
  | raised
  /-- `_trials_to_be_removed` failed on a non-empty list (input); `on_loop_end` passes the
  exception on, nothing was mutated -/
  | oracleRaised
  /-- the oracle answer is not admissible (not a behaviour of the code); state unchanged -/
  | rejected (e : OracleErr)
deriving DecidableEq, Repr, Inhabited

inductive Op
  | start (t : Nat)
  | resume (t : Nat)
  | result (t : Nat) (d : Decision)
  | complete (t : Nat)
  | loopEnd (paused : List (Nat × Nat)) (picks : Option (List (Nat × Nat)))
deriving DecidableEq, Repr, Inhabited

/-- `on_loop_end` -/
def loopEnd (p : Params) (s : State) (paused : List (Nat × Nat)) (picks : Option (List (Nat × Nat))) :
    State × Out :=
  if excess p s ≤ 0 then (s, .deleted [])
  else
    if filterPaused s paused = [] ∧ p.variant = .estimator then (s, .raised)
    else
      match picks with
      | none => (s, .oracleRaised)
      | some picks =>
        match checkPicks (filterPaused s paused) picks
            (min (excess p s).toNat (filterPaused s paused).length) with
        | some e => (s, .rejected e)
        | none => (picks.foldl removeCp s, .deleted (picks.map (·.1)))

/-- is `_trials_to_be_removed` called at all in this `on_loop_end`? -/
def consulted (p : Params) (s : State) : Bool := decide (0 < excess p s)

/-- `on_resume_trial` -/
def resume (s : State) (t : Nat) : State :=
  let s1 := { s with status := aset t .running s.status, numResumed := s.numResumed + 1 }
  match alookup t s.removed with
  | some l => { s1 with resumedNoCp := s.resumedNoCp ++ [(t, l)], removed := aerase t s.removed }
  | none => s1

/-- `on_trial_result` (base class) -/
def result (s : State) (t : Nat) : Decision → State
  | .continue => { s with status := aset t .running s.status }
  | .pause => { s with status := aset t .pausedCp s.status, removed := aerase t s.removed }
  | .stop => { s with status := aset t .done s.status, removed := aerase t s.removed }

def step (p : Params) (s : State) : Op → State × Out
  | .start t => ({ s with status := aset t .running s.status }, .done)
  | .resume t => (resume s t, .done)
  | .result t d => (result s t d, .done)
  | .complete t => ({ s with status := aset t .done s.status, removed := aerase t s.removed }, .done)
  | .loopEnd paused picks => loopEnd p s paused picks

/-- the callback's state after the history `h` (oldest operation first), from state `s` -/
def runFrom (p : Params) (s : State) (h : List Op) : State := h.foldl (fun s op => (step p s op).1) s

def run (p : Params) (h : List Op) : State := runFrom p State.init h

/-- the observable trace: every operation with what it output -/
def traceFrom (p : Params) (s : State) : List Op → List (Op × Out)
  | [] => []
  | op :: h => (op, (step p s op).2) :: traceFrom p (step p s op).1 h

def trace (p : Params) (h : List Op) : List (Op × Out) := traceFrom p State.init h

/-! ### Operation contract

The weakest clauses the theorems of `Props/C20Early.lean` need; each is shown necessary there by a
`_counterexample`.  `resume` and `complete` need no clause at all, nor does `result` with
`PAUSE` / `STOP`. -/

def isPausedStatus : Option Status → Bool
  | some .pausedCp | some .pausedNoCp => true
  | _ => false

/-- * `start t`: `t` is not a paused trial whose checkpoint has been removed (the Tuner starts only
    fresh ids).
  * `result t CONTINUE`: the same (the Tuner polls only running trials).
  * `loopEnd paused _`: every trial the scheduler lists as paused is paused in the callback's
    books (`terminator.paused_trials()` = entries of rungs not marked promoted; a trial enters a
    rung with the very report that pauses it, and is marked promoted when it is resumed). -/
def OpOK (s : State) : Op → Prop
  | .start t => s.statusOf t ≠ some .pausedNoCp
  | .result t .continue => s.statusOf t ≠ some .pausedNoCp
  | .loopEnd paused _ => ∀ e ∈ paused, isPausedStatus (s.statusOf e.1) = true
  | _ => True

instance (s : State) (op : Op) : Decidable (OpOK s op) := by
  cases op with
  | result t d => cases d <;> (unfold OpOK; infer_instance)
  | _ => unfold OpOK; infer_instance

def LegalFrom (p : Params) (s : State) : List Op → Prop
  | [] => True
  | op :: h => OpOK s op ∧ LegalFrom p (step p s op).1 h

def LegalFrom.dec (p : Params) : (s : State) → (h : List Op) → Decidable (LegalFrom p s h)
  | _, [] => isTrue trivial
  | s, op :: h => @instDecidableAnd _ _ inferInstance (LegalFrom.dec p (step p s op).1 h)

instance (p : Params) (s : State) (h : List Op) : Decidable (LegalFrom p s h) := LegalFrom.dec p s h

/-- every operation of the history meets `OpOK` in the state it is applied to -/
def Legal (p : Params) (h : List Op) : Prop := LegalFrom p State.init h

instance (p : Params) (h : List Op) : Decidable (Legal p h) := by unfold Legal; infer_instance

/-- the Tuner's trial life cycle as the callback sees it (stronger than `OpOK`; see
`C20Early.natural_implies_ok`) -/
def NaturalOK (s : State) : Op → Prop
  | .start t => s.statusOf t = none
  | .resume t => isPausedStatus (s.statusOf t) = true
  | .result t _ => s.statusOf t = some .running
  | .complete t => s.statusOf t = some .running ∨ s.statusOf t = some .done
  | .loopEnd paused _ => ∀ e ∈ paused, isPausedStatus (s.statusOf e.1) = true

instance (s : State) (op : Op) : Decidable (NaturalOK s op) := by
  cases op <;> (unfold NaturalOK; infer_instance)

def NaturalLegalFrom (p : Params) (s : State) : List Op → Prop
  | [] => True
  | op :: h => NaturalOK s op ∧ NaturalLegalFrom p (step p s op).1 h

def NaturalLegalFrom.dec (p : Params) : (s : State) → (h : List Op) → Decidable (NaturalLegalFrom p s h)
  | _, [] => isTrue trivial
  | s, op :: h => @instDecidableAnd _ _ inferInstance (NaturalLegalFrom.dec p (step p s op).1 h)

instance (p : Params) (s : State) (h : List Op) : Decidable (NaturalLegalFrom p s h) := NaturalLegalFrom.dec p s h

/-- every operation of the history follows the Tuner's life cycle of a trial -/
def NaturalLegal (p : Params) (h : List Op) : Prop := NaturalLegalFrom p State.init h

instance (p : Params) (h : List Op) : Decidable (NaturalLegal p h) := by unfold NaturalLegal; infer_instance

/-- the scheduler's list is complete: every trial the callback holds for paused with a checkpoint
is listed -/
def Complete (s : State) (paused : List (Nat × Nat)) : Prop :=
  ∀ t, s.statusOf t = some .pausedCp → ∃ l, (t, l) ∈ paused

/-! ### Specification read off the observable trace -/

/-- does the trace entry concern trial `t`?  (its own events, and a loop end that deleted its
checkpoint) -/
def touches (t : Nat) : Op × Out → Bool
  | (.start u, _) | (.resume u, _) | (.result u _, _) | (.complete u, _) => u == t
  | (.loopEnd _ _, .deleted ids) => ids.contains t
  | (.loopEnd _ _, _) => false

/-- the status in which an entry leaves the trial it concerns -/
def statusAfter : Op × Out → Status
  | (.start _, _) | (.resume _, _) | (.result _ .continue, _) => .running
  | (.result _ .pause, _) => .pausedCp
  | (.result _ .stop, _) | (.complete _, _) => .done
  | (.loopEnd _ _, _) => .pausedNoCp

/-- the last entry of the trace that concerns `t` -/
def lastTouch (t : Nat) (tr : List (Op × Out)) : Option (Op × Out) := tr.reverse.find? (touches t)

def specStatus (t : Nat) (tr : List (Op × Out)) : Option Status := (lastTouch t tr).map statusAfter

/-- the level recorded for `t`: the one the scheduler's list gave when `t`'s checkpoint was
deleted, provided nothing happened to `t` since -/
def levelIn (t : Nat) : Op × Out → Option Nat
  | (.loopEnd _ (some picks), .deleted _) => alookup t picks
  | _ => none

def specRemoved (t : Nat) (tr : List (Op × Out)) : Option Nat := (lastTouch t tr).bind (levelIn t)

/-- resumes of trials whose checkpoint was deleted since they were last paused (newest-first trace) -/
def specResR : List (Op × Out) → List (Nat × Nat)
  | [] => []
  | (.resume t, _) :: rest =>
    specResR rest ++ (match specRemoved t rest.reverse with | some l => [(t, l)] | none => [])
  | _ :: rest => specResR rest

def specRes (tr : List (Op × Out)) : List (Nat × Nat) := specResR tr.reverse

def isResume : Op → Bool
  | .resume _ => true
  | _ => false

/-- all ids handed to `delete_checkpoint`, in order -/
def deletedIds : List (Op × Out) → List Nat
  | [] => []
  | (_, .deleted ids) :: tr => ids ++ deletedIds tr
  | _ :: tr => deletedIds tr

end SyneTune.Early
