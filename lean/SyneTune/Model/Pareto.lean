import SyneTune.Base.Basic
/-
Model of `syne_tune/optimizer/schedulers/multiobjective/non_dominated_priority.py`
(`pareto_efficient`, `nondominated_sort`; `compute_epsilon_net` is an oracle) and of
`multiobjective_priority.py` (`NonDominatedPriority.priority_unsafe`,
`FixedObjectivePriority.priority_unsafe`).

A numpy array `X` of shape `[N, D]` is a `List Point` whose rows all have length `D`
(hypothesis `Rect X d` of the theorems).  Objective values are only compared, so they
are exact rationals.
-/
namespace SyneTune

abbrev Point := List Rat

/-- `np.all(a <= b)` over the common coordinates. -/
def allLe : Point → Point → Bool
  | x :: xs, y :: ys => decide (x ≤ y) && allLe xs ys
  | _, _ => true

/-- `np.any(a < b)` over the common coordinates. -/
def anyLt : Point → Point → Bool
  | x :: xs, y :: ys => decide (x < y) || anyLt xs ys
  | _, _ => false

/-- `np.all(a <= b) * np.any(a < b)`: `b` is dominated by `a`. -/
def dominates (a b : Point) : Bool := allLe a b && anyLt a b

/-- one pass of the `for i, allocation in enumerate(X)` loop of `pareto_efficient`:
`if mask[i]: mask[mask] = ~dominated` where `dominated[j] = dominates X[i] X[j]` for the
`j` still in the mask. -/
def paretoStep (X : List Point) (mask : List Bool) (i : Nat) : List Bool :=
  match mask[i]?, X[i]? with
  | some true, some a => List.zipWith (fun x m => m && !dominates a x) X mask
  | _, _ => mask

/-- `pareto_efficient(X)`: the iterative mask algorithm as coded. -/
def paretoEfficient (X : List Point) : List Bool :=
  (List.range X.length).foldl (paretoStep X) (List.replicate X.length true)

/-- numpy boolean-mask indexing `a[mask]`. -/
def maskFilter {α} : List α → List Bool → List α
  | x :: xs, m :: ms => if m then x :: maskFilter xs ms else maskFilter xs ms
  | _, _ => []

/-- a row of `X` together with its index in `X` (`remaining` and `X[remaining]` of
`nondominated_sort` kept side by side). -/
abbrev IPoint := Nat × Point

def enumFrom (s : Nat) : List Point → List IPoint
  | [] => []
  | x :: xs => (s, x) :: enumFrom (s + 1) xs

/-- `pareto_front = remaining[pareto_mask]` with `pareto_mask = pareto_efficient(X[remaining])`. -/
def frontOf (R : List IPoint) : List IPoint :=
  maskFilter R (paretoEfficient (R.map (·.2)))

/-- `remaining[~pareto_mask]`. -/
def restOf (R : List IPoint) : List IPoint :=
  maskFilter R ((paretoEfficient (R.map (·.2))).map (!·))

/-- numpy integer-array indexing `front[order]`; `none` = `IndexError`. -/
def takeIdx (front : List Nat) : List Nat → Option (List Nat)
  | [] => some []
  | r :: rs =>
    match front[r]?, takeIdx front rs with
    | some i, some l => some (i :: l)
    | _, _ => none

inductive SortErr | indexError (what : String) | fuel
deriving DecidableEq, Repr

/-- `remaining.size > 0 and (max_items is None or num_items < max_items)`. -/
def loopCond (maxItems : Option Nat) (R : List IPoint) (n : Nat) : Bool :=
  !R.isEmpty && (match maxItems with | none => true | some m => decide (n < m))

/-- The `while` loop of `nondominated_sort`; returns the list `indices` (one list per
Pareto layer).  `eps k P` is what the `k`-th call `compute_epsilon_net(P, dim)` returned
(an input of the model; contract: a permutation of `range(len(P))`).  `fuel` bounds the
number of iterations (`List.length X` suffices, theorem `sort_total`). -/
def sortLoop (eps : Nat → List Point → List Nat) (maxItems : Option Nat) :
    Nat → Nat → List IPoint → Nat → Except SortErr (List (List Nat))
  | 0, _, R, n => if loopCond maxItems R n then .error .fuel else .ok []
  | fuel + 1, k, R, n =>
    if loopCond maxItems R n then
      match takeIdx ((frontOf R).map (·.1)) (eps k ((frontOf R).map (·.2))) with
      | none => .error (.indexError "pareto_front[pareto_order]")
      | some layer =>
        match sortLoop eps maxItems fuel (k + 1) (restOf R) (n + (frontOf R).length) with
        | .error e => .error e
        | .ok ls => .ok (layer :: ls)
    else .ok []

def sumLengths (L : List (List Nat)) : Nat := (L.map List.length).sum

/-- the block `if max_items is not None: …` after the loop (`indices[-1]` on an empty
list is the `IndexError`). -/
def truncateLayers (maxItems : Option Nat) (L : List (List Nat)) : Except SortErr (List (List Nat)) :=
  match maxItems with
  | none => .ok L
  | some m =>
    match L.getLast? with
    | none => .error (.indexError "indices[-1]")
    | some last =>
      if last.take (m - sumLengths L.dropLast) = [] then .ok L.dropLast
      else .ok (L.dropLast ++ [last.take (m - sumLengths L.dropLast)])

/-- the list `indices` when the `while` loop of `nondominated_sort` ends. -/
def sortLayersRaw (X : List Point) (eps : Nat → List Point → List Nat) (maxItems : Option Nat) :
    Except SortErr (List (List Nat)) :=
  sortLoop eps maxItems X.length 0 (enumFrom 0 X) 0

/-- `nondominated_sort(X, dim, max_items, flatten=False)`. -/
def nondominatedSortLayers (X : List Point) (eps : Nat → List Point → List Nat)
    (maxItems : Option Nat) : Except SortErr (List (List Nat)) :=
  match sortLayersRaw X eps maxItems with
  | .error e => .error e
  | .ok L => truncateLayers maxItems L

/-- `nondominated_sort(X, dim, max_items, flatten=True)`. -/
def nondominatedSort (X : List Point) (eps : Nat → List Point → List Nat)
    (maxItems : Option Nat) : Except SortErr (List Nat) :=
  match nondominatedSortLayers X eps maxItems with
  | .error e => .error e
  | .ok L => .ok L.flatten

/-- `priorities[order] = np.arange(len(order))` (scatter, later writes win). -/
def scatter (prio : List Nat) : List Nat → Nat → List Nat
  | [], _ => prio
  | i :: rest, pos => scatter (prio.set i pos) rest (pos + 1)

/-- `NonDominatedPriority.priority_unsafe` (after commit cf06200): position in the sort,
`len(order)` for samples cut off by `max_num_samples`. -/
def ndPriority (X : List Point) (eps : Nat → List Point → List Nat) (maxNum : Option Nat) :
    Except SortErr (List Nat) :=
  match nondominatedSort X eps maxNum with
  | .error e => .error e
  | .ok order => .ok (scatter (List.replicate X.length order.length) order 0)

/-- `FixedObjectivePriority.priority_unsafe`: `objectives[:, dim]` (`none` = `IndexError`). -/
def fixedPriority (dim : Nat) : List Point → Option (List Rat)
  | [] => some []
  | p :: ps =>
    match p[dim]?, fixedPriority dim ps with
    | some v, some l => some (v :: l)
    | _, _ => none

/-- The oracle built from the recorded return values of `compute_epsilon_net` (in call
order).  An entry that is not a permutation of `range(len(P))` is replaced by the
identity, so the function satisfies the contract for every argument; whether a
replacement happened is reported by `tapeUsedOK`. -/
def tapeOracle (tape : List (List Nat)) : Nat → List Point → List Nat :=
  fun k P =>
    match tape[k]? with
    | some t => if t.isPerm (List.range P.length) then t else List.range P.length
    | none => List.range P.length

/-- every one of the `L.length` oracle calls found a valid tape entry and the tape was
used up (`L` = layers produced by `sortLayersRaw`; the `k`-th front has `L[k].length` points). -/
def tapeUsedOK (tape : List (List Nat)) (L : List (List Nat)) : Bool :=
  tape.length == L.length &&
  (List.zipWith (fun (t l : List Nat) => t.isPerm (List.range l.length)) tape L).all id

end SyneTune
