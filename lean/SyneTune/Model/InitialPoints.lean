import SyneTune.Model.Searcher
/-
Model of `impute_points_to_evaluate` / `_impute_default_config` / `_default_config_value`
/ `_non_default_config` and `BaseSearcher._next_initial_config`
(`syne_tune/optimizer/schedulers/searchers/searcher.py`).   Core Lean only.
-/
namespace SyneTune.Srch
open SyneTune

/-- `np.clip(midpoint, value_type(lower), value_type(upper))` on a value -/
def clipVal (v : Val) (lo hi : Rat) : Val :=
  match v with
  | .int i => .int (clipInt i (truncRat lo) (truncRat hi))
  | .rat q => .rat (clipRat q lo hi)
  | .str s => .str s
  | .nzero => if lo ≤ 0 ∧ 0 ≤ hi then .nzero else .rat (clipRat 0 lo hi)

/-- float bounds `lower`, `upper` used by `_non_default_config` (first / last category for
nearest-neighbour ordinals; a non-numeric category is the `float()` error) -/
def Dom.numBounds : Dom → Except Err (Rat × Rat)
  | .nn cats _ _ =>
    match cats.head?, cats.getLast? with
    | some a, some b =>
      match a.num?, b.num? with
      | some x, some y => .ok (x, y)
      | _, _ => .error (.valueError "float() of str")
    | _, _ => .error (.keyError "categories")
  | .int lo hi _ _ => .ok (lo, hi)
  | .float lo hi _ _ => .ok (lo, hi)
  | .fin _ lo hi _ _ _ => .ok (lo, hi)
  | .cat .. => .error (.unsupported "no numeric bounds")

def Dom.geo : Dom → Rat
  | .nn _ _ g => g
  | .int _ _ _ g => g
  | .float _ _ _ g => g
  | .fin _ _ _ _ g _ => g
  | .cat .. => 0

/-- `np.clip(midpoint, value_type(lower), value_type(upper))` for each kind
(`int(float(lower)) = lower` for an `Integer` domain) -/
def Dom.clipMid (d : Dom) (m : Val) (lower upper : Rat) : Val :=
  match d, m with
  | .int lo hi _ _, .int i => .int (clipInt i lo hi)
  | _, _ => clipVal m lower upper

/-- `_non_default_config`: the mid-point rule.  `hint` only resolves a nearest-value
choice that is within round-off of a tie. -/
def Dom.midpoint (d : Dom) (hint : Option Nat) : Except Err Val :=
  match d with
  | .cat cats ordinal =>
    match cats[if ordinal then cats.length / 2 else 0]? with
    | some v => .ok v
    | none => .error (.keyError "categories")
  | _ =>
    match d.numBounds with
    | .error e => .error e
    | .ok (lower, upper) =>
      let mid : Rat := if d.isLog then d.geo else (1/2) * (upper + lower)
      match d.cast (.rat mid) hint with
      | .error e => .error e
      | .ok m =>
        -- lower = value_type(lower); upper = value_type(upper); np.clip(midpoint, lower, upper)
        .ok (d.clipMid m lower upper)

/-- `_default_config_value`: cast, then assert membership / range -/
def Dom.defaultValue (d : Dom) (given : Val) : Except Err Val :=
  match d.cast given none with
  | .error e => .error e
  | .ok v =>
    match d with
    | .cat cats _ => if cats.contains v then .ok v else .error (.assertion "not in categories")
    | .nn cats _ _ => if cats.contains v then .ok v else .error (.assertion "not in categories")
    | .int lo hi _ _ =>
      match v with
      | .int i => if lo ≤ i ∧ i ≤ hi then .ok v else .error (.assertion "not in [lower, upper]")
      | _ => .error (.assertion "not in [lower, upper]")
    | .float lo hi _ _ =>
      match v with
      | .rat q => if lo ≤ q ∧ q ≤ hi then .ok v else .error (.assertion "not in [lower, upper]")
      | .nzero => if lo ≤ 0 ∧ 0 ≤ hi then .ok v else .error (.assertion "not in [lower, upper]")
      | _ => .error (.assertion "not in [lower, upper]")
    | .fin _ lo hi _ _ _ =>
      match v.num? with
      | some q => if lo ≤ q ∧ q ≤ hi then .ok v else .error (.assertion "not in [lower, upper]")
      | none => .error (.assertion "not in [lower, upper]")

/-- `_impute_default_config`: one entry per `Domain` of the space, in its order -/
def imputeDefault (point : Config) (hints : List (String × Nat)) :
    List (String × Dom) → Except Err Config
  | [] => .ok []
  | (k, d) :: rest =>
    let here : Except Err Val :=
      match cget k point with
      | some given => d.defaultValue given
      | none => d.midpoint (hints.lookup k)
    match here, imputeDefault point hints rest with
    | .ok v, .ok r => .ok ((k, v) :: r)
    | .error e, _ => .error e
    | _, .error e => .error e

/-- the de-duplication loop of `impute_points_to_evaluate`: `seen` is `excl_set` (tuples in
sorted-key order; all imputed configurations carry the same keys in the same order, so
tuple equality is equality of the configurations) -/
def dedupLoop : List Config → (seen : List Config) → List Config
  | [], _ => []
  | c :: cs, seen => if c ∈ seen then dedupLoop cs seen else c :: dedupLoop cs (c :: seen)

def imputeAll (hints : List (String × Nat)) (hps : List (String × Dom)) :
    List Config → Except Err (List Config)
  | [] => .ok []
  | p :: ps =>
    match imputeDefault p hints hps, imputeAll hints hps ps with
    | .ok c, .ok r => .ok (c :: r)
    | .error e, _ => .error e
    | _, .error e => .error e

/-- `impute_points_to_evaluate(points_to_evaluate, config_space)`; `none` ↦ `[dict()]` -/
def imputePoints (sp : Space) (hints : List (String × Nat)) (p2e : Option (List Config)) :
    Except Err (List Config) :=
  match imputeAll hints (hpEntries sp) (p2e.getD [[]]) with
  | .error e => .error e
  | .ok cs => .ok (dedupLoop cs [])

/-! ### executable well-formedness check of a space (hypothesis of the C06 theorems; the
driver evaluates it on every space the correspondence stream generates) -/

def sameTypes : List Val → Bool
  | [] => true
  | v :: vs => vs.all fun w => w.vtype == v.vtype

/-- `cast` is the identity on `v` -/
def Dom.castFixes (d : Dom) (v : Val) : Bool :=
  match d.cast v none with
  | .ok w => w == v
  | .error _ => false

def Dom.clipFixes (d : Dom) (v : Val) : Bool :=
  match d.numBounds with
  | .ok (lo, hi) => d.clipMid v lo hi == v
  | .error _ => false

/-- well-formed domain: non-empty, homogeneous value lists; ordered bounds; for the
finite numeric kinds: casting and clipping leave every listed value unchanged -/
def Dom.wfb (d : Dom) : Bool :=
  match d with
  | .cat cats _ => !cats.isEmpty && sameTypes cats
  | .nn cats _ _ => !cats.isEmpty && sameTypes cats && cats.all (fun v => v.num?.isSome) &&
      cats.all d.castFixes && cats.all d.clipFixes
  | .int lo hi _ _ => decide (lo ≤ hi)
  | .float lo hi _ _ => decide (lo ≤ hi)
  | .fin vals lo hi _ _ _ => !vals.isEmpty && sameTypes vals && vals.all (fun v => v.num?.isSome) &&
      decide (lo ≤ hi) && vals.all d.castFixes && vals.all d.clipFixes

def Space.wfb (sp : Space) : Bool :=
  (hpEntries sp).all (fun kd => kd.2.wfb) && decide ((sp.map Prod.fst).Nodup)

end SyneTune.Srch
