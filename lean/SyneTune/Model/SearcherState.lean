import SyneTune.Model.HB
/-
Model of the data bookkeeping of `GPMultiFidelitySearcher` / `ModelBasedSearcher` /
`ModelStateTransformer` / `TuningJobState` (C14): observations per (trial, level), pending
evaluations, failed trials — driven by the calls the scheduler makes (`SCall`).
-/
namespace SyneTune

structure SState where
  mode : Mode
  pending : List (Nat × Nat) := []                     -- `pending_evaluations` (trial, resource)
  observed : List (Nat × List (Nat × Rat)) := []       -- `trials_evaluations`: trial ↦ (level ↦ criterion)
  failed : List Nat := []
deriving Repr, Inhabited

/-- criterion to be minimised: `map_reward` default `1 - x` for mode max. -/
def SState.crit (st : SState) (v : Rat) : Rat :=
  match st.mode with
  | .min => v
  | .max => 1 - v

def SState.isPending (st : SState) (t r : Nat) : Bool := st.pending.any (fun p => p.1 == t && p.2 == r)

def SState.isLabeled (st : SState) (t r : Nat) : Bool :=
  match alookup t st.observed with
  | none => false
  | some ms => (alookup r ms).isSome

/-- `pending_evaluations.pop(_find_pending(t, r))`: remove the first matching entry. -/
def dropPending (t r : Nat) : List (Nat × Nat) → List (Nat × Nat)
  | [] => []
  | p :: ps => if p.1 == t && p.2 == r then ps else p :: dropPending t r ps

/-- `label_trial`: drop the matching pending entry, then `metrics[level] = value`
(dict update: an existing value for the level is overwritten). -/
def SState.label (st : SState) (t r : Nat) (c : Rat) : SState :=
  let ms := match alookup t st.observed with | some ms => ms | none => []
  { st with pending := dropPending t r st.pending, observed := aset t (aset r c ms) st.observed }

def SState.cleanupPending (st : SState) (t : Nat) : SState :=
  { st with pending := st.pending.filter (fun p => p.1 != t) }

/-- one searcher call -/
def SState.apply (st : SState) : SCall → Except Err SState
  | .pending t r =>
    if st.isPending t r then .ok st
    else if st.isLabeled t r then .error (.assertion "already has observation, cannot be pending")
    else .ok { st with pending := st.pending ++ [(t, r)] }
  | .update t r v upd => if upd then .ok (st.label t r (st.crit v)) else .ok st
  | .removeCase t r _ =>
    match alookup t st.observed with
    | none => .error (.assertion "no observations")
    | some ms =>
      if (alookup r ms).isNone then .error (.assertion "key not in metric_vals")
      else .ok { st with observed := aset t (adel r ms) st.observed }
  | .cleanup t => .ok (st.cleanupPending t)
  | .evalFailed t =>
    let st1 := st.cleanupPending t
    .ok (if st1.failed.contains t then st1 else { st1 with failed := st1.failed ++ [t] })

def SState.applyAll (st : SState) : List SCall → Except Err SState
  | [] => .ok st
  | c :: cs => match st.apply c with
    | .error e => .error e
    | .ok st' => st'.applyAll cs

end SyneTune
