import SyneTune.Model.Domains
/-
Model of `syne_tune/optimizer/schedulers/searchers/utils/hp_ranges_impl.py` (+ the key
ordering of `hp_ranges.py`, `scaling.py`, `hp_ranges_factory.py`): the `HyperparameterRange*`
encoders / decoders with `EPS` margins, clipping, active sub-ranges, one-hot / binary / ordinal
encodings, fixed last position.  (C07)
-/
namespace SyneTune.Dom

/-! ### `HyperparameterRangeContinuous` -/

/-- the fields `to_ndarray` / `from_ndarray` read -/
structure ContCore where
  lower : Rat
  upper : Rat
  scale : ScaleKind
  lowInt : Rat
  upInt : Rat
deriving Repr, Inhabited

/-- `to_ndarray` -/
def ContCore.encode (env : Env) (c : Consts) (r : ContCore) (hp : Rat) : Except Err Rat :=
  if r.lower - c.eps ≤ hp ∧ hp ≤ r.upper + c.eps then
    if r.upInt = r.lowInt then .ok 0
    else
      match env.toInternal r.scale hp with
      | .ok t => .ok (clipR ((t - r.lowInt) / (r.upInt - r.lowInt)) 0 1)
      | .error e => .error e
  else .error .assertion

/-- `scale_from_zero_one` -/
def ContCore.decode (env : Env) (c : Consts) (r : ContCore) (x : Rat) : Except Err Rat :=
  if -c.eps ≤ x ∧ x ≤ 1 + c.eps then
    if 0 < r.upInt - r.lowInt then
      .ok (clipR (env.fromInternal r.scale (x * (r.upInt - r.lowInt) + r.lowInt)) r.lower r.upper)
    else .ok r.lower
  else .error .assertion

structure ContRange where
  core : ContCore
  bLo : Rat
  bHi : Rat
deriving Repr, Inhabited

def mkContCore (env : Env) (lower upper : Rat) (scale : ScaleKind) : Except Err ContCore :=
  if lower ≤ upper then
    match env.toInternal scale lower, env.toInternal scale upper with
    | .ok a, .ok b => .ok ⟨lower, upper, scale, a, b⟩
    | .error e, _ => .error e
    | _, .error e => .error e
  else .error .assertion

/-- the `_ndarray_bounds` of the constructor -/
def ContCore.withBounds (env : Env) (c : Consts) (r : ContCore) (aL aU : Rat) : Except Err ContRange :=
  if r.lower ≤ aU ∧ aU ≤ r.upper ∧ r.lower ≤ aL ∧ aL ≤ r.upper ∧ aL ≤ aU then
    match r.encode env c aL, r.encode env c aU with
    | .ok a, .ok b => .ok ⟨r, a, b⟩
    | .error e, _ => .error e
    | _, .error e => .error e
  else .error .assertion

def mkCont (env : Env) (c : Consts) (lower upper : Rat) (scale : ScaleKind)
    (aL aU : Option Rat) : Except Err ContRange :=
  match mkContCore env lower upper scale with
  | .ok r => r.withBounds env c (aL.getD lower) (aU.getD upper)
  | .error e => .error e

/-! ### `HyperparameterRangeInteger` -/

structure IntRange where
  lower : Int
  upper : Int
  cont : ContRange
deriving Repr, Inhabited

def mkInt (env : Env) (c : Consts) (lower upper : Int) (scale : ScaleKind)
    (aL aU : Option Int) : Except Err IntRange :=
  if lower ≤ upper then
    match mkCont env c ((lower : Rat) - 1 / 2 + c.eps) ((upper : Rat) + 1 / 2 - c.eps) scale
        (some (((aL.getD lower : Int) : Rat) - 1 / 2 + c.eps))
        (some (((aU.getD upper : Int) : Rat) + 1 / 2 - c.eps)) with
    | .ok ct => .ok ⟨lower, upper, ct⟩
    | .error e => .error e
  else .error .assertion

def IntRange.encode (env : Env) (c : Consts) (r : IntRange) (k : Rat) : Except Err Rat :=
  r.cont.core.encode env c k

/-- the continuous value `_round_to_int` receives -/
def IntRange.decodePre (env : Env) (c : Consts) (r : IntRange) (x : Rat) : Except Err Rat :=
  r.cont.core.decode env c x

/-- `_round_to_int` -/
def IntRange.roundToInt (r : IntRange) (v : Rat) : Int := clipI (roundHalfEven v) r.lower r.upper

def IntRange.decode (env : Env) (c : Consts) (r : IntRange) (x : Rat) : Except Err Int :=
  match r.decodePre env c x with
  | .ok v => .ok (r.roundToInt v)
  | .error e => .error e

/-! ### `HyperparameterRangeFiniteRange` -/

structure FinRange where
  lower : Rat
  upper : Rat
  size : Nat
  scale : ScaleKind
  castInt : Bool
  lowInt : Rat
  upInt : Rat
  step : Rat
  rint : IntRange
deriving Repr, Inhabited

def mkFin (env : Env) (c : Consts) (lower upper : Rat) (size : Nat) (scale : ScaleKind)
    (castInt : Bool) : Except Err FinRange :=
  if lower ≤ upper ∧ 1 ≤ size then
    match env.toInternal scale lower, env.toInternal scale upper,
        mkInt env c 0 ((size : Int) - 1) .lin none none with
    | .ok a, .ok b, .ok ri =>
      .ok ⟨lower, upper, size, scale, castInt, a, b,
           if 1 < size then (b - a) / ((size - 1 : Nat) : Rat) else 0, ri⟩
    | .error e, _, _ => .error e
    | _, .error e, _ => .error e
    | _, _, .error e => .error e
  else .error .assertion

/-- pre-rounding value of `_map_from_int` -/
def FinRange.valuePre (env : Env) (r : FinRange) (x : Int) : Rat :=
  clipR (env.fromInternal r.scale ((x : Rat) * r.step + r.lowInt)) r.lower r.upper

def FinRange.mapFromInt (env : Env) (r : FinRange) (x : Int) : Val :=
  if r.castInt then .int (roundHalfEven (r.valuePre env x)) else .flt (r.valuePre env x)

/-- pre-rounding quotient of `_map_to_int` (`step ≠ 0`) -/
def FinRange.indexPre (env : Env) (r : FinRange) (y : Rat) : Except Err Rat :=
  match env.toInternal r.scale y with
  | .ok t => .ok ((clipR t r.lowInt r.upInt - r.lowInt) / r.step)
  | .error e => .error e

def FinRange.mapToInt (env : Env) (r : FinRange) (y : Rat) : Except Err Int :=
  if r.step = 0 then .ok 0
  else match r.indexPre env y with
    | .ok t => .ok (roundHalfEven t)
    | .error e => .error e

def FinRange.encode (env : Env) (c : Consts) (r : FinRange) (y : Rat) : Except Err Rat :=
  match r.mapToInt env y with
  | .ok k => r.rint.encode env c (k : Rat)
  | .error e => .error e

def FinRange.decode (env : Env) (c : Consts) (r : FinRange) (x : Rat) : Except Err Val :=
  match r.rint.decode env c x with
  | .ok k => .ok (r.mapFromInt env k)
  | .error e => .error e

/-! ### categorical encoders -/

/-- index of the first maximum (`np.argmax`) -/
def argmaxAux : List Rat → Nat → Nat → Rat → Nat
  | [], _, bi, _ => bi
  | x :: xs, i, bi, bv => if bv < x then argmaxAux xs (i + 1) i x else argmaxAux xs (i + 1) bi bv

def argmaxFirst : List Rat → Nat
  | [] => 0
  | x :: xs => argmaxAux xs 1 0 x

/-- `HyperparameterRangeCategoricalNonBinary` (one-hot) -/
structure OneHot where
  choices : List Val
  bounds : List (Rat × Rat)
deriving Repr, Inhabited

def mkOneHot (choices : List Val) (active : Option (List Val)) : Except Err OneHot :=
  if choices.isEmpty then .error .assertion
  else match active with
    | none =>
      .ok ⟨choices, if 1 < choices.length then List.replicate choices.length (0, 1) else [(1, 1)]⟩
    | some act =>
      if act.isEmpty then .error .assertion
      else if (choices.filter (fun v => pyIn v act)).length = act.length then
        .ok ⟨choices, choices.map (fun v =>
          if pyIn v act then (if 1 < act.length then ((0 : Rat), (1 : Rat)) else (1, 1)) else (0, 0))⟩
      else .error .assertion

def oneHotVec (n idx : Nat) : List Rat := (List.range n).map (fun i => if i = idx then 1 else 0)

def OneHot.encode (r : OneHot) (hp : Val) : Except Err (List Rat) :=
  match pyIndex hp r.choices with
  | some i => .ok (oneHotVec r.choices.length i)
  | none => .error .assertion

def OneHot.decode (r : OneHot) (xs : List Rat) : Except Err Val :=
  if xs.length = r.choices.length then
    match r.choices[argmaxFirst xs]? with
    | some v => .ok v
    | none => .error .assertion
  else .error .assertion

/-- distinct elements under Python equality (`set(...)`) -/
def dedupPy : List Val → List Val
  | [] => []
  | v :: vs => if pyIn v vs then dedupPy vs else v :: dedupPy vs

/-- `HyperparameterRangeCategoricalBinary` -/
structure BinRange where
  choices : List Val
  rint : IntRange
deriving Repr, Inhabited

/-- the loop computing `active_value` and `num` -/
def binActive (choices act : List Val) : Option Nat × Nat :=
  (List.range choices.length).foldl
    (fun (p : Option Nat × Nat) pos =>
      match choices[pos]? with
      | some v => if pyIn v act then (some pos, p.2 + 1) else p
      | none => p) (none, 0)

def mkBinary (env : Env) (c : Consts) (choices : List Val) (active : Option (List Val)) :
    Except Err BinRange :=
  if choices.length = 2 then
    match active with
    | none =>
      match mkInt env c 0 1 .lin none none with
      | .ok ri => .ok ⟨choices, ri⟩
      | .error e => .error e
    | some act =>
      if act.isEmpty then .error .assertion
      else
        let an := binActive choices act
        if an.2 = (dedupPy act).length then
          let av : Option Int := if an.2 = 2 then none else an.1.map Int.ofNat
          match mkInt env c 0 1 .lin av av with
          | .ok ri => .ok ⟨choices, ri⟩
          | .error e => .error e
        else .error .assertion
  else .error .assertion

def BinRange.encode (env : Env) (c : Consts) (r : BinRange) (hp : Val) : Except Err Rat :=
  match pyIndex hp r.choices with
  | some i => r.rint.encode env c (i : Rat)
  | none => .error .assertion

def choiceAt (choices : List Val) (k : Int) : Except Err Val :=
  if 0 ≤ k then
    match choices[k.toNat]? with
    | some v => .ok v
    | none => .error .assertion
  else .error .assertion

def BinRange.decode (env : Env) (c : Consts) (r : BinRange) (x : Rat) : Except Err Val :=
  match r.rint.decode env c x with
  | .ok k => choiceAt r.choices k
  | .error e => .error e

/-- `all(a == b for a, b in zip(active, choices[firstpos:]))` -/
def zipAllEq : List Val → List Val → Bool
  | a :: as, b :: bs => a.pyEq b && zipAllEq as bs
  | _, _ => true

/-- `_assert_choices_and_active_choices` -/
def firstPos (choices : List Val) (active : Option (List Val)) : Except Err (Option Nat) :=
  if choices.isEmpty then .error .assertion
  else match active with
    | none => .ok none
    | some act =>
      match act with
      | [] => .error .assertion
      | a0 :: _ =>
        match pyIndex a0 choices with
        | some p => if zipAllEq act (choices.drop p) then .ok (some p) else .error .assertion
        | none => .error .assertion

/-- `HyperparameterRangeOrdinalEqual` -/
structure OrdEq where
  choices : List Val
  rint : IntRange
deriving Repr, Inhabited

def mkOrdEq (env : Env) (c : Consts) (choices : List Val) (active : Option (List Val)) :
    Except Err OrdEq :=
  match firstPos choices active with
  | .error e => .error e
  | .ok fp =>
    let aL : Option Int := fp.map Int.ofNat
    let aU : Option Int := fp.map (fun p => Int.ofNat p + Int.ofNat (active.getD []).length - 1)
    match mkInt env c 0 ((choices.length : Int) - 1) .lin aL aU with
    | .ok ri => .ok ⟨choices, ri⟩
    | .error e => .error e

def OrdEq.encode (env : Env) (c : Consts) (r : OrdEq) (hp : Val) : Except Err Rat :=
  match pyIndex hp r.choices with
  | some i => r.rint.encode env c (i : Rat)
  | none => .error .assertion

def OrdEq.decode (env : Env) (c : Consts) (r : OrdEq) (x : Rat) : Except Err Val :=
  match r.rint.decode env c x with
  | .ok k => choiceAt r.choices k
  | .error e => .error e

/-- `HyperparameterRangeOrdinalNearestNeighbor` -/
structure OrdNN where
  dom : NNDom
  rcont : ContRange
deriving Repr, Inhabited

/-- `_get_active_bounds` (the `num_active_choices == 1` assignments of the code are dead:
both variables are overwritten by the two `if`/`else` that follow) -/
def nnActiveBounds (env : Env) (c : Consts) (d : NNDom) (active : Option (List Val)) :
    Except Err (Option Rat × Option Rat) :=
  match active with
  | none => .ok (none, none)
  | some act =>
    match firstPos d.cats (some act) with
    | .error e => .error e
    | .ok none => .error .assertion
    | .ok (some fp) =>
      let ci := d.catsInt env
      let lastpos := fp + act.length - 1
      match ci[fp]?, ci[lastpos]? with
      | some lt, some rt =>
        let aL := if 0 < fp then
            match ci[fp - 1]? with
            | some p => some (lt - c.c499 * (lt - p))
            | none => none
          else d.lowerInt env
        let aU := if lastpos < d.cats.length - 1 then
            match ci[lastpos + 1]? with
            | some n => some (rt + c.c499 * (n - rt))
            | none => none
          else d.upperInt env
        .ok (aL, aU)
      | _, _ => .error .unsupported

def mkOrdNN (env : Env) (c : Consts) (choices : List Val) (log : Bool)
    (active : Option (List Val)) : Except Err OrdNN :=
  let d : NNDom := ⟨choices, log⟩
  if 1 < choices.length ∧ d.ok then
    match nnActiveBounds env c d active, d.lowerInt env, d.upperInt env with
    | .ok (aL, aU), some lo, some hi =>
      match mkCont env c lo hi .lin aL aU with
      | .ok rc => .ok ⟨d, rc⟩
      | .error e => .error e
    | .error e, _, _ => .error e
    | _, _, _ => .error .assertion
  else .error .assertion

def OrdNN.encode (env : Env) (c : Consts) (r : OrdNN) (hp : Val) : Except Err Rat :=
  if pyIn hp r.dom.cats then
    match hp.num? with
    | some x => r.rcont.core.encode env c (r.dom.toInternal env x)
    | none => .error .typeError
  else .error .assertion

def OrdNN.decodePre (env : Env) (c : Consts) (r : OrdNN) (x : Rat) : Except Err Rat :=
  r.rcont.core.decode env c x

def OrdNN.decode (env : Env) (c : Consts) (r : OrdNN) (x : Rat) : Except Err Val :=
  match r.decodePre env c x with
  | .ok w => r.dom.castInt env w
  | .error e => .error e

/-! ### one encoder per hyperparameter -/

inductive Range
  | cont (r : ContRange)
  | int (r : IntRange)
  | fin (r : FinRange)
  | onehot (r : OneHot)
  | binary (r : BinRange)
  | ordeq (r : OrdEq)
  | ordnn (r : OrdNN)
deriving Repr, Inhabited

/-- `ndarray_size()` -/
def Range.size : Range → Nat
  | .onehot r => r.choices.length
  | _ => 1

def Range.bounds : Range → List (Rat × Rat)
  | .cont r => [(r.bLo, r.bHi)]
  | .int r => [(r.cont.bLo, r.cont.bHi)]
  | .fin r => [(r.rint.cont.bLo, r.rint.cont.bHi)]
  | .onehot r => r.bounds
  | .binary r => [(r.rint.cont.bLo, r.rint.cont.bHi)]
  | .ordeq r => [(r.rint.cont.bLo, r.rint.cont.bHi)]
  | .ordnn r => [(r.rcont.bLo, r.rcont.bHi)]

def single (e : Except Err Rat) : Except Err (List Rat) :=
  match e with
  | .ok x => .ok [x]
  | .error err => .error err

def numOf (v : Val) : Except Err Rat :=
  match v.num? with
  | some x => .ok x
  | none => .error .typeError

def Range.encode (env : Env) (c : Consts) : Range → Val → Except Err (List Rat)
  | .cont r, v => match numOf v with
    | .ok x => single (r.core.encode env c x)
    | .error e => .error e
  | .int r, v => match numOf v with
    | .ok x => single (r.encode env c x)
    | .error e => .error e
  | .fin r, v => match numOf v with
    | .ok x => single (r.encode env c x)
    | .error e => .error e
  | .onehot r, v => r.encode v
  | .binary r, v => single (r.encode env c v)
  | .ordeq r, v => single (r.encode env c v)
  | .ordnn r, v => single (r.encode env c v)

def Range.decode1 (env : Env) (c : Consts) : Range → Rat → Except Err Val
  | .cont r, x => match r.core.decode env c x with
    | .ok v => .ok (.flt v)
    | .error e => .error e
  | .int r, x => match r.decode env c x with
    | .ok k => .ok (.int k)
    | .error e => .error e
  | .fin r, x => r.decode env c x
  | .onehot r, x => r.decode [x]
  | .binary r, x => r.decode env c x
  | .ordeq r, x => r.decode env c x
  | .ordnn r, x => r.decode env c x

/-- `from_ndarray` of one encoder on its slice of the vector -/
def Range.decode (env : Env) (c : Consts) (r : Range) (xs : List Rat) : Except Err Val :=
  match r with
  | .onehot o => o.decode xs
  | _ => match xs with
    | [x] => r.decode1 env c x
    | _ => .error .assertion

/-! ### `HyperparameterRangesImpl` -/

/-- one entry of `config_space` with its entry of `active_config_space` -/
structure HP where
  name : String
  dom : Domain
  active : Option Domain := none
deriving Repr, Inhabited

def Domain.isLog : Domain → Bool
  | .flt d => d.q.isNone && d.scale == .log
  | .int d => d.q.isNone && d.scale == .log
  | .nn d => d.log
  | .fin d => d.log
  | .cat _ => false

def Domain.isRLog : Domain → Bool
  | .flt d => d.q.isNone && d.scale == .rlog
  | _ => false

/-- `get_scaling`: a `Quantized` sampler is neither `_LogUniform` nor `_ReverseLogUniform`,
so quantised domains are encoded linearly -/
def Domain.encScale (d : Domain) : ScaleKind :=
  if d.isLog then .log else if d.isRLog then .rlog else .lin

/-- `isinstance(v, type(v2))` of `_assert_sub_config_space` -/
def clsSub : Domain → Domain → Bool
  | .flt _, .flt _ => true
  | .int _, .int _ => true
  | .cat a, .cat b => a.ordinal || !b.ordinal
  | .nn _, .cat _ => true
  | .nn _, .nn _ => true
  | .fin _, .fin _ => true
  | _, _ => false

/-- `_assert_sub_config_space` for one entry (`act` the active domain, `base` the original) -/
def subSpaceOk (act base : Domain) : Bool :=
  act.vtype == base.vtype && act.isLog == base.isLog && act.isRLog == base.isRLog && clsSub act base

def Domain.catsOf : Domain → Option (List Val)
  | .cat d => some d.cats
  | .nn d => some d.cats
  | _ => none

/-- the encoder `HyperparameterRangesImpl.__init__` picks for one hyperparameter -/
def mkRangeCore (env : Env) (c : Consts) (h : HP) : Except Err Range :=
  match h.dom with
  | .nn d =>
    match mkOrdNN env c d.cats d.log (h.active.bind Domain.catsOf) with
    | .ok r => .ok (.ordnn r)
    | .error e => .error e
  | .cat d =>
    if d.ordinal then
      match mkOrdEq env c d.cats (h.active.bind Domain.catsOf) with
      | .ok r => .ok (.ordeq r)
      | .error e => .error e
    else if d.cats.length = 2 then
      match mkBinary env c d.cats (h.active.bind Domain.catsOf) with
      | .ok r => .ok (.binary r)
      | .error e => .error e
    else
      match mkOneHot d.cats (h.active.bind Domain.catsOf) with
      | .ok r => .ok (.onehot r)
      | .error e => .error e
  | .fin d =>
    if h.active.isSome then .error .assertion
    else match mkFin env c d.lower d.upper d.size h.dom.encScale d.castInt with
      | .ok r => .ok (.fin r)
      | .error e => .error e
  | .flt d =>
    let ab : Option (Rat × Rat) := match h.active with
      | some (.flt a) => some (a.lower, a.upper)
      | _ => none
    match mkCont env c d.lower d.upper h.dom.encScale (ab.map (·.1)) (ab.map (·.2)) with
    | .ok r => .ok (.cont r)
    | .error e => .error e
  | .int d =>
    let ab : Option (Int × Int) := match h.active with
      | some (.int a) => some (a.lower, a.upper)
      | _ => none
    match mkInt env c d.lower d.upper h.dom.encScale (ab.map (·.1)) (ab.map (·.2)) with
    | .ok r => .ok (.int r)
    | .error e => .error e

/-- `_assert_sub_config_space`, then the encoder -/
def mkRange (env : Env) (c : Consts) (h : HP) : Except Err Range :=
  match h.active with
  | some a => if subSpaceOk a h.dom then mkRangeCore env c h else .error .assertion
  | none => mkRangeCore env c h

/-- `sorted(keys)` on (distinct) strings, as an insertion sort -/
def insertStr (a : String) : List String → List String
  | [] => [a]
  | b :: bs => if a ≤ b then a :: b :: bs else b :: insertStr a bs

def sortStrs : List String → List String
  | [] => []
  | a :: as => insertStr a (sortStrs as)

/-- `_set_internal_keys`: sorted names, `prefix_keys` first, `name_last_pos` moved to the end.
An error = one of the two assertions fails -/
def internalKeys (names : List String) (prefixKeys : Option (List String))
    (nameLast : Option String) : Except Err (List String) :=
  let sorted := sortStrs names
  let k1 : Except Err (List String) := match prefixKeys with
    | none => .ok sorted
    | some pk =>
      if pk.all (fun k => sorted.contains k) then .ok (pk ++ sorted.filter (fun k => !pk.contains k))
      else .error .assertion
  match k1, nameLast with
  | .error e, _ => .error e
  | .ok ks, none => .ok ks
  | .ok ks, some nl =>
    if ks.contains nl then
      let pos := ks.idxOf nl
      .ok (ks.take pos ++ ks.drop (pos + 1) ++ [nl])
    else .error .assertion

def lookupS {β} (k : String) : List (String × β) → Option β
  | [] => none
  | (k', v) :: xs => if k = k' then some v else lookupS k xs

abbrev Config := List (String × Val)

structure Space where
  entries : List (String × Range)      -- in internal order
  nameLast : Option String
  valueLast : Option Val
deriving Repr, Inhabited

def mkEntries (env : Env) (c : Consts) (hps : List HP) : List String → Except Err (List (String × Range))
  | [] => .ok []
  | k :: ks =>
    match lookupS k (hps.map (fun h => (h.name, h))) with
    | none => .error .keyError
    | some h =>
      match mkRange env c h, mkEntries env c hps ks with
      | .ok r, .ok rest => .ok ((k, r) :: rest)
      | .error e, _ => .error e
      | _, .error e => .error e

def mkSpace (env : Env) (c : Consts) (hps : List HP) (prefixKeys : Option (List String))
    (nameLast : Option String) (valueLast : Option Val) : Except Err Space :=
  match internalKeys (hps.map (·.name)) prefixKeys nameLast with
  | .error e => .error e
  | .ok keys =>
    match mkEntries env c hps keys with
    | .ok es => .ok ⟨es, nameLast, valueLast⟩
    | .error e => .error e

def Space.ndarraySize (s : Space) : Nat := (s.entries.map (fun e => e.2.size)).sum

/-- `to_ndarray`: `config_to_tuple` (a missing key is a `KeyError`), the pieces stacked -/
def encodeAll (env : Env) (c : Consts) : List (String × Range) → Config → Except Err (List Rat)
  | [], _ => .ok []
  | (k, r) :: rest, cfg =>
    match lookupS k cfg with
    | none => .error .keyError
    | some v =>
      match r.encode env c v, encodeAll env c rest cfg with
      | .ok xs, .ok ys => .ok (xs ++ ys)
      | .error e, _ => .error e
      | _, .error e => .error e

def Space.encode (env : Env) (c : Consts) (s : Space) (cfg : Config) : Except Err (List Rat) :=
  encodeAll env c s.entries cfg

def decodeAll (env : Env) (c : Consts) : List (String × Range) → List Rat → Except Err Config
  | [], _ => .ok []
  | (k, r) :: rest, xs =>
    match r.decode env c (xs.take r.size), decodeAll env c rest (xs.drop r.size) with
    | .ok v, .ok cfg => .ok ((k, v) :: cfg)
    | .error e, _ => .error e
    | _, .error e => .error e

/-- `from_ndarray` -/
def Space.decode (env : Env) (c : Consts) (s : Space) (xs : List Rat) : Except Err Config :=
  if xs.length = s.ndarraySize then decodeAll env c s.entries xs else .error .assertion

def replaceLast {α} (l : List α) (n : Nat) (new : List α) : List α := l.take (l.length - n) ++ new

/-- `get_ndarray_bounds` incl. the fixed last position -/
def Space.bounds (env : Env) (c : Consts) (s : Space) : Except Err (List (Rat × Rat)) :=
  let bs := (s.entries.map (fun e => e.2.bounds)).flatten
  match s.nameLast, s.valueLast with
  | some _, some v =>
    match s.entries.getLast? with
    | none => .error .assertion
    | some (_, r) =>
      match r.encode env c v with
      | .ok enc => .ok (replaceLast bs enc.length (enc.map (fun x => (x, x))))
      | .error e => .error e
  | _, _ => .ok bs

end SyneTune.Dom
