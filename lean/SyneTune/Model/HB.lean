import SyneTune.Model.Rung
/-
Model of the asynchronous Hyperband family:
* `hyperband_stopping.py`  : `RungSystem`, `StoppingRungSystem`
* `hyperband_promotion.py` : `PromotionRungSystem`
* `hyperband.py`           : `HyperbandBracketManager`, the decision part of
                             `HyperbandScheduler` (`_active_trials`, `on_trial_result`,
                             `_promote_trial`, `_on_config_suggest`, `_update_searcher`,
                             `on_trial_remove/complete/error`)
* `utils/successive_halving.py` : `successive_halving_rung_levels`
Everything the code does not decide itself (bracket drawn from the manager's
`random_state`, the searcher's configuration) is an input.
-/
namespace SyneTune

inductive HBType | stopping | promotion
deriving DecidableEq, Repr, Inhabited

def HBType.pauseResume : HBType → Bool
  | .stopping => false
  | .promotion => true

/-- Error kinds of the model (Python `assert` / exception). -/
inductive Err | assertion (what : String) | keyError (what : String)
deriving DecidableEq, Repr

/-- Result of `rung_sys.on_task_report` / `terminator.on_task_report`. -/
structure RepOut where
  continues : Bool
  reached : Bool
  next : Option Nat
  ignoreData : Bool := false
  free : Bool := false
deriving DecidableEq, Repr

/-- `RungSystem`: `_rungs` in *decreasing* level order, `_max_t`, and (promotion only)
`_running : trial ↦ (milestone, resume_from)`. -/
structure RungSys where
  rungs : List Rung
  maxT : Nat
  running : List (Nat × (Nat × Option Nat)) := []
deriving Repr, Inhabited

/-- `self._rungs[:(-skip_rungs)]` for `skip_rungs > 0`, else all. -/
def milestoneRungs (rungs : List Rung) (skip : Nat) : List Rung :=
  rungs.take (rungs.length - skip)

/-- `get_first_milestone`. -/
def RungSys.firstMilestone (s : RungSys) (skip : Nat) : Nat :=
  if skip < s.rungs.length then
    match s.rungs[s.rungs.length - (skip + 1)]? with
    | some r => r.level
    | none => s.maxT
  else s.maxT

/-- `get_milestones` (decreasing, without `max_t`). -/
def RungSys.milestones (s : RungSys) (skip : Nat) : List Nat :=
  (milestoneRungs s.rungs skip).map (·.level)

/-- `StoppingRungSystem._task_continues` on the rung *after* insertion. -/
def taskContinues (m : Mode) (v : Rat) (rg : Rung) (hint : Bool) : Bool × Bool :=
  match rg.cutoff m with
  | none => (true, false)
  | some c => let cmp := cmpNoWorse m v c; (cmp.resolve hint, cmp.isFree)

/-- The `for rung in self._milestone_rungs(skip_rungs)` loop of
`StoppingRungSystem.on_task_report`; `next` is the loop variable `next_milestone`. -/
def stopScan (m : Mode) (tid r : Nat) (v : Rat) (hint : Bool) (next : Nat) :
    List Rung → List Rung × RepOut
  | [] => ([], { continues := true, reached := false, next := some next })
  | rg :: rest =>
    if r < rg.level ∨ rg.contains tid then
      let res := stopScan m tid r v hint rg.level rest
      (rg :: res.1, res.2)
    else if rg.level < r then
      (rg :: rest, { continues := true, reached := false, next := some next })
    else
      let rg' := rg.add m { tid := tid, val := v }
      let c := taskContinues m v rg' hint
      (rg' :: rest, { continues := c.1, reached := true, next := some next, free := c.2 })

/-- `StoppingRungSystem.on_task_report`. -/
def RungSys.stopReport (s : RungSys) (m : Mode) (tid r : Nat) (v : Rat) (skip : Nat)
    (hint : Bool) : RungSys × RepOut :=
  if r = s.maxT then
    (s, { continues := false, reached := true, next := none })
  else
    let ms := milestoneRungs s.rungs skip
    let low := s.rungs.drop (s.rungs.length - skip)
    let res := stopScan m tid r v hint s.maxT ms
    ({ s with rungs := res.1 ++ low }, res.2)

/-! ### promotion -/

/-- first entry (in rung order, best first) which is not yet promoted, with its position -/
def firstUnpromoted : List Entry → Nat → Option (Entry × Nat)
  | [], _ => none
  | e :: es, pos => if !e.promoted then some (e, pos) else firstUnpromoted es (pos + 1)

/-- `PromotionRungSystem._find_promotable_trial` : `(trial_id, pos, free)`. -/
def findPromotable (m : Mode) (rg : Rung) (hint : Option Nat) : Option (Nat × Nat) × Bool :=
  match rg.cutoff m with
  | none => (none, false)
  | some c =>
    match firstUnpromoted rg.data 0 with
    | none => (none, false)
    | some (e, pos) =>
      -- `sign * (metric_val - cutoff) < 0` ⇒ not good enough.  i.e. promotable iff no worse
      let cmp := cmpNoWorse m e.val c
      -- a free comparison follows the implementation: `hint` = level it resumed from
      if cmp.resolve (hint == some rg.level) then (some (e.tid, pos), cmp.isFree) else (none, cmp.isFree)

/-- `_mark_as_promoted`: pop position `pos`, set flag, re-insert (`SortedList.add`). -/
def markPromoted (m : Mode) (rg : Rung) (pos : Nat) : Rung :=
  match rg.data[pos]? with
  | none => rg
  | some e => { rg with data := insertEntry m { e with promoted := true } (rg.data.eraseIdx pos) }

structure SchedOut where
  trial : Nat
  resumeFrom : Nat
  milestone : Nat
deriving DecidableEq, Repr

/-- loop of `PromotionRungSystem.on_task_schedule` over `_rungs` (decreasing levels);
`cap` is `_effective_max_t()`; `hints` gives one hint per rung scanned that needs one. -/
def promoScan (m : Mode) (cap : Nat) (hint : Option Nat) (next : Nat) :
    List Rung → List Rung × Option SchedOut × Bool
  | [] => ([], none, false)
  | rg :: rest =>
    if rg.level < cap then
      match findPromotable m rg hint with
      | (some (tid, pos), fr) =>
        (markPromoted m rg pos :: rest, some ⟨tid, rg.level, next⟩, fr)
      | (none, fr) =>
        let res := promoScan m cap hint rg.level rest
        (rg :: res.1, res.2.1, fr || res.2.2)
    else
      let res := promoScan m cap hint rg.level rest
      (rg :: res.1, res.2.1, res.2.2)

/-- `PromotionRungSystem.on_task_schedule`. -/
def RungSys.promoSchedule (s : RungSys) (m : Mode) (cap : Nat) (hint : Option Nat) :
    RungSys × Option SchedOut × Bool :=
  let res := promoScan m cap hint s.maxT s.rungs
  ({ s with rungs := res.1 }, res.2.1, res.2.2)

/-- `_rung_pos_for_level`. -/
def rungPos (rungs : List Rung) (level : Nat) : Option Nat :=
  rungs.findIdx? (fun r => r.level == level)

/-- `PromotionRungSystem.on_task_report`. -/
def RungSys.promoReport (s : RungSys) (m : Mode) (tid r : Nat) (v : Rat) :
    Except Err (RungSys × RepOut) :=
  match alookup tid s.running with
  | none => .error (.keyError "_running")
  | some (milestone, resumeFrom) =>
    let ignore := match resumeFrom with | some f => decide (r ≤ f) | none => false
    if milestone ≤ r then
      if r ≠ milestone then .error (.assertion "resource > milestone") else
      match rungPos s.rungs milestone with
      | none => .ok (s, { continues := false, reached := true, next := none, ignoreData := ignore })
      | some pos =>
        match s.rungs[pos]? with
        | none => .error (.assertion "rung_pos")
        | some rg =>
          if rg.contains tid then .error (.assertion "trial_id not in rung") else
          let rg' := rg.add m { tid := tid, val := v }
          let nxt := if pos > 0 then (match s.rungs[pos - 1]? with | some u => u.level | none => s.maxT)
                     else s.maxT
          .ok ({ s with rungs := s.rungs.set pos rg' },
               { continues := false, reached := true, next := some nxt, ignoreData := ignore })
    else
      .ok (s, { continues := true, reached := false, next := none, ignoreData := ignore })

/-! ### bracket manager -/

structure Manager where
  type : HBType
  mode : Mode
  maxT : Nat
  rungLevels : List Nat          -- increasing, all `< maxT`
  numBrackets : Nat
  perBracket : Bool
  systems : List RungSys
  taskInfo : List (Nat × Nat) := []   -- trial ↦ bracket
deriving Repr, Inhabited

/-- promotion quantiles `q_j = r_j / r_{j+1}` with `r_{last+1} = max_t`. -/
def promoteQuantiles (levels : List Nat) (maxT : Nat) : List Rat :=
  List.zipWith (fun (x y : Nat) => (x : Rat) / (y : Rat)) levels (levels.drop 1 ++ [maxT])

def mkRungSys (levels : List Nat) (quants : List Rat) (maxT : Nat) : RungSys :=
  { rungs := (List.zipWith (fun l q => ({ level := l, q := q, data := [] } : Rung)) levels quants).reverse,
    maxT := maxT }

def Manager.init (type : HBType) (mode : Mode) (maxT : Nat) (levels : List Nat) (brackets : Nat)
    (perBracket : Bool) : Manager :=
  let nb := min brackets (levels.length + 1)
  let nsys := if perBracket then nb else 1
  let qs := promoteQuantiles levels maxT
  { type := type, mode := mode, maxT := maxT, rungLevels := levels, numBrackets := nb,
    perBracket := perBracket,
    systems := (List.range nsys).map (fun s => mkRungSys (levels.drop s) (qs.drop s) maxT) }

/-- `_get_rung_system_for_bracket_id` : `(sys_id, skip_rungs)`. -/
def Manager.sysFor (g : Manager) (bracket : Nat) : Nat × Nat :=
  if g.perBracket then (bracket, 0) else (0, bracket)

def Manager.setSys (g : Manager) (i : Nat) (s : RungSys) : Manager :=
  { g with systems := g.systems.set i s }

/-- `on_task_add`; returns first milestone of the list (its last element `[-1]`). -/
def Manager.taskAdd (g : Manager) (tid bracket : Nat) (resume : Option (Nat × Nat)) :
    Except Err (Manager × Nat) :=
  let (si, skip) := g.sysFor bracket
  match g.systems[si]? with
  | none => .error (.assertion "bracket index")
  | some s =>
    let g1 := { g with taskInfo := aset tid bracket g.taskInfo }
    -- `rung_sys.on_task_add` (promotion only; stopping: pass)
    let s' : Except Err RungSys :=
      if g.type.pauseResume then
        match resume with
        | none => .ok { s with running := aset tid (s.firstMilestone skip, none) s.running }
        | some (milestone, resumeFrom) =>
          if ¬ (resumeFrom < milestone) then .error (.assertion "resume_from < milestone")
          else .ok { s with running := aset tid (milestone, some resumeFrom) s.running }
      else .ok s
    match s' with
    | .error e => .error e
    | .ok s' =>
      let ms := s'.milestones skip
      -- `milestones.insert(0, max_t)`; `[-1]` is the smallest milestone or `max_t`
      let first := match ms.getLast? with | some l => l | none => g.maxT
      .ok (g1.setSys si s', first)

/-- dispatch to the rung system of the scheduler type -/
def Manager.sysReport (g : Manager) (s : RungSys) (tid r : Nat) (v : Rat) (skip : Nat) (hint : Bool) :
    Except Err (RungSys × RepOut) :=
  match g.type with
  | .stopping => .ok (s.stopReport g.mode tid r v skip hint)
  | .promotion => s.promoReport g.mode tid r v

/-- "If config just reached the last milestone in the bracket and survived,
next_milestone is equal to max_t". -/
def fixNext (maxT : Nat) (o : RepOut) : RepOut :=
  if o.continues ∧ o.reached ∧ o.next = none then { o with next := some maxT } else o

/-- `HyperbandBracketManager.on_task_report`. -/
def Manager.taskReport (g : Manager) (tid r : Nat) (v : Rat) (hint : Bool) :
    Except Err (Manager × RepOut) :=
  match alookup tid g.taskInfo with
  | none => .error (.keyError "_task_info")
  | some bracket =>
    match g.systems[(g.sysFor bracket).1]? with
    | none => .error (.assertion "bracket index")
    | some s =>
      if r < g.maxT then
        match g.sysReport s tid r v (g.sysFor bracket).2 hint with
        | .error e => .error e
        | .ok res => .ok (g.setSys (g.sysFor bracket).1 res.1, fixNext g.maxT res.2)
      else
        .ok (g, { continues := false, reached := true, next := none })

/-- `on_task_remove`. -/
def Manager.taskRemove (g : Manager) (tid : Nat) : Manager :=
  match alookup tid g.taskInfo with
  | none => g
  | some bracket =>
    let (si, _) := g.sysFor bracket
    let g' := match g.systems[si]? with
      | some s => g.setSys si { s with running := adel tid s.running }
      | none => g
    { g' with taskInfo := adel tid g'.taskInfo }

/-- `on_task_schedule` with the sampled bracket as input: `(promoted?, bracket, milestone)`. -/
def Manager.taskSchedule (g : Manager) (bracket : Nat) (hint : Option Nat) :
    Except Err (Manager × Option SchedOut × Nat × Bool) :=
  let (si, skip) := g.sysFor bracket
  match g.systems[si]? with
  | none => .error (.assertion "bracket index")
  | some s =>
    match g.type with
    | .stopping => .ok (g, none, s.firstMilestone skip, false)
    | .promotion =>
      let (s', so, fr) := s.promoSchedule g.mode s.maxT hint
      match so with
      | some o => .ok (g.setSys si s', some o, o.milestone, fr)
      | none => .ok (g.setSys si s', none, s.firstMilestone skip, fr)

/-! ### scheduler -/

inductive SearcherData | rungs | all | rungsAndLast
deriving DecidableEq, Repr, Inhabited

/-- calls the scheduler makes on its searcher (the C14 interface) -/
inductive SCall
  | pending (tid r : Nat)
  | update (tid r : Nat) (v : Rat) (upd : Bool)   -- `searcher.on_trial_result(..., update=upd)`
  | removeCase (tid r : Nat) (v : Rat)
  | cleanup (tid : Nat)                           -- `cleanup_pending`
  | evalFailed (tid : Nat)
deriving DecidableEq, Repr

structure TrialInfo where
  bracket : Nat
  decision : Decision := .continue
  keepCase : Bool := false
  reported : Option (Rat × Nat) := none
  largestUpdate : Option Nat := none
deriving DecidableEq, Repr, Inhabited

structure Sched where
  mgr : Manager
  searcherData : SearcherData := .rungs
  pendingMyopic : Bool := false
  maxResourceAttr : Bool := false
  active : List (Nat × TrialInfo) := []
deriving Repr, Inhabited

inductive Suggestion
  | start (tid bracket milestone : Nat)
  | resume (tid resumeFrom milestone : Nat)
deriving DecidableEq, Repr

def rangeIncl (a b : Nat) : List Nat := (List.range (b + 1 - a)).map (· + a)

/-- `_suggest` when the searcher returns a configuration (searcher exhaustion is outside
this model). `newTid` is the id handed to `_suggest`. -/
def Sched.suggest (s : Sched) (newTid bracket : Nat) (hint : Option Nat) :
    Except Err (Sched × Suggestion × List SCall × Bool) :=
  match s.mgr.taskSchedule bracket hint with
  | .error e => .error e
  | .ok (g, so, milestone, fr) =>
    match so with
    | none =>
      -- `_on_config_suggest`
      if (alookup newTid s.active).isSome then .error (.assertion "Trial already exists") else
      match g.taskAdd newTid bracket none with
      | .error e => .error e
      | .ok (g', first) =>
        let pend := match s.searcherData with
          | .rungs => [first]
          | _ => if s.pendingMyopic then [1] else rangeIncl 1 first
        .ok ({ s with mgr := g', active := aset newTid { bracket := bracket } s.active },
             .start newTid bracket milestone, pend.map (SCall.pending newTid), fr)
    | some o =>
      match g.taskAdd o.trial bracket (some (o.milestone, o.resumeFrom)) with
      | .error e => .error e
      | .ok (g', _) =>
        match alookup o.trial s.active with
        | none => .error (.assertion "Paused trial must be in _active_trials")
        | some rec =>
          if rec.decision = .continue then .error (.assertion "Paused trial marked as running") else
          let rec' := { rec with decision := .continue }
          let pend := match s.searcherData with
            | .rungs => [o.milestone]
            | _ => if s.pendingMyopic then [o.resumeFrom + 1] else rangeIncl (o.resumeFrom + 1) o.milestone
          .ok ({ s with mgr := g', active := aset o.trial rec' s.active },
               .resume o.trial o.resumeFrom o.milestone, pend.map (SCall.pending o.trial), fr)

/-- `_cleanup_trial`. -/
def Sched.cleanup (s : Sched) (tid : Nat) (d : Decision) : Sched :=
  let g := s.mgr.taskRemove tid
  match alookup tid s.active with
  | none => { s with mgr := g }
  | some rec => { s with mgr := g, active := aset tid { rec with decision := d } s.active }

/-- `_update_searcher` : `(do_update, calls)`; `calls` in the order the code issues them. -/
def Sched.updateSearcher (s : Sched) (tid r : Nat) (_v : Rat) (o : RepOut) (rec : TrialInfo) :
    Bool × List SCall :=
  match s.searcherData with
  | .rungs =>
    if r ∈ s.mgr.rungLevels ∨ r = s.mgr.maxT then
      let pend := if o.continues ∧ o.reached then (match o.next with | some n => [n] | none => []) else []
      (true, pend.map (SCall.pending tid))
    else (false, [])
  | sd =>
    if o.ignoreData then (false, []) else
    let pend :=
      if o.continues then
        if s.pendingMyopic ∨ o.next = none then [r + 1]
        else if o.reached then (match o.next with | some n => rangeIncl (r + 1) n | none => [])
        else []
      else []
    let rem := if sd = .rungsAndLast then
        (match rec.reported with
         | some (pv, pr) => if !rec.keepCase then [SCall.removeCase tid pr pv] else []
         | none => [])
      else []
    (true, rem ++ pend.map (SCall.pending tid))

structure ResOut where
  decision : Decision
  free : Bool
  calls : List SCall
deriving DecidableEq, Repr

/-- STOP / PAUSE / CONTINUE from the rung system's answer. -/
def Sched.decisionFor (s : Sched) (r : Nat) (o : RepOut) : Decision :=
  if o.continues then .continue
  else if ¬ s.mgr.type.pauseResume ∨ s.mgr.maxT ≤ r then .stop else .pause

/-- `largest_update_resource`, defaulting to `resource - 1`. -/
def TrialInfo.lastUpdate (rec : TrialInfo) (r : Nat) : Nat :=
  match rec.largestUpdate with | some l => l | none => r - 1

/-- update of the `TrialInformation` record and the final `do_update` flag -/
def TrialInfo.afterReport (rec : TrialInfo) (r : Nat) (v : Rat) (o : RepOut) (doUpd : Bool) :
    Bool × TrialInfo :=
  let rec1 := { rec with reported := some (v, r), keepCase := o.reached }
  if doUpd then
    if r = rec.lastUpdate r then (false, rec1) else (true, { rec1 with largestUpdate := some r })
  else (false, rec1)

/-- the `else` branch of `on_trial_result` once the rung system has answered `o`
(`ignore_data = False`). -/
def Sched.onResultLive (s : Sched) (tid r : Nat) (v : Rat) (rec : TrialInfo) (o : RepOut) :
    Except Err (Sched × ResOut) :=
  let upd := s.updateSearcher tid r v o rec
  if upd.1 ∧ ¬ (rec.lastUpdate r ≤ r) then .error (.assertion "largest_update_resource <= resource") else
  let ar := rec.afterReport r v o upd.1
  let s2 := { s with active := aset tid ar.2 s.active }
  let d := s.decisionFor r o
  let s3 := if o.continues then s2 else s2.cleanup tid d
  .ok (s3, { decision := d, free := o.free, calls := upd.2 ++ [SCall.update tid r v ar.1] })

/-- `HyperbandScheduler.on_trial_result` (cost handling is in the cost model). -/
def Sched.onResult (s : Sched) (tid r : Nat) (v : Rat) (hint : Bool) : Except Err (Sched × ResOut) :=
  match alookup tid s.active with
  | none => .error (.keyError "_active_trials")
  | some rec =>
    if rec.decision ≠ .continue then
      .ok (s, { decision := rec.decision, free := false, calls := [SCall.update tid r v false] })
    else
      match s.mgr.taskReport tid r v hint with
      | .error e => .error e
      | .ok res =>
        if res.2.ignoreData then
          .ok ({ s with mgr := res.1 }, { decision := .continue, free := res.2.free, calls := [] })
        else
          ({ s with mgr := res.1 } : Sched).onResultLive tid r v rec res.2

/-- `on_trial_remove`. -/
def Sched.onRemove (s : Sched) (tid : Nat) : Sched := s.cleanup tid .pause

/-- `on_trial_error` (`super().on_trial_error` → `searcher.evaluation_failed`). -/
def Sched.onError (s : Sched) (tid : Nat) : Sched × List SCall :=
  (s.cleanup tid .stop, [SCall.evalFailed tid])

/-- `on_trial_complete`. -/
def Sched.onComplete (s : Sched) (tid r : Nat) (v : Rat) : Except Err (Sched × List SCall) :=
  match alookup tid s.active with
  | none => .error (.keyError "_active_trials")
  | some rec =>
    let upd := match rec.largestUpdate with
      | some l => if l < r then [SCall.update tid r v true] else []
      | none => []
    .ok (s.cleanup tid .stop, upd ++ [SCall.cleanup tid])

/-! ### rung levels -/

def powRat (b : Rat) : Nat → Rat
  | 0 => 1
  | k + 1 => powRat b k * b

/-- number of rungs: smallest `k` with `min_t * rf^k ≥ max_t` (`while` loop, fuel = `max_t`). -/
def maxRungs (minT : Nat) (rf : Rat) (maxT : Nat) : Nat → Nat → Nat
  | 0, k => k
  | fuel + 1, k => if (minT : Rat) * powRat rf k < (maxT : Rat) then maxRungs minT rf maxT fuel (k + 1) else k

/-- `successive_halving_rung_levels` for the `reduction_factor` / `rung_increment` /
explicit cases (validity assertions are the caller's contract). -/
def rungLevelsRF (minT : Nat) (rf : Rat) (maxT : Nat) : List Nat :=
  let k := maxRungs minT rf maxT maxT 0
  let ls := (List.range k).map (fun j => (roundHalfEven ((minT : Rat) * powRat rf j)).toNat)
  if ls.getLast? = some maxT then ls.dropLast else ls

def rungLevelsInc (minT inc maxT : Nat) : List Nat :=
  -- `range(grace_period, max_t, rung_increment)`
  (List.range ((maxT - minT + inc - 1) / inc)).map (fun j => minT + j * inc)

def rungLevelsExplicit (ls : List Nat) (maxT : Nat) : List Nat :=
  if ls.getLast? = some maxT then ls.dropLast else ls

end SyneTune
