import SyneTune.Model.Rung
/-
Model of the asynchronous Hyperband family:
* `hyperband_stopping.py`  : `RungSystem`, `StoppingRungSystem`
* `hyperband_promotion.py` : `PromotionRungSystem`
* `hyperband.py`           : `HyperbandBracketManager`, the decision part of
                             `HyperbandScheduler` (`_active_trials`, `on_trial_result`,
                             `_promote_trial`, `_on_config_suggest`, `_update_searcher`,
                             `on_trial_remove/complete/error`)
* `utils/successive_halving.py` : `successive_halving_rung_levels`
Everything the code does not decide itself (bracket drawn from the manager's
`random_state`, the searcher's configuration) is an input.
-/
namespace SyneTune

inductive HBType | stopping | promotion | pasha | costPromotion | rushStopping | rushPromotion
deriving DecidableEq, Repr, Inhabited

def HBType.pauseResume : HBType → Bool
  | .stopping => false
  | .rushStopping => false
  | _ => true

/-- Error kinds of the model (Python `assert` / exception). -/
inductive Err | assertion (what : String) | keyError (what : String) | indexError (what : String)
deriving DecidableEq, Repr

/-- Result of `rung_sys.on_task_report` / `terminator.on_task_report`. -/
structure RepOut where
  continues : Bool
  reached : Bool
  next : Option Nat
  ignoreData : Bool := false
  free : Bool := false
deriving DecidableEq, Repr

/-- `RungSystem`: `_rungs` in *decreasing* level order, `_max_t`, and (promotion only)
`_running : trial ↦ (milestone, resume_from)`. -/
structure RungSys where
  rungs : List Rung
  maxT : Nat
  running : List (Nat × (Nat × Option Nat)) := []
  -- RUSH (`RUSHDecider`): `_num_threshold_candidates`, `_thresholds : resource ↦ value`
  numThr : Nat := 0
  thresholds : List (Nat × Rat) := []
  -- PASHA: `rung_levels` (increasing), `current_rung_idx`, `current_max_t`, `epsilon`
  levelsAsc : List Nat := []
  curIdx : Nat := 0
  curMaxT : Nat := 0
  epsilon : Rat := 0
deriving Repr, Inhabited

/-- `self._rungs[:(-skip_rungs)]` for `skip_rungs > 0`, else all. -/
def milestoneRungs (rungs : List Rung) (skip : Nat) : List Rung :=
  rungs.take (rungs.length - skip)

/-- `get_first_milestone`. -/
def RungSys.firstMilestone (s : RungSys) (skip : Nat) : Nat :=
  if skip < s.rungs.length then
    match s.rungs[s.rungs.length - (skip + 1)]? with
    | some r => r.level
    | none => s.maxT
  else s.maxT

/-- `get_milestones` (decreasing, without `max_t`). -/
def RungSys.milestones (s : RungSys) (skip : Nat) : List Nat :=
  (milestoneRungs s.rungs skip).map (·.level)

/-- `StoppingRungSystem._task_continues` on the rung *after* insertion. -/
def taskContinues (m : Mode) (v : Rat) (rg : Rung) (hint : Bool) : Bool × Bool :=
  match rg.cutoff m with
  | none => (true, false)
  | some c => let cmp := cmpNoWorse m v c rg.scale; (cmp.resolve hint, cmp.isFree)

/-- The `for rung in self._milestone_rungs(skip_rungs)` loop of
`StoppingRungSystem.on_task_report`; `next` is the loop variable `next_milestone`. -/
def stopScan (m : Mode) (tid r : Nat) (v : Rat) (hint : Bool) (next : Nat) :
    List Rung → List Rung × RepOut
  | [] => ([], { continues := true, reached := false, next := some next })
  | rg :: rest =>
    if r < rg.level ∨ rg.contains tid then
      let res := stopScan m tid r v hint rg.level rest
      (rg :: res.1, res.2)
    else if rg.level < r then
      (rg :: rest, { continues := true, reached := false, next := some next })
    else
      let rg' := rg.add m { tid := tid, val := v }
      let c := taskContinues m v rg' hint
      (rg' :: rest, { continues := c.1, reached := true, next := some next, free := c.2 })

/-- `StoppingRungSystem.on_task_report`. -/
def RungSys.stopReport (s : RungSys) (m : Mode) (tid r : Nat) (v : Rat) (skip : Nat)
    (hint : Bool) : RungSys × RepOut :=
  if r = s.maxT then
    (s, { continues := false, reached := true, next := none })
  else
    let ms := milestoneRungs s.rungs skip
    let low := s.rungs.drop (s.rungs.length - skip)
    let res := stopScan m tid r v hint s.maxT ms
    ({ s with rungs := res.1 ++ low }, res.2)

/-! ### promotion -/

/-- first entry (in rung order, best first) which is not yet promoted, with its position -/
def firstUnpromoted : List Entry → Nat → Option (Entry × Nat)
  | [], _ => none
  | e :: es, pos => if !e.promoted then some (e, pos) else firstUnpromoted es (pos + 1)

/-! #### RUSH decider -/

/-- `RUSHDecider._return_better(thr, v)` with `thr = None ↦ ±inf` (Python `min`/`max`:
the first argument wins ties). -/
def rushBetter (m : Mode) (thr : Option Rat) (v : Rat) : Rat :=
  match thr with
  | none => v
  | some t => match m with
    | .min => if v < t then v else t
    | .max => if t < v then v else t

/-- `RUSHDecider.task_continues` : `(continues, thresholds')`. -/
def rushDecide (m : Mode) (numThr : Nat) (thr : List (Nat × Rat)) (tc : Bool) (tid : Nat) (v : Rat)
    (resource : Nat) : Bool × List (Nat × Rat) :=
  if !tc then (false, thr)
  else if tid < numThr then (true, aset resource (rushBetter m (alookup resource thr) v) thr)
  else (decide (rushBetter m (alookup resource thr) v = v), thr)

/-- RUSH promotion: the `for pos, entry in enumerate(rung.data): if self._is_promotable_trial(...)`
scan, threading the thresholds (a threshold candidate updates its level's threshold when
scanned). -/
def rushFirstPromotable (m : Mode) (numThr : Nat) (level : Nat) :
    List Entry → Nat → List (Nat × Rat) → Option (Entry × Nat) × List (Nat × Rat)
  | [], _, thr => (none, thr)
  | e :: es, pos, thr =>
    let d := rushDecide m numThr thr (!e.promoted) e.tid e.val level
    if d.1 then (some (e, pos), d.2) else rushFirstPromotable m numThr level es (pos + 1) d.2

/-- cost-aware promotion: scan with running cost sum against `threshold`; the comparison
`sum_costs > cost_threshold` is forced/free (threshold is a float product in the code). -/
def costFirstPromotable (threshold total : Rat) (level : Nat) (hint : Option Nat) :
    List Entry → Nat → Rat → Option (Entry × Nat) × Bool
  | [], _, _ => (none, false)
  | e :: es, pos, acc =>
    let sum := acc + e.cost
    let cmp := cmpLe sum threshold (absRat total)   -- `not (sum_costs > cost_threshold)`
    -- a free comparison follows the implementation: promoted from this level or not
    let within := cmp.resolve (hint == some level)
    if !within then (none, cmp.isFree)
    else if !e.promoted then (some (e, pos), cmp.isFree)
    else
      let r := costFirstPromotable threshold total level hint es (pos + 1) sum
      (r.1, cmp.isFree || r.2)

structure FindOut where
  pick : Option (Nat × Nat)        -- `(trial_id, pos)`
  free : Bool
  thr : List (Nat × Rat)
deriving Repr

/-- `CostPromotionRungSystem._find_promotable_trial`. -/
def findPromotableCost (thr : List (Nat × Rat)) (rg : Rung) (hint : Option Nat) : FindOut :=
  if rg.data.length > 1 then
    { pick := (costFirstPromotable ((rg.data.map (·.cost)).foldl (· + ·) 0 * rg.q)
                ((rg.data.map (·.cost)).foldl (· + ·) 0) rg.level hint rg.data 0 0).1.map (fun x => (x.1.tid, x.2)),
      free := (costFirstPromotable ((rg.data.map (·.cost)).foldl (· + ·) 0 * rg.q)
                ((rg.data.map (·.cost)).foldl (· + ·) 0) rg.level hint rg.data 0 0).2,
      thr := thr }
  else { pick := none, free := false, thr := thr }

/-- the quantile test on the candidate: `sign * (metric_val - cutoff) < 0` ⇒ not good enough,
i.e. promotable iff no worse; a free comparison follows the implementation (`hint` = level it
resumed from). -/
def quantileTest (m : Mode) (rg : Rung) (c : Rat) (hint : Option Nat) (cand : Option (Entry × Nat))
    (thr : List (Nat × Rat)) : FindOut :=
  match cand with
  | none => { pick := none, free := false, thr := thr }
  | some ep =>
    if (cmpNoWorse m ep.1.val c rg.scale).resolve (hint == some rg.level) then
      { pick := some (ep.1.tid, ep.2), free := (cmpNoWorse m ep.1.val c rg.scale).isFree, thr := thr }
    else { pick := none, free := (cmpNoWorse m ep.1.val c rg.scale).isFree, thr := thr }

/-- `PromotionRungSystem._find_promotable_trial` (also PASHA); with `rush` the candidate scan is
`RUSHPromotionRungSystem._is_promotable_trial`. -/
def findPromotableQ (rush : Bool) (m : Mode) (numThr : Nat) (thr : List (Nat × Rat)) (rg : Rung)
    (hint : Option Nat) : FindOut :=
  match rg.cutoff m with
  | none => { pick := none, free := false, thr := thr }
  | some c =>
    if rush then
      quantileTest m rg c hint (rushFirstPromotable m numThr rg.level rg.data 0 thr).1
        (rushFirstPromotable m numThr rg.level rg.data 0 thr).2
    else quantileTest m rg c hint (firstUnpromoted rg.data 0) thr

/-- `_find_promotable_trial` of `PromotionRungSystem` (also PASHA), `RUSHPromotionRungSystem`
(via `_is_promotable_trial`) and `CostPromotionRungSystem`. -/
def findPromotable (ty : HBType) (m : Mode) (numThr : Nat) (thr : List (Nat × Rat)) (rg : Rung)
    (hint : Option Nat) : FindOut :=
  match ty with
  | .costPromotion => findPromotableCost thr rg hint
  | .rushPromotion => findPromotableQ true m numThr thr rg hint
  | _ => findPromotableQ false m numThr thr rg hint

/-- `_mark_as_promoted`: pop position `pos`, set flag, re-insert (`SortedList.add`). -/
def markPromoted (m : Mode) (rg : Rung) (pos : Nat) : Rung :=
  match rg.data[pos]? with
  | none => rg
  | some e => { rg with data := insertEntry m { e with promoted := true } (rg.data.eraseIdx pos) }

structure SchedOut where
  trial : Nat
  resumeFrom : Nat
  milestone : Nat
deriving DecidableEq, Repr

structure ScanOut where
  rungs : List Rung
  out : Option SchedOut
  free : Bool
  thr : List (Nat × Rat)
deriving Repr

/-- loop of `PromotionRungSystem.on_task_schedule` over `_rungs` (decreasing levels);
`cap` is `_effective_max_t()`. -/
def promoScan (ty : HBType) (m : Mode) (numThr : Nat) (cap : Nat) (hint : Option Nat) (next : Nat)
    (thr : List (Nat × Rat)) : List Rung → ScanOut
  | [] => { rungs := [], out := none, free := false, thr := thr }
  | rg :: rest =>
    if rg.level < cap then
      let f := findPromotable ty m numThr thr rg hint
      match f.pick with
      | some (tid, pos) =>
        { rungs := markPromoted m rg pos :: rest, out := some ⟨tid, rg.level, next⟩, free := f.free, thr := f.thr }
      | none =>
        let res := promoScan ty m numThr cap hint rg.level f.thr rest
        { res with rungs := rg :: res.rungs, free := f.free || res.free }
    else
      let res := promoScan ty m numThr cap hint rg.level thr rest
      { res with rungs := rg :: res.rungs }

/-- `_effective_max_t()`. -/
def RungSys.cap (s : RungSys) (ty : HBType) : Nat :=
  if ty = .pasha then s.curMaxT else s.maxT

/-- `PromotionRungSystem.on_task_schedule`. -/
def RungSys.promoSchedule (s : RungSys) (ty : HBType) (m : Mode) (hint : Option Nat) :
    RungSys × Option SchedOut × Bool :=
  let res := promoScan ty m s.numThr (s.cap ty) hint s.maxT s.thresholds s.rungs
  ({ s with rungs := res.rungs, thresholds := res.thr }, res.out, res.free)

/-- `_rung_pos_for_level`. -/
def rungPos (rungs : List Rung) (level : Nat) : Option Nat :=
  rungs.findIdx? (fun r => r.level == level)

/-- `ignore_data = (resume_from is not None) and (resource <= resume_from)`. -/
def ignoreOf (resumeFrom : Option Nat) (r : Nat) : Bool :=
  match resumeFrom with | some f => decide (r ≤ f) | none => false

/-- next milestone above the rung at position `pos` of `_rungs` (decreasing): the level of
the rung at `pos - 1`, or `max_t` for the top rung. -/
def nextAbove (rungs : List Rung) (pos maxT : Nat) : Nat :=
  if pos > 0 then (match rungs[pos - 1]? with | some u => u.level | none => maxT) else maxT

/-- the milestone-reached branch of `PromotionRungSystem.on_task_report`. -/
def RungSys.promoReached (s : RungSys) (m : Mode) (tid : Nat) (v cost : Rat) (milestone : Nat)
    (ignore : Bool) : Except Err (RungSys × RepOut) :=
  match rungPos s.rungs milestone with
  | none => .ok (s, { continues := false, reached := true, next := none, ignoreData := ignore })
  | some pos =>
    match s.rungs[pos]? with
    | none => .error (.assertion "rung_pos")
    | some rg =>
      if rg.contains tid then .error (.assertion "trial_id not in rung") else
      .ok ({ s with rungs := s.rungs.set pos (rg.add m { tid := tid, val := v, cost := cost }) },
           { continues := false, reached := true, next := some (nextAbove s.rungs pos s.maxT),
             ignoreData := ignore })

/-- `PromotionRungSystem.on_task_report`. -/
def RungSys.promoReport (s : RungSys) (m : Mode) (tid r : Nat) (v : Rat) (cost : Rat := 0) :
    Except Err (RungSys × RepOut) :=
  match alookup tid s.running with
  | none => .error (.keyError "_running")
  | some mr =>
    if mr.1 ≤ r then
      if r ≠ mr.1 then .error (.assertion "resource > milestone")
      else s.promoReached m tid v cost mr.1 (ignoreOf mr.2 r)
    else
      .ok (s, { continues := true, reached := false, next := none, ignoreData := ignoreOf mr.2 r })

/-- `RUSHStoppingRungSystem.on_task_report`: the decider is applied to the outcome of
`_task_continues` at the rung that was reached (`rung.level = resource`). -/
def RungSys.rushStopReport (s : RungSys) (m : Mode) (tid r : Nat) (v : Rat) (skip : Nat)
    (hint : Bool) : RungSys × RepOut :=
  let res := s.stopReport m tid r v skip hint
  if res.2.reached ∧ r ≠ s.maxT then
    let d := rushDecide m s.numThr s.thresholds res.2.continues tid v r
    ({ res.1 with thresholds := d.2 }, { res.2 with continues := d.1 })
  else res

/-! #### PASHA -/

/-- Python list indexing with a possibly negative index. -/
def pyIndex {α} (l : List α) (i : Int) : Option α :=
  if 0 ≤ i then l[i.toNat]? else
    if (l.length : Int) + i < 0 then none else l[((l.length : Int) + i).toNat]?

/-- `(trial_id, value)` in `rung.data` order; ranks are positions (min) or reversed
positions (max) and sorting by rank (`reverse` for max) returns exactly this order. -/
def rankingOf (rg : Rung) : List (Nat × Rat) := rg.data.map (fun e => (e.tid, e.val))

/-- forward / backward extension of a group in `_evaluate_soft_ranking` -/
def groupForward (m : Mode) (eps v : Rat) : List (Nat × Rat) → List Nat
  | [] => []
  | (t, x) :: rest =>
    let stop := match m with | .max => decide (x < v - eps) | .min => decide (x > v + eps)
    if stop then [] else t :: groupForward m eps v rest

def groupBackward (m : Mode) (eps v : Rat) : List (Nat × Rat) → List Nat
  | [] => []
  | (t, x) :: rest =>
    let stop := match m with | .max => decide (x > v + eps) | .min => decide (x < v - eps)
    if stop then [] else t :: groupBackward m eps v rest

/-- groups of the previous rung: for index `idx`, own id, followers, predecessors (nearest first) -/
def softGroups (m : Mode) (eps : Rat) (prev : List (Nat × Rat)) : List (List Nat) :=
  (List.range prev.length).map fun idx =>
    match prev[idx]? with
    | none => []
    | some (t, v) =>
      t :: groupForward m eps v (prev.drop (idx + 1)) ++ groupBackward m eps v (prev.take idx).reverse

/-- `_evaluate_soft_ranking`: `keep_current_budget`, or IndexError when the top rung holds
more entries than the filtered previous rung. -/
def softRankingKeeps (m : Mode) (epsilon : Rat) (top prev : List (Nat × Rat)) : Except Err Bool :=
  let eps := if prev.length < 2 then 0 else epsilon
  let groups := softGroups m eps prev
  let rec go : List (Nat × Rat) → Nat → Except Err Bool
    | [], _ => .ok true
    | (t, _) :: rest, idx =>
      match groups[idx]? with
      | none => .error (.indexError "previous_rung_groups")
      | some g => if g.contains t then go rest (idx + 1) else .ok false
  go top 0

/-- `_decide_resource_increase(_get_top_two_rungs_rankings())`. -/
def RungSys.pashaIncrease (s : RungSys) (m : Mode) : Except Err Bool :=
  match pyIndex s.rungs (-(s.curIdx : Int)), pyIndex s.rungs (-(s.curIdx : Int) + 1) with
  | some topR, some prevR =>
    if topR.data.isEmpty ∨ prevR.data.isEmpty then .ok false else
    let top := rankingOf topR
    let prev := (rankingOf prevR).filter (fun e => top.any (fun x => x.1 == e.1))
    match softRankingKeeps m s.epsilon top prev with
    | .error e => .error e
    | .ok keep => .ok (!keep)
  | _, _ => .error (.indexError "_rungs")

/-- `PASHARungSystem.on_task_report`; `eps` = the value of `self.epsilon` after
`_update_epsilon()` (numpy percentile over a set-ordered list: an input, DESIGN C04-R). -/
def RungSys.pashaReport (s : RungSys) (m : Mode) (tid r : Nat) (v : Rat) (eps : Rat) :
    Except Err (RungSys × RepOut) :=
  match s.promoReport m tid r v with
  | .error e => .error e
  | .ok res =>
    let s1 := { res.1 with epsilon := eps }
    match s1.pashaIncrease m with
    | .error e => .error e
    | .ok inc =>
      if inc then
        if s1.curIdx < s1.rungs.length then
          match s1.levelsAsc[s1.curIdx]? with
          | none => .error (.indexError "rung_levels")
          | some l => .ok ({ s1 with curIdx := s1.curIdx + 1, curMaxT := l }, res.2)
        else .ok ({ s1 with curMaxT := s1.maxT }, res.2)
      else .ok (s1, res.2)

/-! ### bracket manager -/

structure Manager where
  type : HBType
  mode : Mode
  maxT : Nat
  rungLevels : List Nat          -- increasing, all `< maxT`
  numBrackets : Nat
  perBracket : Bool
  systems : List RungSys
  taskInfo : List (Nat × Nat) := []   -- trial ↦ bracket
deriving Repr, Inhabited

/-- promotion quantiles `q_j = r_j / r_{j+1}` with `r_{last+1} = max_t`. -/
def promoteQuantiles (levels : List Nat) (maxT : Nat) : List Rat :=
  List.zipWith (fun (x y : Nat) => (x : Rat) / (y : Rat)) levels (levels.drop 1 ++ [maxT])

def mkRungSys (levels : List Nat) (quants : List Rat) (maxT : Nat) : RungSys :=
  { rungs := (List.zipWith (fun l q => ({ level := l, q := q, data := [] } : Rung)) levels quants).reverse,
    maxT := maxT }

/-- PASHA constructor: `current_rung_idx = min(len(rung_levels) - 1, 2)`,
`current_max_t = rung_levels[current_rung_idx - 1]` (Python index, may be `-1`). -/
def RungSys.initPasha (s : RungSys) (levels : List Nat) : RungSys :=
  let idx : Nat := min (levels.length - 1) 2
  let cm := match pyIndex levels ((idx : Int) - 1) with | some l => l | none => 0
  { s with levelsAsc := levels, curIdx := idx, curMaxT := cm }

def mkSys (type : HBType) (numThr : Nat) (levels : List Nat) (quants : List Rat) (maxT : Nat) : RungSys :=
  let s := { mkRungSys levels quants maxT with numThr := numThr }
  if type = .pasha then s.initPasha levels else s

def Manager.init (type : HBType) (mode : Mode) (maxT : Nat) (levels : List Nat) (brackets : Nat)
    (perBracket : Bool) (numThr : Nat := 0) : Manager :=
  let nb := min brackets (levels.length + 1)
  let nsys := if perBracket then nb else 1
  let qs := promoteQuantiles levels maxT
  { type := type, mode := mode, maxT := maxT, rungLevels := levels, numBrackets := nb,
    perBracket := perBracket,
    systems := (List.range nsys).map (fun s => mkSys type numThr (levels.drop s) (qs.drop s) maxT) }

/-- `_get_rung_system_for_bracket_id` : `(sys_id, skip_rungs)`. -/
def Manager.sysFor (g : Manager) (bracket : Nat) : Nat × Nat :=
  if g.perBracket then (bracket, 0) else (0, bracket)

def Manager.setSys (g : Manager) (i : Nat) (s : RungSys) : Manager :=
  { g with systems := g.systems.set i s }

/-- `rung_sys.on_task_add` (promotion systems record `_running[trial] = (milestone,
resume_from)`; stopping systems: `pass`). -/
def RungSys.taskAdd (s : RungSys) (pauseResume : Bool) (tid skip : Nat) (resume : Option (Nat × Nat)) :
    Except Err RungSys :=
  if pauseResume then
    match resume with
    | none => .ok { s with running := aset tid (s.firstMilestone skip, none) s.running }
    | some mr =>
      if ¬ (mr.2 < mr.1) then .error (.assertion "resume_from < milestone")
      else .ok { s with running := aset tid (mr.1, some mr.2) s.running }
  else .ok s

/-- first milestone of the bracket: last element of `[max_t] ++ milestones` -/
def RungSys.firstOfList (s : RungSys) (skip maxT : Nat) : Nat :=
  match (s.milestones skip).getLast? with | some l => l | none => maxT

/-- `on_task_add`; returns first milestone of the list (its last element `[-1]`).
`resume = some (milestone, resume_from)` for a promoted trial. -/
def Manager.taskAdd (g : Manager) (tid bracket : Nat) (resume : Option (Nat × Nat)) :
    Except Err (Manager × Nat) :=
  match g.systems[(g.sysFor bracket).1]? with
  | none => .error (.assertion "bracket index")
  | some s =>
    match s.taskAdd g.type.pauseResume tid (g.sysFor bracket).2 resume with
    | .error e => .error e
    | .ok s' =>
      .ok (({ g with taskInfo := aset tid bracket g.taskInfo } : Manager).setSys (g.sysFor bracket).1 s',
           s'.firstOfList (g.sysFor bracket).2 g.maxT)

/-- dispatch to the rung system of the scheduler type -/
def Manager.sysReport (g : Manager) (s : RungSys) (tid r : Nat) (v : Rat) (skip : Nat) (hint : Bool)
    (cost : Rat := 0) (eps : Rat := 0) : Except Err (RungSys × RepOut) :=
  match g.type with
  | .stopping => .ok (s.stopReport g.mode tid r v skip hint)
  | .rushStopping => .ok (s.rushStopReport g.mode tid r v skip hint)
  | .promotion => s.promoReport g.mode tid r v
  | .rushPromotion => s.promoReport g.mode tid r v
  | .costPromotion => s.promoReport g.mode tid r v cost
  | .pasha => s.pashaReport g.mode tid r v eps

/-- "If config just reached the last milestone in the bracket and survived,
next_milestone is equal to max_t". -/
def fixNext (maxT : Nat) (o : RepOut) : RepOut :=
  if o.continues ∧ o.reached ∧ o.next = none then { o with next := some maxT } else o

/-- `HyperbandBracketManager.on_task_report`. -/
def Manager.taskReport (g : Manager) (tid r : Nat) (v : Rat) (hint : Bool)
    (cost : Rat := 0) (eps : Rat := 0) : Except Err (Manager × RepOut) :=
  match alookup tid g.taskInfo with
  | none => .error (.keyError "_task_info")
  | some bracket =>
    match g.systems[(g.sysFor bracket).1]? with
    | none => .error (.assertion "bracket index")
    | some s =>
      if r < g.maxT then
        match g.sysReport s tid r v (g.sysFor bracket).2 hint cost eps with
        | .error e => .error e
        | .ok res => .ok (g.setSys (g.sysFor bracket).1 res.1, fixNext g.maxT res.2)
      else
        .ok (g, { continues := false, reached := true, next := none })

/-- `rung_sys.on_task_remove(trial_id)` on the system at index `i` (promotion systems drop
the `_running` record; for stopping systems `_running` is empty anyway). -/
def delRunningAt (systems : List RungSys) (i tid : Nat) : List RungSys :=
  match systems[i]? with
  | some s => systems.set i { s with running := adel tid s.running }
  | none => systems

/-- `on_task_remove`. -/
def Manager.taskRemove (g : Manager) (tid : Nat) : Manager :=
  match alookup tid g.taskInfo with
  | none => g
  | some bracket =>
    { g with systems := delRunningAt g.systems (g.sysFor bracket).1 tid, taskInfo := adel tid g.taskInfo }

/-- `on_task_schedule` with the sampled bracket as input: `(promoted?, bracket, milestone)`. -/
def Manager.taskSchedule (g : Manager) (bracket : Nat) (hint : Option Nat) :
    Except Err (Manager × Option SchedOut × Nat × Bool) :=
  match g.systems[(g.sysFor bracket).1]? with
  | none => .error (.assertion "bracket index")
  | some s =>
    if ¬ g.type.pauseResume then .ok (g, none, s.firstMilestone (g.sysFor bracket).2, false) else
      match (s.promoSchedule g.type g.mode hint).2.1 with
      | some o => .ok (g.setSys (g.sysFor bracket).1 (s.promoSchedule g.type g.mode hint).1, some o, o.milestone,
                       (s.promoSchedule g.type g.mode hint).2.2)
      | none => .ok (g.setSys (g.sysFor bracket).1 (s.promoSchedule g.type g.mode hint).1, none,
                     s.firstMilestone (g.sysFor bracket).2, (s.promoSchedule g.type g.mode hint).2.2)

/-! ### scheduler -/

inductive SearcherData | rungs | all | rungsAndLast
deriving DecidableEq, Repr, Inhabited

/-- calls the scheduler makes on its searcher (the C14 interface) -/
inductive SCall
  | pending (tid r : Nat)
  | update (tid r : Nat) (v : Rat) (upd : Bool)   -- `searcher.on_trial_result(..., update=upd)`
  | removeCase (tid r : Nat) (v : Rat)
  | cleanup (tid : Nat)                           -- `cleanup_pending`
  | evalFailed (tid : Nat)
deriving DecidableEq, Repr

structure TrialInfo where
  bracket : Nat
  decision : Decision := .continue
  keepCase : Bool := false
  reported : Option (Rat × Nat) := none
  largestUpdate : Option Nat := none
deriving DecidableEq, Repr, Inhabited

structure Sched where
  mgr : Manager
  searcherData : SearcherData := .rungs
  pendingMyopic : Bool := false
  maxResourceAttr : Bool := false
  active : List (Nat × TrialInfo) := []
  hasCost : Bool := false                       -- `cost_attr` given and reported
  costOffset : List (Nat × Rat) := []           -- `_cost_offset`
deriving Repr, Inhabited

inductive Suggestion
  | start (tid bracket milestone : Nat)
  | resume (tid resumeFrom milestone : Nat)
deriving DecidableEq, Repr

def rangeIncl (a b : Nat) : List Nat := (List.range (b + 1 - a)).map (· + a)

/-- pending evaluations registered for a new trial (`_on_config_suggest`) -/
def Sched.pendingNew (s : Sched) (first : Nat) : List Nat :=
  match s.searcherData with
  | .rungs => [first]
  | _ => if s.pendingMyopic then [1] else rangeIncl 1 first

/-- pending evaluations registered for a promoted trial (`_promote_trial`) -/
def Sched.pendingResume (s : Sched) (o : SchedOut) : List Nat :=
  match s.searcherData with
  | .rungs => [o.milestone]
  | _ => if s.pendingMyopic then [o.resumeFrom + 1] else rangeIncl (o.resumeFrom + 1) o.milestone

/-- `_on_config_suggest`: a new trial is started (after `terminator.on_task_schedule`
returned manager `g` and the first milestone). -/
def Sched.suggestStart (s : Sched) (g : Manager) (newTid bracket milestone : Nat) (fr : Bool) :
    Except Err (Sched × Suggestion × List SCall × Bool) :=
  if (alookup newTid s.active).isSome then .error (.assertion "Trial already exists") else
  match g.taskAdd newTid bracket none with
  | .error e => .error e
  | .ok res =>
    .ok ({ s with mgr := res.1, active := aset newTid { bracket := bracket } s.active },
         .start newTid bracket milestone, (s.pendingNew res.2).map (SCall.pending newTid), fr)

/-- `_promote_trial` for a promoted trial `o`. -/
def Sched.suggestResume (s : Sched) (g : Manager) (bracket : Nat) (o : SchedOut) (fr : Bool) :
    Except Err (Sched × Suggestion × List SCall × Bool) :=
  match g.taskAdd o.trial bracket (some (o.milestone, o.resumeFrom)) with
  | .error e => .error e
  | .ok res =>
    match alookup o.trial s.active with
    | none => .error (.assertion "Paused trial must be in _active_trials")
    | some rec =>
      if rec.decision = .continue then .error (.assertion "Paused trial marked as running") else
      .ok ({ s with mgr := res.1, active := aset o.trial { rec with decision := .continue } s.active },
           .resume o.trial o.resumeFrom o.milestone, (s.pendingResume o).map (SCall.pending o.trial), fr)

/-- `_suggest` when the searcher returns a configuration (searcher exhaustion is outside
this model). `newTid` is the id handed to `_suggest`. -/
def Sched.suggest (s : Sched) (newTid bracket : Nat) (hint : Option Nat) :
    Except Err (Sched × Suggestion × List SCall × Bool) :=
  match s.mgr.taskSchedule bracket hint with
  | .error e => .error e
  | .ok res =>
    match res.2.1 with
    | none => s.suggestStart res.1 newTid bracket res.2.2.1 res.2.2.2
    | some o => s.suggestResume res.1 bracket o res.2.2.2

/-- `_cleanup_trial`. -/
def Sched.cleanup (s : Sched) (tid : Nat) (d : Decision) : Sched :=
  { s with mgr := s.mgr.taskRemove tid,
           active := match alookup tid s.active with
             | none => s.active
             | some rec => aset tid { rec with decision := d } s.active }

/-- `_update_searcher` : `(do_update, calls)`; `calls` in the order the code issues them. -/
def Sched.updateSearcher (s : Sched) (tid r : Nat) (_v : Rat) (o : RepOut) (rec : TrialInfo) :
    Bool × List SCall :=
  match s.searcherData with
  | .rungs =>
    if r ∈ s.mgr.rungLevels ∨ r = s.mgr.maxT then
      let pend := if o.continues ∧ o.reached then (match o.next with | some n => [n] | none => []) else []
      (true, pend.map (SCall.pending tid))
    else (false, [])
  | sd =>
    if o.ignoreData then (false, []) else
    let pend :=
      if o.continues then
        if s.pendingMyopic ∨ o.next = none then [r + 1]
        else if o.reached then (match o.next with | some n => rangeIncl (r + 1) n | none => [])
        else []
      else []
    let rem := if sd = .rungsAndLast then
        (match rec.reported with
         | some (pv, pr) => if !rec.keepCase then [SCall.removeCase tid pr pv] else []
         | none => [])
      else []
    (true, rem ++ pend.map (SCall.pending tid))

structure ResOut where
  decision : Decision
  free : Bool
  calls : List SCall
deriving DecidableEq, Repr

/-- STOP / PAUSE / CONTINUE from the rung system's answer. -/
def Sched.decisionFor (s : Sched) (r : Nat) (o : RepOut) : Decision :=
  if o.continues then .continue
  else if ¬ s.mgr.type.pauseResume ∨ s.mgr.maxT ≤ r then .stop else .pause

/-- `largest_update_resource`, defaulting to `resource - 1`. -/
def TrialInfo.lastUpdate (rec : TrialInfo) (r : Nat) : Nat :=
  match rec.largestUpdate with | some l => l | none => r - 1

/-- update of the `TrialInformation` record and the final `do_update` flag -/
def TrialInfo.afterReport (rec : TrialInfo) (r : Nat) (v : Rat) (o : RepOut) (doUpd : Bool) :
    Bool × TrialInfo :=
  let rec1 := { rec with reported := some (v, r), keepCase := o.reached }
  if doUpd then
    if r = rec.lastUpdate r then (false, rec1) else (true, { rec1 with largestUpdate := some r })
  else (false, rec1)

/-- the `else` branch of `on_trial_result` once the rung system has answered `o`
(`ignore_data = False`). -/
def Sched.onResultLive (s : Sched) (tid r : Nat) (v : Rat) (rec : TrialInfo) (o : RepOut) :
    Except Err (Sched × ResOut) :=
  let upd := s.updateSearcher tid r v o rec
  if upd.1 ∧ ¬ (rec.lastUpdate r ≤ r) then .error (.assertion "largest_update_resource <= resource") else
  let ar := rec.afterReport r v o upd.1
  let s2 := { s with active := aset tid ar.2 s.active }
  let d := s.decisionFor r o
  let s3 := if o.continues then s2 else s2.cleanup tid d
  .ok (s3, { decision := d, free := o.free, calls := upd.2 ++ [SCall.update tid r v ar.1] })

/-- `result[total_cost] = result[cost] + _cost_offset.get(trial_id, 0)` for pause/resume types
when a cost is reported; otherwise the cost as reported. -/
def Sched.totalCost (s : Sched) (tid : Nat) (cost : Rat) : Rat :=
  if s.hasCost ∧ s.mgr.type.pauseResume then
    cost + (match alookup tid s.costOffset with | some c => c | none => 0)
  else cost

/-- `_cost_offset` bookkeeping after the rung system answered. -/
def Sched.costOffsetAfter (s : Sched) (tid : Nat) (total : Rat) (o : RepOut) :
    Except Err (List (Nat × Rat)) :=
  if s.hasCost ∧ s.mgr.type.pauseResume then
    if o.reached then .ok (aset tid total s.costOffset)
    else if o.ignoreData then
      (match alookup tid s.costOffset with
       | some _ => .ok (aset tid 0 s.costOffset)
       | none => .error (.keyError "_cost_offset"))
    else .ok s.costOffset
  else .ok s.costOffset

/-- everything `on_trial_result` does after `terminator.on_task_report` returned `(g, o)`. -/
def Sched.afterReport (s : Sched) (tid r : Nat) (v : Rat) (rec : TrialInfo) (g : Manager) (o : RepOut)
    (total : Rat) : Except Err (Sched × ResOut) :=
  match s.costOffsetAfter tid total o with
  | .error e => .error e
  | .ok co =>
    if o.ignoreData then
      .ok ({ s with mgr := g, costOffset := co }, { decision := .continue, free := o.free, calls := [] })
    else
      ({ s with mgr := g, costOffset := co } : Sched).onResultLive tid r v rec o

/-- `HyperbandScheduler.on_trial_result`. -/
def Sched.onResult (s : Sched) (tid r : Nat) (v : Rat) (hint : Bool) (cost : Rat := 0) (eps : Rat := 0) :
    Except Err (Sched × ResOut) :=
  match alookup tid s.active with
  | none => .error (.keyError "_active_trials")
  | some rec =>
    if rec.decision ≠ .continue then
      .ok (s, { decision := rec.decision, free := false, calls := [SCall.update tid r v false] })
    else
      match s.mgr.taskReport tid r v hint (s.totalCost tid cost) eps with
      | .error e => .error e
      | .ok res => s.afterReport tid r v rec res.1 res.2 (s.totalCost tid cost)

/-- `on_trial_remove`. -/
def Sched.onRemove (s : Sched) (tid : Nat) : Sched := s.cleanup tid .pause

/-- `on_trial_error` (`super().on_trial_error` → `searcher.evaluation_failed`). -/
def Sched.onError (s : Sched) (tid : Nat) : Sched × List SCall :=
  (s.cleanup tid .stop, [SCall.evalFailed tid])

/-- `on_trial_complete`. -/
def Sched.onComplete (s : Sched) (tid r : Nat) (v : Rat) : Except Err (Sched × List SCall) :=
  match alookup tid s.active with
  | none => .error (.keyError "_active_trials")
  | some rec =>
    let upd := match rec.largestUpdate with
      | some l => if l < r then [SCall.update tid r v true] else []
      | none => []
    .ok (s.cleanup tid .stop, upd ++ [SCall.cleanup tid])

/-! ### rung levels -/

def powRat (b : Rat) : Nat → Rat
  | 0 => 1
  | k + 1 => powRat b k * b

/-- number of rungs: smallest `k` with `min_t * rf^k ≥ max_t` (`while` loop, fuel = `max_t`). -/
def maxRungs (minT : Nat) (rf : Rat) (maxT : Nat) : Nat → Nat → Nat
  | 0, k => k
  | fuel + 1, k => if (minT : Rat) * powRat rf k < (maxT : Rat) then maxRungs minT rf maxT fuel (k + 1) else k

/-- `successive_halving_rung_levels` for the `reduction_factor` / `rung_increment` /
explicit cases (validity assertions are the caller's contract). -/
def rungLevelsRF (minT : Nat) (rf : Rat) (maxT : Nat) : List Nat :=
  let k := maxRungs minT rf maxT maxT 0
  let ls := (List.range k).map (fun j => (roundHalfEven ((minT : Rat) * powRat rf j)).toNat)
  if ls.getLast? = some maxT then ls.dropLast else ls

def rungLevelsInc (minT inc maxT : Nat) : List Nat :=
  -- `range(grace_period, max_t, rung_increment)`
  (List.range ((maxT - minT + inc - 1) / inc)).map (fun j => minT + j * inc)

def rungLevelsExplicit (ls : List Nat) (maxT : Nat) : List Nat :=
  if ls.getLast? = some maxT then ls.dropLast else ls

end SyneTune
