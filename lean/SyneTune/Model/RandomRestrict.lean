import SyneTune.Model.RandomSearcher
/-
Model of `StochasticAndFilterDuplicatesSearcher` + `RandomSearcher` WITH the option
`restrict_configurations` (`searchers/searcher_base.py`: `_filter_points_to_evaluate`,
`__init__`, `get_config`, `_get_random_config`,
`_get_random_config_from_restrict_configurations`, `get_state`, `_restore_from_state`;
`searchers/random_grid_searcher.py`: `RandomSearcher._get_config`, `clone_from_state`).

The state is the state of `Model/RandomSearcher.lean` plus the remaining list
`_restrict_configurations` (`none` = Python `None`: the searcher is not restricted and
behaves as `RState`) and the set `_rc_returned_pos`.

Draws: the generator is read at position `rng` either as
`hp_ranges.random_config(random_state)` (tape `dc`, unrestricted path) or as
`random_state.randint(low=0, high=len(list))` (tape `di`, restricted path).  A `randint`
value that is not below `len(list)` contradicts numpy's contract: error `tape`.

The list object passed by the caller is part of the `World`: `shared = true` means that
the searcher's `_restrict_configurations` IS the caller's list object, so that
`list.pop` in `get_config` is seen by the caller.   Core Lean only.
-/
namespace SyneTune.Srch

/-- mutable state of the searcher -/
structure XState where
  base : RState                      -- `_points_to_evaluate`, `_excl_list`, `_config_for_trial_id`, generator
  rc : Option (List Config)          -- `_restrict_configurations`
  pos : List Nat                     -- `_rc_returned_pos` (a set; Python `None` iff `rc` is `None`: `[]` here)
deriving Repr, DecidableEq

/-! ### the constructor: `_filter_points_to_evaluate` -/

/-- `[hp_ranges.config_to_match_string(config) for config in …]` -/
def mapMk (mk : MK) : List Config → Except Err (List String)
  | [] => .ok []
  | c :: cs =>
    match mk c with
    | .error e => .error e
    | .ok m =>
      match mapMk mk cs with
      | .error e => .error e
      | .ok ms => .ok (m :: ms)

/-- `matchstr_to_pos.get(m)`: the dict comprehension keeps the LAST position of a match
string; `i` is the position of the head of the list -/
def lastIdxFrom (m : String) : List String → Nat → Option Nat
  | [], _ => none
  | x :: xs, i =>
    match lastIdxFrom m xs (i + 1) with
    | some p => some p
    | none => if x = m then some i else none

/-- the loop over `_points_to_evaluate`: the entries that stay (those whose match string
is in the list) and `remove_rc` (positions in the list, only if duplicates are not
allowed) -/
def filterLoop (mk : MK) (allowDup : Bool) (mss : List String) :
    List Config → Except Err (List Config × List Nat)
  | [] => .ok ([], [])
  | c :: cs =>
    match mk c with
    | .error e => .error e
    | .ok m =>
      match filterLoop mk allowDup mss cs with
      | .error e => .error e
      | .ok (keep, rm) =>
        match lastIdxFrom m mss 0 with
        | none => .ok (keep, rm)
        | some p => .ok (c :: keep, if allowDup then rm else p :: rm)

/-- `[config for pos, config in enumerate(l) if pos not in idxs]`; `i` is the position of
the head of the list -/
def dropIdxs {α} (idxs : List Nat) : List α → Nat → List α
  | [], _ => []
  | a :: as, i => if i ∈ idxs then dropIdxs idxs as (i + 1) else a :: dropIdxs idxs as (i + 1)

/-- `_filter_points_to_evaluate(restrict_configurations, hp_ranges, allow_duplicates)`:
returns the new `_points_to_evaluate`, the filtered list, and `remove_rc` -/
def filterPoints (mk : MK) (allowDup : Bool) (rcArg p2e : List Config) :
    Except Err (List Config × List Config × List Nat) :=
  if rcArg.isEmpty then .error (.assertion "len(restrict_configurations) > 0") else
  match mapMk mk rcArg with
  | .error e => .error e
  | .ok mss =>
    match filterLoop mk allowDup mss p2e with
    | .error e => .error e
    | .ok (keep, rm) => .ok (keep, dropIdxs rm rcArg 0, rm)

/-- the searcher together with the list object of the caller -/
structure World where
  s : XState
  caller : List Config               -- content of the list object the caller passed
  shared : Bool                      -- `_restrict_configurations is` that object
deriving Repr, DecidableEq

/-- `RandomSearcher(config_space, points_to_evaluate=…, restrict_configurations=rcArg, …)`:
`init` are the imputed, de-duplicated initial configurations (`imputePoints`).  Code after
the fix 923cd41: the filtered list is always a new list object. -/
def construct (imm : RImm) (init : List Config) (rcArg : Option (List Config)) : Except Err World :=
  match rcArg with
  | none => .ok { s := { base := RState.init init, rc := none, pos := [] }, caller := [], shared := false }
  | some l =>
    match filterPoints imm.mkf imm.allowDup l init with
    | .error e => .error e
    | .ok (p2e, rc, _) =>
      .ok { s := { base := RState.init p2e, rc := some rc, pos := [] }, caller := l, shared := false }

/-- the constructor BEFORE the fix 923cd41: `if remove_rc: restrict_configurations = [...]`
and nothing else — when no entry is removed the caller's list object itself is kept -/
def constructOld (imm : RImm) (init : List Config) (rcArg : Option (List Config)) : Except Err World :=
  match rcArg with
  | none => .ok { s := { base := RState.init init, rc := none, pos := [] }, caller := [], shared := false }
  | some l =>
    match filterPoints imm.mkf imm.allowDup l init with
    | .error e => .error e
    | .ok (p2e, rc, rm) =>
      .ok { s := { base := RState.init p2e, rc := some rc, pos := [] }, caller := l, shared := rm.isEmpty }

/-! ### `get_config` -/

/-- `_get_random_config_from_restrict_configurations`: the retry loop over
`pos = random_state.randint(low=0, high=len(list))`.  Returns the configuration and its
position (or `none` after `fuel` draws that all hit excluded entries) and the number of
draws consumed. -/
def restrictLoop (mk : MK) (excl : List String) (rc : List Config) (di : Nat → Nat) :
    (fuel : Nat) → (i : Nat) → Except Err (Option (Config × Nat) × Nat)
  | 0, i => .ok (none, i)
  | fuel + 1, i =>
    match rc[di i]? with
    | none => .error .tape
    | some c =>
      match mk c with
      | .error e => .error e
      | .ok m =>
        if m ∈ excl then restrictLoop mk excl rc di fuel (i + 1) else .ok (some (c, di i), i + 1)

/-- the generator has been called `n` more times -/
def XState.advance (s : XState) (n : Nat) : XState :=
  { s with base := { s.base with rng := s.base.rng + n } }

/-- `set.add` -/
def setAdd (p : Nat) (l : List Nat) : List Nat := if p ∈ l then l else l ++ [p]

/-- `if not self.allow_duplicates: self._rc_returned_pos.add(pos)` -/
def XState.markReturned (imm : RImm) (s : XState) (p : Nat) : XState :=
  if imm.allowDup then s else { s with pos := setAdd p s.pos }

/-- what the state becomes after the retry loop -/
def XState.afterLoop (imm : RImm) (s : XState) (r : Option (Config × Nat)) (n : Nat) : XState × Option Config :=
  match r with
  | none => (s.advance n, none)
  | some cp => ((s.advance n).markReturned imm cp.2, some cp.1)

/-- `_get_random_config_from_restrict_configurations` (`if self._restrict_configurations:`
— an empty list answers `None` without a draw) -/
def XState.drawRestricted (imm : RImm) (s : XState) (rc : List Config) (di : Nat → Nat) :
    Except Err (XState × Option Config) :=
  if rc.isEmpty then .ok (s, none) else
  match restrictLoop imm.mkf s.base.excl rc di imm.maxRetries 0 with
  | .error e => .error e
  | .ok rn => .ok (s.afterLoop imm rn.1 rn.2)

/-- `sample_random_configuration` (no restriction) -/
def XState.drawUnrestricted (imm : RImm) (s : XState) (dc : Nat → Config) :
    Except Err (XState × Option Config) :=
  match s.base.randomConfig imm dc with
  | .error e => .error e
  | .ok rn => .ok (s.advance rn.2, rn.1)

/-- `_get_random_config`: `if self._restrict_configurations is not None` -/
def XState.drawConfig (imm : RImm) (s : XState) (dc : Nat → Config) (di : Nat → Nat) :
    Except Err (XState × Option Config) :=
  match s.rc with
  | none => s.drawUnrestricted imm dc
  | some rc => s.drawRestricted imm rc di

/-- the loop `for pos in self._rc_returned_pos: if ms(list[pos]) == ms_new: list.pop(pos); break`
(`list[pos]` out of range is Python's `IndexError`) -/
def popLoop (mk : MK) (msNew : String) (rc : List Config) : List Nat → Except Err (List Config)
  | [] => .ok rc
  | p :: ps =>
    match rc[p]? with
    | none => .error (.unsupported "IndexError")
    | some c =>
      match mk c with
      | .error e => .error e
      | .ok m => if m = msNew then .ok (rc.eraseIdx p) else popLoop mk msNew rc ps

/-- `if self._restrict_configurations is not None and self._rc_returned_pos: …; self._rc_returned_pos = set()` -/
def XState.popReturned (imm : RImm) (s : XState) (c : Config) : Except Err XState :=
  match s.rc with
  | none => .ok s
  | some rc =>
    if s.pos.isEmpty then .ok s else
    match imm.mkf c with
    | .error e => .error e
    | .ok m =>
      match popLoop imm.mkf m rc s.pos with
      | .error e => .error e
      | .ok rc' => .ok { s with rc := some rc', pos := [] }

/-- the tail of `StochasticAndFilterDuplicatesSearcher.get_config` -/
def XState.finish (imm : RImm) (s : XState) (r : Option Config) : Except Err (XState × Option Config) :=
  match r with
  | none => .ok (s, none)
  | some c =>
    if imm.allowDup then .ok (s, some c) else
    match exclAddConfig imm.mkf s.base.excl c with
    | .error e => .error e
    | .ok ex =>
      match XState.popReturned imm { s with base := { s.base with excl := ex } } c with
      | .error e => .error e
      | .ok s' => .ok (s', some c)

/-- `get_config`: initial configurations first (`_next_initial_config`), then random -/
def XState.getConfig (imm : RImm) (s : XState) (dc : Nat → Config) (di : Nat → Nat) :
    Except Err (XState × Option Config) :=
  match s.base.p2e with
  | c :: rest => XState.finish imm { s with base := { s.base with p2e := rest } } (some c)
  | [] =>
    match s.drawConfig imm dc di with
    | .error e => .error e
    | .ok sr => XState.finish imm sr.1 sr.2

/-! ### the other operations -/

def XState.registerPending (imm : RImm) (s : XState) (tid : Nat) (c : Option Config) : XState :=
  { s with base := s.base.registerPending imm tid c }

def XState.evaluationFailed (imm : RImm) (s : XState) (tid : Nat) : Except Err XState :=
  match s.base.evaluationFailed imm tid with
  | .ok b => .ok { s with base := b }
  | .error e => .error e

/-- `get_state()`: the state of the base classes plus, `if self._restrict_configurations is
not None`, the key `"restrict_configurations"` -/
structure XSnap where
  base : RSnap
  rc : Option (List Config)          -- `none`: key absent
deriving Repr, DecidableEq

def XState.getState (imm : RImm) (s : XState) (keys order : List String) : XSnap :=
  { base := s.base.getState imm keys order, rc := s.rc }

/-- a `get_state` that tests the list for truth (`if self._restrict_configurations:`): an
emptied list is dropped from the state (behaviour of seed C16-b1) -/
def XState.getStateTruthy (imm : RImm) (s : XState) (keys order : List String) : XSnap :=
  { base := s.base.getState imm keys order,
    rc := match s.rc with
      | some [] => none
      | x => x }

/-- `clone_from_state(state)`: a fresh `RandomSearcher` WITHOUT `restrict_configurations`,
then `_restore_from_state`: `if "restrict_configurations" in state:` the list of the state
and `_rc_returned_pos = set()`, else `None` / `None` -/
def XState.clone (imm : RImm) (snap : XSnap) : Except Err XState :=
  match RState.clone imm snap.base with
  | .error e => .error e
  | .ok b => .ok { base := b, rc := snap.rc, pos := [] }

/-- a `_restore_from_state` that drops from the restored list the entries whose match
string is excluded ("cannot be suggested anymore") — a seeded change, NOT the code: with
`allow_duplicates = True` the exclusion set holds the configurations of failed trials,
which the original searcher keeps in its list -/
def XState.cloneFiltered (imm : RImm) (snap : XSnap) : Except Err XState :=
  match XState.clone imm snap with
  | .error e => .error e
  | .ok t =>
    .ok { t with rc := t.rc.map fun l => l.filter fun c =>
            match imm.mkf c with
            | .ok m => !(decide (m ∈ t.base.excl))
            | .error _ => true }

/-! ### histories -/

/-- one step against the global tapes (position `rng + i` is the `i`-th draw from the
current generator state) -/
def XState.step (imm : RImm) (dc : Nat → Config) (di : Nat → Nat) (s : XState) (op : ROp) :
    Except Err (XState × Option (Option Config)) :=
  match op with
  | .get =>
    match s.getConfig imm (fun i => dc (s.base.rng + i)) (fun i => di (s.base.rng + i)) with
    | .ok so => .ok (so.1, some so.2)
    | .error e => .error e
  | .pending tid c => .ok (s.registerPending imm tid c, none)
  | .failed tid =>
    match s.evaluationFailed imm tid with
    | .ok s' => .ok (s', none)
    | .error e => .error e
  | .result _ => .ok (s, none)

/-- run a history; outputs of the `get` operations in order -/
def XState.run (imm : RImm) (dc : Nat → Config) (di : Nat → Nat) :
    XState → List ROp → Except Err (XState × List (Option Config))
  | s, [] => .ok (s, [])
  | s, op :: ops =>
    match s.step imm dc di op with
    | .error e => .error e
    | .ok so =>
      match XState.run imm dc di so.1 ops with
      | .error e => .error e
      | .ok r => .ok (r.1, so.2.toList ++ r.2)

/-- the searcher's list after a step, seen through the caller's list object if it is the
same object -/
def World.sync (w : World) (s' : XState) : World :=
  { s := s', caller := if w.shared then s'.rc.getD w.caller else w.caller, shared := w.shared }

def World.step (imm : RImm) (dc : Nat → Config) (di : Nat → Nat) (w : World) (op : ROp) :
    Except Err (World × Option (Option Config)) :=
  match w.s.step imm dc di op with
  | .error e => .error e
  | .ok so => .ok (w.sync so.1, so.2)

/-- run a history; besides the outputs, the content of the caller's list object after
every operation -/
def World.run (imm : RImm) (dc : Nat → Config) (di : Nat → Nat) :
    World → List ROp → Except Err (World × List (Option Config) × List (List Config))
  | w, [] => .ok (w, [], [])
  | w, op :: ops =>
    match w.step imm dc di op with
    | .error e => .error e
    | .ok wo =>
      match World.run imm dc di wo.1 ops with
      | .error e => .error e
      | .ok r => .ok (r.1, wo.2.toList ++ r.2.1, wo.1.caller :: r.2.2)

end SyneTune.Srch
