import SyneTune.Model.Pareto
/-
Model of `syne_tune/optimizer/schedulers/multiobjective/moasha.py`: `_Bracket.on_result`
(with the multi-objective priority as a parameter) and `MOASHA`
(`on_trial_add/result/remove/complete`).

Inputs of the model that the code does not compute exactly or draws at random:
* the rung milestones of every bracket (`min_t * rf ** (k + s)`, count from a float
  `log`) are constructor input read from the real object,
* the bracket drawn in `on_trial_add` from numpy's global generator,
* the return values of `compute_epsilon_net` inside the priority (see `Model/Pareto.lean`).
-/
namespace SyneTune

inductive MErr | keyError (what : String) | indexError (what : String)
deriving DecidableEq, Repr

/-- one entry `(milestone, recorded)` of `_Bracket._rungs`; `recorded` is the dict
`trial_id -> metrics` in insertion order, metrics as the list `metrics.values()`. -/
structure MRung where
  milestone : Rat
  recorded : List (Nat × Point)
deriving DecidableEq, Repr, Inhabited

def MRung.has (rg : MRung) (tid : Nat) : Bool := rg.recorded.any (fun e => e.1 == tid)

/-- insertion of one value into an ascending list (`sorted`). -/
def insertRat (v : Rat) : List Rat → List Rat
  | [] => [v]
  | x :: xs => if v ≤ x then v :: x :: xs else x :: insertRat v xs

/-- `sorted(priorities)`. -/
def sortRat (l : List Rat) : List Rat := l.foldr insertRat []

/-- `np.searchsorted(s, v)` (`side="left"`) on an ascending list: the first position whose
element is not smaller than `v`. -/
def searchsortedLeft (s : List Rat) (v : Rat) : Nat := (s.takeWhile (fun x => decide (x < v))).length

/-- `new_priority_rank > 1 / self.rf` with `new_priority_rank = count / n`.  Both sides
are correctly rounded quotients in the code: equal exact values give equal doubles
(forced `false`), a difference above the round-off allowance is forced, anything else
is free. -/
def cmpRankGt (count n : Nat) (rf : Rat) : Cmp :=
  if (count : Rat) / (n : Rat) = 1 / rf then .forced false
  else if absRat ((count : Rat) / (n : Rat) - 1 / rf) ≤ tol ((count : Rat) / (n : Rat)) (1 / rf) then .free
  else .forced (decide (1 / rf < (count : Rat) / (n : Rat)))

/-- rank of the last priority: `np.searchsorted(sorted(p), p)[-1]`; `none` = `IndexError`
on an empty priority vector. -/
def lastRank (p : List Rat) : Option Nat :=
  match p.getLast? with
  | none => none
  | some v => some (searchsortedLeft (sortRat p) v)

/-- the decision taken at a rung that already holds entries: `(stop?, free?)`. -/
def rankDecision (rf : Rat) (p : List Rat) (hint : Bool) : Except MErr (Bool × Bool) :=
  match lastRank p with
  | none => .error (.indexError "ranks[-1]")
  | some c => .ok ((cmpRankGt c p.length rf).resolve (!hint), (cmpRankGt c p.length rf).isFree)

/-- body of the `else:` branch of `_Bracket.on_result` for the rung that takes the
result: `(action, free)`; `hint` = the implementation answered CONTINUE. -/
def rungDecision (prio : List Point → Except MErr (List Rat)) (rf : Rat) (rg : MRung)
    (metrics : Point) (hint : Bool) : Except MErr (Decision × Bool) :=
  if rg.recorded.isEmpty then .ok (.continue, false)
  else
    match prio (rg.recorded.map (·.2) ++ [metrics]) with
    | .error e => .error e
    | .ok p =>
      match rankDecision rf p hint with
      | .error e => .error e
      | .ok r => .ok (if r.1 then .stop else .continue, r.2)

/-- the `for milestone, recorded in self._rungs` loop of `_Bracket.on_result`. -/
def bracketScan (prio : List Point → Except MErr (List Rat)) (rf : Rat) (tid cur : Nat)
    (metrics : Point) (hint : Bool) : List MRung → Except MErr (List MRung × Decision × Bool)
  | [] => .ok ([], .continue, false)
  | rg :: rest =>
    if (cur : Rat) < rg.milestone ∨ rg.has tid then
      match bracketScan prio rf tid cur metrics hint rest with
      | .error e => .error e
      | .ok res => .ok (rg :: res.1, res.2)
    else
      match rungDecision prio rf rg metrics hint with
      | .error e => .error e
      | .ok d => .ok ({ rg with recorded := rg.recorded ++ [(tid, metrics)] } :: rest, d)

structure Moasha where
  maxT : Nat
  rf : Rat
  ops : List Rat                      -- `_metric_op` per metric: 1 (min) or -1 (max)
  brackets : List (List MRung)        -- `_rungs` per bracket, milestones decreasing
  trialInfo : List (Nat × Nat) := []  -- trial ↦ bracket index
  numStopped : Nat := 0
deriving Repr, Inhabited

/-- `_metric_dict`: `reported_results[metric] * self._metric_op[metric]`. -/
def Moasha.signed (s : Moasha) (raw : Point) : Point := List.zipWith (· * ·) raw s.ops

/-- `on_trial_add` with the bracket index drawn by `np.random.choice` as input. -/
def Moasha.onAdd (s : Moasha) (tid idx : Nat) : Except MErr Moasha :=
  if idx < s.brackets.length then .ok { s with trialInfo := aset tid idx s.trialInfo }
  else .error (.indexError "_brackets[idx]")

/-- `bracket.on_result(...)` for the bracket of trial `tid`. -/
def Moasha.bracketResult (s : Moasha) (prio : List Point → Except MErr (List Rat))
    (tid cur : Nat) (raw : Point) (hint : Bool) : Except MErr (Moasha × Decision × Bool) :=
  match alookup tid s.trialInfo with
  | none => .error (.keyError "_trial_info")
  | some b =>
    match s.brackets[b]? with
    | none => .error (.indexError "_brackets")
    | some rungs =>
      match bracketScan prio s.rf tid cur (s.signed raw) hint rungs with
      | .error e => .error e
      | .ok res => .ok ({ s with brackets := s.brackets.set b res.1 }, res.2)

def Moasha.countStop (s : Moasha) (d : Decision) : Moasha :=
  if d = .stop then { s with numStopped := s.numStopped + 1 } else s

/-- `MOASHA.on_trial_result`. -/
def Moasha.onResult (s : Moasha) (prio : List Point → Except MErr (List Rat))
    (tid cur : Nat) (raw : Point) (hint : Bool) : Except MErr (Moasha × Decision × Bool) :=
  if s.maxT ≤ cur then .ok (s.countStop .stop, .stop, false)
  else
    match s.bracketResult prio tid cur raw hint with
    | .error e => .error e
    | .ok res => .ok (res.1.countStop res.2.1, res.2)

/-- `MOASHA.on_trial_complete`. -/
def Moasha.onComplete (s : Moasha) (prio : List Point → Except MErr (List Rat))
    (tid cur : Nat) (raw : Point) (hint : Bool) : Except MErr (Moasha × Bool) :=
  match s.bracketResult prio tid cur raw hint with
  | .error e => .error e
  | .ok res => .ok ({ res.1 with trialInfo := adel tid res.1.trialInfo }, res.2.2)

/-- `MOASHA.on_trial_remove`. -/
def Moasha.onRemove (s : Moasha) (tid : Nat) : Except MErr Moasha :=
  match alookup tid s.trialInfo with
  | none => .error (.keyError "_trial_info")
  | some _ => .ok { s with trialInfo := adel tid s.trialInfo }

/-! ### the priority functions handed to `_Bracket` -/

def sortErrToM : SortErr → MErr
  | .indexError w => .indexError w
  | .fuel => .indexError "fuel"

/-- `NonDominatedPriority(dim, max_num_samples)` with the ε-net oracle. -/
def prioNDS (eps : Nat → List Point → List Nat) (maxNum : Option Nat) :
    List Point → Except MErr (List Rat) :=
  fun X => match ndPriority X eps maxNum with
    | .error e => .error (sortErrToM e)
    | .ok p => .ok (p.map (fun (n : Nat) => (n : Rat)))

/-- `FixedObjectivePriority(dim)`. -/
def prioFixed (dim : Nat) : List Point → Except MErr (List Rat) :=
  fun X => match fixedPriority dim X with
    | none => .error (.indexError "objectives[:, dim]")
    | some p => .ok p

/-- a priority computed in floating point by the implementation
(`LinearScalarizationPriority`): the recorded vector is the input. -/
def prioRecorded (p : List Rat) : List Point → Except MErr (List Rat) := fun _ => .ok p

end SyneTune
