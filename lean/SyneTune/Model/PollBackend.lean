import SyneTune.Base.Basic
/-
Model of the generic poll logic of `syne_tune/backend/trial_backend.py`
(`TrialBackend.start_trial / resume_trial / pause_trial / stop_trial / stop_all /
fetch_status_results`, cursor `_last_metric_seen_index`, `_trial_dict`), of the part of
`Tuner._process_new_results` / `_update_running_trials` that filters a batch of results
(`done_trials`: "skip the rest of the batch once the trial is done"), and of the in-memory
environment the harness puts underneath (`harness/streams/poll.py: MemBackend`), which
follows `LocalBackend` (`std.out` grows across runs, `stop` / `pause` marker files,
sub-process exit code, `_busy_trial_id_candidates`).

The worker is an adversarial input: `emit` / `exit` / `wckpt` operations may be placed
between any two backend operations; inside a `loop` operation the script entry of each
delivered result says how many further reports the worker writes *between the poll and the
command the decision causes*.

Fields marked `ghost` record history for the theorems only; they never influence a result.
-/
namespace SyneTune.Backend

/-- `syne_tune.backend.trial_status.Status`. -/
inductive St | inProgress | paused | stopped | stopping | completed | failed
deriving DecidableEq, Repr, Inhabited

def St.toString : St → String
  | .inProgress => "InProgress"
  | .paused => "Paused"
  | .stopped => "Stopped"
  | .stopping => "Stopping"
  | .completed => "Completed"
  | .failed => "Failed"

/-- `status in [Status.paused, Status.stopping, Status.stopped]` -/
def St.hidden : St → Bool
  | .paused => true
  | .stopping => true
  | .stopped => true
  | _ => false

/-- `BUSY_STATUS` -/
def St.busy : St → Bool
  | .inProgress => true
  | .stopping => true
  | _ => false

/-- error kinds of the backend models (a Python `assert` / exception) -/
inductive BErr
  | assertion (what : String)
  | keyError (what : String)
  | indexError (what : String)
  | attributeError (what : String)
  | fileNotFound (what : String)
  | valueError (what : String)
  | tape (what : String)          -- the recorded input tape does not cover a draw
  | fuel                          -- event loop bound of the model exhausted
deriving DecidableEq, Repr, Inhabited

def BErr.toString : BErr → String
  | .assertion w => s!"assertion:{w}"
  | .keyError w => s!"key-error:{w}"
  | .indexError w => s!"other:IndexError:{w}"
  | .attributeError w => s!"other:AttributeError:{w}"
  | .fileNotFound w => s!"other:FileNotFoundError:{w}"
  | .valueError w => s!"other:ValueError:{w}"
  | .tape w => s!"tape:{w}"
  | .fuel => "fuel"

/-- one report of a worker: written by run `run` of its trial as that run's `idx`-th report
(0-based); `stamp` is the global emission counter (`st_worker_timestamp`). -/
structure Rep where
  run : Nat
  idx : Nat
  stamp : Nat
deriving DecidableEq, Repr, Inhabited

/-- state of the sub-process of a trial -/
inductive Proc | running | exited (ok : Bool) | killed
deriving DecidableEq, Repr, Inhabited

structure PTrial where
  out : List Rep := []          -- `retrieve(std.out)`: every report ever written, all runs
  cursor : Nat := 0             -- `_last_metric_seen_index[trial_id]`
  run : Nat := 0                -- number of the current (last started) run
  nrep : Nat := 0               -- reports written by the current run
  proc : Proc := .running
  stopFile : Bool := false
  pauseFile : Bool := false
  stopReq : Bool := false       -- delayed-stop environments: stop requested, job still alive
  dictSt : St := .inProgress    -- `_trial_dict[trial_id].status`
  -- ghost
  deliv : List Rep := []        -- everything `fetch_status_results` ever returned for the trial
  since : List Rep := []        -- ... since the last start / resume
  staleAtResume : Bool := false -- at the last resume, unseen reports of older runs existed
  decided : Bool := false       -- the loop decided STOP / PAUSE and no resume happened since
  afterDec : List Rep := []     -- results returned / handed on while `decided`
  handed : List Rep := []       -- results the loop passed to `scheduler.on_trial_result`
deriving Repr, Inhabited

/-- `_read_status` of the environment (as `LocalBackend._read_status`, plus `stopping`). -/
def PTrial.status (t : PTrial) : St :=
  if t.stopFile then .stopped
  else if t.pauseFile then .paused
  else if t.stopReq then .stopping
  else match t.proc with
    | .running => .inProgress
    | .exited true => .completed
    | .exited false => .failed
    | .killed => .failed

/-- state of the part of the tuning loop modelled here -/
structure LoopSt where
  lastSeen : List Nat := []       -- keys of `last_seen_result_per_trial`
  schedStopped : List Nat := []   -- `trials_scheduler_stopped`
deriving Repr, Inhabited

structure Poll where
  trials : List PTrial := []      -- index = trial id (`trial_ids` is `range(n)`)
  ckpt : List Nat := []           -- trials owning a checkpoint directory
  deleteCkpt : Bool := false      -- `delete_checkpoints`
  delayedStop : Bool := false     -- environment flavour: `_stop_trial` only requests the stop
  busyCand : List Nat := []       -- `_busy_trial_id_candidates`
  clock : Nat := 0                -- global emission counter
  loop : LoopSt := {}
deriving Repr, Inhabited

def modifyAt {α} (f : α → α) : Nat → List α → List α
  | _, [] => []
  | 0, x :: xs => f x :: xs
  | n + 1, x :: xs => x :: modifyAt f n xs

def Poll.upd (b : Poll) (t : Nat) (f : PTrial → PTrial) : Poll :=
  { b with trials := modifyAt f t b.trials }

def insertNat (t : Nat) (l : List Nat) : List Nat := if t ∈ l then l else l ++ [t]

/-! ### worker operations -/

/-- the `n` reports a running job appends: indices `nrep, nrep+1, …`, stamps `c, c+1, …` -/
def newReps (run nrep c : Nat) : Nat → List Rep
  | 0 => []
  | n + 1 => ⟨run, nrep, c⟩ :: newReps run (nrep + 1) (c + 1) n

def PTrial.emit (t : PTrial) (c n : Nat) : PTrial :=
  match t.proc with
  | .running => { t with out := t.out ++ newReps t.run t.nrep c n, nrep := t.nrep + n }
  | _ => t

/-- worker of trial `t` writes `n` reports (no effect unless its process is alive). -/
def Poll.emit (b : Poll) (t n : Nat) : Poll :=
  { b.upd t (fun x => x.emit b.clock n) with clock := b.clock + n }

def PTrial.exit (t : PTrial) (ok : Bool) : PTrial :=
  match t.proc with
  | .running => if t.stopReq then { t with proc := .exited ok, stopFile := true }
                else { t with proc := .exited ok }
  | _ => t

/-- the job of trial `t` ends on its own with exit code 0 (`ok`) or ≠ 0. -/
def Poll.exit (b : Poll) (t : Nat) (ok : Bool) : Poll := b.upd t (fun x => x.exit ok)

/-- the job of trial `t` writes a checkpoint -/
def Poll.wckpt (b : Poll) (t : Nat) : Poll :=
  if t < b.trials.length then { b with ckpt := insertNat t b.ckpt } else b

/-! ### backend operations -/

def PTrial.kill (t : PTrial) : PTrial :=
  match t.proc with
  | .running => { t with proc := .killed }
  | _ => t

/-- `start_trial`. -/
def Poll.start (b : Poll) (ckptFrom : Option Nat) : Except BErr (Poll × Nat) :=
  let tid := b.trials.length
  let copied : Except BErr (List Nat) :=
    match ckptFrom with
    | none => .ok b.ckpt
    | some src => if src ∈ b.ckpt then .ok (insertNat tid b.ckpt) else .error (.fileNotFound "copy_checkpoint")
  match copied with
  | .error e => .error e
  | .ok ck =>
    .ok ({ b with trials := b.trials ++ [{}], ckpt := ck, busyCand := insertNat tid b.busyCand }, tid)

def PTrial.resume (t : PTrial) : PTrial :=
  { t with pauseFile := false, proc := .running, run := t.run + 1, nrep := 0,
           dictSt := .inProgress,
           since := [], staleAtResume := decide (t.cursor < t.out.length), decided := false }

/-- `resume_trial`. -/
def Poll.resume (b : Poll) (t : Nat) : Except BErr Poll :=
  match b.trials[t]? with
  | none => .error (.assertion "cannot resume a trial id that is not present")
  | some x =>
    if x.dictSt ≠ .paused then .error (.assertion "Cannot resume trial_id from status") else
    .ok { b.upd t PTrial.resume with busyCand := insertNat t b.busyCand }

def PTrial.pause (t : PTrial) : PTrial :=
  { t.kill with pauseFile := true, dictSt := .paused }

/-- `pause_trial`. -/
def Poll.pause (b : Poll) (t : Nat) : Except BErr Poll :=
  if t < b.trials.length then
    .ok { b.upd t PTrial.pause with busyCand := b.busyCand.erase t }
  else .error (.assertion "Invalid trial_id")

def PTrial.stop (delayed : Bool) (t : PTrial) : PTrial :=
  if delayed then
    (match t.proc with
     | .running => { t with stopReq := true }
     | _ => { t with stopFile := true })
  else { t.kill with stopFile := true }

/-- `stop_trial`. -/
def Poll.stop (b : Poll) (t : Nat) : Except BErr Poll :=
  match b.trials[t]? with
  | none => .error (.keyError "_stop_trial")
  | some x =>
    let released := !(b.delayedStop && x.proc == .running)
    .ok { b.upd t (PTrial.stop b.delayedStop) with
          busyCand := if released then b.busyCand.erase t else b.busyCand,
          ckpt := if b.deleteCkpt then b.ckpt.erase t else b.ckpt }

/-- `stop_all`: statuses are a snapshot taken by `_all_trial_results(self.trial_ids)`. -/
def stopAllGo (b : Poll) : List (Nat × St) → Except BErr Poll
  | [] => .ok b
  | (t, st) :: rest =>
    if st = .inProgress then
      match b.stop t with
      | .error e => .error e
      | .ok b' => stopAllGo b' rest
    else stopAllGo b rest

def Poll.statuses (b : Poll) : List (Nat × St) :=
  (List.range b.trials.length).zip (b.trials.map PTrial.status)

def Poll.stopAll (b : Poll) : Except BErr Poll :=
  match stopAllGo b b.statuses with
  | .error e => .error e
  | .ok b' => .ok (if b'.deleteCkpt then { b' with ckpt := [] } else b')

/-- `busy_trial_ids` of the environment (as `LocalBackend`). -/
def Poll.busy (b : Poll) : Poll × List (Nat × St) :=
  let l := b.busyCand.filterMap fun t =>
    match b.trials[t]? with
    | some x => if x.status.busy then some (t, x.status) else none
    | none => none
  ({ b with busyCand := l.map (·.1) }, l)

/-! ### `fetch_status_results` -/

/-- body of the first loop of `fetch_status_results` for one `TrialResult`:
new `_trial_dict` entry, hide or slice, advance the cursor. -/
def PTrial.fetchOne (t : PTrial) : PTrial × List Rep :=
  let st := t.status
  if t.out.length > 0 ∧ ¬ st.hidden then
    let new := t.out.drop t.cursor
    ({ t with dictSt := st, cursor := t.cursor + new.length }, new)
  else ({ t with dictSt := st }, [])

/-- first loop over `all_trial_results`; `KeyError` for an id the environment does not know -/
def fetchGo (b : Poll) : List Nat → Except BErr (Poll × List (Nat × Rep))
  | [] => .ok (b, [])
  | t :: rest =>
    match b.trials[t]? with
    | none => .error (.keyError "_all_trial_results")
    | some x =>
      match fetchGo (b.upd t (fun y => y.fetchOne.1)) rest with
      | .error e => .error e
      | .ok (b', more) => .ok (b', x.fetchOne.2.map (fun r => (t, r)) ++ more)

/-- insertion into a list sorted by stamp, after equal stamps (Python's stable `sorted`). -/
def insertByStamp (x : Nat × Rep) : List (Nat × Rep) → List (Nat × Rep)
  | [] => [x]
  | y :: ys => if x.2.stamp < y.2.stamp then x :: y :: ys else y :: insertByStamp x ys

/-- `sorted(results, key=lambda result: result[1][ST_WORKER_TIMESTAMP])` -/
def sortByStamp (l : List (Nat × Rep)) : List (Nat × Rep) :=
  l.foldr insertByStamp []   -- foldr keeps equal keys in input order

/-- ghost: record a returned batch in the per-trial histories -/
def PTrial.record (t : PTrial) (new : List Rep) : PTrial :=
  { t with deliv := t.deliv ++ new, since := t.since ++ new,
           afterDec := if t.decided then t.afterDec ++ new else t.afterDec }

/-- the results of trial `t` in a batch, in batch order -/
def batchOf (batch : List (Nat × Rep)) (t : Nat) : List Rep :=
  (batch.filter (fun e => e.1 == t)).map (·.2)

def recordFrom (batch : List (Nat × Rep)) : Nat → List PTrial → List PTrial
  | _, [] => []
  | t, x :: xs => x.record (batchOf batch t) :: recordFrom batch (t + 1) xs

def recordBatch (batch : List (Nat × Rep)) (trials : List PTrial) : List PTrial :=
  recordFrom batch 0 trials

/-- `fetch_status_results(trial_ids)`: `(status per queried id, results sorted by stamp)`. -/
def Poll.fetch (b : Poll) (ids : List Nat) : Except BErr (Poll × List (Nat × St) × List (Nat × Rep)) :=
  match fetchGo b ids with
  | .error e => .error e
  | .ok (b', raw) =>
    let batch := sortByStamp raw
    let b'' := { b' with trials := recordBatch batch b'.trials }
    .ok (b'', ids.map (fun t => (t, (b''.trials[t]?.map (·.dictSt)).getD .inProgress)), batch)

/-! ### the batch filter of `Tuner._update_running_trials` -/

/-- one entry of the scheduler script of a `loop` operation: the decision for the next
result handed to the scheduler, and the number of reports the worker of that trial writes
before the resulting command reaches the backend. -/
structure ScriptEntry where
  decision : Decision
  emit : Nat
deriving DecidableEq, Repr, Inhabited

structure Handed where
  trial : Nat
  rep : Rep
  decision : Decision
deriving DecidableEq, Repr

/-- ghost: the scheduler sees `r` of trial `t` -/
def PTrial.hand (t : PTrial) (r : Rep) : PTrial :=
  { t with handed := t.handed ++ [r],
           afterDec := if t.decided then t.afterDec ++ [r] else t.afterDec }

/-- ghost: the scheduler answered STOP / PAUSE for trial `t` (recorded once the command the
decision causes has been issued; nothing is polled in between) -/
def PTrial.markDecided (d : Decision) (t : PTrial) : PTrial :=
  { t with decided := t.decided || decide (d ≠ .continue) }

/-- effect of the decision on the backend: `stop_trial` unless the polled status was
`completed`; `pause_trial` always. -/
def Poll.command (b : Poll) (t : Nat) (polled : St) (d : Decision) : Except BErr Poll :=
  match d with
  | .continue => .ok b
  | .stop => if polled ≠ .completed then b.stop t else .ok b
  | .pause => b.pause t

/-- first loop of `_update_running_trials` over `new_results`; `done` = keys of
`done_trials` with the status recorded there. -/
def loopGo (b : Poll) (statusOf : Nat → St) (done : List (Nat × St)) :
    List (Nat × Rep) → List ScriptEntry → Except BErr (Poll × List (Nat × St) × List Handed)
  | [], _ => .ok (b, done, [])
  | (t, r) :: rest, script =>
    if (alookup t done).isSome then loopGo b statusOf done rest script else
    let e := script.headD ⟨.continue, 0⟩
    let polled := statusOf t
    -- `last_seen_result_per_trial[trial_id] = result`; `scheduler.on_trial_result`
    -- (the scripted scheduler lets the worker write `e.emit` reports before it answers)
    let b1 := ({ b with loop := { b.loop with lastSeen := insertNat t b.loop.lastSeen } }).upd t
                (fun x => x.hand r)
    let b2 := b1.emit t e.emit
    match b2.command t polled e.decision with
    | .error err => .error err
    | .ok b3 =>
      let done' := match e.decision with
        | .continue => done
        | .stop => aset t (if polled = .completed then polled else St.stopped) done
        | .pause => aset t St.paused done
      let b3' := b3.upd t (PTrial.markDecided e.decision)
      let b4 := if e.decision = .stop then
          { b3' with loop := { b3'.loop with schedStopped := insertNat t b3'.loop.schedStopped } } else b3'
      match loopGo b4 statusOf done' rest script.tail with
      | .error err => .error err
      | .ok (b', d', hs) => .ok (b', d', ⟨t, r, e.decision⟩ :: hs)

/-- second loop of `_update_running_trials` over `trial_status_dict` -/
def doneGo (lp : LoopSt) (done : List (Nat × St)) : List (Nat × St) → Except BErr (List (Nat × St))
  | [] => .ok done
  | (t, st) :: rest =>
    match st with
    | .completed =>
      if t ∉ lp.lastSeen then .error (.valueError "completed and no metrics got observed") else
      let st' := if alookup t done = some St.paused then St.paused else St.completed
      doneGo lp (aset t st' done) rest
    | .failed => doneGo lp (aset t .failed done) rest
    | .stopped => if t ∉ lp.schedStopped then doneGo lp (aset t .stopped done) rest else doneGo lp done rest
    | _ => doneGo lp done rest

structure LoopOut where
  statuses : List (Nat × St)
  batch : List (Nat × Rep)
  handed : List Handed
  /-- `done_trials_statuses`, or the `ValueError` of the second loop, which is raised
  after the commands were issued (the state changes stay) -/
  done : Except BErr (List (Nat × St))

/-- `Tuner._process_new_results(running_trials_ids)` against this backend, with a scripted
scheduler. -/
def statusIn (sts : List (Nat × St)) (t : Nat) : St := (alookup t sts).getD .inProgress

def Poll.loopStep (b : Poll) (ids : List Nat) (script : List ScriptEntry) :
    Except BErr (Poll × LoopOut) :=
  match b.fetch ids with
  | .error e => .error e
  | .ok (b1, sts, batch) =>
    match loopGo b1 (statusIn sts) [] batch script with
    | .error e => .error e
    | .ok (b2, done, hs) => .ok (b2, ⟨sts, batch, hs, doneGo b2.loop done sts⟩)

/-! ### operation sequences -/

inductive POp
  | start (ckptFrom : Option Nat)
  | emit (t n : Nat)
  | exit (t : Nat) (ok : Bool)
  | wckpt (t : Nat)
  | fetch (ids : List Nat)
  | pause (t : Nat)
  | stop (t : Nat)
  | resume (t : Nat)
  | stopAll
  | busy
  | loop (ids : List Nat) (script : List ScriptEntry)
deriving Repr

def Poll.init (deleteCkpt delayedStop : Bool) : Poll :=
  { deleteCkpt := deleteCkpt, delayedStop := delayedStop }

/-- one operation; a rejected operation (Python exception) leaves the state unchanged:
every exception of the modelled code is raised before its first state change, except the
`ValueError` at the end of `loop`, which keeps the changes. -/
def Poll.step (b : Poll) : POp → Except BErr Poll
  | .start c => (b.start c).map (·.1)
  | .emit t n => .ok (b.emit t n)
  | .exit t ok => .ok (b.exit t ok)
  | .wckpt t => .ok (b.wckpt t)
  | .fetch ids => (b.fetch ids).map (·.1)
  | .pause t => b.pause t
  | .stop t => b.stop t
  | .resume t => b.resume t
  | .stopAll => b.stopAll
  | .busy => .ok b.busy.1
  | .loop ids script => (b.loopStep ids script).map (·.1)

/-- run a history; rejected operations are skipped -/
def Poll.run (b : Poll) : List POp → Poll
  | [] => b
  | op :: ops =>
    match b.step op with
    | .ok b' => b'.run ops
    | .error _ => b.run ops

end SyneTune.Backend
