/-
Model M5 (text): the report channel of `syne_tune/report.py`.

* writer side: `Reporter.__call__` → `_report_logger` → `_serialize_report_dict`
  (`util.dump_json_with_numpy` = `json.dumps(x, default=np_encoder)`),
* reader side: `LocalBackend.stdout` (`open(..., "r").readlines()`, i.e. universal-newline
  translation and lines that keep their `'\n'`) followed by `report.retrieve`
  (`re.findall(r"\[tune-metric\]: (\{.*\})", "\n".join(log_lines))`).

`json.dumps` itself is NOT modelled: the JSON text of a report is the value of an
abstract encoder `enc` (in the driver: the text the real code wrote, as an input tape).
What IS modelled of the encoding step is the repository's own `np_encoder` hook
(numpy scalar → `.item()`, everything else → `TypeError`) and `json.dumps`'s documented
treatment of containers / dictionary keys (`Val.norm`).

Core Lean only; executable.
-/
namespace SyneTune.Report

/-! ### the regular expression -/

/-- what `_report_logger` prints in front of the JSON text: `"[" tag "]: "` -/
def linePrefix (tag : List Char) : List Char := '[' :: (tag ++ [']', ':', ' '])

/-- the literal part of the regex `\[tag\]: (\{.*\})` up to and including the `{` -/
def marker (tag : List Char) : List Char := '[' :: (tag ++ [']', ':', ' ', '{'])

/-- `print(f"[{tag}]: {payload}")` -/
def render (tag payload : List Char) : List Char := linePrefix tag ++ payload ++ ['\n']

/-- the prefix of `l` up to and including its last `'}'` (`none` if `l` has no `'}'`):
what the greedy `.*\}` consumes of the rest of a line after back-tracking. -/
def uptoLastClose : List Char → Option (List Char)
  | [] => none
  | c :: cs =>
    match uptoLastClose cs with
    | some p => some (c :: p)
    | none => if c = '}' then some [c] else none

/-- `.` does not match `'\n'` (no DOTALL): the part of `s` the `.*` can range over -/
def restOfLine (s : List Char) : List Char := s.takeWhile (fun c => c != '\n')

/-- result of a successful match attempt: captured group and total length of the match -/
def groupOf (pre : List Char) (rest : List Char) : Option (List Char × Nat) :=
  match uptoLastClose (restOfLine rest) with
  | some g => some ('{' :: g, pre.length + g.length)
  | none => none

/-- try to match the regex at the very beginning of `s`.  `pre` is the literal
`marker tag`. -/
def matchAt (pre : List Char) (s : List Char) : Option (List Char × Nat) :=
  if pre.isPrefixOf s then groupOf pre (s.drop pre.length) else none

/-- `re.findall`: scan left to right; at each position try to match; after a match
continue behind it (non-overlapping).  `skip` = number of characters still covered by
the previous match.  Structural recursion on the text. -/
def scan (pre : List Char) : Nat → List Char → List (List Char)
  | _, [] => []
  | n + 1, _ :: cs => scan pre n cs
  | 0, c :: cs =>
    match matchAt pre (c :: cs) with
    | some (g, len) => g :: scan pre (len - 1) cs
    | none => scan pre 0 cs

def findall (tag : List Char) (text : List Char) : List (List Char) := scan (marker tag) 0 text

/-- `"\n".join(lines)` -/
def joinNl : List (List Char) → List Char
  | [] => []
  | [l] => l
  | l :: l2 :: ls => l ++ '\n' :: joinNl (l2 :: ls)

/-- `report.retrieve` without the final `json.loads` of each group -/
def retrieve (tag : List Char) (lines : List (List Char)) : List (List Char) :=
  findall tag (joinNl lines)

/-- `readlines()` on text whose only line terminator is `'\n'`: every line keeps its
terminator, a last unterminated line is kept too. -/
def readlines : List Char → List (List Char)
  | [] => []
  | c :: cs =>
    if c = '\n' then ['\n'] :: readlines cs
    else match readlines cs with
      | [] => [[c]]
      | l :: ls => (c :: l) :: ls

/-- universal-newline translation of `open(path, "r")`: `"\r\n"` and `"\r"` become `"\n"`.
The flag says that the previous character was a `'\r'` (already turned into `'\n'`). -/
def univAux : Bool → List Char → List Char
  | _, [] => []
  | prevCR, c :: cs =>
    if c = '\r' then '\n' :: univAux true cs
    else if c = '\n' then (if prevCR then univAux false cs else '\n' :: univAux false cs)
    else c :: univAux false cs

def univ (s : List Char) : List Char := univAux false s

/-- `LocalBackend.stdout`: the lines of the captured file as the tuner sees them -/
def localRead (s : List Char) : List (List Char) := readlines (univ s)

/-- a captured stream: noise chunk, report line, noise chunk, report line, …, final noise.
A chunk is *everything* written between two consecutive report lines (possibly empty,
with or without trailing newline). -/
def streamText (tag : List Char) (segs : List (List Char × List Char)) (tail : List Char) :
    List Char :=
  (segs.flatMap fun s => s.1 ++ render tag s.2) ++ tail

/-! ### the tag shipped in `constants.py` (`ST_SAGEMAKER_METRIC_TAG`) -/

def tuneMetricTag : List Char := "tune-metric".toList

/-- no proper non-empty suffix of `p` is a prefix of `p` (no self-overlap) -/
def noBorderB (p : List Char) : Bool :=
  (List.range p.length).all fun m => m == 0 || !((p.drop m).isPrefixOf p)

/-- executable form of `MarkerOK` -/
def markerOKB (tag : List Char) : Bool :=
  !(tag.contains '\n') && !(tag.contains '\r') && noBorderB (marker tag)

/-- no proper non-empty suffix of `p` is a prefix of `p` -/
def NoBorder (p : List Char) : Prop :=
  ∀ m, 0 < m → m < p.length → ¬ (p.drop m <+: p)

/-- conditions on the tag under which the framing theorem is proved: no line terminator
inside, and the marker `"[tag]: {"` does not overlap itself -/
structure MarkerOK (tag : List Char) : Prop where
  nl : '\n' ∉ tag
  cr : '\r' ∉ tag
  border : NoBorder (marker tag)

/-- hypotheses J1, J2 on the JSON text of a report (trusted of `json.dumps`): no line
terminator inside; first character `{`, last character `}` (two different positions) -/
structure PayloadOK (payload : List Char) : Prop where
  nl : '\n' ∉ payload
  cr : '\r' ∉ payload
  shape : ∃ mid, payload = '{' :: (mid ++ ['}'])

/-- executable form of `PayloadOK` (used by the driver on every real payload) -/
def payloadOKB (payload : List Char) : Bool :=
  !(payload.contains '\n') && !(payload.contains '\r') && 2 ≤ payload.length &&
    payload.head? == some '{' && payload.getLast? == some '}'

/-! ### values handed to `Reporter.__call__` -/

/-- a Python float: finite value as exact rational, `-0.0`, NaN, ±inf -/
inductive Flt
  | fin (q : Rat) | negZero | nan | pinf | ninf
deriving DecidableEq, Repr, Inhabited

/-- natively JSON-encodable scalars (`None`, `bool`, `int`, `float`, `str` and their
subclasses such as `np.float64`, `np.str_`); strings as code points -/
inductive Leaf
  | null | bool (b : Bool) | int (i : Int) | float (f : Flt) | str (s : List Nat)
deriving DecidableEq, Repr, Inhabited

/-- a dictionary key as `json.dumps` sees it.  `float` carries Python's `float.__repr__`
text (trusted), `bad` is any other key type (`tuple`, `np.int64`, …: `TypeError`). -/
inductive DKey
  | str (s : List Nat) | int (i : Int) | float (repr : List Nat) | bool (b : Bool) | null | bad
deriving DecidableEq, Repr, Inhabited

/-- a value somewhere inside a report.
`np item`: an `np.generic` instance that is not a subclass of a native type; `item` is
what its `.item()` returns.  `other`: anything `json.dumps` cannot encode and that is not
an `np.generic` (ndarray, set, arbitrary object, complex, bytes).  `list`: list or tuple. -/
inductive Val
  | leaf (l : Leaf)
  | np (item : Val)
  | other
  | list (xs : List Val)
  | dict (kvs : List (DKey × Val))
deriving Repr, Inhabited

/-- what arrives: JSON value after `json.loads` -/
inductive Plain
  | leaf (l : Leaf)
  | list (xs : List Plain)
  | dict (kvs : List (List Nat × Plain))
deriving Repr, Inhabited

def cps (s : String) : List Nat := s.toList.map Char.toNat

/-- text of a dictionary key in the JSON output (`json.encoder`: str as is, float by
`float.__repr__`, `True/False/None` → `true/false/null`, int by `int.__repr__`) -/
def DKey.text : DKey → Option (List Nat)
  | .str s => some s
  | .int i => some (cps (toString i))
  | .float r => some r
  | .bool true => some (cps "true")
  | .bool false => some (cps "false")
  | .null => some (cps "null")
  | .bad => none

mutual
/-- `json.dumps(·, default=np_encoder)` followed by `json.loads`, as a partial function:
`none` = `TypeError`.  numpy scalars are replaced by their `.item()`, which is then
encoded by the same rules (so `np.complex64` → `complex` → `TypeError`). -/
def Val.norm : Val → Option Plain
  | .leaf l => some (.leaf l)
  | .np item => item.norm
  | .other => none
  | .list xs => (normList xs).map Plain.list
  | .dict kvs => (normKvs kvs).map Plain.dict

def normList : List Val → Option (List Plain)
  | [] => some []
  | x :: xs =>
    match x.norm with
    | none => none
    | some a => (normList xs).map (a :: ·)

def normKvs : List (DKey × Val) → Option (List (List Nat × Plain))
  | [] => some []
  | (k, v) :: rest =>
    match k.text with
    | none => none
    | some kt =>
      match v.norm with
      | none => none
      | some a => (normKvs rest).map ((kt, a) :: ·)
end

/-- the (normalised) dictionary of one report: keyword arguments have `str` keys -/
abbrev PDict := List (List Nat × Plain)

/-- `json.dumps` on the keyword dictionary: `none` = `TypeError` -/
def normKw : List (List Nat × Val) → Option PDict
  | [] => some []
  | (k, v) :: rest =>
    match v.norm with
    | none => none
    | some a => (normKw rest).map ((k, a) :: ·)

/-! ### `Reporter` -/

/-- `key.startswith("st_")`: the literal of `Reporter.__call__` -/
def reservedPrefix : List Nat := cps "st_"

/-- `assert sys.getsizeof(report_str) < 50_000` -/
def sizeLimit : Nat := 50000

/-- the two diagnostics `_serialize_report_dict` prints (to the same stdout) before
re-raising -/
def diagType : List Char :=
  "The dictionary set to be reported does not seem to be serializable.\n".toList
def diagSize : List Char := "The dictionary set to be reported is too large.\n".toList

structure Cfg where
  tag : List Char
  kTimestamp : List Nat      -- ST_WORKER_TIMESTAMP
  kTime : List Nat           -- ST_WORKER_TIME
  kCost : List Nat           -- ST_WORKER_COST
  kIter : List Nat           -- ST_WORKER_ITER
  overhead : Nat             -- `sys.getsizeof("")` of the running CPython (ASCII `str`)
  addTime : Bool
  dollarCost : Option Rat    -- attribute `dollar_cost` exists (SageMaker instance detected)
deriving Repr

inductive Err
  | noneValue    -- `_check_reported_values`: AssertionError
  | reserved     -- reserved prefix: AssertionError
  | typeError    -- not JSON-serialisable: TypeError
  | tooLarge     -- size assertion: AssertionError
deriving DecidableEq, Repr

structure St where
  iter : Nat                          -- `self.iter`
  start : Rat                         -- `self.start`
  segs : List (List Char × PDict)     -- (noise before the line, dictionary of the line), oldest first
  cur : List Char                     -- output since the last report line
deriving Repr

/-- `__post_init__`: `iter = 0` always; `start` is only set (and only used) `if self.add_time` -/
def St.init (c : Cfg) (perf0 : Rat) : St :=
  { iter := 0, start := if c.addTime then perf0 else 0,
    segs := [], cur := [] }

def isNone : Val → Bool
  | .leaf .null => true
  | _ => false

def hasNone (kw : List (List Nat × Val)) : Bool := kw.any fun kv => isNone kv.2

def hasReserved (kw : List (List Nat × Val)) : Bool := kw.any fun kv => reservedPrefix.isPrefixOf kv.1

/-- the entries added when `add_time` -/
def timeEntries (c : Cfg) (st : St) (perf : Rat) : List (List Nat × Leaf) :=
  if c.addTime then
    (c.kTime, .float (.fin (perf - st.start))) ::
      (match c.dollarCost with
       | some d => [(c.kCost, .float (.fin ((perf - st.start) * d)))]
       | none => [])
  else []

/-- the entries `__call__` adds (insertion order): time stamp, [time, [cost]], counter -/
def extras (c : Cfg) (st : St) (now perf : Rat) (i : Nat) : List (List Nat × Leaf) :=
  (c.kTimestamp, .float (.fin now)) :: (timeEntries c st perf ++ [(c.kIter, .int i)])

/-- keyword dictionary after `__call__` added its own entries -/
def augment (c : Cfg) (st : St) (kw : List (List Nat × Val)) (now perf : Rat) (i : Nat) :
    List (List Nat × Val) :=
  kw ++ (extras c st now perf i).map fun e => (e.1, Val.leaf e.2)

/-- `_report_logger` / `_serialize_report_dict` with the counter already advanced -/
def emit (c : Cfg) (enc : PDict → List Char) (st : St) (i : Nat) (full : List (List Nat × Val)) :
    St × Option Err :=
  match normKw full with
  | none => ({ st with iter := i + 1, cur := st.cur ++ diagType }, some .typeError)
  | some d =>
    if c.overhead + (enc d).length < sizeLimit then
      ({ st with iter := i + 1, segs := st.segs ++ [(st.cur, d)], cur := [] }, none)
    else
      ({ st with iter := i + 1, cur := st.cur ++ diagSize }, some .tooLarge)

/-- `Reporter.__call__(**kw)` with `time()` = `now`, `perf_counter()` = `perf`. -/
def St.call (c : Cfg) (enc : PDict → List Char) (st : St) (kw : List (List Nat × Val))
    (now perf : Rat) : St × Option Err :=
  if hasNone kw then (st, some .noneValue)
  else if hasReserved kw then (st, some .reserved)
  else emit c enc st st.iter (augment c st kw now perf st.iter)

/-- other output of the training script on the same stream -/
def St.noise (st : St) (n : List Char) : St := { st with cur := st.cur ++ n }

/-- everything written to stdout so far -/
def St.out (c : Cfg) (enc : PDict → List Char) (st : St) : List Char :=
  streamText c.tag (st.segs.map fun s => (s.1, enc s.2)) st.cur

/-- one step of a training script's output history -/
inductive Op
  | noise (n : List Char)
  | report (kw : List (List Nat × Val)) (now perf : Rat)

def St.step (c : Cfg) (enc : PDict → List Char) (st : St) : Op → St
  | .noise n => st.noise n
  | .report kw now perf => (st.call c enc kw now perf).1

def St.run (c : Cfg) (enc : PDict → List Char) (st : St) (ops : List Op) : St :=
  ops.foldl (St.step c enc) st

/-- lookup in a delivered dictionary -/
def pget (k : List Nat) : PDict → Option Plain
  | [] => none
  | (k', v) :: rest => if k = k' then some v else pget k rest

/-! ### vocabulary of the property statements -/

mutual
/-- does the value contain, anywhere, something `json.dumps(·, default=np_encoder)` rejects -/
def Val.bad : Val → Bool
  | .leaf _ => false
  | .np item => item.bad
  | .other => true
  | .list xs => badList xs
  | .dict kvs => badKvs kvs

def badList : List Val → Bool
  | [] => false
  | x :: xs => x.bad || badList xs

def badKvs : List (DKey × Val) → Bool
  | [] => false
  | (k, v) :: rest => k.text.isNone || v.bad || badKvs rest
end

/-- the reserved keys really are reserved, and those that are looked up are different -/
structure CfgOK (c : Cfg) : Prop where
  ts : reservedPrefix <+: c.kTimestamp
  time : reservedPrefix <+: c.kTime
  iter : reservedPrefix <+: c.kIter
  iter_ts : c.kIter ≠ c.kTimestamp
  iter_time : c.kIter ≠ c.kTime
  iter_cost : c.kIter ≠ c.kCost
  time_ts : c.kTime ≠ c.kTimestamp

/-- `d["st_worker_iter"]` of a delivered dictionary -/
def iterOf (c : Cfg) (d : PDict) : Option Int :=
  match pget c.kIter d with
  | some (.leaf (.int i)) => some i
  | _ => none

/-- `d["st_worker_timestamp"]` -/
def tsOf (c : Cfg) (d : PDict) : Option Rat :=
  match pget c.kTimestamp d with
  | some (.leaf (.float (.fin q))) => some q
  | _ => none

/-- `d["st_worker_time"]` -/
def timeOf (c : Cfg) (d : PDict) : Option Rat :=
  match pget c.kTime d with
  | some (.leaf (.float (.fin q))) => some q
  | _ => none

/-- readings of `time()` at the report calls of a history, in order -/
def nows : List Op → List Rat
  | [] => []
  | .noise _ :: ops => nows ops
  | .report _ now _ :: ops => now :: nows ops

/-- readings of `perf_counter()` at the report calls -/
def perfs : List Op → List Rat
  | [] => []
  | .noise _ :: ops => perfs ops
  | .report _ _ perf :: ops => perf :: perfs ops

/-- no report of the history fails in `_serialize_report_dict` (i.e. after the counter was
advanced) -/
def serialOK (c : Cfg) (enc : PDict → List Char) : St → List Op → Bool
  | _, [] => true
  | st, .noise n :: ops => serialOK c enc (st.noise n) ops
  | st, .report kw now perf :: ops =>
    ((st.call c enc kw now perf).2 != some .typeError) && ((st.call c enc kw now perf).2 != some .tooLarge)
      && serialOK c enc (st.call c enc kw now perf).1 ops

/-- the other output of the script never completes an occurrence of the marker: whenever
noise is written, everything written since the last report line is still marker-free -/
def cleanRun (c : Cfg) (enc : PDict → List Char) : St → List Op → Prop
  | _, [] => True
  | st, .noise n :: ops => ¬ marker c.tag <:+: st.cur ++ n ∧ cleanRun c enc (st.noise n) ops
  | st, .report kw now perf :: ops => cleanRun c enc (st.call c enc kw now perf).1 ops

/-- the dictionary a successful call sends -/
def sentDict (c : Cfg) (st : St) (dkw : PDict) (now perf : Rat) : PDict :=
  dkw ++ (extras c st now perf st.iter).map fun e => (e.1, Plain.leaf e.2)

/-- the two diagnostics of `_serialize_report_dict` (`'T…\n'`) are harmless noise for this tag -/
structure DiagOK (tag : List Char) : Prop where
  noT : 'T' ∉ marker tag
  nl : '\n' ∉ marker tag
  typeTail : ¬ marker tag <:+: diagType.tail
  sizeTail : ¬ marker tag <:+: diagSize.tail

/-- executable form of `DiagOK` -/
def diagOKB (tag : List Char) : Bool :=
  !((marker tag).contains 'T') && !((marker tag).contains '\n') &&
    decide (¬ marker tag <:+: diagType.tail) && decide (¬ marker tag <:+: diagSize.tail)

end SyneTune.Report
