import SyneTune.Model.SyncManager
/-
Model of `synchronous/hyperband.py`: `SynchronousHyperbandScheduler` (`_suggest`,
`_on_result`, `_report_as_failed`, `on_trial_result`, `on_trial_error`,
`on_trial_complete`, `on_trial_remove`, `trials_checkpoints_can_be_removed`).
The searcher is outside the model: whether `get_config` returned a configuration is an
input of `suggest`; the calls the scheduler makes on the searcher are outputs.
Trial ids of new trials are handed in by the caller (the tuning loop).
-/
namespace SyneTune.Sync
open SyneTune

/-- calls on the searcher -/
inductive SCall
  | pending (tid level : Nat)                          -- `register_pending(trial_id, config, milestone)`
  | update (tid r : Nat) (v : Metric) (upd : Bool)     -- `on_trial_result(..., update=upd)`
  | evalFailed (tid : Nat)                             -- `evaluation_failed`
deriving DecidableEq, Repr

structure Sched where
  mgr : Manager
  maxResourceAttr : Bool := false                      -- `max_resource_attr is not None`
  searcherAll : Bool := false                          -- `searcher_data == "all"`
  pending : List (Nat × (Nat × SlotInRung)) := []      -- `_trial_to_pending_slot`
  configs : List Nat := []                             -- keys of `_trial_to_config`
  removable : List (Option Nat) := []                  -- `_trials_checkpoints_can_be_removed`
deriving Repr, Inhabited

/-- what `suggest` returns; `cfgLevel` is `config[max_resource_attr]` when that is set -/
inductive Suggestion
  | start (tid bracket rungIndex slotIndex level : Nat) (cfgLevel : Option Nat)
  | resume (tid level : Nat) (cfgLevel : Option Nat)
  | none
deriving DecidableEq, Repr

/-- `_on_result`. -/
def Sched.report (s : Sched) (id : Nat) (res : SlotInRung) : Except SErr Sched :=
  match s.mgr.onResult id res with
  | .error e => .error e
  | .ok (g, notPromoted) =>
    .ok { s with mgr := g,
                 removable := match notPromoted with | some l => s.removable ++ l | none => s.removable }

/-- `_report_as_failed`. -/
def Sched.reportAsFailed (s : Sched) (id : Nat) (sl : SlotInRung) : Except SErr Sched :=
  s.report id { sl with metric := some .nan }

def Sched.cfgLevel (s : Sched) (level : Nat) : Option Nat := if s.maxResourceAttr then some level else none

/-- the `if suggestion is not None:` registration -/
def Sched.register (s : Sched) (tid id : Nat) (sl : SlotInRung) : Except SErr Sched :=
  if (alookup tid s.pending).isSome then .error (.assertion "already registered as pending") else
  .ok { s with pending := aset tid (id, sl) s.pending }

/-- `_suggest(trial_id)`; `hasConfig` = the searcher returned a configuration (consulted
only when a new trial is to be started). -/
def Sched.suggest (s : Sched) (newTid : Nat) (hasConfig : Bool) :
    Except SErr (Sched × Suggestion × List SCall) :=
  match s.mgr.nextJob with
  | .error e => .error e
  | .ok (g, id, sl) =>
    let s1 := { s with mgr := g }
    match sl.tid with
    | some t =>
      -- paused trial to be resumed: `self._trial_to_config[trial_id]`
      if ¬ t ∈ s.configs then .error (.keyError "_trial_to_config") else
      match s1.register t id sl with
      | .error e => .error e
      | .ok s2 => .ok (s2, .resume t sl.level (s.cfgLevel sl.level), [])
    | none =>
      if hasConfig then
        let s2 := { s1 with configs := if newTid ∈ s1.configs then s1.configs else s1.configs ++ [newTid] }
        match s2.register newTid id { sl with tid := some newTid } with
        | .error e => .error e
        | .ok s3 =>
          .ok (s3, .start newTid id sl.rungIndex sl.slotIndex sl.level (s.cfgLevel sl.level),
               [SCall.pending newTid sl.level])
      else
        match s1.reportAsFailed id sl with
        | .error e => .error e
        | .ok s2 => .ok (s2, .none, [])

/-- the `if resource >= milestone:` block of `on_trial_result` -/
def Sched.atMilestone (s : Sched) (tid id : Nat) (sl : SlotInRung) (r : Nat) (v : Metric) :
    Except SErr (Sched × Decision) :=
  if sl.level ≤ r then
    if r ≠ sl.level then .error (.assertion "Training script must not skip rung levels") else
    match s.report id { sl with metric := some v } with
    | .error e => .error e
    | .ok s1 => .ok ({ s1 with pending := adel tid s1.pending }, .pause)
  else .ok (s, .continue)

/-- `on_trial_result`. -/
def Sched.onResult (s : Sched) (tid r : Nat) (v : Metric) : Except SErr (Sched × Decision × List SCall) :=
  match alookup tid s.pending with
  | none => .ok (s, .stop, [])
  | some (id, sl) =>
    if sl.tid ≠ some tid then .error (.assertion "slot_in_rung.trial_id == trial_id") else
    match s.atMilestone tid id sl r v with
    | .error e => .error e
    | .ok (s1, d) =>
      match s1.mgr.levelToPrevLevel id sl.level with
      | .error e => .error e
      | .ok prev =>
        if prev < r then
          if ¬ tid ∈ s1.configs then .error (.keyError "_trial_to_config") else
          .ok (s1, d, [SCall.update tid r v (s.searcherAll || r == sl.level)])
        else .ok (s1, d, [])

/-- `on_trial_error`. -/
def Sched.onError (s : Sched) (tid : Nat) : Except SErr (Sched × List SCall) :=
  match alookup tid s.pending with
  | none => .ok (s, [SCall.evalFailed tid])
  | some (id, sl) =>
    match s.reportAsFailed id sl with
    | .error e => .error e
    | .ok s1 => .ok ({ s1 with pending := adel tid s1.pending }, [SCall.evalFailed tid])

/-- `on_trial_complete` (`TrialSchedulerWithSearcher`): one searcher update, no state change. -/
def Sched.onComplete (s : Sched) (tid r : Nat) (v : Metric) : Sched × List SCall :=
  (s, [SCall.update tid r v true])

/-- `on_trial_remove` (`TrialScheduler` default: `pass`). -/
def Sched.onRemove (s : Sched) (_tid : Nat) : Sched := s

/-- `trials_checkpoints_can_be_removed`. -/
def Sched.takeRemovable (s : Sched) : Sched × List (Option Nat) :=
  ({ s with removable := [] }, s.removable)

/-- `SynchronousHyperbandScheduler(config_space, bracket_rungs, mode=…, max_resource_attr=…,
searcher_data=…)`. -/
def Sched.init (mode : Mode) (bracketRungs : List (List (Nat × Nat))) (maxResourceAttr searcherAll : Bool) :
    Except SErr Sched :=
  match Manager.init .hyperband mode bracketRungs with
  | .error e => .error e
  | .ok g => .ok { mgr := g, maxResourceAttr := maxResourceAttr, searcherAll := searcherAll }

/-! ### operations as data (for theorems over op lists) -/

inductive Op
  | suggest (tid : Nat) (hasConfig : Bool)
  | result (tid r : Nat) (v : Metric)
  | error (tid : Nat)
  | complete (tid r : Nat) (v : Metric)
  | remove (tid : Nat)
  | takeRemovable
deriving DecidableEq, Repr

structure Out where
  suggestion : Option Suggestion := none
  decision : Option Decision := none
  calls : List SCall := []
  removable : List (Option Nat) := []
deriving Repr

def Sched.step (s : Sched) : Op → Except SErr (Sched × Out)
  | .suggest tid c =>
    match s.suggest tid c with
    | .error e => .error e
    | .ok (s', sg, calls) => .ok (s', { suggestion := some sg, calls := calls })
  | .result tid r v =>
    match s.onResult tid r v with
    | .error e => .error e
    | .ok (s', d, calls) => .ok (s', { decision := some d, calls := calls })
  | .error tid =>
    match s.onError tid with
    | .error e => .error e
    | .ok (s', calls) => .ok (s', { calls := calls })
  | .complete tid r v => .ok ((s.onComplete tid r v).1, { calls := (s.onComplete tid r v).2 })
  | .remove tid => .ok (s.onRemove tid, {})
  | .takeRemovable => .ok (s.takeRemovable.1, { removable := s.takeRemovable.2 })

/-- state after an operation; a raised exception leaves the state as it was (the harness
stops a trace at the first exception) -/
def Sched.next (s : Sched) (op : Op) : Sched :=
  match s.step op with
  | .ok (s', _) => s'
  | .error _ => s

def Sched.run (s : Sched) (ops : List Op) : Sched := ops.foldl Sched.next s

end SyneTune.Sync
