import SyneTune.Base.Basic
/-
Shared definitions of the searcher models (C06, C16): configuration values, the minimal
domain notion needed by the searchers (NOT the C07 domain model), configuration spaces,
match strings (`config_to_match_string`), `cast_config_values`, `_postprocess_config`,
PBT `_explore`, the final exclusion filter of the BO loop
(`_pick_from_locally_optimized`) and the GP searchers' bookkeeping state with
`encode_state` / `decode_state`.

Sources: `syne_tune/config_space.py`, `optimizer/scheduler.py`, `schedulers/pbt.py`,
`searchers/bayesopt/tuning_algorithms/bo_algorithm.py`, `searchers/gp_searcher_utils.py`,
`searchers/bayesopt/datatypes/tuning_job_state.py`.   Core Lean only.
-/
namespace SyneTune.Srch
open SyneTune

/-- a hyperparameter value: Python `int`, `float` (exact dyadic rational) or `str` -/
inductive Val
  | int (i : Int)
  | rat (q : Rat)
  | str (s : String)
  /-- the float `-0.0` (produced by quantised samplers: `np.round(x / q) * q`); equal to
  `0.0` for Python, and (since the fix "-0.0 and 0.0 were treated as different
  configurations") with the same match string -/
  | nzero
deriving DecidableEq, Repr, Inhabited

inductive VType | int | float | str
deriving DecidableEq, Repr

def Val.vtype : Val → VType
  | .int _ => .int
  | .rat _ => .float
  | .str _ => .str
  | .nzero => .float

def Val.num? : Val → Option Rat
  | .int i => some (i : Rat)
  | .rat q => some q
  | .str _ => none
  | .nzero => some 0

/-- Python `==` on values (`-0.0 == 0.0`) -/
def Val.pyEq (a b : Val) : Bool :=
  match a.num?, b.num? with
  | some x, some y => decide (x = y)
  | _, _ => decide (a = b)

/-- errors of the model: a Python `assert`/exception (`assertion`, `keyError`,
`valueError`), an input tape that is too short (`tape`), a construct the model does not
express (`unsupported`, never compared), loop fuel (`fuel`, unreachable). -/
inductive Err
  | assertion (w : String)
  | keyError (w : String)
  | valueError (w : String)
  | tape
  | unsupported (w : String)
  | fuel
deriving DecidableEq, Repr

/-- a configuration: Python `dict` in insertion order -/
abbrev Config := List (String × Val)

def cget (k : String) : Config → Option Val
  | [] => none
  | (k', v) :: xs => if k = k' then some v else cget k xs

def chas (k : String) (c : Config) : Bool := (cget k c).isSome

/-! ### domains -/

/-- The domain kinds of `config_space.py` as far as the searchers look inside them.
`geo` is the double `exp(0.5 (log u + log l))` the code computes for log-scaled domains
(an input: libm is outside the model); `raw` of a log-scaled finite range is its
un-rounded internal grid `exp(k·step + log lower)`.  -/
inductive Dom
  /-- `Categorical` (`ordinal = false`) and `Ordinal` with equal-distance encoding -/
  | cat (cats : List Val) (ordinal : Bool)
  /-- `OrdinalNearestNeighbor`; `cats` numeric and strictly increasing -/
  | nn (cats : List Val) (log : Bool) (geo : Rat)
  /-- `Integer` -/
  | int (lo hi : Int) (log : Bool) (geo : Rat)
  /-- `Float` -/
  | float (lo hi : Rat) (log : Bool) (geo : Rat)
  /-- `FiniteRange(lower, upper, size, log_scale, cast_int)` with its `_values` -/
  | fin (vals : List Val) (lo hi : Rat) (log : Bool) (geo : Rat) (raw : List Rat)
deriving Repr, Inhabited

/-- `Domain.is_valid` (`value in values` for `FiniteRange`, which has no `is_valid`) -/
def Dom.member (d : Dom) (v : Val) : Bool :=
  match d with
  | .cat cats _ => cats.contains v
  | .nn cats _ _ => cats.contains v
  | .int lo hi _ _ => match v with
    | .int i => decide (lo ≤ i) && decide (i ≤ hi)
    | _ => false
  | .float lo hi _ _ => match v with
    | .rat q => decide (lo ≤ q) && decide (q ≤ hi)
    | .nzero => decide (lo ≤ 0) && decide (0 ≤ hi)
    | _ => false
  | .fin vals _ _ _ _ _ => vals.contains v

/-- `value_type` -/
def Dom.vtype : Dom → VType
  | .cat cats _ => match cats with | v :: _ => v.vtype | [] => .str
  | .nn cats _ _ => match cats with | v :: _ => v.vtype | [] => .float
  | .int .. => .int
  | .float .. => .float
  | .fin vals .. => match vals with | v :: _ => v.vtype | [] => .float

/-- `len(domain)`; `0` = infinite -/
def Dom.size : Dom → Nat
  | .cat cats _ => cats.length
  | .nn cats _ _ => cats.length
  | .int lo hi _ _ => (hi - lo + 1).toNat
  | .float lo hi _ _ => if lo < hi then 0 else 1
  | .fin vals .. => vals.length

def Dom.isLog : Dom → Bool
  | .cat .. => false
  | .nn _ l _ => l
  | .int _ _ l _ => l
  | .float _ _ l _ => l
  | .fin _ _ _ l _ _ => l

/-- Python `int(x)` on a float: truncation toward zero -/
def truncRat (q : Rat) : Int := if q < 0 then -((-q).floor) else q.floor

/-- `value_type(value)` -/
def coerce (t : VType) (v : Val) : Except Err Val :=
  match t, v with
  | .int, .int i => .ok (.int i)
  | .int, .rat q => .ok (.int (truncRat q))
  | .float, .int i => .ok (.rat i)
  | .float, .rat q => .ok (.rat q)
  | .float, .nzero => .ok .nzero
  | .int, .nzero => .ok (.int 0)
  | .str, .str s => .ok (.str s)
  | .str, _ => .error (.unsupported "str() of a number")
  | _, .str _ => .error (.valueError "number from str")

/-- distance used for nearest-neighbour matching: `|c - x|`, in log scale the monotone
image `max (c/x) (x/c)` of `|log c - log x|` -/
def ndist (log : Bool) (c x : Rat) : Rat :=
  if log then (if c ≤ x then x / c else c / x) else absRat (c - x)

def argminAux : (best : Rat) → (bi i : Nat) → List Rat → Nat
  | _, bi, _, [] => bi
  | best, bi, i, d :: ds => if d < best then argminAux d i (i + 1) ds else argminAux best bi (i + 1) ds

/-- `np.argmin`: index of the first minimum (0 on the empty list) -/
def argminFirst : List Rat → Nat
  | [] => 0
  | d :: ds => argminAux d 0 1 ds

/-- first minimum, except that a `hint` (the implementation's choice) is adopted when its
distance is within round-off of the minimum (free decision, DESIGN §2.1) -/
def pickNear (ds : List Rat) (hint : Option Nat) : Nat :=
  let b := argminFirst ds
  match hint with
  | none => b
  | some h =>
    match ds[h]?, ds[b]? with
    | some dh, some db => if (cmpLe dh db).isFree then h else b
    | _, _ => b

def clipRat (x lo hi : Rat) : Rat := if x < lo then lo else if hi < x then hi else x
def clipInt (x lo hi : Int) : Int := if x < lo then lo else if hi < x then hi else x

def numsOf (vs : List Val) : List Rat := vs.filterMap Val.num?

/-- linear `FiniteRange._map_to_int`: `clip(round((clip(x) - lower)/step), 0, size-1)`;
a pre-rounding value within round-off of a half-integer is free (hint adopted if it is one
of the two neighbours) -/
def finIdxLin (lo hi : Rat) (n : Nat) (x : Rat) (hint : Option Nat) : Nat :=
  if n ≤ 1 ∨ hi ≤ lo then 0 else
  let step := (hi - lo) / ((n - 1 : Nat) : Rat)
  let t := (clipRat x lo hi - lo) / step
  let r := roundHalfEven t
  let frac := t - (t.floor : Rat)
  let r' : Int :=
    match hint with
    | some h => if absRat (frac - 1/2) ≤ 1 / 1048576 ∧ ((h : Int) = t.floor ∨ (h : Int) = t.floor + 1) then (h : Int) else r
    | none => r
  (clipInt r' 0 ((n : Int) - 1)).toNat

/-- `FiniteRange._map_to_int` -/
def finIdx (lo hi : Rat) (log : Bool) (raw : List Rat) (n : Nat) (x : Rat) (hint : Option Nat) : Nat :=
  if log then
    if n ≤ 1 ∨ hi ≤ lo then 0 else pickNear (raw.map fun c => ndist true c (clipRat x lo hi)) hint
  else finIdxLin lo hi n x hint

/-- `Categorical.cast` for value type float and a value not among the categories:
nearest category, accepted when closer than 1 % -/
def catNearest (cats : List Val) (x : Rat) : Except Err Val :=
  let cs := numsOf cats
  let ds := cs.map fun c => absRat (c - x)
  let i := argminFirst ds
  match ds[i]?, cs[i]?, cats[i]? with
  | some d, some c, some v =>
    if d < (1 / 100) * absRat c then .ok v else .error (.assertion "not close to any category")
  | _, _, _ => .error (.assertion "not close to any category")

/-- `Domain.cast` -/
def Dom.cast (d : Dom) (v : Val) (hint : Option Nat) : Except Err Val :=
  match d with
  | .cat cats _ =>
    match coerce d.vtype v with
    | .error e => .error e
    | .ok w =>
      if cats.contains w then .ok w else
      match w with
      | .rat x => catNearest cats x
      | _ => .error (.assertion "value not contained in categories")
  | .nn cats log _ =>
    match v.num? with
    | none => .error (.valueError "float() of str")
    | some x =>
      let i := if cats.length ≤ 1 then 0 else pickNear ((numsOf cats).map fun c => ndist log c x) hint
      match cats[i]? with
      | some c => .ok c
      | none => .error (.keyError "categories")
  | .int _ _ _ _ =>
    match v with
    | .int i => .ok (.int i)
    | .rat q => .ok (.int (roundHalfEven q))
    | .nzero => .ok (.int 0)
    | .str _ => .error (.valueError "round() of str")
  | .float _ _ _ _ =>
    match v with
    | .nzero => .ok .nzero
    | _ =>
      match v.num? with
      | some x => .ok (.rat x)
      | none => .error (.valueError "float() of str")
  | .fin vals lo hi log _ raw =>
    match v.num? with
    | none => .error (.valueError "clip of str")
    | some x =>
      match vals[finIdx lo hi log raw vals.length x hint]? with
      | some c => .ok c
      | none => .error (.keyError "values")

/-! ### `'{:.6e}'.format(x)` (match string of a `Float` value) -/

def pow10 (e : Int) : Rat :=
  if 0 ≤ e then ((10 ^ e.toNat : Nat) : Rat) else 1 / ((10 ^ (-e).toNat : Nat) : Rat)

def decLen (n : Nat) : Nat := (Nat.repr n).length

/-- decimal exponent `e` with `10^e ≤ a < 10^(e+1)` for `a > 0` -/
def decExp (a : Rat) : Int :=
  let e0 : Int := (decLen a.num.natAbs : Int) - (decLen a.den : Int) - 1
  -- e0 ≤ true exponent ≤ e0 + 2
  if pow10 (e0 + 2) ≤ a then e0 + 2 else if pow10 (e0 + 1) ≤ a then e0 + 1 else e0

def padLeft (s : String) (n : Nat) (c : Char) : String :=
  String.ofList (List.replicate (n - s.length) c) ++ s

def fmt6e (q : Rat) : String :=
  if q = 0 then "0.000000e+00" else
  let a := absRat q
  let e := decExp a
  let m := (roundHalfEven (a / pow10 (e - 6))).toNat
  let (m, e) := if m ≥ 10000000 then (m / 10, e + 1) else (m, e)
  let ds := padLeft (Nat.repr m) 7 '0'
  let sign := if q < 0 then "-" else ""
  let es := (if e < 0 then "-" else "+") ++ padLeft (Nat.repr e.natAbs) 2 '0'
  sign ++ (ds.take 1).toString ++ "." ++ (ds.drop 1).toString ++ "e" ++ es

/-! ### configuration spaces, match strings -/

inductive Entry
  | dom (d : Dom)
  | const (v : Val)
deriving Repr, Inhabited

/-- `config_space`: Python dict in insertion order -/
abbrev Space := List (String × Entry)

def sget (k : String) : Space → Option Entry
  | [] => none
  | (k', e) :: xs => if k = k' then some e else sget k xs

/-- `non_constant_hyperparameter_keys` -/
def hpEntries : Space → List (String × Dom)
  | [] => []
  | (k, .dom d) :: xs => (k, d) :: hpEntries xs
  | (_, .const _) :: xs => hpEntries xs

def hpKeys (sp : Space) : List String := (hpEntries sp).map Prod.fst

def insertSorted (k : String) : List String → List String
  | [] => [k]
  | x :: xs => if k < x then k :: x :: xs else x :: insertSorted k xs

/-- `sorted(keys)` -/
def sortKeys : List String → List String
  | [] => []
  | k :: ks => insertSorted k (sortKeys ks)

/-- `_sorted_keys(config_space)` = `HyperparameterRanges.internal_keys` -/
def sortedHpKeys (sp : Space) : List String := sortKeys (hpKeys sp)

def indexOf? (v : Val) : List Val → Option Nat
  | [] => none
  | x :: xs => if x = v then some 0 else (indexOf? v xs).map (· + 1)

/-- `Domain.match_string(value)` -/
def Dom.matchPart (d : Dom) (v : Val) : Except Err String :=
  match d with
  | .cat cats _ => match indexOf? v cats with
    | some i => .ok (toString i)
    | none => .error (.valueError "value is not in list")
  | .nn cats _ _ => match indexOf? v cats with
    | some i => .ok (toString i)
    | none => .error (.valueError "value is not in list")
  | .int _ _ _ _ => match v with
    | .int i => .ok (toString i)
    | _ => .error (.unsupported "str() of a non-int for an Integer domain")
  | .float _ _ _ _ => match v.num? with
    -- f"{value + 0.0:.6e}": `-0.0 + 0.0 = 0.0`, so negative zero has the match string of zero
    | some x => .ok (fmt6e x)
    | none => .error (.valueError "format of str")
  | .fin vals lo hi log _ raw => match v.num? with
    | some x => .ok (toString (finIdx lo hi log raw vals.length x none))
    | none => .error (.valueError "clip of str")

def matchParts (sp : Space) (c : Config) : List String → Except Err (List String)
  | [] => .ok []
  | k :: ks =>
    match sget k sp, cget k c with
    | some (.dom d), some v =>
      match d.matchPart v, matchParts sp c ks with
      | .ok p, .ok ps => .ok ((k ++ ":" ++ p) :: ps)
      | .error e, _ => .error e
      | _, .error e => .error e
    | _, _ => .error (.keyError k)

/-- `HyperparameterRanges.config_to_match_string(config)` (no resource attribute) -/
def matchStr (sp : Space) (c : Config) : Except Err String :=
  match matchParts sp c (sortedHpKeys sp) with
  | .ok ps => .ok (String.intercalate "," ps)
  | .error e => .error e

/-- `config_space_size(config_space)` with `upper_limit = 2^20` -/
def spaceSizeAux (limit : Nat) : List (String × Dom) → Nat → Option Nat
  | [], acc => some acc
  | (_, d) :: ds, acc =>
    if d.size = 0 ∨ d.size > limit then none
    else if acc * d.size > limit then none
    else spaceSizeAux limit ds (acc * d.size)

def spaceSize (sp : Space) : Option Nat := spaceSizeAux 1048576 (hpEntries sp) 1

/-! ### `cast_config_values`, `_postprocess_config` -/

/-- `cast_config_values(config, config_space)` -/
def castConfigValues (c : Config) : Space → Except Err Config
  | [] => .ok []
  | (k, e) :: sp =>
    match cget k c with
    | none => castConfigValues c sp
    | some v =>
      match e with
      | .const _ =>
        match castConfigValues c sp with
        | .ok r => .ok ((k, v) :: r)
        | .error er => .error er
      | .dom d =>
        match d.cast v none, castConfigValues c sp with
        | .ok w, .ok r => .ok ((k, w) :: r)
        | .error er, _ => .error er
        | _, .error er => .error er

/-- `config_space.copy().update(cast)`: all keys of the space in its order; a
hyperparameter missing in `cast` would leave the `Domain` object in the result: error. -/
def mergeSpace (cast : Config) : Space → Except Err Config
  | [] => .ok []
  | (k, e) :: sp =>
    match mergeSpace cast sp with
    | .error er => .error er
    | .ok r =>
      match cget k cast, e with
      | some v, _ => .ok ((k, v) :: r)
      | none, .const v => .ok ((k, v) :: r)
      | none, .dom _ => .error (.keyError k)

/-- `TrialScheduler._postprocess_config` -/
def postprocess (sp : Space) (c : Config) : Except Err Config :=
  match castConfigValues c sp with
  | .error e => .error e
  | .ok cc => mergeSpace cc sp

/-- `FIFOScheduler._suggest` + `TrialScheduler.suggest` on a configuration returned by the
searcher: cast, (register pending), post-process. -/
def schedulerConfig (sp : Space) (c : Config) : Except Err Config :=
  match castConfigValues c sp with
  | .error e => .error e
  | .ok cc => postprocess sp cc

/-! ### PBT `_explore` -/

/-- one item of the explore tape: a `random_state.rand()` value or the value returned by
`hp_range.sample(size=1, random_state=...)` -/
inductive Draw
  | u (x : Rat)
  | v (x : Val)
deriving Repr

structure PbtConst where
  up : Rat          -- 1.2 as a double
  down : Rat        -- 0.8 as a double
  resample : Rat    -- resample_probability
deriving Repr

def Dom.isNumerical : Dom → Bool
  | .int .. => true
  | .float .. => true
  | .fin .. => true
  | _ => false

def Dom.bounds : Dom → Rat × Rat
  | .int lo hi _ _ => (lo, hi)
  | .float lo hi _ _ => (lo, hi)
  | .fin _ lo hi _ _ _ => (lo, hi)
  | _ => (0, 0)

/-- the perturbation branch: `hp_range.cast(np.clip(config[key] * multiplier, lower, upper))` -/
def perturb (d : Dom) (old : Val) (mult : Rat) (hint : Option Nat) : Except Err Val :=
  match old.num? with
  | none => .error (.valueError "str * float")
  | some x =>
    if old = .nzero ∧ d.bounds.1 ≤ 0 ∧ 0 ≤ d.bounds.2 then
      -- (-0.0) * multiplier = -0.0, which `np.clip` keeps whenever 0 lies within the bounds
      d.cast .nzero hint
    else d.cast (.rat (clipRat (x * mult) d.bounds.1 d.bounds.2)) hint

/-- the loop of `PopulationBasedTraining._explore` over the hyperparameters (in
`config_space` order); returns the new values and the rest of the tape. -/
def exploreLoop (k : PbtConst) (old : Config) (hints : List (String × Nat)) :
    List (String × Dom) → List Draw → Except Err (Config × List Draw)
  | [], tape => .ok ([], tape)
  | (key, d) :: rest, tape =>
    if d.isNumerical then
      match tape with
      | .u u1 :: tape1 =>
        if u1 < k.resample then
          match tape1 with
          | .v w :: tape2 =>
            match exploreLoop k old hints rest tape2 with
            | .ok (r, t) => .ok ((key, w) :: r, t)
            | .error e => .error e
          | _ => .error .tape
        else
          match tape1 with
          | .u u2 :: tape2 =>
            match cget key old with
            | none => .error (.keyError key)
            | some ov =>
              match perturb d ov (if 1/2 < u2 then k.up else k.down) ((hints.lookup key)) with
              | .error e => .error e
              | .ok w =>
                match exploreLoop k old hints rest tape2 with
                | .ok (r, t) => .ok ((key, w) :: r, t)
                | .error e => .error e
          | _ => .error .tape
      | _ => .error .tape
    else
      match tape with
      | .v w :: tape1 =>
        match exploreLoop k old hints rest tape1 with
        | .ok (r, t) => .ok ((key, w) :: r, t)
        | .error e => .error e
      | _ => .error .tape

/-- `new_config = deepcopy(config); new_config[key] = ...` : replace present keys in
place, append new ones -/
def cset (k : String) (v : Val) : Config → Config
  | [] => [(k, v)]
  | (k', v') :: xs => if k = k' then (k, v) :: xs else (k', v') :: cset k v xs

def cupdate (base upd : Config) : Config := upd.foldl (fun acc kv => cset kv.1 kv.2 acc) base

def explore (k : PbtConst) (sp : Space) (old : Config) (hints : List (String × Nat)) (tape : List Draw) :
    Except Err Config :=
  match exploreLoop k old hints (hpEntries sp) tape with
  | .error e => .error e
  | .ok (upd, []) => .ok (cupdate old upd)
  | .ok (_, _ :: _) => .error .tape

/-! ### final exclusion filter of the BO loop -/

/-- exclusion set (`ExclusionList.excl_set`): match strings, no duplicates -/
def exclAdd (m : String) (excl : List String) : List String := if m ∈ excl then excl else m :: excl

/-- `_pick_from_locally_optimized` with `DuplicateDetectorIdentical`; `pairs` is the
(lazily consumed) sequence `(original_candidate, optimized_candidate)` — arbitrary. -/
def pickLoop (mk : Config → Except Err String) (num : Nat) :
    List (Config × Config) → (excl : List String) → (acc : List Config) → Except Err (List Config)
  | [], _, acc => .ok acc
  | (orig, opt) :: rest, excl, acc =>
    match mk opt with
    | .error e => .error e
    | .ok mo =>
      if mo ∈ excl then
        match mk orig with
        | .error e => .error e
        | .ok mg =>
          if mg ∈ excl then
            (if acc.length = num then .ok acc else pickLoop mk num rest excl acc)
          else
            (if (acc ++ [orig]).length = num then .ok (acc ++ [orig])
             else pickLoop mk num rest (exclAdd mg excl) (acc ++ [orig]))
      else
        (if (acc ++ [opt]).length = num then .ok (acc ++ [opt])
         else pickLoop mk num rest (exclAdd mo excl) (acc ++ [opt]))

def pickFromLocallyOptimized (mk : Config → Except Err String) (excl : List String) (num : Nat)
    (pairs : List (Config × Config)) : Except Err (List Config) :=
  pickLoop mk num pairs excl []

/-! ### GP searchers: bookkeeping state (`TuningJobState`) and its codec -/

/-- metric values of a trial: a number or a dict resource ↦ number (multi-fidelity) -/
inductive MetricVal
  | scalar (x : Rat)
  | byRes (m : List (String × Rat))
deriving DecidableEq, Repr

structure TrialEval where
  tid : String
  metrics : List (String × MetricVal)
deriving DecidableEq, Repr

structure Pending where
  tid : String
  resource : Option Nat
deriving DecidableEq, Repr

structure TJState where
  configFor : List (String × Config)
  evals : List TrialEval
  failed : List String
  pending : List Pending
deriving DecidableEq, Repr

/-- pickle-able tree the state is encoded into (dicts, lists, strings, numbers) -/
inductive J
  | null
  | num (x : Rat)
  | int (i : Int)
  | str (s : String)
  | nzero
  | arr (xs : List J)
  | obj (kv : List (String × J))
deriving Repr, Inhabited

def J.get (k : String) : List (String × J) → Option J
  | [] => none
  | (k', v) :: xs => if k = k' then some v else J.get k xs

def encVal : Val → J
  | .int i => .int i
  | .rat q => .num q
  | .str s => .str s
  | .nzero => .nzero

def encConfig (c : Config) : J := .obj (c.map fun kv => (kv.1, encVal kv.2))

def encMetric : MetricVal → J
  | .scalar x => .num x
  | .byRes m => .obj (m.map fun kv => (kv.1, J.num kv.2))

def encEval (e : TrialEval) : J :=
  .obj [("trial_id", .str e.tid), ("metrics", .obj (e.metrics.map fun kv => (kv.1, encMetric kv.2)))]

/-- `{"trial_id": .., "resource": ..} if x.resource is not None else {"trial_id": ..}` -/
def encPending (p : Pending) : J :=
  match p.resource with
  | some r => .obj [("trial_id", .str p.tid), ("resource", .int r)]
  | none => .obj [("trial_id", .str p.tid)]

/-- `encode_state` -/
def encodeState (s : TJState) : J :=
  .obj [("config_for_trial", .obj (s.configFor.map fun kv => (kv.1, encConfig kv.2))),
        ("trials_evaluations", .arr (s.evals.map encEval)),
        ("failed_trials", .arr (s.failed.map J.str)),
        ("pending_evaluations", .arr (s.pending.map encPending))]

def decVal : J → Except Err Val
  | .int i => .ok (.int i)
  | .num q => .ok (.rat q)
  | .str s => .ok (.str s)
  | .nzero => .ok .nzero
  | _ => .error (.valueError "hyperparameter value")

def decKVs {α} (f : J → Except Err α) : List (String × J) → Except Err (List (String × α))
  | [] => .ok []
  | (k, j) :: xs =>
    match f j, decKVs f xs with
    | .ok v, .ok r => .ok ((k, v) :: r)
    | .error e, _ => .error e
    | _, .error e => .error e

def decList {α} (f : J → Except Err α) : List J → Except Err (List α)
  | [] => .ok []
  | j :: xs =>
    match f j, decList f xs with
    | .ok v, .ok r => .ok (v :: r)
    | .error e, _ => .error e
    | _, .error e => .error e

def decConfig : J → Except Err Config
  | .obj kv => decKVs decVal kv
  | _ => .error (.valueError "config")

def decNum : J → Except Err Rat
  | .num x => .ok x
  | _ => .error (.valueError "metric value")

def decMetric : J → Except Err MetricVal
  | .num x => .ok (.scalar x)
  | .obj kv => match decKVs decNum kv with
    | .ok m => .ok (.byRes m)
    | .error e => .error e
  | _ => .error (.valueError "metric")

/-- `TrialEvaluations(**x)` -/
def decEval : J → Except Err TrialEval
  | .obj kv =>
    match J.get "trial_id" kv, J.get "metrics" kv with
    | some (.str t), some (.obj m) =>
      if kv.length = 2 then
        match decKVs decMetric m with
        | .ok ms => .ok { tid := t, metrics := ms }
        | .error e => .error e
      else .error (.valueError "unexpected keyword")
    | _, _ => .error (.valueError "TrialEvaluations(**x)")
  | _ => .error (.valueError "TrialEvaluations(**x)")

/-- `PendingEvaluation(**x)`: `resource` defaults to `None` -/
def decPending : J → Except Err Pending
  | .obj kv =>
    match J.get "trial_id" kv, J.get "resource" kv with
    | some (.str t), none =>
      if kv.length = 1 then .ok { tid := t, resource := none } else .error (.valueError "unexpected keyword")
    | some (.str t), some (.int r) =>
      if kv.length = 2 ∧ 0 ≤ r then .ok { tid := t, resource := some r.toNat } else .error (.valueError "unexpected keyword")
    | _, _ => .error (.valueError "PendingEvaluation(**x)")
  | _ => .error (.valueError "PendingEvaluation(**x)")

def decStr : J → Except Err String
  | .str s => .ok s
  | _ => .error (.valueError "trial id")

/-- `TuningJobState._check_trial_ids`: every trial id has a configuration -/
def TJState.idsRegistered (s : TJState) : Bool :=
  let keys := s.configFor.map Prod.fst
  (s.evals.all fun e => keys.contains e.tid) && (s.failed.all fun t => keys.contains t) &&
    (s.pending.all fun p => keys.contains p.tid)

/-- `decode_state` -/
def decodeState (j : J) : Except Err TJState :=
  match j with
  | .obj kv =>
    match J.get "config_for_trial" kv, J.get "trials_evaluations" kv, J.get "failed_trials" kv,
          J.get "pending_evaluations" kv with
    | some (.obj cf), some (.arr ev), some (.arr fl), some (.arr pe) =>
      match decKVs decConfig cf, decList decEval ev, decList decStr fl, decList decPending pe with
      | .ok c, .ok e, .ok f, .ok p =>
        let s : TJState := { configFor := c, evals := e, failed := f, pending := p }
        if s.idsRegistered then .ok s else .error (.assertion "trial ids not in config_for_trial")
      | .error e, _, _, _ => .error e
      | _, .error e, _, _ => .error e
      | _, _, .error e, _ => .error e
      | _, _, _, .error e => .error e
    | _, _, _, _ => .error (.keyError "enc_state")
  | _ => .error (.keyError "enc_state")

/-- `TuningJobState.all_configurations()` (no filter): observed, pending, failed -/
def TJState.allConfigs (s : TJState) : List Config :=
  let look := fun t => (s.configFor.lookup t).toList
  (s.evals.flatMap fun e => look e.tid) ++ (s.pending.flatMap fun p => look p.tid) ++
    (s.failed.flatMap fun t => look t)

end SyneTune.Srch
