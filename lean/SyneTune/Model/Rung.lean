import SyneTune.Base.Basic
/-
Model of `syne_tune/optimizer/schedulers/hyperband_stopping.py`: `RungEntry`, `Rung`
(`SortedList` keyed by `sign * metric_val`, insertion with `bisect_right`),
`Rung.quantile`.
-/
namespace SyneTune

structure Entry where
  tid : Nat
  val : Rat
  promoted : Bool := false
  cost : Rat := 0
deriving DecidableEq, Repr, Inhabited

/-- `SortedList.add`: insert after all entries with key ≤ the new key (`bisect_right`). -/
def insertEntry (m : Mode) (e : Entry) : List Entry → List Entry
  | [] => [e]
  | x :: xs => if m.key e.val < m.key x.val then e :: x :: xs else x :: insertEntry m e xs

structure Rung where
  level : Nat
  q : Rat            -- prom_quant (exact `r_j / r_{j+1}`)
  data : List Entry  -- best first
deriving Repr, Inhabited

def Rung.contains (r : Rung) (tid : Nat) : Bool := r.data.any (fun e => e.tid == tid)

def Rung.add (m : Mode) (r : Rung) (e : Entry) : Rung := { r with data := insertEntry m e r.data }

/-- linear interpolation between positions `i`, `i+1` of a list: `x_i + g (x_{i+1} - x_i)` -/
def interpAt (xs : List Rat) (i : Nat) (g : Rat) : Option Rat :=
  match xs[i]?, xs[i+1]? with
  | some a, some b => some (a + g * (b - a))
  | _, _ => none

/-- numpy `quantile(xs, q, method="linear")` on an ascending list, written from the numpy
definition: `v = (n-1) q`, `i = ⌊v⌋`, `g = v - i`, result `x_i + g (x_{i+1} - x_i)`.
`none` when fewer than two entries (the property's "fewer than two ⇒ continue") or when
the indices fall outside the list (never for `0 ≤ q < 1`, see `quantileAsc_isSome`). -/
def quantileAsc (xs : List Rat) (q : Rat) : Option Rat :=
  let n := xs.length
  if n < 2 then none else
  let v := ((n - 1 : Nat) : Rat) * q
  interpAt xs v.floor.toNat (v - (v.floor : Rat))

/-- Line-by-line transcription of `Rung.quantile`. `none` iff `len(data) < 2`; the
`assert 1 <= index < len_data` is the `error` case, modelled as `none` too and shown
unreachable for `0 < q < 1` in `Lemmas/Rung.lean`. -/
def Rung.cutoff (m : Mode) (r : Rung) : Option Rat :=
  let n := r.data.length
  if n < 2 then none else
  let q := match m with | .min => r.q | .max => 1 - r.q
  let virt := ((n - 1 : Nat) : Rat) * q + 1
  let index := virt.floor.toNat
  if ¬ (1 ≤ index ∧ index < n) then none else
  let frac := virt - (virt.floor : Rat)
  let leftPos := match m with | .min => index - 1 | .max => n - index - 1
  let g := match m with | .min => frac | .max => 1 - frac
  match r.data[leftPos]?, r.data[leftPos+1]? with
  | some a, some b => some (g * b.val + (1 - g) * a.val)
  | _, _ => none

/-- ascending metric values of a rung (what `numpy.quantile` sorts to). -/
def Rung.ascVals (m : Mode) (r : Rung) : List Rat :=
  match m with
  | .min => r.data.map (·.val)
  | .max => (r.data.map (·.val)).reverse

/-- `q` handed to numpy: `prom_quant` for min, `1 - prom_quant` for max. -/
def Rung.npQ (m : Mode) (r : Rung) : Rat := match m with | .min => r.q | .max => 1 - r.q

/-- magnitude of the operands of the interpolation: the largest `|metric|` in the rung
(bounds the absolute round-off of the float cutoff by `~2⁻⁵² · scale`). -/
def Rung.scale (r : Rung) : Rat := (r.data.map (fun e => absRat e.val)).foldl maxRat 0

/-- `metric_val <= cutoff` (min) / `>=` (max), classified forced / free. -/
def cmpNoWorse (m : Mode) (v cutoff : Rat) (scale : Rat := 1) : Cmp :=
  match m with
  | .min => cmpLe v cutoff scale
  | .max => cmpLe cutoff v scale

end SyneTune
