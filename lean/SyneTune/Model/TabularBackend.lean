import SyneTune.Model.Simulator
/-
Model of `syne_tune/blackbox_repository/simulated_tabular_backend.py`
(`_BlackboxSimulatorBackend`: `_run_job_and_collect_results`, `config_objectives`,
`_pause_trial`; shared by `BlackboxRepositoryBackend` and `UserBlackboxBackend`),
`utils.py: metrics_for_configuration` and the lookup of `BlackboxTabular._objective_function`
(position of the configuration in the table is an input: the pandas index lookup is not
modelled).
-/
namespace SyneTune.Backend

/-- `BlackboxTabular`: `objectives_evaluations[config, seed, fidelity, objective]`,
`fidelity_values`, and the position of `elapsed_time_attr` among the objectives. -/
structure Table where
  fids : List Nat
  tcol : Nat
  numSeeds : Nat
  data : List (List (List (List Rat)))
deriving Repr, Inhabited

/-- a configuration as far as the backend looks at it: its row in the table, and the value
of `config[max_resource_attr]` when that key is present -/
structure Cfg where
  idx : Nat
  maxRes : Option Nat := none
deriving DecidableEq, Repr, Inhabited

structure TabState where
  table : Table
  maxResAttr : Bool             -- the backend was given `max_resource_attr`
  seedFix : Option Nat          -- `seed` argument of the backend
  checkpointing : Bool          -- `support_checkpointing`
  minStep : Rat                 -- the literal `0.01` of the monotonicity repair
  cfgs : List (Nat × Cfg) := []       -- `_trial_dict[t].config`
  seedFor : List (Nat × Nat) := []    -- `_seed_for_trial`
  paused : List (Nat × Nat) := []     -- `_resource_paused_for_trial`
  seedTape : List (Nat × Nat) := []   -- draws of `np.random.randint` recorded from the real run
deriving Repr, Inhabited

/-- `objectives_evaluations[index, seed, :, :]` -/
def Table.rows (tb : Table) (cfg seed : Nat) : Option (List (List Rat)) :=
  match tb.data[cfg]? with
  | none => none
  | some perSeed => perSeed[seed]?

def listMin : List Nat → Option Nat
  | [] => none
  | x :: xs => match listMin xs with | none => some x | some m => some (min x m)

def listMax : List Nat → Option Nat
  | [] => none
  | x :: xs => match listMax xs with | none => some x | some m => some (max x m)

/-- one entry of `metrics_for_configuration`'s result: fidelity value, table row,
`elapsed_time_attr` entry of the row -/
def mkRes (tcol : Nat) (f : Nat) (row : List Rat) : Res :=
  ⟨f, row, (row[tcol]?).getD 0⟩

/-- `metrics_for_configuration`: rows of the fidelities inside `[lo, hi]`, in table order -/
def rowsInRange (tcol lo hi : Nat) : List Nat → List (List Rat) → List Res
  | f :: fs, row :: rows =>
    if lo ≤ f ∧ f ≤ hi then mkRes tcol f row :: rowsInRange tcol lo hi fs rows
    else rowsInRange tcol lo hi fs rows
  | _, _ => []

/-- the seed of the query: `self._seed`, else `_seed_for_trial`, else a fresh draw (tape) -/
def TabState.seedOf (js : TabState) (t : Nat) : Except BErr (TabState × Nat) :=
  match js.seedFix with
  | some s => .ok (js, s)
  | none =>
    match alookup t js.seedFor with
    | some s => .ok (js, s)
    | none =>
      match alookup t js.seedTape with
      | none => .error (.tape "seed")
      | some s => .ok ({ js with seedFor := aset t s js.seedFor }, s)

/-- `config_objectives` → `metrics_for_configuration` -/
def TabState.allResults (js : TabState) (cfg : Cfg) (seed : Nat) : Except BErr (List Res) :=
  match listMin js.table.fids, listMax js.table.fids with
  | some lo0, some hi0 =>
    let range : Except BErr (Nat × Nat) :=
      match js.maxResAttr, cfg.maxRes with
      | true, some m => if lo0 ≤ m then .ok (lo0, m) else .error (.assertion "fidelity_range")
      | _, _ => .ok (lo0, hi0)
    match range with
    | .error e => .error e
    | .ok (lo, hi) =>
      if ¬ seed < js.table.numSeeds then .error (.assertion "0 <= seed < num_seeds") else
      match js.table.rows cfg.idx seed with
      | none => .error (.valueError "configuration not in table")
      | some rows => .ok (rowsInRange js.table.tcol lo hi js.table.fids rows)
  | _, _ => .error (.valueError "no fidelities")

/-- `elapsed_time_offset`: the elapsed time of the (last) result at the paused level -/
def offsetAt (p : Nat) : List Res → Rat → Rat
  | [], off => off
  | r :: rs, off => offsetAt p rs (if r.level = p then r.elapsed else off)

/-- resume filter for a checkpointed trial: results above the paused level, elapsed time
rebased by the paused level's elapsed time -/
def resumeFilter (A : Arith) (p : Nat) (all : List Res) : List Res :=
  let off := offsetAt p all 0
  (all.filter fun r => p < r.level).map fun r => { r with elapsed := A.sub r.elapsed off }

/-- `results[i][et] = max(results[i][et], results[i-1][et] + 0.01)` for `i ≥ 1` -/
def repairFrom (A : Arith) (step prev : Rat) : List Res → List Res
  | [] => []
  | r :: rs =>
    let e := maxRat r.elapsed (A.add prev step)
    { r with elapsed := e } :: repairFrom A step e rs

/-- the monotonicity repair; `results[0]` raises `IndexError` on an empty list -/
def repair (A : Arith) (step : Rat) : List Res → Except BErr (List Res)
  | [] => .error (.indexError "results[0]")
  | r :: rs =>
    let e := maxRat r.elapsed step
    .ok ({ r with elapsed := e } :: repairFrom A step e rs)

/-- `_BlackboxSimulatorBackend._run_job_and_collect_results` -/
def tabJob (A : Arith) : JobFn TabState := fun js t =>
  match alookup t js.cfgs with
  | none => .error (.assertion "not registered with backend")
  | some cfg =>
    match js.seedOf t with
    | .error e => .error e
    | .ok (js', seed) =>
      match js'.allResults cfg seed with
      | .error e => .error e
      | .ok all =>
        let results :=
          match alookup t js'.paused with
          | some p => if js'.checkpointing then resumeFilter A p all else all
          | none => all
        match repair A js'.minStep results with
        | .error e => .error e
        | .ok rs => .ok (js', .completed, rs)

/-! ### operations of the stream / of the theorems -/

inductive SOp
  | start (cfg : Cfg)
  | resume (t : Nat) (newCfg : Option Cfg)
  | pause (t : Nat) (level : Option Nat)     -- `result[resource_attr]` when a result is passed
  | stop (t : Nat)
  | fetch (ids : List Nat)
  | busy
  | sleep                                    -- `SimulatorCallback.on_tuning_sleep`
  | advance (dt : Rat)                       -- `time_keeper.advance(dt)`
  | tick (dt : Rat)                          -- real time passes outside the backend
  | stopAll
  | tape (draws : List (Nat × Nat))          -- recorded seed draws for the next operations
deriving Repr

abbrev TB := Sim TabState

def TB.step (A : Arith) (job : JobFn TabState) (s : TB) : SOp → Except BErr TB
  | .start cfg => (s.startTrial A job fun tid js => { js with cfgs := aset tid cfg js.cfgs }).map (·.1)
  | .resume t nc => s.resumeTrial A job t fun js =>
      match nc with | some c => { js with cfgs := aset t c js.cfgs } | none => js
  | .pause t lv => s.pauseTrial A job t fun js =>
      match lv with | some l => { js with paused := aset t l js.paused } | none => js
  | .stop t => s.stopTrial A job t
  | .fetch ids => (s.fetch A job ids).map (·.1)
  | .busy => (s.busyIds A job).map (·.1)
  | .sleep => s.sleep A
  | .advance dt => s.advance A dt
  | .tick dt => .ok { s with realNow := A.add s.realNow dt }
  | .tape d => .ok { s with js := { s.js with seedTape := d } }
  | .stopAll => s.stopAll A job

/-- run a history up to the first rejected operation -/
def TB.run (A : Arith) (job : JobFn TabState) (s : TB) : List SOp → Except BErr TB
  | [] => .ok s
  | op :: ops =>
    match s.step A job op with
    | .error e => .error e
    | .ok s' => TB.run A job s' ops

def TB.init (cfg : SimCfg) (js : TabState) : TB := { cfg := cfg, js := js }

end SyneTune.Backend
