import SyneTune.Model.HB
/-
Model of the DyHPO rung system
* `searchers/dyhpo/hyperband_dyhpo.py` : `DyHPORungSystem` (`_paused_trials_and_milestones`,
                                         `_previous_rung_level`, `on_task_schedule`)
on top of the promotion rung system of `Model/HB.lean` (`DyHPORungSystem` is a subclass of
`PromotionRungSystem`: `on_task_add`, `on_task_report`, `on_task_remove` are inherited, the
scheduler type is modelled as `HBType.promotion`).

What the code does not decide itself is an input (a FREE decision, adopted from the
implementation):
* `sh`   : the coin `random_state.rand() <= probability_sh` ("try the successive halving rule")
* `hint` : the usual hint of the SH scan (the level the implementation promoted from)
* `pick` : the trial id `searcher.score_paused_trials_and_new_configs` returned (`none`: a new
           configuration won).  The searcher's scoring (a GP surrogate) is an oracle; what is
           FORCED is that its answer is one of the paused trials handed to it: otherwise the
           model returns an error.
-/
namespace SyneTune

/-- `(entry.trial_id, pos, next_level) for pos, entry in enumerate(rung.data) if not entry.was_promoted`
(`_is_promotable_trial` of `PromotionRungSystem`, which `DyHPORungSystem` does not override). -/
def pausedEntries (next : Nat) : List Entry → Nat → List (Nat × Nat × Nat)
  | [], _ => []
  | e :: es, pos =>
    if !e.promoted then (e.tid, pos, next) :: pausedEntries next es (pos + 1)
    else pausedEntries next es (pos + 1)

/-- the loop `for rung in self._rungs` of `_paused_trials_and_milestones`; `next` is the loop
variable `next_level`. -/
def pausedScan (next : Nat) : List Rung → List (Nat × Nat × Nat)
  | [] => []
  | rg :: rest => pausedEntries next rg.data 0 ++ pausedScan rg.level rest

/-- `DyHPORungSystem._paused_trials_and_milestones`: entries `(trial_id, pos, resource)`, rungs
scanned in the stored (decreasing) order, `next_level` starting at `max_t`. -/
def RungSys.pausedTrials (s : RungSys) : List (Nat × Nat × Nat) := pausedScan s.maxT s.rungs

/-- `_previous_rung_level = dict(zip(rung_levels[1:] + [max_t], rung_levels))` as an association
list in DECREASING order of the keys: `(max_t, top level), (top level, next lower level), …`.
The constructor builds `_rungs` from the same `rung_levels` (reversed) and levels never change,
so the pairs are read off `_rungs`.  A Python `dict` keeps the LAST value of a repeated key of
the increasing `zip`; that is the FIRST one of this decreasing list, which is what `alookup`
returns. -/
def prevLevelPairs (next : Nat) : List Rung → List (Nat × Nat)
  | [] => []
  | rg :: rest => (next, rg.level) :: prevLevelPairs rg.level rest

/-- `next(... for i, _, r in paused_trials if i == trial_id)`: the first entry of the trial. -/
def findPaused (t : Nat) (l : List (Nat × Nat × Nat)) : Option (Nat × Nat × Nat) :=
  l.find? (fun p => p.1 == t)

/-- The DyHPO branch of `on_task_schedule` when the searcher answered `trial_id = t`:
`milestone` from the paused list, `resume_from = _previous_rung_level[milestone]`, the first rung
of that level, `_mark_as_promoted(rung, pos, trial_id=t)` with its `pop` and its two assertions.
`pos` is the one of the paused-list entry (the searcher returns `paused_trials[best_ind]`, id and
position of the same entry).  An id which is not in the paused list is an error (the code's
`next(...)` raises `StopIteration`). -/
def RungSys.dyhpoPromote (s : RungSys) (m : Mode) (t : Nat) : Except Err (RungSys × SchedOut) :=
  match findPaused t s.pausedTrials with
  | none => .error (.assertion "trial_id not in paused_trials")
  | some p =>
    match alookup p.2.2 (prevLevelPairs s.maxT s.rungs) with
    | none => .error (.keyError "_previous_rung_level")
    | some rf =>
      match rungPos s.rungs rf with
      | none => .error (.assertion "no rung with level resume_from")
      | some i =>
        match s.rungs[i]? with
        | none => .error (.indexError "_rungs")
        | some rg =>
          match rg.data[p.2.1]? with
          | none => .error (.indexError "rung.pop(pos)")
          | some e =>
            if e.promoted then .error (.assertion "not entry.was_promoted")
            else if e.tid ≠ t then .error (.assertion "entry.trial_id == trial_id")
            else .ok ({ s with rungs := s.rungs.set i (markPromoted m rg p.2.1) }, ⟨t, rf, p.2.2⟩)

/-- the position of the paused-list entry the searcher's pick refers to (reported by the driver
next to the decision, compared with the `pos` the real searcher returned) -/
def RungSys.pickPos (s : RungSys) (t : Nat) : Option Nat :=
  (findPaused t s.pausedTrials).map (·.2.1)

/-- `DyHPORungSystem.on_task_schedule`.  With `sh` the successive-halving rule of
`PromotionRungSystem.on_task_schedule` runs first; if it promotes a trial that is the answer.
Otherwise the searcher decides: `pick = some t` resumes the paused trial `t`, `none` starts a new
trial.  Result: new rung system, the promotion (if any), and whether the SH scan met a free
comparison. -/
def RungSys.dyhpoSchedule (s : RungSys) (m : Mode) (sh : Bool) (hint : Option Nat) (pick : Option Nat) :
    Except Err (RungSys × Option SchedOut × Bool) :=
  let r := if sh then s.promoSchedule .promotion m hint else (s, none, false)
  match r.2.1 with
  | some o => .ok (r.1, some o, r.2.2)
  | none =>
    match pick with
    | none => .ok (r.1, none, r.2.2)
    | some t =>
      match r.1.dyhpoPromote m t with
      | .error e => .error e
      | .ok res => .ok (res.1, some res.2, r.2.2)

/-- `HyperbandBracketManager.on_task_schedule` for `scheduler_type = "dyhpo"` with the sampled
bracket as input: `(promoted?, milestone, free)`.  A `DyHPORungSystem` exists only for this
scheduler type, modelled as `HBType.promotion`; for every other type the operation is rejected. -/
def Manager.taskScheduleDy (g : Manager) (bracket : Nat) (sh : Bool) (hint pick : Option Nat) :
    Except Err (Manager × Option SchedOut × Nat × Bool) :=
  if g.type ≠ .promotion then .error (.assertion "rung system is not a DyHPORungSystem") else
  match g.systems[(g.sysFor bracket).1]? with
  | none => .error (.assertion "bracket index")
  | some s =>
    match s.dyhpoSchedule g.mode sh hint pick with
    | .error e => .error e
    | .ok res =>
      match res.2.1 with
      | some o => .ok (g.setSys (g.sysFor bracket).1 res.1, some o, o.milestone, res.2.2)
      | none => .ok (g.setSys (g.sysFor bracket).1 res.1, none, s.firstMilestone (g.sysFor bracket).2, res.2.2)

/-- `_suggest` of a `HyperbandScheduler(type="dyhpo")`: `_promote_trial` (with the DyHPO rung
system's `on_task_schedule`) and then either the promoted trial is resumed or a new one is
started with the configuration the searcher chose — `Sched.suggest` with `taskScheduleDy` in
place of `taskSchedule`. -/
def Sched.suggestDy (s : Sched) (newTid bracket : Nat) (sh : Bool) (hint pick : Option Nat) :
    Except Err (Sched × Suggestion × List SCall × Bool) :=
  match s.mgr.taskScheduleDy bracket sh hint pick with
  | .error e => .error e
  | .ok res =>
    match res.2.1 with
    | none => s.suggestStart res.1 newTid bracket res.2.2.1 res.2.2.2
    | some o => s.suggestResume res.1 bracket o res.2.2.2

end SyneTune
