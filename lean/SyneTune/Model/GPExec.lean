/-
Executable twin of the Gaussian-process numerics of
`syne_tune/optimizer/schedulers/searchers/bayesopt/gpautograd/posterior_utils.py`,
`custom_op.py` and of the acquisition heads of `models/meanstd_acqfunc_impl.py`
(C08, C09).  Core Lean only.

Everything is written over an arbitrary carrier `α` with the arithmetic operations the
Python code uses.  The driver instantiates `α := Rat` (exact evaluation of the same
expressions the code evaluates in floating point); the theorems of `Lemmas/GP.lean`,
`Lemmas/CholeskyVJP.lean`, `Lemmas/EI.lean` instantiate `α := ℝ`.

Vectors are `Fin n → α`, matrices `Fin n → Fin m → α` (row, column) — the carrier of
Mathlib's `Matrix (Fin n) (Fin m) α`.  `memoV` / `memoM` evaluate a vector / matrix once
into a `Vector` (they are the identity, `memoV_eq` / `memoM_eq`), so that the recursive
substitutions run in polynomial time under `lean --run`.

What is *not* here (trusted, exercised by the correspondence): LAPACK `potrf`/`trsm`,
`sqrt`, `exp`, `erfc`, `log`, IEEE round-off, the jitter search of `AddJitterOp`.
`sqrt` enters `cholUpdate` as an oracle argument; `exp`/`erfc` enter the acquisition
heads as the already evaluated numbers `phi`, `Phi`.
-/
namespace SyneTune.GP

variable {α : Type}

/-! ### memoisation (identity functions) -/

@[noinline] def memoV {n : Nat} (x : Fin n → α) : Fin n → α :=
  let a := Vector.ofFn x
  fun i => a[i.val]

@[noinline] def memoM {n m : Nat} (x : Fin n → Fin m → α) : Fin n → Fin m → α :=
  let a := Vector.ofFn fun i => Vector.ofFn (x i)
  fun i j => (a[i.val])[j.val]

theorem memoV_eq {n : Nat} (x : Fin n → α) : memoV x = x := by
  funext i; simp [memoV]

theorem memoM_eq {n m : Nat} (x : Fin n → Fin m → α) : memoM x = x := by
  funext i j; simp [memoM]

/-! ### sums, products, borders -/

section arith
variable [Zero α] [Add α] [Mul α]

/-- `np.sum` of a vector: `x₀ + (x₁ + (… + 0))`. -/
def sumFin {n : Nat} (f : Fin n → α) : α := (List.ofFn f).sum

def dot {n : Nat} (u v : Fin n → α) : α := sumFin fun i => u i * v i

/-- `anp.matmul(A, B)` -/
def matMul {n k m : Nat} (A : Fin n → Fin k → α) (B : Fin k → Fin m → α) : Fin n → Fin m → α :=
  fun i j => dot (fun l => A i l) (fun l => B l j)

end arith

def transpose {n m : Nat} (A : Fin n → Fin m → α) : Fin m → Fin n → α := fun i j => A j i

/-- append one entry to a vector (`anp.concatenate([x, [a]])`) -/
def snocV {n : Nat} (x : Fin n → α) (a : α) : Fin (n + 1) → α :=
  fun i => if h : i.val < n then x ⟨i.val, h⟩ else a

/-- append one row to a matrix (`anp.concatenate([P, pvec], axis=0)`) -/
def snocRow {n m : Nat} (P : Fin n → Fin m → α) (p : Fin m → α) : Fin (n + 1) → Fin m → α :=
  fun i => if h : i.val < n then P ⟨i.val, h⟩ else p

/-- the bordered matrix `[[A, c], [r, d]]` -/
def border {n : Nat} (A : Fin n → Fin n → α) (c r : Fin n → α) (d : α) :
    Fin (n + 1) → Fin (n + 1) → α :=
  fun i j =>
    if hi : i.val < n then
      (if hj : j.val < n then A ⟨i.val, hi⟩ ⟨j.val, hj⟩ else c ⟨i.val, hi⟩)
    else
      (if hj : j.val < n then r ⟨j.val, hj⟩ else d)

/-- leading principal `n × n` block -/
def lead {n : Nat} (A : Fin (n + 1) → Fin (n + 1) → α) : Fin n → Fin n → α :=
  fun i j => A i.castSucc j.castSucc

/-! ### triangular solves (`aspl.solve_triangular(L, ·, lower=True[, trans="T"])`) -/

section solve
variable [Zero α] [Add α] [Mul α] [Sub α] [Div α]

/-- forward substitution: the `x` with `L x = b` for lower triangular `L`
(`xᵢ = (bᵢ − Σ_{j<i} Lᵢⱼ xⱼ) / Lᵢᵢ`; the strict upper part of `L` is never read). -/
def solveLower : (n : Nat) → (Fin n → Fin n → α) → (Fin n → α) → (Fin n → α)
  | 0, _, _ => fun i => i.elim0
  | n + 1, L, b =>
    let x' := memoV (solveLower n (lead L) (fun i => b i.castSucc))
    let xn := (b (Fin.last n) - dot (fun j => L (Fin.last n) j.castSucc) x') / L (Fin.last n) (Fin.last n)
    snocV x' xn

/-- back substitution with the transpose: the `x` with `Lᵀ x = b` for lower triangular `L`
(`trans="T"`; again only the lower part of `L` is read). -/
def solveLowerT : (n : Nat) → (Fin n → Fin n → α) → (Fin n → α) → (Fin n → α)
  | 0, _, _ => fun i => i.elim0
  | n + 1, L, b =>
    let xn := b (Fin.last n) / L (Fin.last n) (Fin.last n)
    let x' := memoV (solveLowerT n (lead L) (fun i => b i.castSucc - L (Fin.last n) i.castSucc * xn))
    snocV x' xn

/-- matrix right-hand side: column by column -/
def solveLowerM {n m : Nat} (L : Fin n → Fin n → α) (B : Fin n → Fin m → α) : Fin n → Fin m → α :=
  let C := memoM fun j => memoV (solveLower n L (fun i => B i j))
  fun i j => C j i

def solveLowerTM {n m : Nat} (L : Fin n → Fin n → α) (B : Fin n → Fin m → α) : Fin n → Fin m → α :=
  let C := memoM fun j => memoV (solveLowerT n L (fun i => B i j))
  fun i j => C j i

end solve

/-- `anp.maximum(a, b)` for non-NaN arguments -/
def maxOf [LT α] [DecidableLT α] (a b : α) : α := if a < b then b else a

/-! ### `predict_posterior_marginals`, `sample_posterior_joint` (mean and covariance part) -/

section predict
variable [Zero α] [Add α] [Mul α] [Sub α] [Div α]

/-- `k_tr_te = kernel(features, test_features) * covariance_scale` -/
def scaleM {n m : Nat} (K : Fin n → Fin m → α) (s : α) : Fin n → Fin m → α := fun i j => K i j * s

/-- `matmul(transpose(linv_k_tr_te), pred_mat) + reshape(mean(test_features), (-1, 1))` -/
def predMean {n t m : Nat} (V : Fin n → Fin t → α) (P : Fin n → Fin m → α) (ms : Fin t → α) :
    Fin t → Fin m → α :=
  fun i j => dot (fun k => V k i) (fun k => P k j) + ms i

/-- `kernel.diagonal(test_features) * covariance_scale - sum(square(linv_k_tr_te), axis=0)` -/
def predVarRaw {n t : Nat} (V : Fin n → Fin t → α) (kd : Fin t → α) : Fin t → α :=
  fun i => kd i - sumFin (fun k => V k i * V k i)

/-- `kernel(test, test) * covariance_scale - dot(transpose(linv_k_tr_te), linv_k_tr_te)` -/
def jointCov {n t : Nat} (V : Fin n → Fin t → α) (Kss : Fin t → Fin t → α) : Fin t → Fin t → α :=
  fun i j => Kss i j - dot (fun k => V k i) (fun k => V k j)

structure Marginals (α : Type) (t m : Nat) where
  means : Fin t → Fin m → α
  vars : Fin t → α

/-- `predict_posterior_marginals(features, mean, kernel, chol_fact, pred_mat, test_features)`:
`Ks = kernel(features, test_features)`, `kd = kernel.diagonal(test_features)`,
`ms = mean(test_features)`, `floor = MIN_POSTERIOR_VARIANCE`. -/
def predictMarginals [LT α] [DecidableLT α] {n t m : Nat} (L : Fin n → Fin n → α)
    (P : Fin n → Fin m → α) (Ks : Fin n → Fin t → α) (scale : α) (kd ms : Fin t → α) (floor : α) :
    Marginals α t m :=
  let V := solveLowerM L (memoM (scaleM Ks scale))
  { means := memoM (predMean V P ms)
    vars := memoV fun i => maxOf (predVarRaw V (fun i => kd i * scale) i) floor }

structure Joint (α : Type) (t m : Nat) where
  mean : Fin t → Fin m → α
  cov : Fin t → Fin t → α
  /-- `posterior_cov + jitter_init * I`, the matrix handed to the Cholesky factorisation
  when `AddJitterOp` adds no further jitter -/
  sys : Fin t → Fin t → α

/-- mean and covariance computed by `sample_posterior_joint`. -/
def posteriorJoint {n t m : Nat} (L : Fin n → Fin n → α) (P : Fin n → Fin m → α)
    (Ks : Fin n → Fin t → α) (Kss : Fin t → Fin t → α) (scale : α) (ms : Fin t → α) (jit : α) :
    Joint α t m :=
  let V := solveLowerM L (memoM (scaleM Ks scale))
  let C := memoM (jointCov V (scaleM Kss scale))
  { mean := memoM (predMean V P ms)
    cov := C
    sys := fun i j => if i = j then C i j + jit else C i j }

end predict

/-! ### `negative_log_marginal_likelihood` without the transcendental part -/

section nll
variable [Zero α] [One α] [Add α] [Mul α] [Neg α] [LT α] [DecidableLT α]

/-- `anp.sum(anp.square(pred_mat))` -/
def sqNorm {n m : Nat} (P : Fin n → Fin m → α) : α := sumFin fun i => sumFin fun j => P i j * P i j

def absOf (x : α) : α := if x < 0 then -x else x

def prodFin {n : Nat} (f : Fin n → α) : α := (List.ofFn f).foldr (· * ·) 1

/-- `∏ |Lᵢᵢ|`; the code's `logdet_cholfact` is `2 · log` of it (`= 2 Σ log |Lᵢᵢ|`). -/
def diagAbsProd {n : Nat} (L : Fin n → Fin n → α) : α := prodFin fun i => absOf (L i i)

end nll

/-! ### `cholesky_update` / `sample_and_cholesky_update` -/

section update
variable [Zero α] [Add α] [Mul α] [Sub α] [Div α] [LT α] [DecidableLT α]

structure Update (α : Type) (n m : Nat) where
  lvec : Fin n → α
  lsq : α
  lscal : α
  L : Fin (n + 1) → Fin (n + 1) → α
  P : Fin (n + 1) → Fin m → α

/-- `cholesky_update(features, mean, kernel, chol_fact, pred_mat, noise_variance, feature, target)`.
`kvec = kernel(features, feature)`, `kdiag = kernel.diagonal(feature)`, `mscal = mean(feature)`,
`minDiag = MIN_CHOLESKY_DIAGONAL_VALUE`, `sqrt` the square-root oracle. -/
def cholUpdate {n m : Nat} (sqrt : α → α) (minDiag : α) (L : Fin n → Fin n → α)
    (P : Fin n → Fin m → α) (kvec : Fin n → α) (scale kdiag noise mscal : α) (target : Fin m → α)
    (lvec : Fin n → α := memoV (solveLower n L (fun i => kvec i * scale))) : Update α n m :=
  let kscal := kdiag * scale
  let lsq := maxOf (kscal + noise - sumFin (fun k => lvec k * lvec k)) (minDiag * minDiag)
  let lscal := sqrt lsq
  let pvec : Fin m → α := memoV fun j => (target j - mscal - dot lvec (fun k => P k j)) / lscal
  { lvec := lvec, lsq := lsq, lscal := lscal
    L := border L (fun _ => 0) lvec lscal
    P := snocRow P pvec }

structure SampleUpdate (α : Type) (n m : Nat) where
  target : Fin m → α
  upd : Update α n m

/-- `sample_and_cholesky_update(...)` with the standard-normal draws `n01` made explicit
(already zeroed where `mean_impute_mask` is set); `minVar = MIN_POSTERIOR_VARIANCE`. -/
def sampleAndUpdate {n m : Nat} (sqrt : α → α) (minDiag minVar : α) (L : Fin n → Fin n → α)
    (P : Fin n → Fin m → α) (kvec : Fin n → α) (scale kdiag noise mscal : α) (n01 : Fin m → α) :
    SampleUpdate α n m :=
  let lvec := memoV (solveLower n L (fun i => kvec i * scale))
  let predStd := sqrt (maxOf (kdiag * scale - sumFin (fun k => lvec k * lvec k)) minVar)
  let target : Fin m → α := memoV fun j => (dot lvec (fun k => P k j) + mscal) + n01 j * predStd
  { target := target
    upd := cholUpdate sqrt minDiag L P kvec scale kdiag noise mscal target lvec }

end update

/-! ### `custom_op.py`: backward passes -/

section vjp
variable [Zero α] [Add α] [Mul α] [Sub α] [Div α]

/-- `copyltu(x) = tril(x) + transpose(tril(x, -1))`: lower triangle (with diagonal) copied
to the upper triangle. -/
def copyltu {n : Nat} (X : Fin n → Fin n → α) : Fin n → Fin n → α :=
  fun i j => if j.val ≤ i.val then X i j else X j i

/-- `np.tril` -/
def tril {n : Nat} (X : Fin n → Fin n → α) : Fin n → Fin n → α :=
  fun i j => if j.val ≤ i.val then X i j else 0

/-- `cholesky_factorization_backward(l, lbar)`:
```
abar = copyltu(matmul(transpose(l), lbar))
abar = transpose(solve_triangular(l, abar, lower=True, trans="T"))
abar = solve_triangular(l, abar, lower=True, trans="T")
return 0.5 * abar
``` -/
def cholBackward [OfNat α 2] {n : Nat} (L Lbar : Fin n → Fin n → α) : Fin n → Fin n → α :=
  let M := memoM (copyltu (matMul (transpose L) Lbar))
  let Z := solveLowerTM L M
  let A1 := memoM (transpose Z)
  let W := solveLowerTM L A1
  fun i j => W i j / 2

/-- `AddJitterOp_vjp(...)(g) = append(reshape(g, (-1,)), sum(diag(g)))`: cotangents of the
matrix argument and of the scalar `sigsq_init`. -/
def jitterVjp {n : Nat} (g : Fin n → Fin n → α) : (Fin n → Fin n → α) × α :=
  (g, sumFin fun i => g i i)

end vjp

/-! ### acquisition heads (`meanstd_acqfunc_impl.py`) -/

section heads
variable [Zero α] [Add α] [Mul α] [Sub α] [Div α] [Neg α] [NatCast α]

/-- `get_quantiles`: `s[s < 1e-10] = 1e-10` -/
def clampStd [LT α] [DecidableLT α] (s c : α) : α := if s < c then c else s

/-- `u = (fmin - m - acquisition_par) / s` -/
def eiU (best mu jit sd : α) : α := (best - mu - jit) / sd

/-- `EIAcquisitionFunction._compute_head` for one input row:
`np.mean((-stds) * (u * Phi + phi), axis=1)` -/
def eiHead {nf : Nat} (sd : α) (u Phi phi : Fin nf → α) : α :=
  sumFin (fun j => (-sd) * (u j * Phi j + phi j)) / (nf : α)

structure HeadGrad (α : Type) (nf : Nat) where
  hval : α
  dmean : Fin nf → α
  dstd : α

/-- `EIAcquisitionFunction._compute_head_and_gradient`:
`f_acqu = std * (u * Phi + phi)`, `hval = -np.mean(f_acqu)`,
`dh_dmean = Phi / nf`, `dh_dstd = np.mean(-phi)`. -/
def eiHeadGrad {nf : Nat} (sd : α) (u Phi phi : Fin nf → α) : HeadGrad α nf :=
  { hval := -(sumFin (fun j => sd * (u j * Phi j + phi j)) / (nf : α))
    dmean := fun j => Phi j / (nf : α)
    dstd := sumFin (fun j => -phi j) / (nf : α) }

/-- `LCBAcquisitionFunction._compute_head`: `np.mean(means - stds * kappa, axis=1)` -/
def lcbHead {nf : Nat} (kappa sd : α) (mu : Fin nf → α) : α :=
  sumFin (fun j => mu j - sd * kappa) / (nf : α)

/-- `LCBAcquisitionFunction._compute_head_and_gradient` -/
def lcbHeadGrad [One α] {nf : Nat} (kappa sd : α) (mu : Fin nf → α) : HeadGrad α nf :=
  { hval := sumFin (fun j => mu j - sd * kappa) / (nf : α)
    dmean := fun _ => 1 / (nf : α)
    dstd := (-kappa) * 1 }

end heads

end SyneTune.GP
