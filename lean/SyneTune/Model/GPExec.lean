/-
Executable twin of the Gaussian-process numerics of
`syne_tune/optimizer/schedulers/searchers/bayesopt/gpautograd/posterior_utils.py`,
`custom_op.py` and of the acquisition heads of `models/meanstd_acqfunc_impl.py`
(C08, C09).  Core Lean only.

Everything is written over an arbitrary carrier `α` with the arithmetic operations the
Python code uses.  The driver instantiates `α := Rat` (exact evaluation of the same
expressions the code evaluates in floating point); the theorems of `Lemmas/GP.lean`,
`Lemmas/CholeskyVJP.lean`, `Lemmas/EI.lean` instantiate `α := ℝ`.

Vectors are `Vec α n = Vector α n`, matrices `Mat α n m = Vector (Vector α m) n`
(row major, like the numpy arrays); `A[i][j]` is the entry in row `i`, column `j`.

What is *not* here (trusted, exercised by the correspondence): LAPACK `potrf`/`trsm`,
`sqrt`, `exp`, `erfc`, `log`, IEEE round-off, the jitter search of `AddJitterOp`.
`sqrt` enters `cholUpdate` as an oracle argument; `exp`/`erfc` enter the acquisition
heads as the already evaluated numbers `phi`, `Phi`.
-/
namespace SyneTune.GP

abbrev Vec (α : Type) (n : Nat) := Vector α n
abbrev Mat (α : Type) (n m : Nat) := Vector (Vector α m) n

variable {α : Type}

def Vec.of {n : Nat} (f : Fin n → α) : Vec α n := Vector.ofFn f
def Mat.of {n m : Nat} (f : Fin n → Fin m → α) : Mat α n m := Vector.ofFn fun i => Vector.ofFn (f i)

@[simp] theorem Vec.of_getElem {n : Nat} (f : Fin n → α) (i : Nat) (h : i < n) :
    (Vec.of f)[i] = f ⟨i, h⟩ := by
  simp [Vec.of]

@[simp] theorem Mat.of_getElem {n m : Nat} (f : Fin n → Fin m → α) (i j : Nat) (hi : i < n) (hj : j < m) :
    (Mat.of f)[i][j] = f ⟨i, hi⟩ ⟨j, hj⟩ := by
  simp [Mat.of]

theorem Vec.of_get {n : Nat} (f : Fin n → α) (i : Fin n) : (Vec.of f)[i] = f i := by
  simp

theorem Mat.of_get {n m : Nat} (f : Fin n → Fin m → α) (i : Fin n) (j : Fin m) :
    (Mat.of f)[i][j] = f i j := by
  simp

/-! ### sums, products, borders -/

section arith
variable [Zero α] [Add α] [Mul α]

/-- `np.sum` of a vector: `x₀ + (x₁ + (… + 0))`. -/
def sumFin {n : Nat} (f : Fin n → α) : α := (List.ofFn f).sum

def dot {n : Nat} (u v : Fin n → α) : α := sumFin fun i => u i * v i

/-- `anp.matmul(A, B)` -/
def matMul {n k m : Nat} (A : Mat α n k) (B : Mat α k m) : Mat α n m :=
  Mat.of fun i j => dot (fun l : Fin k => A[i][l]) (fun l : Fin k => B[l][j])

end arith

def transpose {n m : Nat} (A : Mat α n m) : Mat α m n := Mat.of fun i j => A[j][i]

/-- column `j` as a vector -/
def col {n m : Nat} (A : Mat α n m) (j : Fin m) : Vec α n := Vec.of fun i => A[i][j]

/-- matrix from its columns -/
def ofCols {n m : Nat} (C : Fin m → Vec α n) : Mat α n m :=
  let cs := Vector.ofFn C
  Mat.of fun i j => cs[j][i]

/-- all but the last entry -/
def initV {n : Nat} (x : Vec α (n + 1)) : Vec α n := Vec.of fun i => x[i.castSucc]

/-- leading principal `n × n` block -/
def lead {n : Nat} (A : Mat α (n + 1) (n + 1)) : Mat α n n := Mat.of fun i j => A[i.castSucc][j.castSucc]

/-- the last row without its last entry -/
def lastRow {n : Nat} (A : Mat α (n + 1) (n + 1)) : Vec α n := Vec.of fun j => A[Fin.last n][j.castSucc]

/-- the bordered matrix `[[A, c], [r, d]]`
(`concatenate([concatenate([A, r], axis=0), concatenate([c, d], axis=0)], axis=1)`) -/
def border {n : Nat} (A : Mat α n n) (c r : Vec α n) (d : α) : Mat α (n + 1) (n + 1) :=
  (Vector.ofFn fun i : Fin n => (A[i]).push c[i]).push (r.push d)

/-! ### triangular solves (`aspl.solve_triangular(L, ·, lower=True[, trans="T"])`) -/

section solve
variable [Zero α] [Add α] [Mul α] [Sub α] [Div α]

/-- forward substitution: the `x` with `L x = b` for lower triangular `L`
(`xᵢ = (bᵢ − Σ_{j<i} Lᵢⱼ xⱼ) / Lᵢᵢ`; the strict upper part of `L` is never read). -/
def solveLower : (n : Nat) → Mat α n n → Vec α n → Vec α n
  | 0, _, _ => #v[]
  | n + 1, L, b =>
    let x' := solveLower n (lead L) (initV b)
    let xn := (b[Fin.last n] - dot (fun j : Fin n => L[Fin.last n][j.castSucc]) (fun j : Fin n => x'[j])) / L[Fin.last n][Fin.last n]
    x'.push xn

/-- back substitution with the transpose: the `x` with `Lᵀ x = b` for lower triangular `L`
(`trans="T"`; again only the lower part of `L` is read). -/
def solveLowerT : (n : Nat) → Mat α n n → Vec α n → Vec α n
  | 0, _, _ => #v[]
  | n + 1, L, b =>
    let xn := b[Fin.last n] / L[Fin.last n][Fin.last n]
    let x' := solveLowerT n (lead L) (Vec.of fun i => b[i.castSucc] - L[Fin.last n][i.castSucc] * xn)
    x'.push xn

/-- matrix right-hand side: column by column -/
def solveLowerM {n m : Nat} (L : Mat α n n) (B : Mat α n m) : Mat α n m :=
  ofCols fun j => solveLower n L (col B j)

def solveLowerTM {n m : Nat} (L : Mat α n n) (B : Mat α n m) : Mat α n m :=
  ofCols fun j => solveLowerT n L (col B j)

end solve

/-- `anp.maximum(a, b)` for non-NaN arguments -/
def maxOf [LT α] [DecidableLT α] (a b : α) : α := if a < b then b else a

/-! ### `custom_op.py: AddJitterOp` (forward) -/

section jitter
variable [Zero α] [One α] [Add α] [Mul α] [Sub α] [Div α] [NatCast α] [LT α] [DecidableLT α]

/-- what `spl.cholesky(A, lower=True)` decides: all pivots of the elimination (taken from the last
row upwards, reading only the lower triangle) exceed `eps`.  `eps = 0` is positive definiteness in
exact arithmetic; the driver also evaluates `eps = ±2⁻⁴⁰·scale` to classify the decision as forced
(same answer) or free (LAPACK's answer on a numerically singular matrix is not modelled). -/
def isPD (eps : α) : (n : Nat) → Mat α n n → Bool
  | 0, _ => true
  | n + 1, A =>
    let d := A[Fin.last n][Fin.last n]
    if eps < d then
      isPD eps n (Mat.of fun i j => A[i.castSucc][j.castSucc] - A[Fin.last n][i.castSucc] * A[Fin.last n][j.castSucc] / d)
    else false

/-- `x + _get_constant_identity(x, c)` -/
def addDiag {n : Nat} (x : Mat α n n) (c : α) : Mat α n n :=
  Mat.of fun i j => if i = j then x[i][j] + c else x[i][j]

structure JitterOut (α : Type) (n : Nat) where
  sys : Mat α n n
  jitter : α
  /-- number of failed factorisations before the successful one -/
  steps : Nat

/-- the `while must_increase_jitter and jitter <= jitter_upperbound` loop; `k` counts the failed
attempts so far (`jitter == 0.0` exactly when `k = 0`); `none` = the final `assert`. -/
def jitterLoop {n : Nat} (eps : α) (x : Mat α n n) (sigsq init growth ub : α) : Nat → Nat → α → Option (JitterOut α n)
  | 0, _, _ => none
  | fuel + 1, k, jitter =>
    if ub < jitter then none
    else
      let A := addDiag x (sigsq + jitter)
      if isPD eps n A then some { sys := A, jitter := jitter, steps := k }
      else jitterLoop eps x sigsq init growth ub fuel (k + 1) (if k = 0 then init else jitter * growth)

/-- `AddJitterOp(flatten_and_concat(x, sigsq_init), initial_jitter_factor, jitter_growth)`;
`ubFactor = JITTER_UPPERBOUND_FACTOR`; `eps` the pivot threshold of `isPD` (`0` = exact). -/
def addJitter {n : Nat} (eps : α) (x : Mat α n n) (sigsq initFactor growth ubFactor : α) (fuel : Nat := 64) :
    Option (JitterOut α n) :=
  let meanDiag := sumFin (fun i : Fin n => x[i][i]) / (n : α)
  let m := maxOf 1 meanDiag
  jitterLoop eps x sigsq (initFactor * m) growth (ubFactor * m) fuel 0 0

end jitter

/-! ### `predict_posterior_marginals`, `sample_posterior_joint` (mean and covariance part) -/

section predict
variable [Zero α] [Add α] [Mul α] [Sub α] [Div α]

/-- `kernel(X1, X2) * covariance_scale` -/
def scaleM {n m : Nat} (K : Mat α n m) (s : α) : Mat α n m := Mat.of fun i j => K[i][j] * s

/-- `matmul(transpose(linv_k_tr_te), pred_mat) + reshape(mean(test_features), (-1, 1))` -/
def predMean {n t m : Nat} (V : Mat α n t) (P : Mat α n m) (ms : Vec α t) : Mat α t m :=
  Mat.of fun i j => dot (fun k : Fin n => V[k][i]) (fun k : Fin n => P[k][j]) + ms[i]

/-- `kernel.diagonal(test_features) * covariance_scale - sum(square(linv_k_tr_te), axis=0)` -/
def predVarRaw {n t : Nat} (V : Mat α n t) (kd : Vec α t) : Vec α t :=
  Vec.of fun i => kd[i] - sumFin (fun k : Fin n => V[k][i] * V[k][i])

/-- `kernel(test, test) * covariance_scale - dot(transpose(linv_k_tr_te), linv_k_tr_te)` -/
def jointCov {n t : Nat} (V : Mat α n t) (Kss : Mat α t t) : Mat α t t :=
  Mat.of fun i j => Kss[i][j] - dot (fun k : Fin n => V[k][i]) (fun k : Fin n => V[k][j])

structure Marginals (α : Type) (t m : Nat) where
  means : Mat α t m
  vars : Vec α t

/-- `predict_posterior_marginals(features, mean, kernel, chol_fact, pred_mat, test_features)`:
`Ks = kernel(features, test_features)`, `kd = kernel.diagonal(test_features)`,
`ms = mean(test_features)`, `floor = MIN_POSTERIOR_VARIANCE`. -/
def predictMarginals [LT α] [DecidableLT α] {n t m : Nat} (L : Mat α n n)
    (P : Mat α n m) (Ks : Mat α n t) (scale : α) (kd ms : Vec α t) (floor : α) :
    Marginals α t m :=
  let V := solveLowerM L (scaleM Ks scale)
  let raw := predVarRaw V (Vec.of fun i => kd[i] * scale)
  { means := predMean V P ms
    vars := Vec.of fun i => maxOf raw[i] floor }

structure Joint (α : Type) (t m : Nat) where
  mean : Mat α t m
  cov : Mat α t t
  /-- `posterior_cov + jitter_init * I`, the matrix handed to the Cholesky factorisation
  when `AddJitterOp` adds no further jitter -/
  sys : Mat α t t

/-- mean and covariance computed by `sample_posterior_joint`. -/
def posteriorJoint {n t m : Nat} (L : Mat α n n) (P : Mat α n m)
    (Ks : Mat α n t) (Kss : Mat α t t) (scale : α) (ms : Vec α t) (jit : α) :
    Joint α t m :=
  let V := solveLowerM L (scaleM Ks scale)
  let C := jointCov V (scaleM Kss scale)
  { mean := predMean V P ms
    cov := C
    sys := Mat.of fun i j => if i = j then C[i][j] + jit else C[i][j] }

end predict

/-! ### `negative_log_marginal_likelihood` without the transcendental part -/

section nll
variable [Zero α] [One α] [Add α] [Mul α] [Neg α] [LT α] [DecidableLT α]

/-- `anp.sum(anp.square(pred_mat))` -/
def sqNorm {n m : Nat} (P : Mat α n m) : α := sumFin fun i : Fin n => sumFin fun j : Fin m => P[i][j] * P[i][j]

def absOf (x : α) : α := if x < 0 then -x else x

def prodFin {n : Nat} (f : Fin n → α) : α := (List.ofFn f).foldr (· * ·) 1

/-- `∏ |Lᵢᵢ|`; the code's `logdet_cholfact` is `2 · log` of it (`= 2 Σ log |Lᵢᵢ|`). -/
def diagAbsProd {n : Nat} (L : Mat α n n) : α := prodFin fun i : Fin n => absOf L[i][i]

end nll

/-! ### `cholesky_update` / `sample_and_cholesky_update` -/

section update
variable [Zero α] [Add α] [Mul α] [Sub α] [Div α] [LT α] [DecidableLT α]

structure Update (α : Type) (n m : Nat) where
  lvec : Vec α n
  lsq : α
  lscal : α
  L : Mat α (n + 1) (n + 1)
  P : Mat α (n + 1) m

/-- `_compute_lvec`: `solve_triangular(chol_fact, kernel(features, feature) * covariance_scale)` -/
def computeLvec {n : Nat} (L : Mat α n n) (kvec : Vec α n) (scale : α) : Vec α n :=
  solveLower n L (Vec.of fun i => kvec[i] * scale)

/-- `cholesky_update(features, mean, kernel, chol_fact, pred_mat, noise_variance, feature, target, lvec)`.
`kdiag = kernel.diagonal(feature)`, `mscal = mean(feature)`,
`minDiag = MIN_CHOLESKY_DIAGONAL_VALUE`, `sqrt` the square-root oracle. -/
def cholUpdateWith {n m : Nat} (sqrt : α → α) (minDiag : α) (L : Mat α n n)
    (P : Mat α n m) (scale kdiag noise mscal : α) (target : Vec α m) (lvec : Vec α n) :
    Update α n m :=
  let kscal := kdiag * scale
  let lsq := maxOf (kscal + noise - sumFin (fun k : Fin n => lvec[k] * lvec[k])) (minDiag * minDiag)
  let lscal := sqrt lsq
  let pvec : Vec α m := Vec.of fun j => (target[j] - mscal - dot (fun k : Fin n => lvec[k]) (fun k : Fin n => P[k][j])) / lscal
  { lvec := lvec, lsq := lsq, lscal := lscal
    L := border L (Vec.of fun _ => 0) lvec lscal
    P := P.push pvec }

/-- `cholesky_update(...)` with `lvec=None`; `kvec = kernel(features, feature)`. -/
def cholUpdate {n m : Nat} (sqrt : α → α) (minDiag : α) (L : Mat α n n)
    (P : Mat α n m) (kvec : Vec α n) (scale kdiag noise mscal : α) (target : Vec α m) :
    Update α n m :=
  cholUpdateWith sqrt minDiag L P scale kdiag noise mscal target (computeLvec L kvec scale)

structure SampleUpdate (α : Type) (n m : Nat) where
  target : Vec α m
  upd : Update α n m

/-- `sample_and_cholesky_update(...)` with the standard-normal draws `n01` made explicit
(already zeroed where `mean_impute_mask` is set); `minVar = MIN_POSTERIOR_VARIANCE`. -/
def sampleAndUpdate {n m : Nat} (sqrt : α → α) (minDiag minVar : α) (L : Mat α n n)
    (P : Mat α n m) (kvec : Vec α n) (scale kdiag noise mscal : α) (n01 : Vec α m) :
    SampleUpdate α n m :=
  let lvec := computeLvec L kvec scale
  let predStd := sqrt (maxOf (kdiag * scale - sumFin (fun k : Fin n => lvec[k] * lvec[k])) minVar)
  let target : Vec α m :=
    Vec.of fun j => (dot (fun k : Fin n => lvec[k]) (fun k : Fin n => P[k][j]) + mscal) + n01[j] * predStd
  { target := target
    upd := cholUpdateWith sqrt minDiag L P scale kdiag noise mscal target lvec }

end update

/-! ### `custom_op.py`: backward passes -/

section vjp
variable [Zero α] [Add α] [Mul α] [Sub α] [Div α]

/-- `copyltu(x) = tril(x) + transpose(tril(x, -1))`: lower triangle (with diagonal) copied
to the upper triangle. -/
def copyltu {n : Nat} (X : Mat α n n) : Mat α n n :=
  Mat.of fun i j => if j.val ≤ i.val then X[i][j] else X[j][i]

/-- `np.tril` -/
def tril {n : Nat} (X : Mat α n n) : Mat α n n :=
  Mat.of fun i j => if j.val ≤ i.val then X[i][j] else 0

/-- `cholesky_factorization_backward(l, lbar)`:
```
abar = copyltu(matmul(transpose(l), lbar))
abar = transpose(solve_triangular(l, abar, lower=True, trans="T"))
abar = solve_triangular(l, abar, lower=True, trans="T")
return 0.5 * abar
``` -/
def cholBackward [OfNat α 2] {n : Nat} (L Lbar : Mat α n n) : Mat α n n :=
  let M := copyltu (matMul (transpose L) Lbar)
  let A1 := transpose (solveLowerTM L M)
  let W := solveLowerTM L A1
  Mat.of fun i j => W[i][j] / 2

/-- `AddJitterOp_vjp(...)(g) = append(reshape(g, (-1,)), sum(diag(g)))`: cotangents of the
matrix argument and of the scalar `sigsq_init`. -/
def jitterVjp {n : Nat} (g : Mat α n n) : Mat α n n × α :=
  (g, sumFin fun i : Fin n => g[i][i])

end vjp

/-! ### acquisition heads (`meanstd_acqfunc_impl.py`) -/

section heads
variable [Zero α] [Add α] [Mul α] [Sub α] [Div α] [Neg α] [NatCast α]

/-- `get_quantiles`: `s[s < 1e-10] = 1e-10` -/
def clampStd [LT α] [DecidableLT α] (s c : α) : α := if s < c then c else s

/-- `u = (fmin - m - acquisition_par) / s` -/
def eiU (best mu jit sd : α) : α := (best - mu - jit) / sd

/-- `EIAcquisitionFunction._compute_head` for one input row:
`np.mean((-stds) * (u * Phi + phi), axis=1)` -/
def eiHead {nf : Nat} (sd : α) (u Phi phi : Fin nf → α) : α :=
  sumFin (fun j => (-sd) * (u j * Phi j + phi j)) / (nf : α)

structure HeadGrad (α : Type) (nf : Nat) where
  hval : α
  dmean : Fin nf → α
  dstd : α

/-- `EIAcquisitionFunction._compute_head_and_gradient`:
`f_acqu = std * (u * Phi + phi)`, `hval = -np.mean(f_acqu)`,
`dh_dmean = Phi / nf`, `dh_dstd = np.mean(-phi)`. -/
def eiHeadGrad {nf : Nat} (sd : α) (u Phi phi : Fin nf → α) : HeadGrad α nf :=
  { hval := -(sumFin (fun j => sd * (u j * Phi j + phi j)) / (nf : α))
    dmean := fun j => Phi j / (nf : α)
    dstd := sumFin (fun j => -phi j) / (nf : α) }

/-- `LCBAcquisitionFunction._compute_head`: `np.mean(means - stds * kappa, axis=1)` -/
def lcbHead {nf : Nat} (kappa sd : α) (mu : Fin nf → α) : α :=
  sumFin (fun j => mu j - sd * kappa) / (nf : α)

/-- `LCBAcquisitionFunction._compute_head_and_gradient`:
`dh_dmean = ones_like(mean) / nf`, `dh_dstd = (-kappa) * ones_like(std)` -/
def lcbHeadGrad [One α] {nf : Nat} (kappa sd : α) (mu : Fin nf → α) : HeadGrad α nf :=
  { hval := sumFin (fun j => mu j - sd * kappa) / (nf : α)
    dmean := fun _ => 1 / (nf : α)
    dstd := (-kappa) * 1 }

end heads

end SyneTune.GP
