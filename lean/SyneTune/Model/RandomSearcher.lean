import SyneTune.Model.InitialPoints
import SyneTune.Model.Exclusion
/-
Model of `StochasticAndFilterDuplicatesSearcher` + `RandomSearcher`
(`searchers/searcher_base.py`, `searchers/random_grid_searcher.py`), without
`restrict_configurations`.  The draws of `random_state` are an input tape:
`draw i` is the configuration `hp_ranges.random_config(random_state)` returns at the
`i`-th call after the current generator state; `rng` counts the calls made so far (the
generator state as an opaque token).   Core Lean only.
-/
namespace SyneTune.Srch

/-- immutable part (constructor arguments) -/
structure RImm where
  mkf : MK
  allowDup : Bool
  maxRetries : Nat        -- MAX_RETRIES = 100
  size : Option Nat       -- `config_space_size(config_space)`
  debugLog : Bool         -- `debug_log` argument

/-- mutable state -/
structure RState where
  p2e : List Config                 -- `_points_to_evaluate`
  excl : List String                -- `_excl_list.excl_set`
  cfgFor : List (Nat × Config)      -- `_config_for_trial_id` (used iff `allow_duplicates`)
  rng : Nat                         -- number of draws consumed (generator state token)
deriving Repr, DecidableEq

/-- `sample_random_configuration`: the retry loop. Returns the configuration (or `none`
after `fuel` unsuccessful draws) and the number of draws consumed. -/
def sampleLoop (mk : MK) (excl : List String) (draw : Nat → Config) :
    (fuel : Nat) → (i : Nat) → Except Err (Option Config × Nat)
  | 0, i => .ok (none, i)
  | fuel + 1, i =>
    match mk (draw i) with
    | .error e => .error e
    | .ok m => if m ∈ excl then sampleLoop mk excl draw fuel (i + 1) else .ok (some (draw i), i + 1)

/-- `_get_random_config` (no `restrict_configurations`) -/
def RState.randomConfig (imm : RImm) (s : RState) (draw : Nat → Config) : Except Err (Option Config × Nat) :=
  if exhausted imm.size s.excl then .ok (none, 0) else sampleLoop imm.mkf s.excl draw imm.maxRetries 0

/-- the tail of `StochasticAndFilterDuplicatesSearcher.get_config`: add to the exclusion
list unless duplicates are allowed -/
def RState.finish (imm : RImm) (s : RState) (r : Option Config) : Except Err (RState × Option Config) :=
  match r with
  | none => .ok (s, none)
  | some c =>
    if imm.allowDup then .ok (s, some c) else
    match exclAddConfig imm.mkf s.excl c with
    | .ok ex => .ok ({ s with excl := ex }, some c)
    | .error e => .error e

/-- `get_config`: initial configurations first (`_next_initial_config`), then random -/
def RState.getConfig (imm : RImm) (s : RState) (draw : Nat → Config) : Except Err (RState × Option Config) :=
  match s.p2e with
  | c :: rest => RState.finish imm { s with p2e := rest } (some c)
  | [] =>
    match s.randomConfig imm draw with
    | .error e => .error e
    | .ok (r, n) => RState.finish imm { s with rng := s.rng + n } r

/-- `register_pending(trial_id, config)` -/
def RState.registerPending (imm : RImm) (s : RState) (tid : Nat) (c : Option Config) : RState :=
  if imm.allowDup ∧ (alookup tid s.cfgFor).isNone then
    match c with
    | some cfg => { s with cfgFor := s.cfgFor ++ [(tid, cfg)] }
    | none => s
  else s

/-- `evaluation_failed(trial_id)` -/
def RState.evaluationFailed (imm : RImm) (s : RState) (tid : Nat) : Except Err RState :=
  if imm.allowDup then
    match alookup tid s.cfgFor with
    | some cfg =>
      match exclAddConfig imm.mkf s.excl cfg with
      | .ok ex => .ok { s with excl := ex }
      | .error e => .error e
    | none => .ok s
  else .ok s

/-- `get_state()` -/
structure RSnap where
  p2e : List Config                          -- "points_to_evaluate"
  randomState : Nat                          -- "random_state"
  exclList : ExclSnap                        -- "excl_list"
  cfgFor : Option (List (Nat × Config))      -- "config_for_trial_id" (only if allow_duplicates)
deriving Repr, DecidableEq

/-- `get_state()`; `order` is the iteration order of the set of match strings -/
def RState.getState (imm : RImm) (s : RState) (keys : List String) (order : List String) : RSnap :=
  { p2e := s.p2e, randomState := s.rng, exclList := { exclSet := order, keys := keys },
    cfgFor := if imm.allowDup then some s.cfgFor else none }

/-- `RandomSearcher.clone_from_state(state)`: a fresh `RandomSearcher(config_space,
points_to_evaluate=[], debug_log=False if self._debug_log is None else self._debug_log,
allow_duplicates=...)` followed by `_restore_from_state` (code after the fix "clone_from_state
raised AssertionError for the default debug_log=False": the constructor no longer
rejects `debug_log = None`).  Restoring reads `state["config_for_trial_id"]` iff
`allow_duplicates` (a snapshot without it is the `KeyError`). -/
def RState.clone (imm : RImm) (snap : RSnap) : Except Err RState :=
  -- set(state["excl_set"]): duplicates collapse
  let excl := snap.exclList.exclSet.eraseDups
  if imm.allowDup then
    match snap.cfgFor with
    | some cf => .ok { p2e := snap.p2e, excl := excl, cfgFor := cf, rng := snap.randomState }
    | none => .error (.keyError "config_for_trial_id")
  else .ok { p2e := snap.p2e, excl := excl, cfgFor := [], rng := snap.randomState }

/-- operations of a searcher history -/
inductive ROp
  | get
  | pending (tid : Nat) (c : Option Config)
  | failed (tid : Nat)
  | result (tid : Nat)         -- `on_trial_result` / `_update`: no effect on the state
deriving Repr

/-- one step against a global tape of draws (`tape (s.rng + i)` is the `i`-th draw from
the current generator state) -/
def RState.step (imm : RImm) (tape : Nat → Config) (s : RState) (op : ROp) :
    Except Err (RState × Option (Option Config)) :=
  match op with
  | .get =>
    match s.getConfig imm (fun i => tape (s.rng + i)) with
    | .ok (s', o) => .ok (s', some o)
    | .error e => .error e
  | .pending tid c => .ok (s.registerPending imm tid c, none)
  | .failed tid =>
    match s.evaluationFailed imm tid with
    | .ok s' => .ok (s', none)
    | .error e => .error e
  | .result _ => .ok (s, none)

/-- run a history; outputs of the `get` operations in order -/
def RState.run (imm : RImm) (tape : Nat → Config) : RState → List ROp → Except Err (RState × List (Option Config))
  | s, [] => .ok (s, [])
  | s, op :: ops =>
    match s.step imm tape op with
    | .error e => .error e
    | .ok (s', o) =>
      match RState.run imm tape s' ops with
      | .error e => .error e
      | .ok (s'', os) => .ok (s'', o.toList ++ os)

/-- constructor -/
def RState.init (p2e : List Config) : RState := { p2e := p2e, excl := [], cfgFor := [], rng := 0 }

end SyneTune.Srch
