import SyneTune.Base.Basic
/-
Model of `syne_tune/optimizer/schedulers/synchronous/hyperband_bracket.py`
(`SlotInRung`, `SynchronousBracket`, `SynchronousHyperbandBracket`, `get_top_list`) and of
the bracket part of `dehb_bracket.py` (`DifferentialEvolutionHyperbandBracket`).

Representation.  Python keeps one list `_rungs`; entries with index `<= current_rung` are
`(list of (trial_id, metric_val), level)`, the others are still `(rung_size, level)`.
The model keeps the materialised prefix in `rungs` and the `(size, level)` tail in `todo`,
so `_rungs = rungs ++ todo` (DEHB materialises every rung at construction: `todo = []`).
Indexing `_rungs[i]` with the wrong kind of entry is a Python `TypeError` and an explicit
error of the model.

A metric value is `nan` or an exact rational (`Fraction` of the Python float); `None`
(slot not yet occupied) is `Option.none`.  A trial id is `Option Nat` because a slot can
hold `trial_id = None` (free slot of the base rung, or a slot reported as failed while the
searcher had no configuration for it).
-/
namespace SyneTune.Sync
open SyneTune

/-- `metric_val` of an occupied slot: `np.nan` (failed) or a finite float. -/
inductive Metric | nan | val (v : Rat)
deriving DecidableEq, Repr, Inhabited

def Metric.isNan : Metric → Bool
  | .nan => true
  | .val _ => false

/-- one slot `(trial_id, metric_val)` of a rung -/
structure Slot where
  tid : Option Nat
  metric : Option Metric
deriving DecidableEq, Repr, Inhabited

/-- materialised rung `(list of slots, level)` -/
structure Rung where
  slots : List Slot
  level : Nat
deriving DecidableEq, Repr, Inhabited

/-- `SlotInRung` dataclass. -/
structure SlotInRung where
  rungIndex : Nat
  level : Nat
  slotIndex : Nat
  tid : Option Nat
  metric : Option Metric
deriving DecidableEq, Repr, Inhabited

/-- Python `assert` / exception kinds. -/
inductive SErr
  | assertion (what : String)
  | keyError (what : String)
  | other (what : String)      -- `TypeError` / `IndexError` of an ill-formed state
deriving DecidableEq, Repr

inductive BKind | hyperband | dehb
deriving DecidableEq, Repr, Inhabited

/-! ### `get_top_list` -/

/-- an entry of a completed rung: `(trial_id, metric_val)` with `metric_val` not `None` -/
abbrev TEntry := Option Nat × Metric

/-- sort key of `sorted(..., key=itemgetter(1), reverse=mode == "max")`: ascending in
`sign * metric` with the original order among equal keys (Python's sort is stable, also
with `reverse=True`).  Only called on non-NaN entries. -/
def keyOf (m : Mode) : Metric → Rat
  | .nan => 0
  | .val v => m.key v

/-- insert `e` (which stood in front of all of the list) behind the elements with a
strictly smaller key, i.e. in front of the elements with an equal key -/
def insertByKey (m : Mode) (e : TEntry × Nat) : List (TEntry × Nat) → List (TEntry × Nat)
  | [] => [e]
  | x :: xs => if keyOf m x.1.2 < keyOf m e.1.2 then x :: insertByKey m e xs else e :: x :: xs

/-- stable sort by key (insertion sort from the right). Entries carry their position in
the rung (identity of the Python tuple object). -/
def stableSort (m : Mode) : List (TEntry × Nat) → List (TEntry × Nat)
  | [] => []
  | x :: xs => insertByKey m x (stableSort m xs)

/-- entries with their positions `start, start+1, …` -/
def withPos : List TEntry → Nat → List (TEntry × Nat)
  | [], _ => []
  | e :: es, i => (e, i) :: withPos es (i + 1)

/-- the entries (with their positions) chosen by `get_top_list`, in the order of the new
rung: the `new_len` first of the sorted valid entries if there are enough of them, else all
valid entries (in rung order) followed by the first failed ones. -/
def topSel (rung : List TEntry) (newLen : Nat) (m : Mode) : List (TEntry × Nat) :=
  let valid := (withPos rung 0).filter (fun x => !x.1.2.isNan)
  if newLen ≤ valid.length then
    (stableSort m valid).take newLen
  else
    valid ++ ((withPos rung 0).filter (fun x => x.1.2.isNan)).take (newLen - valid.length)

/-- `top_list` of `get_top_list`. -/
def topList (rung : List TEntry) (newLen : Nat) (m : Mode) : List (Option Nat) :=
  (topSel rung newLen m).map (·.1.1)

/-- `remaining_list`: ids of the rung (in rung order) that are not in `top_set`. -/
def remainingList (rung : List TEntry) (top : List (Option Nat)) : List (Option Nat) :=
  (rung.filter (fun x => !top.contains x.1)).map (·.1)

/-- `get_top_list(rung, new_len, mode)`. -/
def getTopList (rung : List TEntry) (newLen : Nat) (m : Mode) : List (Option Nat) × List (Option Nat) :=
  (topList rung newLen m, remainingList rung (topList rung newLen m))

/-- the slots of a completed rung as entries; `none` if a slot has `metric_val = None`
(`np.isnan(None)` is a `TypeError`). -/
def entriesOf : List Slot → Option (List TEntry)
  | [] => some []
  | s :: ss =>
    match s.metric, entriesOf ss with
    | some mv, some es => some ((s.tid, mv) :: es)
    | _, _ => none

/-! ### brackets -/

structure Bracket where
  kind : BKind
  mode : Mode
  rungs : List Rung            -- materialised prefix of `_rungs`
  todo : List (Nat × Nat)      -- `(rung_size, level)` tail of `_rungs`
  firstFree : Nat := 0         -- `_first_free_pos`
  current : Nat := 0           -- `current_rung`
deriving DecidableEq, Repr, Inhabited

/-- `is_increasing(lst)`: strictly increasing -/
def isIncreasing : List Nat → Bool
  | [] => true
  | [_] => true
  | x :: y :: rest => decide (x < y) && isIncreasing (y :: rest)

/-- `is_increasing([-x for x in sizes])`: strictly decreasing -/
def isDecreasing : List Nat → Bool
  | [] => true
  | [_] => true
  | x :: y :: rest => decide (y < x) && isDecreasing (y :: rest)

/-- `assert_check_rungs` for a list of `(size, level)`. -/
def checkRungs (rungs : List (Nat × Nat)) : Bool :=
  !rungs.isEmpty &&
  rungs.all (fun r => decide (1 ≤ r.2)) && isIncreasing (rungs.map (·.2)) &&
  rungs.all (fun r => decide (1 ≤ r.1)) && isDecreasing (rungs.map (·.1))

def freeRung (size level : Nat) : Rung := { slots := List.replicate size ⟨none, none⟩, level := level }

/-- constructors `SynchronousHyperbandBracket(rungs, mode)` /
`DifferentialEvolutionHyperbandBracket(rungs, mode)`. -/
def mkBracket (kind : BKind) (mode : Mode) (rungs : List (Nat × Nat)) : Except SErr Bracket :=
  if !checkRungs rungs then .error (.assertion "assert_check_rungs") else
  match kind, rungs with
  | _, [] => .error (.assertion "assert_check_rungs")
  | .hyperband, (size, level) :: rest =>
    .ok { kind := kind, mode := mode, rungs := [freeRung size level], todo := rest }
  | .dehb, rs =>
    .ok { kind := kind, mode := mode, rungs := rs.map (fun r => freeRung r.1 r.2), todo := [] }

def Bracket.numRungs (b : Bracket) : Nat := b.rungs.length + b.todo.length

/-- `is_bracket_complete`. -/
def Bracket.isComplete (b : Bracket) : Bool := decide (b.numRungs ≤ b.current)

/-- `_current_rung_and_level` (callers have checked `not is_bracket_complete()` or fail with
an `IndexError`/`TypeError`). -/
def Bracket.curRung (b : Bracket) : Except SErr Rung :=
  match b.rungs[b.current]? with
  | some r => .ok r
  | none => .error (.other "current rung is not a list of slots")

/-- number of `x[1] is None` among `rung[:first_free_pos]` -/
def pendingIn (slots : List Slot) (firstFree : Nat) : Nat :=
  ((slots.take firstFree).filter (fun s => s.metric.isNone)).length

/-- `num_pending_slots`. -/
def Bracket.numPending (b : Bracket) : Except SErr Nat :=
  if b.isComplete then .ok 0 else
  match b.curRung with
  | .error e => .error e
  | .ok rg => .ok (pendingIn rg.slots b.firstFree)

/-- `next_free_slot`. -/
def Bracket.nextFreeSlot (b : Bracket) : Except SErr (Bracket × Option SlotInRung) :=
  if b.isComplete then .ok (b, none) else
  match b.curRung with
  | .error e => .error e
  | .ok rg =>
    match rg.slots[b.firstFree]? with
    | none => .ok (b, none)
    | some sl =>
      .ok ({ b with firstFree := b.firstFree + 1 },
           some { rungIndex := b.current, level := rg.level, slotIndex := b.firstFree,
                  tid := sl.tid, metric := none })

/-- the assertions of `on_result` in program order; returns the current rung. -/
def Bracket.checkResult (b : Bracket) (res : SlotInRung) : Except SErr Rung :=
  if res.rungIndex ≠ b.current then .error (.assertion "Only accept result for current rung index") else
  if ¬ (res.slotIndex < b.firstFree) then .error (.assertion "slot_index must be in [0, first_free_pos)") else
  match b.curRung with
  | .error e => .error e
  | .ok rg =>
    if res.level ≠ rg.level then .error (.assertion "result.level == milestone") else
    match rg.slots[res.slotIndex]? with
    | none => .error (.other "IndexError rung[pos]")
    | some sl =>
      -- `_assert_on_result_trial_id` (hyperband only)
      if b.kind = .hyperband ∧ sl.tid.isSome ∧ res.tid ≠ sl.tid then .error (.assertion "result.trial_id == trial_id") else
      if sl.metric.isSome then .error (.assertion "Slot already has metric_val") else
      if res.metric.isNone then .error (.assertion "result.metric_val is missing") else
      .ok rg

/-- `rung[pos] = (result.trial_id, result.metric_val)` -/
def Rung.write (rg : Rung) (res : SlotInRung) : Rung :=
  { rg with slots := rg.slots.set res.slotIndex ⟨res.tid, res.metric⟩ }

/-- `_promote_trials_at_rung_complete` (called after `current_rung += 1`). -/
def Bracket.promote (b : Bracket) : Except SErr (Bracket × List (Option Nat)) :=
  match b.kind with
  | .dehb => .ok (b, [])
  | .hyperband =>
    match b.todo with
    | [] => .error (.other "_rungs[pos] is not (size, level)")
    | (newLen, milestone) :: rest =>
      if b.rungs.length ≠ b.current then .error (.other "_rungs[pos] is not (size, level)") else
      match b.rungs[b.current - 1]? with
      | none => .error (.other "previous rung")
      | some prev =>
        match entriesOf prev.slots with
        | none => .error (.other "np.isnan(None)")
        | some es =>
          let tl := getTopList es newLen b.mode
          .ok ({ b with rungs := b.rungs ++ [{ slots := tl.1.map (fun t => ⟨t, none⟩), level := milestone }],
                        todo := rest }, tl.2)

/-- the part of `on_result` after the slot has been written -/
def Bracket.afterWrite (b : Bracket) (rg : Rung) : Except SErr (Bracket × Option (List (Option Nat))) :=
  -- `is_complete = first_free_pos >= len(rung) and num_pending_slots() == 0`
  if rg.slots.length ≤ b.firstFree ∧ pendingIn rg.slots b.firstFree = 0 then
    let b1 := { b with current := b.current + 1, firstFree := 0 }
    if b1.isComplete then .ok (b1, none) else
    match b1.promote with
    | .error e => .error e
    | .ok (b2, rest) => .ok (b2, some rest)
  else .ok (b, none)

/-- `SynchronousBracket.on_result`: `(bracket', trials_not_promoted)`. -/
def Bracket.onResult (b : Bracket) (res : SlotInRung) : Except SErr (Bracket × Option (List (Option Nat))) :=
  match b.checkResult res with
  | .error e => .error e
  | .ok rg =>
    ({ b with rungs := b.rungs.set b.current (rg.write res) } : Bracket).afterWrite (rg.write res)

/-! ### DEHB additions (`dehb_bracket.py`) -/

/-- `size_of_current_rung`. -/
def Bracket.sizeOfCurrentRung (b : Bracket) : Except SErr Nat :=
  match b.curRung with
  | .error e => .error e
  | .ok rg => .ok rg.slots.length

/-- `trial_id_for_slot`. -/
def Bracket.trialIdForSlot (b : Bracket) (rungIndex slotIndex : Nat) : Except SErr (Option Nat) :=
  match b.rungs[rungIndex]? with
  | none => .error (.other "IndexError")
  | some rg =>
    match rg.slots[slotIndex]? with
    | none => .error (.other "IndexError")
    | some sl => .ok sl.tid

/-- `top_list_for_previous_rung`. -/
def Bracket.topListForPreviousRung (b : Bracket) : Except SErr (List (Option Nat)) :=
  if ¬ (0 < b.current) then .error (.assertion "Current rung is base rung") else
  match b.rungs[b.current - 1]?, b.curRung with
  | some prev, .ok cur =>
    match entriesOf prev.slots with
    | none => .error (.other "np.isnan(None)")
    | some es => .ok (getTopList es cur.slots.length b.mode).1
  | _, _ => .error (.other "IndexError")

end SyneTune.Sync
