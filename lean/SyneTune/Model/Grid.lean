import SyneTune.Model.InitialPoints
import SyneTune.Model.Exclusion
/-
Model of `GridSearcher` (`searchers/random_grid_searcher.py`, with the fix of commit
"GridSearcher.clone_from_state continued on a differently shuffled grid": the grid order
is part of the state).  The shuffle permutation drawn from `random_state` and the
iteration order of `set(points)` are inputs.   Core Lean only.
-/
namespace SyneTune.Srch

/-- `list(OrderedDict.fromkeys(categories))` -/
def dedupVals : List Val → List Val
  | [] => []
  | v :: vs => v :: (dedupVals vs).filter (· ≠ v)

/-- first loop of `_generate_all_candidates_on_grid` over `reversed(config_space.items())`:
categorical, finite-range and constant entries -/
def gridDiscrete : Space → List (String × List Val)
  | [] => []
  | (k, e) :: rest =>
    let tail := gridDiscrete rest
    match e with
    | .dom (.cat cats _) => tail ++ [(k, dedupVals cats)]
    | .dom (.nn cats _ _) => tail ++ [(k, dedupVals cats)]
    | .dom (.fin vals ..) => tail ++ [(k, dedupVals vals)]   -- list(OrderedDict.fromkeys(hp_range.values))
    | .const v => tail ++ [(k, [v])]
    | .dom (.int ..) => tail
    | .dom (.float ..) => tail

/-- second loop: `Float` / `Integer` hyperparameters in `internal_keys` (sorted) order; the
point lists `list(set(points))` are an input (`numPts`) -/
def gridNumeric (numPts : List (String × List Val)) (have_ : List String) :
    List String → Except Err (List (String × List Val))
  | [] => .ok []
  | k :: ks =>
    if k ∈ have_ then gridNumeric numPts have_ ks else
    match numPts.lookup k, gridNumeric numPts have_ ks with
    | some pts, .ok r => .ok ((k, pts) :: r)
    | none, _ => .error (.keyError k)
    | _, .error e => .error e

/-- `itertools.product(*lists)`: last factor varies fastest -/
def product : List (List Val) → List (List Val)
  | [] => [[]]
  | xs :: rest => xs.flatMap fun x => (product rest).map fun t => x :: t

/-- `random_state.shuffle(lst)` with the drawn permutation as input:
`post[i] = pre[perm[i]]`; `perm` must be a permutation of `range(len(pre))` -/
def applyPerm {α} (perm : List Nat) (xs : List α) : Except Err (List α) :=
  if perm.length = xs.length ∧ perm.Nodup ∧ perm.all (· < xs.length) then
    .ok (perm.filterMap fun i => xs[i]?)
  else .error (.unsupported "not a permutation")

/-- immutable part -/
structure GImm where
  mkf : MK
  hpKeys : List String        -- `hp_keys`
  allowDup : Bool

/-- mutable state -/
structure GState where
  p2e : List Config
  next : Nat                        -- `_next_index`
  allInit : List String             -- `_all_initial_configs.excl_set`
  combos : List (List Val)          -- `hp_values_combinations` (in traversal order)
  rng : Nat                         -- generator state token (not used after construction)
deriving Repr, DecidableEq

/-- the grid of a space: keys and combinations before shuffling -/
def gridOf (sp : Space) (numPts : List (String × List Val)) : Except Err (List String × List (List Val)) :=
  let disc := gridDiscrete sp
  match gridNumeric numPts (disc.map Prod.fst) (sortedHpKeys sp) with
  | .error e => .error e
  | .ok num =>
    let all := disc ++ num
    .ok (all.map Prod.fst, product (all.map Prod.snd))

/-- constructor: grid, optional shuffle -/
def GState.create (sp : Space) (numPts : List (String × List Val)) (shuffle : Option (List Nat))
    (p2e : List Config) : Except Err (List String × GState) :=
  match gridOf sp numPts with
  | .error e => .error e
  | .ok (keys, combos) =>
    match shuffle with
    | none => .ok (keys, { p2e := p2e, next := 0, allInit := [], combos := combos, rng := 0 })
    | some perm =>
      match applyPerm perm combos with
      | .error e => .error e
      | .ok cs => .ok (keys, { p2e := p2e, next := 0, allInit := [], combos := cs, rng := 1 })

/-- `dict(zip(self.hp_keys, combination))` -/
def zipConfig (keys : List String) (vals : List Val) : Config := keys.zip vals

/-- the `while` loop of `_next_candidate_on_grid`; returns candidate, `_next_index`,
`_all_initial_configs` -/
def gridLoop (imm : GImm) (combos : List (List Val)) :
    (fuel : Nat) → (next : Nat) → (init : List String) → Except Err (Option Config × Nat × List String)
  | 0, _, _ => .error .fuel
  | fuel + 1, next, init =>
    match combos[next]? with
    | none => .ok (none, next, init)          -- `_next_index < num_combinations` fails
    | some combo =>
      let cand := zipConfig imm.hpKeys combo
      match exclContains imm.mkf init cand with
      | .error e => .error e
      | .ok isInit =>
        let next1 := next + 1
        let wrap := imm.allowDup ∧ next1 = combos.length
        let next2 := if wrap then 0 else next1
        let init2 := if wrap then [] else init
        if isInit then gridLoop imm combos fuel next2 init2 else .ok (some cand, next2, init2)

/-- `GridSearcher.get_config` -/
def GState.getConfig (imm : GImm) (s : GState) : Except Err (GState × Option Config) :=
  match s.p2e with
  | c :: rest =>
    match exclAddConfig imm.mkf s.allInit c with
    | .ok ini => .ok ({ s with p2e := rest, allInit := ini }, some c)
    | .error e => .error e
  | [] =>
    match gridLoop imm s.combos (s.combos.length + 2) s.next s.allInit with
    | .error e => .error e
    | .ok (c, next, ini) => .ok ({ s with next := next, allInit := ini }, c)

/-- `get_state()` -/
structure GSnap where
  p2e : List Config
  randomState : Nat
  nextIndex : Nat
  allInitial : ExclSnap
  combos : List (List Val)          -- "hp_values_combinations"
deriving Repr, DecidableEq

def GState.getState (s : GState) (keys : List String) (order : List String) : GSnap :=
  { p2e := s.p2e, randomState := s.rng, nextIndex := s.next,
    allInitial := { exclSet := order, keys := keys }, combos := s.combos }

/-- `clone_from_state`: a fresh `GridSearcher(config_space, num_samples, shuffle_config,
allow_duplicates)` (whatever grid order it builds) followed by `_restore_from_state`, which
overwrites the initial points, the generator state, the cursor, the grid order and the set
of initial configurations. -/
def GState.clone (_fresh : GState) (snap : GSnap) : GState :=
  { p2e := snap.p2e, next := snap.nextIndex, allInit := snap.allInitial.exclSet.eraseDups,
    combos := snap.combos, rng := snap.randomState }

/-- the code before the fix: the clone kept the freshly built (default-seed shuffled)
grid of the new object -/
def GState.cloneOld (fresh : GState) (snap : GSnap) : GState :=
  { p2e := snap.p2e, next := snap.nextIndex, allInit := snap.allInitial.exclSet.eraseDups,
    combos := fresh.combos, rng := snap.randomState }

inductive GOp
  | get
  | other                      -- register_pending / evaluation_failed / on_trial_result: no-ops
deriving Repr

def GState.step (imm : GImm) (s : GState) (op : GOp) : Except Err (GState × Option (Option Config)) :=
  match op with
  | .get =>
    match s.getConfig imm with
    | .ok (s', o) => .ok (s', some o)
    | .error e => .error e
  | .other => .ok (s, none)

def GState.run (imm : GImm) : GState → List GOp → Except Err (GState × List (Option Config))
  | s, [] => .ok (s, [])
  | s, op :: ops =>
    match s.step imm op with
    | .error e => .error e
    | .ok (s', o) =>
      match GState.run imm s' ops with
      | .error e => .error e
      | .ok (s'', os) => .ok (s'', o.toList ++ os)

end SyneTune.Srch
