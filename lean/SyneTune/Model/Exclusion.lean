import SyneTune.Model.Searcher
/-
Model of `ExclusionList` (`searchers/utils/exclusion_list.py`): a set of match strings
plus the `config_space_size` exhaustion test.   Core Lean only.

The match-string function is a parameter `mk` (for a real space it is `matchStr sp`), so
every theorem holds for whatever `config_to_match_string` computes.
-/
namespace SyneTune.Srch

/-- match-string function; may raise (e.g. `list.index` on a non-member) -/
abbrev MK := Config → Except Err String

/-- `ExclusionList.contains` -/
def exclContains (mk : MK) (excl : List String) (c : Config) : Except Err Bool :=
  match mk c with
  | .ok m => .ok (decide (m ∈ excl))
  | .error e => .error e

/-- `ExclusionList.add` -/
def exclAddConfig (mk : MK) (excl : List String) (c : Config) : Except Err (List String) :=
  match mk c with
  | .ok m => .ok (exclAdd m excl)
  | .error e => .error e

/-- `ExclusionList.config_space_exhausted` -/
def exhausted (size : Option Nat) (excl : List String) : Bool :=
  match size with
  | some n => decide (n ≤ excl.length)
  | none => false

/-- `get_state()["excl_set"] = list(self.excl_set)`: iteration order of a `set` of `str` is
unspecified, the order is an input `perm` (any list with the same elements) -/
structure ExclSnap where
  exclSet : List String
  keys : List String
deriving Repr, DecidableEq

end SyneTune.Srch
