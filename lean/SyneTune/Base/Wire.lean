import Lean.Data.Json
import SyneTune.Base.Basic
/-
Line protocol helpers for the model drivers (DESIGN Appendix A).  Not part of any proof.
-/
namespace SyneTune.Wire
open Lean

def parseRat (s : String) : Except String Rat :=
  match s.splitOn "/" with
  | [n] => match n.toInt? with
    | some k => .ok (k : Rat)
    | none => .error s!"bad rational {s}"
  | [n, d] => match n.toInt?, d.toNat? with
    | some k, some dd => if dd = 0 then .error s!"zero denominator {s}" else .ok (mkRat k dd)
    | _, _ => .error s!"bad rational {s}"
  | _ => .error s!"bad rational {s}"

def ratStr (r : Rat) : String :=
  if r.den = 1 then toString r.num else s!"{r.num}/{r.den}"

def jRat (r : Rat) : Json := Json.str (ratStr r)

def getRat (j : Json) (k : String) : Except String Rat := do
  let v ← j.getObjVal? k
  match v with
  | .str s => parseRat s
  | _ => match v.getInt? with
    | .ok i => .ok (i : Rat)
    | .error _ => .error s!"field {k}: expected rational string"

def getNat (j : Json) (k : String) : Except String Nat := do (← j.getObjVal? k).getNat?
def getInt (j : Json) (k : String) : Except String Int := do (← j.getObjVal? k).getInt?
def getStr (j : Json) (k : String) : Except String String := do (← j.getObjVal? k).getStr?
def getBool (j : Json) (k : String) : Except String Bool := do (← j.getObjVal? k).getBool?
def getArr (j : Json) (k : String) : Except String (List Json) := do
  return (← (← j.getObjVal? k).getArr?).toList
def getNatList (j : Json) (k : String) : Except String (List Nat) := do
  (← getArr j k).mapM (fun x => x.getNat?)
def getRatOf (v : Json) : Except String Rat :=
  match v with
  | .str s => parseRat s
  | _ => match v.getInt? with
    | .ok i => .ok (i : Rat)
    | .error _ => .error "expected rational"
def getRatList (j : Json) (k : String) : Except String (List Rat) := do
  (← getArr j k).mapM getRatOf
def getOptNat (j : Json) (k : String) : Except String (Option Nat) :=
  match j.getObjVal? k with
  | .error _ => .ok none
  | .ok .null => .ok none
  | .ok v => do return some (← v.getNat?)
def getBoolD (j : Json) (k : String) (d : Bool) : Bool :=
  match getBool j k with | .ok b => b | .error _ => d
def getNatD (j : Json) (k : String) (d : Nat) : Nat :=
  match getNat j k with | .ok b => b | .error _ => d
def getStrD (j : Json) (k : String) (d : String) : String :=
  match getStr j k with | .ok b => b | .error _ => d
def hasKey (j : Json) (k : String) : Bool :=
  match j.getObjVal? k with | .ok _ => true | .error _ => false

def jNat (n : Nat) : Json := Json.num (JsonNumber.fromNat n)
def jInt (n : Int) : Json := Json.num (JsonNumber.fromInt n)
def jOptNat : Option Nat → Json
  | none => Json.null
  | some n => jNat n
def jArr (l : List Json) : Json := Json.arr l.toArray
def jObj (l : List (String × Json)) : Json := Json.mkObj l
def jErr (s : String) : Json := jObj [("err", Json.str s)]
def jOut (j : Json) : Json := jObj [("out", j)]

def modeOf (s : String) : Except String Mode :=
  if s == "min" then .ok .min else if s == "max" then .ok .max else .error s!"bad mode {s}"

/-- A model behind the line protocol: a line containing key `"stream"` (re)constructs the
state, any other line is one operation. One output line per input line. -/
structure Machine (σ : Type) where
  init : Json → Except String (σ × Json)
  step : σ → Json → Except String (σ × Json)

partial def Machine.loop {σ} (m : Machine σ) (h : IO.FS.Stream) (out : IO.FS.Stream)
    (st : Option σ) : IO Unit := do
  let line ← h.getLine
  if line.isEmpty then return ()
  let line := line.trimAscii.toString
  if line.isEmpty then m.loop h out st else
  match Json.parse line with
  | .error e =>
    out.putStrLn (jErr s!"parse: {e}").compress
    m.loop h out st
  | .ok j =>
    if hasKey j "stream" then
      match m.init j with
      | .ok (s, o) => out.putStrLn o.compress; m.loop h out (some s)
      | .error e => out.putStrLn (jErr s!"init: {e}").compress; m.loop h out none
    else
      match st with
      | none => out.putStrLn (jErr "no-state").compress; m.loop h out none
      | some s =>
        match m.step s j with
        | .ok (s', o) => out.putStrLn o.compress; m.loop h out (some s')
        | .error e => out.putStrLn (jErr e).compress; m.loop h out (some s)

def Machine.main {σ} (m : Machine σ) : IO Unit := do
  let i ← IO.getStdin
  let o ← IO.getStdout
  m.loop i o none
  o.flush

end SyneTune.Wire
