/-
Base definitions shared by all models.  Core Lean only (no Mathlib, no `Lean.*`).
-/
namespace SyneTune

/-- Optimisation mode of a scheduler (`mode="min"|"max"`). -/
inductive Mode | min | max
deriving DecidableEq, Repr, Inhabited

/-- Sort key used by `SortedList(key=lambda x: sign * x.metric_val)`. -/
def Mode.key (m : Mode) (v : Rat) : Rat :=
  match m with
  | .min => v
  | .max => -v

/-- `a` is no worse than `b` under mode `m`. -/
def Mode.noWorse (m : Mode) (a b : Rat) : Prop :=
  match m with
  | .min => a ≤ b
  | .max => b ≤ a

instance (m : Mode) (a b : Rat) : Decidable (m.noWorse a b) := by
  cases m <;> simp only [Mode.noWorse] <;> infer_instance

def Mode.flip : Mode → Mode
  | .min => .max
  | .max => .min

/-- `SchedulerDecision`. -/
inductive Decision | continue | pause | stop
deriving DecidableEq, Repr, Inhabited

def Decision.toString : Decision → String
  | .continue => "CONTINUE"
  | .pause => "PAUSE"
  | .stop => "STOP"

/-- Classification of a comparison of an input value against a quantity the code
derives in floating point (DESIGN §2.1).  `forced b`: the exact comparison yields `b`
and the margin exceeds the round-off allowance.  `free`: within round-off. -/
inductive Cmp | forced (b : Bool) | free
deriving DecidableEq, Repr

def absRat (x : Rat) : Rat := if x < 0 then -x else x

def maxRat (a b : Rat) : Rat := if a < b then b else a

/-- Round-off allowance `2⁻⁴⁰ · max(scale,|a|,|b|)`; `scale` bounds the magnitude of the
operands of the floating-point expression that produced one of the two numbers. -/
def tol (a b : Rat) (scale : Rat := 1) : Rat :=
  maxRat scale (maxRat (absRat a) (absRat b)) / 1099511627776

/-- Is `a ≤ b`?  forced when `|a-b| > tol`. -/
def cmpLe (a b : Rat) (scale : Rat := 1) : Cmp :=
  if absRat (a - b) ≤ tol a b scale then .free else .forced (decide (a ≤ b))

/-- Resolve a comparison with the implementation's answer as hint for free ones. -/
def Cmp.resolve (c : Cmp) (hint : Bool) : Bool :=
  match c with
  | .forced b => b
  | .free => hint

def Cmp.isFree : Cmp → Bool
  | .free => true
  | _ => false

/-- association-list lookup (Python `dict.get`). -/
def alookup {β} (k : Nat) : List (Nat × β) → Option β
  | [] => none
  | (k', v) :: xs => if k = k' then some v else alookup k xs

/-- association-list insert/replace keeping first-insertion order (Python `dict[k] = v`). -/
def aset {β} (k : Nat) (v : β) : List (Nat × β) → List (Nat × β)
  | [] => [(k, v)]
  | (k', v') :: xs => if k = k' then (k, v) :: xs else (k', v') :: aset k v xs

/-- association-list delete (Python `del dict[k]` when present). -/
def adel {β} (k : Nat) : List (Nat × β) → List (Nat × β)
  | [] => []
  | (k', v') :: xs => if k = k' then xs else (k', v') :: adel k xs

/-- Python `round` / `np.round` on a rational: round half to even. -/
def roundHalfEven (x : Rat) : Int :=
  let f := x.floor
  let d := x - (f : Rat)
  if d < 1/2 then f
  else if 1/2 < d then f + 1
  else if f % 2 = 0 then f else f + 1

end SyneTune
