import SyneTune.Lemmas.TunerStats
import SyneTune.Lemmas.TunerRows
import SyneTune.Lemmas.TunerWitnessData
/-
C17 — metric statistics (`MetricsStatistics`, `TuningStatus`), best trial
(`print_best_metric_found`), best row (`ExperimentResult.best_config` via pandas
`argmin/argmax`) and `metric_name_mode`.
Property theorems only.  Model: `Model/TuningStatus.lean`, `Model/Tuner.lean` (rows of the
`StoreResultsCallback`, lemmas `Lemmas/TunerRows.lean`); helper lemmas and the vocabulary
used below are in `Lemmas/TunerStats.lean`:

    valsOf k rs    := rs.filterMap (fun m => match alookup k m with | some (.num x) => some x | _ => none)
                      -- the numeric values reported for key `k`, in order
    AllNum k rs    := ∀ m ∈ rs, ∀ v, alookup k m = some v → v.isNum = true
    KeysUnique m   := (m.map (·.1)).Nodup          -- a Python dict
    foldAdd s rs   := rs.foldl MStat.add s          -- `for r in rs: stats.add(r)`
    NoNan l        := ∀ k x, alookup k l = some x → x ≠ .nan
    TSNoNan ts     := ∀ kv ∈ ts.perTrial, NoNan kv.2.mins ∧ NoNan kv.2.maxs
-/
namespace SyneTune.C17
open SyneTune SyneTune.Tuner

/-! ### 1. count -/

/-- `count` is the number of `add` calls. -/
theorem stats_count (rs : List Metrics) : (foldAdd {} rs).count = rs.length := by
  rw [foldAdd_count]; simp

example : (foldAdd {} [[(0, .num (.fin 1))], [], [(0, .other), (1, .num .nan)]]).count = 3 := by
  decide +kernel

/-! ### 2. NaN never becomes a running minimum or maximum -/

/-- Python `min(a, b)` returns `a` unless `b < a`, every comparison with NaN is false and the
running value starts at `+inf` (`-inf` for the maximum): no stored minimum/maximum is NaN,
whatever is reported (NaN, non-numbers, duplicate keys, …). -/
theorem stats_nan_never_enters (rs : List Metrics) (k : Nat) (x : XRat) :
    (alookup k (foldAdd {} rs).mins = some x → x ≠ .nan) ∧
    (alookup k (foldAdd {} rs).maxs = some x → x ≠ .nan) := by
  have h := foldAdd_noNan rs {} ⟨NoNan_nil, NoNan_nil⟩
  exact ⟨h.1 k x, h.2 k x⟩

/-- the same from any NaN-free state, and for the per-trial statistics of a `TuningStatus`:
`update` keeps them NaN-free (this discharges the hypothesis of `best_tuner_min/max`). -/
theorem stats_nan_never_enters_status (ts : TStatus) (sd : List (Nat × St))
    (res : List (Nat × Metrics)) (h : TSNoNan ts) : TSNoNan (ts.update sd res) :=
  TSNoNan_update ts sd res h

theorem stats_nan_never_enters_status_init : TSNoNan {} := TSNoNan_empty

example :
    let s := foldAdd {} [[(0, .num .nan)], [(0, .num (.fin 2))], [(0, .num .nan)]]
    alookup 0 s.mins = some (.fin 2) ∧ alookup 0 s.maxs = some (.fin 2) ∧
    alookup 0 s.sums = some .nan := by
  decide +kernel

/-- a NaN reported *first* is skipped as well: the minimum stays `+inf`. -/
example : alookup 0 (foldAdd {} [[(0, .num .nan)]]).mins = some .pinf := by decide +kernel

/-! ### 3. minimum and maximum -/

/-- for a key that only ever carried numbers: an entry exists iff a value was reported; the
stored minimum is the left fold of Python's `min` from `+inf`; it is a lower bound of all
non-NaN values and is attained (or is `+inf`, when all values were NaN or `+inf`). -/
theorem stats_min (rs : List Metrics) (k : Nat) (hu : ∀ m ∈ rs, KeysUnique m) (hn : AllNum k rs) :
    (alookup k (foldAdd {} rs).mins = none ↔ valsOf k rs = []) ∧
    ∀ m, alookup k (foldAdd {} rs).mins = some m →
      m = (valsOf k rs).foldl pyMin .pinf ∧
      (∀ v ∈ valsOf k rs, v ≠ .nan → v.lt m = false) ∧
      (m = .pinf ∨ m ∈ valsOf k rs) := by
  have hp := congrArg KStat.mins (proj_foldAdd_allNum rs k hu hn)
  change alookup k (foldAdd {} rs).mins = _ at hp
  rw [hp]
  by_cases hv : valsOf k rs = []
  · simp [hv]
  · simp only [hv, if_false, Option.some.injEq, reduceCtorEq, true_and]
    intro m hm
    subst hm
    obtain ⟨_, _, h3, h4⟩ := foldl_pyMin_spec (valsOf k rs) .pinf (by simp)
    exact ⟨rfl, h3, h4⟩

theorem stats_max (rs : List Metrics) (k : Nat) (hu : ∀ m ∈ rs, KeysUnique m) (hn : AllNum k rs) :
    (alookup k (foldAdd {} rs).maxs = none ↔ valsOf k rs = []) ∧
    ∀ m, alookup k (foldAdd {} rs).maxs = some m →
      m = (valsOf k rs).foldl pyMax .ninf ∧
      (∀ v ∈ valsOf k rs, v ≠ .nan → m.lt v = false) ∧
      (m = .ninf ∨ m ∈ valsOf k rs) := by
  have hp := congrArg KStat.maxs (proj_foldAdd_allNum rs k hu hn)
  change alookup k (foldAdd {} rs).maxs = _ at hp
  rw [hp]
  by_cases hv : valsOf k rs = []
  · simp [hv]
  · simp only [hv, if_false, Option.some.injEq, reduceCtorEq, true_and]
    intro m hm
    subst hm
    obtain ⟨_, _, h3, h4⟩ := foldl_pyMax_spec (valsOf k rs) .ninf (by simp)
    exact ⟨rfl, h3, h4⟩

/-- hypotheses are satisfiable; key 0 carries 3, NaN, 2, −1 (key 1 carries a string). -/
example :
    let rs : List Metrics := [[(0, .num (.fin 3)), (1, .other)], [(0, .num .nan)], [(1, .num (.fin 5))],
               [(1, .num (.fin 7)), (0, .num (.fin 2))], [(0, .num (.fin (-1)))]]
    (∀ m ∈ rs, KeysUnique m) ∧ AllNum 0 rs ∧
    valsOf 0 rs = [.fin 3, .nan, .fin 2, .fin (-1)] ∧
    alookup 0 (foldAdd {} rs).mins = some (.fin (-1)) ∧
    alookup 0 (foldAdd {} rs).maxs = some (.fin 3) := by
  refine ⟨?_, ?_, by decide +kernel, by decide +kernel, by decide +kernel⟩
  · simp [KeysUnique]
  · simp [AllNum, alookup, Val.isNum]

/-! ### 4. sum -/

/-- the stored sum is Python's left-to-right float sum of the reported values from `0`. -/
theorem stats_sum (rs : List Metrics) (k : Nat) (hu : ∀ m ∈ rs, KeysUnique m) (hn : AllNum k rs) :
    alookup k (foldAdd {} rs).sums =
      if valsOf k rs = [] then none else some ((valsOf k rs).foldl XRat.add (.fin 0)) := by
  have hp := congrArg KStat.sums (proj_foldAdd_allNum rs k hu hn)
  change alookup k (foldAdd {} rs).sums = _ at hp
  rw [hp]
  by_cases hv : valsOf k rs = [] <;> simp [hv]

/-- and `is_numeric[k]` is `True` exactly when a value was reported. -/
theorem stats_is_numeric (rs : List Metrics) (k : Nat) (hu : ∀ m ∈ rs, KeysUnique m) (hn : AllNum k rs) :
    alookup k (foldAdd {} rs).isNum = if valsOf k rs = [] then none else some true := by
  have hp := congrArg KStat.isNum (proj_foldAdd_allNum rs k hu hn)
  change alookup k (foldAdd {} rs).isNum = _ at hp
  rw [hp]
  by_cases hv : valsOf k rs = [] <;> simp [hv]

example :
    let rs : List Metrics := [[(0, .num (.fin 3)), (1, .other)], [(1, .num (.fin 5))],
               [(1, .num (.fin 7)), (0, .num (.fin (1/2)))]]
    alookup 0 (foldAdd {} rs).sums = some (.fin (7/2)) ∧ alookup 2 (foldAdd {} rs).sums = none := by
  decide +kernel

/-! ### 5. the non-numeric latch -/

/-- once a non-number has been reported for a key (`is_numeric[k] = False`) nothing stored
for that key changes again, whatever is added. -/
theorem stats_latch (s : MStat) (k : Nat) (h : alookup k s.isNum = some false) (m : Metrics) :
    alookup k (s.add m).mins = alookup k s.mins ∧
    alookup k (s.add m).maxs = alookup k s.maxs ∧
    alookup k (s.add m).sums = alookup k s.sums ∧
    alookup k (s.add m).isNum = some false := by
  have hp := proj_foldl_addOne_latched m s k h
  rw [← proj_add] at hp
  exact ⟨congrArg KStat.mins hp, congrArg KStat.maxs hp, congrArg KStat.sums hp,
    (congrArg KStat.isNum hp).trans h⟩

/-- … and so for every later sequence of reports. -/
theorem stats_latch_forever (s : MStat) (k : Nat) (h : alookup k s.isNum = some false)
    (rs : List Metrics) :
    alookup k (foldAdd s rs).mins = alookup k s.mins ∧
    alookup k (foldAdd s rs).maxs = alookup k s.maxs ∧
    alookup k (foldAdd s rs).sums = alookup k s.sums ∧
    alookup k (foldAdd s rs).isNum = some false := by
  induction rs generalizing s with
  | nil => exact ⟨rfl, rfl, rfl, h⟩
  | cons m rs ih =>
    obtain ⟨h1, h2, h3, h4⟩ := stats_latch s k h m
    obtain ⟨i1, i2, i3, i4⟩ := ih (s.add m) h4
    rw [foldAdd_cons]
    exact ⟨i1.trans h1, i2.trans h2, i3.trans h3, i4⟩

/-- the latch is set by the first non-number (a state satisfying the hypothesis), and the
later number 0 does not lower the minimum 3. -/
example :
    let s := foldAdd {} [[(0, .num (.fin 3))], [(0, .other)]]
    alookup 0 s.isNum = some false ∧
    alookup 0 (s.add [(0, .num (.fin 0))]).mins = some (.fin 3) := by
  decide +kernel

/-! ### 6. `TuningStatus.update` -/

/-- the overall statistics absorb every new result, in order. -/
theorem update_overall (ts : TStatus) (sd : List (Nat × St)) (res : List (Nat × Metrics)) :
    (ts.update sd res).overall = (res.map (·.2)).foldl MStat.add ts.overall := by
  unfold TStatus.update
  exact foldl_addResult_overall res _

/-- the statistics of trial `t` absorb exactly the new results of trial `t`, in order
(a missing entry reads as the empty statistics — `defaultdict`). -/
theorem update_per_trial (ts : TStatus) (sd : List (Nat × St)) (res : List (Nat × Metrics)) (t : Nat) :
    (alookup t (ts.update sd res).perTrial).getD {} =
      ((res.filter (fun r => decide (r.1 = t))).map (·.2)).foldl MStat.add
        ((alookup t ts.perTrial).getD {}) := by
  unfold TStatus.update
  simp only
  rw [getD_alookup_foldl_touch]
  exact foldl_addResult_perTrial res _ t

/-- trial ids stay unique in `trial_metric_statistics`. -/
theorem update_keys_unique (ts : TStatus) (sd : List (Nat × St)) (res : List (Nat × Metrics))
    (h : (ts.perTrial.map (·.1)).Nodup) : ((ts.update sd res).perTrial.map (·.1)).Nodup :=
  nodup_keys_update ts sd res h

example :
    let ts := ({} : TStatus).update [(0, .inProgress), (1, .inProgress)]
      [(1, [(0, .num (.fin 4))]), (0, [(0, .num (.fin 9))]), (1, [(0, .num (.fin 2))])]
    ts.overall.count = 3 ∧ ((alookup 1 ts.perTrial).getD {}).count = 2 ∧
    alookup 0 ((alookup 1 ts.perTrial).getD {}).mins = some (.fin 2) ∧
    ts.perTrial.map (·.1) = [1, 0] := by
  decide +kernel

/-! ### 7. best trial (`print_best_metric_found`) -/

theorem best_tuner_first_none (l : List (Nat × XRat)) : firstMin l = none ↔ l = [] :=
  firstMin_eq_none l

/-- with no NaN key, `firstMin` (= `sorted(l, key=…)[0]`, stable) returns an element of `l`
of minimal key, and the first such. -/
theorem best_tuner_first (l : List (Nat × XRat)) (hn : ∀ x ∈ l, x.2 ≠ .nan) (y : Nat × XRat)
    (h : firstMin l = some y) :
    y ∈ l ∧ (∀ x ∈ l, x.2.lt y.2 = false) ∧
    ∃ pre post, l = pre ++ y :: post ∧ ∀ x ∈ pre, y.2.lt x.2 = true :=
  firstMin_spec l hn y h

example : firstMin [(0, .fin 3), (1, .fin 1), (2, .pinf), (3, .fin 1)] = some (1, .fin 1) := by
  decide +kernel

/-- `mode="min"`: the reported trial `t` is an entry of the per-trial statistics whose minimum
of `name` (`+inf` when the trial never reported it) is the returned value `v`; no trial has a
strictly smaller minimum; every earlier trial has a strictly larger one. -/
theorem best_tuner_min (ts : TStatus) (name t : Nat) (v : XRat)
    (hn : ∀ kv ∈ ts.perTrial, ∀ x, alookup name kv.2.mins = some x → x ≠ .nan)
    (h : ts.best name true = some (t, v)) :
    ts.overall.count ≠ 0 ∧
    (∃ pre stats post, ts.perTrial = pre ++ (t, stats) :: post ∧
      (alookup name stats.mins).getD .pinf = v ∧
      (∀ kv ∈ pre, v.lt ((alookup name kv.2.mins).getD .pinf) = true) ∧
      ((ts.perTrial.map (·.1)).Nodup → alookup t ts.perTrial = some stats)) ∧
    (∀ kv ∈ ts.perTrial, ((alookup name kv.2.mins).getD .pinf).lt v = false) := by
  unfold TStatus.best at h
  by_cases hc : ts.overall.count = 0
  · simp [hc] at h
  · simp only [hc, if_false, if_true] at h
    have hg : ∀ kv ∈ ts.perTrial, (alookup name kv.2.mins).getD .pinf ≠ .nan := by
      intro kv hkv
      cases hl : alookup name kv.2.mins with
      | none => simp
      | some x => simpa using hn kv hkv x hl
    obtain ⟨⟨pre, b, post, e, hb, hpre⟩, hall⟩ :=
      firstMin_map_spec ts.perTrial (fun s => (alookup name s.mins).getD .pinf) hg t v h
    refine ⟨hc, ⟨pre, b, post, e, hb, hpre, ?_⟩, hall⟩
    intro hnd
    exact alookup_of_mem_nodup t b _ hnd (by rw [e]; simp)

/-- `mode="max"` (in fact every mode value other than `"min"`/`None`): symmetric, with the
per-trial maxima and `-inf` as default. -/
theorem best_tuner_max (ts : TStatus) (name t : Nat) (v : XRat)
    (hn : ∀ kv ∈ ts.perTrial, ∀ x, alookup name kv.2.maxs = some x → x ≠ .nan)
    (h : ts.best name false = some (t, v)) :
    ts.overall.count ≠ 0 ∧
    (∃ pre stats post, ts.perTrial = pre ++ (t, stats) :: post ∧
      (alookup name stats.maxs).getD .ninf = v ∧
      (∀ kv ∈ pre, ((alookup name kv.2.maxs).getD .ninf).lt v = true) ∧
      ((ts.perTrial.map (·.1)).Nodup → alookup t ts.perTrial = some stats)) ∧
    (∀ kv ∈ ts.perTrial, v.lt ((alookup name kv.2.maxs).getD .ninf) = false) := by
  unfold TStatus.best at h
  by_cases hc : ts.overall.count = 0
  · simp [hc] at h
  · simp only [hc, if_false, Bool.false_eq_true] at h
    have hg : ∀ kv ∈ ts.perTrial, ((alookup name kv.2.maxs).getD .ninf).neg ≠ .nan := by
      intro kv hkv
      rw [XRat.neg_ne_nan]
      cases hl : alookup name kv.2.maxs with
      | none => simp
      | some x => simpa using hn kv hkv x hl
    cases hf : firstMin (ts.perTrial.map
        (fun kv => (kv.1, ((alookup name kv.2.maxs).getD .ninf).neg))) with
    | none => rw [hf] at h; cases h
    | some y =>
      rw [hf] at h
      obtain ⟨yt, yv⟩ := y
      simp only [Option.some.injEq, Prod.mk.injEq] at h
      obtain ⟨rfl, rfl⟩ := h
      obtain ⟨⟨pre, b, post, e, hb, hpre⟩, hall⟩ :=
        firstMin_map_spec ts.perTrial (fun s => ((alookup name s.maxs).getD .ninf).neg) hg yt yv hf
      refine ⟨hc, ⟨pre, b, post, e, ?_, ?_, ?_⟩, ?_⟩
      · rw [← hb, XRat.neg_neg]
      · intro kv hkv
        have := hpre kv hkv
        rw [← hb, XRat.neg_lt_neg] at this
        rw [← hb, XRat.neg_neg]; exact this
      · intro hnd
        exact alookup_of_mem_nodup yt b _ hnd (by rw [e]; simp)
      · intro kv hkv
        have := hall kv hkv
        rw [← hb, XRat.neg_lt_neg] at this
        rw [← hb, XRat.neg_neg]; exact this

/-- three trials; trial 2 never reported metric 0 (reads `+inf` / `-inf`); trials 0 and 1 tie
on the minimum 1 — the first (trial 0) is reported; the maximum 5 is trial 1's. -/
example :
    let ts := ({} : TStatus).update [(0, .inProgress), (1, .inProgress), (2, .inProgress)]
      [(0, [(0, .num (.fin 1))]), (1, [(0, .num (.fin 5))]), (1, [(0, .num (.fin 1))]),
       (2, [(1, .num (.fin 0))])]
    TSNoNan ts ∧ ts.best 0 true = some (0, .fin 1) ∧ ts.best 0 false = some (1, .fin 5) := by
  refine ⟨?_, by decide +kernel, by decide +kernel⟩
  exact stats_nan_never_enters_status _ _ _ stats_nan_never_enters_status_init

/-! ### 8. best row of the results table (pandas `argmin` / `argmax`, `skipna=True`) -/

/-- no answer exactly when every cell is NaN / missing (pandas raises / returns −1). -/
theorem best_experiment_none (useMin : Bool) (col : List XRat) (i0 : Nat) :
    argBest useMin col i0 = none ↔ ∀ x ∈ col, x = .nan :=
  argBest_eq_none useMin col i0

/-- the answer `(i, v)` is a row of the column (rows are numbered from `i0`), `v` is not NaN,
no non-NaN cell is strictly better, and every earlier non-NaN cell is strictly worse. -/
theorem best_experiment (useMin : Bool) (col : List XRat) (i0 i : Nat) (v : XRat)
    (h : argBest useMin col i0 = some (i, v)) :
    i0 ≤ i ∧ col[i - i0]? = some v ∧ v ≠ .nan ∧
    (∀ (j : Nat) x, col[j]? = some x → x ≠ .nan →
      (useMin = true → x.lt v = false) ∧ (useMin = false → v.lt x = false)) ∧
    (∀ (j : Nat) x, j < i - i0 → col[j]? = some x → x ≠ .nan →
      (useMin = true → v.lt x = true) ∧ (useMin = false → x.lt v = true)) := by
  obtain ⟨h1, h2, h3, h4, h5⟩ := argBest_spec useMin col i0 i v h
  refine ⟨h1, h2, h3, ?_, ?_⟩
  · intro j x hx hxn
    have := h4 j x hx hxn
    cases useMin <;> simp [better] at this ⊢ <;> exact this
  · intro j x hj hx hxn
    have := h5 j x hj hx hxn
    cases useMin <;> simp [better] at this ⊢ <;> exact this

example :
    argBest true [.nan, .fin 2, .fin 1, .nan, .fin 1] 0 = some (2, .fin 1) ∧
    argBest false [.nan, .fin 2, .fin 1, .pinf, .pinf] 10 = some (13, .pinf) ∧
    argBest true [.nan, .nan] 0 = none := by
  decide +kernel

/-! ### 9. `metric_name_mode` -/

/-- (a) metric given by name, one mode for all metrics. -/
theorem mode_lookup_name_one (names : List Nat) (k : Nat) (m : Mode) (hk : k ∈ names) :
    metricNameMode names (.one m) (.byName k) = .ok (k, m) := by
  simp [metricNameMode, hk]

/-- (b) metric given by name, list of modes: the mode at the position of the first occurrence. -/
theorem mode_lookup_name_many (names : List Nat) (k i : Nat) (ms : List Mode) (m : Mode)
    (hi : indexOf? names k = some i) (hm : ms[i]? = some m) :
    metricNameMode names (.many ms) (.byName k) = .ok (k, m) := by
  have hk := mem_of_indexOf? names k i hi
  simp [metricNameMode, hk, hi, hm]

/-- `list.index`: the first position holding `k`. -/
theorem mode_lookup_index_of (names : List Nat) (k i : Nat) (hi : indexOf? names k = some i) :
    names[i]? = some k ∧ ∀ j < i, names[j]? ≠ some k :=
  indexOf?_spec names k i hi

/-- … which exists for every member. -/
theorem mode_lookup_index_of_mem (names : List Nat) (k : Nat) (hk : k ∈ names) :
    ∃ i, indexOf? names k = some i :=
  indexOf?_isSome_of_mem names k hk

/-- (c) metric given by a non-negative position inside the list. -/
theorem mode_lookup_index_one (names : List Nat) (i : Int) (m : Mode) (h0 : 0 ≤ i)
    (h : i.toNat < names.length) :
    metricNameMode names (.one m) (.byIndex i) = .ok (names[i.toNat], m) := by
  have hlt : i < (names.length : Int) := by omega
  simp [metricNameMode, hlt, pyIndex, h0]

theorem mode_lookup_index_many (names : List Nat) (i : Int) (ms : List Mode) (m : Mode) (h0 : 0 ≤ i)
    (h : i.toNat < names.length) (hm : ms[i.toNat]? = some m) :
    metricNameMode names (.many ms) (.byIndex i) = .ok (names[i.toNat], m) := by
  have hlt : i < (names.length : Int) := by omega
  simp [metricNameMode, hlt, pyIndex, h0, hm]

/-- negative positions pass the `assert metric < len(metric_names)` and index from the end;
beyond the front they raise `IndexError`. -/
theorem mode_lookup_negative_index_one (names : List Nat) (i : Int) (m : Mode) (h0 : i < 0)
    (h : (-i).toNat ≤ names.length) :
    metricNameMode names (.one m) (.byIndex i) =
      .ok (names[names.length - (-i).toNat]'(by omega), m) := by
  have hlt : i < (names.length : Int) := by omega
  have h0' : ¬ 0 ≤ i := by omega
  have hb : names.length - (-i).toNat < names.length := by omega
  simp [metricNameMode, hlt, pyIndex, h0', h, List.getElem?_eq_getElem hb]

theorem mode_lookup_negative_index_out_of_range (names : List Nat) (mode : ModeSpec) (i : Int)
    (h : names.length < (-i).toNat) :
    metricNameMode names mode (.byIndex i) = .error .indexError := by
  have hlt : i < (names.length : Int) := by omega
  have h0' : ¬ 0 ≤ i := by omega
  have h' : ¬ (-i).toNat ≤ names.length := by omega
  simp [metricNameMode, hlt, pyIndex, h0', h']

/-- (d) the two assertions. -/
theorem mode_lookup_unknown_name (names : List Nat) (mode : ModeSpec) (k : Nat) (hk : k ∉ names) :
    metricNameMode names mode (.byName k) = .error .assertion := by
  simp [metricNameMode, hk]

theorem mode_lookup_index_too_large (names : List Nat) (mode : ModeSpec) (i : Int)
    (h : (names.length : Int) ≤ i) :
    metricNameMode names mode (.byIndex i) = .error .assertion := by
  have hlt : ¬ i < (names.length : Int) := by omega
  simp [metricNameMode, hlt]

example :
    metricNameMode [7, 8, 9] (.many [.min, .max, .min]) (.byName 8) = .ok (8, .max) ∧
    metricNameMode [7, 8, 9] (.many [.min, .max, .min]) (.byIndex 2) = .ok (9, .min) ∧
    metricNameMode [7, 8, 9] (.one .max) (.byIndex 0) = .ok (7, .max) ∧
    metricNameMode [7, 8, 9] (.one .max) (.byName 5) = .error .assertion ∧
    metricNameMode [7, 8, 9] (.one .max) (.byIndex 3) = .error .assertion ∧
    metricNameMode [7, 8, 9] (.one .max) (.byIndex (-1)) = .ok (9, .max) ∧
    metricNameMode [7, 8, 9] (.one .max) (.byIndex (-4)) = .error .indexError ∧
    indexOf? [7, 8, 9, 8] 8 = some 1 := by
  decide

/-! ### 9. the results log -/

/-- **Rows.** With a `StoreResultsCallback` (`store`), at every point of every run of the loop
the rows of the results log are, in order, the results delivered to the callbacks
(`on_trial_result(trial, status, result, decision)` events of the call log, identified by trial,
position among the results of the trial, decision and status): one row per event, nothing else.
`tail` is empty except while the event is being delivered (`pc = cbResult`) or — inside the
`finally` block — when that delivery itself raised. -/
theorem rows (c : Cfg) (as : List Ans) (hs : c.store = true) :
    ∃ tail, cbResults (run (init c) as).log = (run (init c) as).rows.map Row.key ++ tail ∧ tail.length ≤ 1 ∧
      (finPc (run (init c) as).pc = false → (run (init c) as).pc ≠ .cbResult → tail = []) := by
  obtain ⟨tail, h1, h2, _, h4⟩ := (RowsInv_run c as).rows (by rw [run_cfg]; exact hs)
  exact ⟨tail, h1, h2, h4⟩

/-- without the callback nothing is recorded -/
theorem rows_none (c : Cfg) (as : List Ans) (hs : c.store = false) : (run (init c) as).rows = [] :=
  (RowsInv_run c as).noStore (by rw [run_cfg]; exact hs)

/-- the content of a row: when `on_trial_result` returns, the row appended carries the trial's
configuration as known to the tuner, the (possibly scheduler-annotated) metrics of the result,
the decision and the status under which the result was delivered -/
theorem rows_content (s : LState) (hs : s.cfg.store = true) :
    (addRow s).rows = s.rows ++ [{ tid := s.cur.tid, rid := s.cur.rid, cfg := alookup s.cur.tid s.configs,
                                   decision := s.curD, status := s.curSt, m := s.cur.m }] := by
  unfold addRow; simp [hs]

/-- the rows of the F15 run of `Lemmas/TunerWitnessData.lean` -/
example :
    (run (init Witness.f15Cfg) (Witness.f15Prefix ++ Witness.f15Rest)).rows.map Row.key
      = [(0, 0, .continue, .inProgress), (1, 1, .continue, .completed)] ∧
    cbResults (run (init Witness.f15Cfg) (Witness.f15Prefix ++ Witness.f15Rest)).log
      = [(0, 0, .continue, .inProgress), (1, 1, .continue, .completed)] ∧
    ((run (init Witness.f15Cfg) (Witness.f15Prefix ++ Witness.f15Rest)).rows.map fun r => (r.cfg, r.m))
      = [(some 0, Witness.m 1 1), (some 1, Witness.m 2 2)] := by
  decide +kernel

end SyneTune.C17
