import SyneTune.Lemmas.HBPromotion
/-
C04 — promotion-type Hyperband (ASHA, PASHA, cost-aware, RUSH) promotes only eligible trials.
Property theorems only; helper lemmas are in `Lemmas/HBPromotion.lean`.
-/
namespace SyneTune.C04
open SyneTune

/-- **Every trial pauses exactly at its next rung level.**  For a running trial with
milestone `ms`: below the milestone it continues and nothing changes; at the milestone it
does not continue (`milestone_reached`); beyond the milestone the code rejects the report
(assertion) — unreachable when the worker obeys `max_resource_attr` or the loop obeys PAUSE. -/
theorem pause_exactly_at_milestone (s : RungSys) (m : Mode) (tid r : Nat) (v cost : Rat)
    (ms : Nat) (rf : Option Nat) (hrun : alookup tid s.running = some (ms, rf)) :
    (r < ms → ∃ o, s.promoReport m tid r v cost = .ok (s, o) ∧ o.continues = true ∧ o.reached = false) ∧
    (ms < r → ∃ e, s.promoReport m tid r v cost = .error e) ∧
    (r = ms → ∀ s' o, s.promoReport m tid r v cost = .ok (s', o) →
        o.continues = false ∧ o.reached = true) := by
  refine ⟨?_, ?_, ?_⟩
  · intro h
    have : ¬ ms ≤ r := by omega
    unfold RungSys.promoReport
    simp only [hrun, this, if_false]
    exact ⟨_, rfl, rfl, rfl⟩
  · intro h
    have h1 : ms ≤ r := by omega
    have h2 : r ≠ ms := by omega
    unfold RungSys.promoReport
    simp only [hrun, h1, h2, if_true, ne_eq, not_false_eq_true]
    exact ⟨_, rfl⟩
  · intro h s' o hok
    subst h
    unfold RungSys.promoReport at hok
    simp only [hrun, Nat.le_refl, if_true, ne_eq, not_true_eq_false, if_false] at hok
    split at hok
    · injection hok with hok; injection hok with _ h2; rw [← h2]; exact ⟨rfl, rfl⟩
    · split at hok
      · cases hok
      · split at hok
        · cases hok
        · injection hok with hok; injection hok with _ h2; rw [← h2]; exact ⟨rfl, rfl⟩

/-- **Never more than the cap.**  A promotion resumes a trial from a rung strictly below the
cap (`max_t`, for PASHA the current cap) and tells it to run exactly to the next rung level
above that rung (or `max_t` above the top rung); that milestone never exceeds `max_t`. -/
theorem milestone_is_next_level (ty : HBType) (m : Mode) (numThr cap : Nat) (hint : Option Nat)
    (maxT : Nat) (thr : List (Nat × Rat)) (rs : List Rung) (o : SchedOut)
    (hd : RungsDecr rs) (hlt : ∀ rg ∈ rs, rg.level < maxT)
    (h : (promoScan ty m numThr cap hint maxT thr rs).out = some o) :
    o.resumeFrom < cap ∧ o.resumeFrom < o.milestone ∧ o.milestone ≤ maxT ∧
    -- no rung level lies strictly between `resumeFrom` and `milestone`
    (∀ rg ∈ rs, ¬ (o.resumeFrom < rg.level ∧ rg.level < o.milestone)) ∧
    (o.milestone = maxT ∨ ∃ rg ∈ rs, rg.level = o.milestone) := by
  obtain ⟨pre, rg, post, thr', pos, h1, h2, h3, _, _, h6⟩ := promoScan_some ty m numThr cap hint maxT thr rs o h
  subst h1
  have hpre : ∀ p ∈ pre, rg.level < p.level := by
    intro p hp
    unfold RungsDecr at hd
    rw [List.pairwise_append] at hd
    exact hd.2.2 p hp rg (by simp)
  have hpost : ∀ p ∈ post, p.level < rg.level := by
    intro p hp
    unfold RungsDecr at hd
    rw [List.pairwise_append] at hd
    have := hd.2.1
    rw [List.pairwise_cons] at this
    exact this.1 p hp
  refine ⟨by omega, ?_, ?_, ?_, ?_⟩
  · rw [h6, ← h2]
    cases hl : pre.getLast? with
    | none => simp only; exact hlt rg (by simp)
    | some p => simp only; exact hpre p (List.mem_of_getLast? hl)
  · rw [h6]
    cases hl : pre.getLast? with
    | none => simp
    | some p =>
      simp only
      exact Nat.le_of_lt (hlt p (by simp [List.mem_of_getLast? hl]))
  · intro x hx hbetween
    rw [h6, ← h2] at hbetween
    rcases List.mem_append.mp hx with hx | hx
    · -- x in pre: x.level ≥ last of pre
      cases hl : pre.getLast? with
      | none =>
        have : pre = [] := by simpa using hl
        subst this; simp at hx
      | some p =>
        simp only [hl] at hbetween
        have hp : p ∈ pre := List.mem_of_getLast? hl
        -- p is the last element of pre; x is before or equal; levels decrease
        have hle : p.level ≤ x.level := by
          obtain ⟨init, hinit⟩ : ∃ init, pre = init ++ [p] := by
            have := List.getLast?_eq_some_iff.mp hl
            obtain ⟨ys, hys⟩ := this; exact ⟨ys, hys⟩
          subst hinit
          rcases List.mem_append.mp hx with hx' | hx'
          · unfold RungsDecr at hd
            rw [List.append_assoc, List.pairwise_append] at hd
            have := hd.2.2 x hx' p (by simp)
            omega
          · simp at hx'; subst hx'; exact Nat.le_refl _
        omega
    · rcases List.mem_cons.mp hx with rfl | hx
      · omega
      · have := hpost x hx; omega
  · rw [h6]
    cases hl : pre.getLast? with
    | none => left; rfl
    | some p => right; exact ⟨p, by simp [List.mem_of_getLast? hl], rfl⟩

/-- **Only eligible trials are promoted** (ASHA and PASHA).  If the scan promotes trial `t`
from rung `r`: `r` is below the cap; every rung above `r` that is below the cap had nothing
promotable; `t`'s entry in rung `r` is unpromoted; every entry ranked better in that rung is
already promoted (no other unpromoted trial is better); its metric is no worse than the
rung's quantile whenever the comparison is outside round-off; and the only change to the
rungs is that this entry is marked promoted. -/
theorem eligible (ty : HBType) (hty : ty.plain) (m : Mode) (numThr cap : Nat) (hint : Option Nat)
    (next : Nat) (thr : List (Nat × Rat)) (rs : List Rung) (o : SchedOut)
    (h : (promoScan ty m numThr cap hint next thr rs).out = some o) :
    ∃ pre rg post pos c e,
      rs = pre ++ rg :: post ∧ rg.level = o.resumeFrom ∧ rg.level < cap ∧
      (∀ p ∈ pre, p.level < cap → plainPick m p hint = none) ∧
      rg.cutoff m = some c ∧ rg.data[pos]? = some e ∧ e.tid = o.trial ∧ e.promoted = false ∧
      (∀ i, i < pos → ∀ x, rg.data[i]? = some x → x.promoted = true) ∧
      (∀ b, cmpNoWorse m e.val c rg.scale = .forced b → m.noWorse e.val c) ∧
      (promoScan ty m numThr cap hint next thr rs).rungs = pre ++ markPromoted m rg pos :: post := by
  obtain ⟨pre, rg, post, pos, h1, h2, h3, h4, h5, h6, _⟩ :=
    promoScan_plain_pre_none ty hty m numThr cap hint next thr rs o h
  obtain ⟨c, e, g1, g2, g3, g4, g5, g6⟩ := plainPick_some m rg hint o.trial pos h5
  refine ⟨pre, rg, post, pos, c, e, h1, h2, h3, h4, g1, g2, g3, g4, g5, ?_, h6⟩
  intro b hb
  have := g6 b hb
  subst this
  exact (cmpNoWorse_forced m e.val c rg.scale true hb).mp rfl

/-- **If no trial is eligible a new trial is started** and no rung changes. -/
theorem else_new (ty : HBType) (hty : ty.plain) (m : Mode) (numThr cap : Nat) (hint : Option Nat)
    (next : Nat) (thr : List (Nat × Rat)) (rs : List Rung)
    (h : (promoScan ty m numThr cap hint next thr rs).out = none) :
    (∀ p ∈ rs, p.level < cap → plainPick m p hint = none) ∧
    (promoScan ty m numThr cap hint next thr rs).rungs = rs :=
  promoScan_plain_none ty hty m numThr cap hint next thr rs h

/-- what "nothing promotable in a rung" means -/
theorem not_promotable_means (m : Mode) (rg : Rung) (hint : Option Nat) (h : plainPick m rg hint = none) :
    rg.cutoff m = none ∨ (∀ x ∈ rg.data, x.promoted = true) ∨
    ∃ c e pos, rg.cutoff m = some c ∧ firstUnpromoted rg.data 0 = some (e, pos) ∧
      (∀ b, cmpNoWorse m e.val c rg.scale = .forced b → ¬ m.noWorse e.val c) := by
  rcases plainPick_none m rg hint h with h1 | h1 | ⟨c, e, pos, g1, g2, g3⟩
  · exact Or.inl h1
  · exact Or.inr (Or.inl h1)
  · refine Or.inr (Or.inr ⟨c, e, pos, g1, g2, ?_⟩)
    intro b hb hnw
    have := g3 b hb
    subst this
    have := (cmpNoWorse_forced m e.val c rg.scale false hb).mpr hnw
    cases this

end SyneTune.C04
