import SyneTune.Lemmas.HBPromotion3
/-
C04 — promotion-type Hyperband (ASHA, PASHA, cost-aware, RUSH) promotes only eligible trials.
Property theorems only; helper lemmas are in `Lemmas/HBPromotion.lean`.
-/
namespace SyneTune.C04
open SyneTune

/-- **Every trial pauses exactly at its next rung level.**  For a running trial with
milestone `ms`: below the milestone it continues and nothing changes; at the milestone it
does not continue (`milestone_reached`); beyond the milestone the code rejects the report
(assertion) — unreachable when the worker obeys `max_resource_attr` or the loop obeys PAUSE. -/
theorem pause_exactly_at_milestone (s : RungSys) (m : Mode) (tid r : Nat) (v cost : Rat)
    (ms : Nat) (rf : Option Nat) (hrun : alookup tid s.running = some (ms, rf)) :
    (r < ms → ∃ o, s.promoReport m tid r v cost = .ok (s, o) ∧ o.continues = true ∧ o.reached = false) ∧
    (ms < r → ∃ e, s.promoReport m tid r v cost = .error e) ∧
    (r = ms → ∀ s' o, s.promoReport m tid r v cost = .ok (s', o) →
        o.continues = false ∧ o.reached = true) := by
  refine ⟨?_, ?_, ?_⟩
  · intro h
    have : ¬ ms ≤ r := by omega
    unfold RungSys.promoReport
    simp only [hrun, this, if_false]
    exact ⟨_, rfl, rfl, rfl⟩
  · intro h
    have h1 : ms ≤ r := by omega
    have h2 : r ≠ ms := by omega
    unfold RungSys.promoReport
    simp only [hrun, h1, h2, if_true, ne_eq, not_false_eq_true]
    exact ⟨_, rfl⟩
  · intro h s' o hok
    subst h
    unfold RungSys.promoReport at hok
    simp only [hrun, Nat.le_refl, if_true, ne_eq, not_true_eq_false, if_false] at hok
    exact (promoReached_spec s s' m tid v cost r _ o hok).1

/-- **Never more than the cap.**  A promotion resumes a trial from a rung strictly below the
cap (`max_t`, for PASHA the current cap) and tells it to run exactly to the next rung level
above that rung (or `max_t` above the top rung); that milestone never exceeds `max_t`. -/
theorem milestone_is_next_level (ty : HBType) (m : Mode) (numThr cap : Nat) (hint : Option Nat)
    (maxT : Nat) (thr : List (Nat × Rat)) (rs : List Rung) (o : SchedOut)
    (hd : RungsDecr rs) (hlt : ∀ rg ∈ rs, rg.level < maxT)
    (h : (promoScan ty m numThr cap hint maxT thr rs).out = some o) :
    o.resumeFrom < cap ∧ o.resumeFrom < o.milestone ∧ o.milestone ≤ maxT ∧
    -- no rung level lies strictly between `resumeFrom` and `milestone`
    (∀ rg ∈ rs, ¬ (o.resumeFrom < rg.level ∧ rg.level < o.milestone)) ∧
    (o.milestone = maxT ∨ ∃ rg ∈ rs, rg.level = o.milestone) := by
  obtain ⟨pre, rg, post, thr', pos, h1, h2, h3, _, _, h6⟩ := promoScan_some ty m numThr cap hint maxT thr rs o h
  subst h1
  have hpre : ∀ p ∈ pre, rg.level < p.level := by
    intro p hp
    unfold RungsDecr at hd
    rw [List.pairwise_append] at hd
    exact hd.2.2 p hp rg (by simp)
  have hpost : ∀ p ∈ post, p.level < rg.level := by
    intro p hp
    unfold RungsDecr at hd
    rw [List.pairwise_append] at hd
    have := hd.2.1
    rw [List.pairwise_cons] at this
    exact this.1 p hp
  refine ⟨by omega, ?_, ?_, ?_, ?_⟩
  · rw [h6, ← h2]
    cases hl : pre.getLast? with
    | none => simp only; exact hlt rg (by simp)
    | some p => simp only; exact hpre p (List.mem_of_getLast? hl)
  · rw [h6]
    cases hl : pre.getLast? with
    | none => simp
    | some p =>
      simp only
      exact Nat.le_of_lt (hlt p (by simp [List.mem_of_getLast? hl]))
  · intro x hx hbetween
    rw [h6, ← h2] at hbetween
    rcases List.mem_append.mp hx with hx | hx
    · -- x in pre: x.level ≥ last of pre
      cases hl : pre.getLast? with
      | none =>
        have : pre = [] := by simpa using hl
        subst this; simp at hx
      | some p =>
        simp only [hl] at hbetween
        have hp : p ∈ pre := List.mem_of_getLast? hl
        -- p is the last element of pre; x is before or equal; levels decrease
        have hle : p.level ≤ x.level := by
          obtain ⟨init, hinit⟩ : ∃ init, pre = init ++ [p] := by
            have := List.getLast?_eq_some_iff.mp hl
            obtain ⟨ys, hys⟩ := this; exact ⟨ys, hys⟩
          subst hinit
          rcases List.mem_append.mp hx with hx' | hx'
          · unfold RungsDecr at hd
            rw [List.append_assoc, List.pairwise_append] at hd
            have := hd.2.2 x hx' p (by simp)
            omega
          · simp at hx'; subst hx'; exact Nat.le_refl _
        omega
    · rcases List.mem_cons.mp hx with rfl | hx
      · omega
      · have := hpost x hx; omega
  · rw [h6]
    cases hl : pre.getLast? with
    | none => left; rfl
    | some p => right; exact ⟨p, by simp [List.mem_of_getLast? hl], rfl⟩

/-- **Only eligible trials are promoted** (ASHA and PASHA).  If the scan promotes trial `t`
from rung `r`: `r` is below the cap; every rung above `r` that is below the cap had nothing
promotable; `t`'s entry in rung `r` is unpromoted; every entry ranked better in that rung is
already promoted (no other unpromoted trial is better); its metric is no worse than the
rung's quantile whenever the comparison is outside round-off; and the only change to the
rungs is that this entry is marked promoted. -/
theorem eligible (ty : HBType) (hty : ty.plain) (m : Mode) (numThr cap : Nat) (hint : Option Nat)
    (next : Nat) (thr : List (Nat × Rat)) (rs : List Rung) (o : SchedOut)
    (h : (promoScan ty m numThr cap hint next thr rs).out = some o) :
    ∃ pre rg post pos c e,
      rs = pre ++ rg :: post ∧ rg.level = o.resumeFrom ∧ rg.level < cap ∧
      (∀ p ∈ pre, p.level < cap → plainPick m p hint = none) ∧
      rg.cutoff m = some c ∧ rg.data[pos]? = some e ∧ e.tid = o.trial ∧ e.promoted = false ∧
      (∀ i, i < pos → ∀ x, rg.data[i]? = some x → x.promoted = true) ∧
      (∀ b, cmpNoWorse m e.val c rg.scale = .forced b → m.noWorse e.val c) ∧
      (promoScan ty m numThr cap hint next thr rs).rungs = pre ++ markPromoted m rg pos :: post := by
  obtain ⟨pre, rg, post, pos, h1, h2, h3, h4, h5, h6, _⟩ :=
    promoScan_plain_pre_none ty hty m numThr cap hint next thr rs o h
  obtain ⟨c, e, g1, g2, g3, g4, g5, g6⟩ := plainPick_some m rg hint o.trial pos h5
  refine ⟨pre, rg, post, pos, c, e, h1, h2, h3, h4, g1, g2, g3, g4, g5, ?_, h6⟩
  intro b hb
  have := g6 b hb
  subst this
  exact (cmpNoWorse_forced m e.val c rg.scale true hb).mp rfl

/-- **If no trial is eligible a new trial is started** and no rung changes. -/
theorem else_new (ty : HBType) (hty : ty.plain) (m : Mode) (numThr cap : Nat) (hint : Option Nat)
    (next : Nat) (thr : List (Nat × Rat)) (rs : List Rung)
    (h : (promoScan ty m numThr cap hint next thr rs).out = none) :
    (∀ p ∈ rs, p.level < cap → plainPick m p hint = none) ∧
    (promoScan ty m numThr cap hint next thr rs).rungs = rs :=
  promoScan_plain_none ty hty m numThr cap hint next thr rs h

/-- what "nothing promotable in a rung" means -/
theorem not_promotable_means (m : Mode) (rg : Rung) (hint : Option Nat) (h : plainPick m rg hint = none) :
    rg.cutoff m = none ∨ (∀ x ∈ rg.data, x.promoted = true) ∨
    ∃ c e pos, rg.cutoff m = some c ∧ firstUnpromoted rg.data 0 = some (e, pos) ∧
      (∀ b, cmpNoWorse m e.val c rg.scale = .forced b → ¬ m.noWorse e.val c) := by
  rcases plainPick_none m rg hint h with h1 | h1 | ⟨c, e, pos, g1, g2, g3⟩
  · exact Or.inl h1
  · exact Or.inr (Or.inl h1)
  · refine Or.inr (Or.inr ⟨c, e, pos, g1, g2, ?_⟩)
    intro b hb hnw
    have := g3 b hb
    subst this
    have := (cmpNoWorse_forced m e.val c rg.scale false hb).mpr hnw
    cases this


/-! ### promoted at most once — over every history -/

/-- operations on one promotion rung system -/
inductive POp
  | schedule (hint : Option Nat)
  | report (tid r : Nat) (v cost : Rat)
  | add (tid ms : Nat) (resumeFrom : Option Nat)
  | remove (tid : Nat)

def stepP (ty : HBType) (m : Mode) (s : RungSys) : POp → RungSys
  | .schedule hint => (s.promoSchedule ty m hint).1
  | .report tid r v cost => match s.promoReport m tid r v cost with | .ok res => res.1 | .error _ => s
  | .add tid ms rf => { s with running := aset tid (ms, rf) s.running }
  | .remove tid => { s with running := adel tid s.running }

def runP (ty : HBType) (m : Mode) (s : RungSys) (ops : List POp) : RungSys := ops.foldl (stepP ty m) s

theorem stepP_steps (ty : HBType) (m : Mode) (s : RungSys) (op : POp) :
    List.Forall₂ (RungStep m) s.rungs (stepP ty m s op).rungs := by
  have hre : ∀ ys : List Rung, List.Forall₂ (RungStep m) ys ys := by
    intro ys; induction ys with
    | nil => exact List.Forall₂.nil
    | cons y ys ihy => exact List.Forall₂.cons (RungStep.same y) ihy
  cases op with
  | schedule hint => exact promoScan_steps ty m s.numThr (s.cap ty) hint s.maxT s.thresholds s.rungs
  | report tid r v cost =>
    simp only [stepP]
    cases h : s.promoReport m tid r v cost with
    | error e => exact hre _
    | ok res => obtain ⟨s', o⟩ := res; exact promoReport_steps s s' m tid r v cost o h
  | add tid ms rf => exact hre _
  | remove tid => exact hre _

/-- **Invariant over all histories**: every trial occurs at most once per rung, rung levels
never change, and a promotion record is never lost. -/
theorem history_invariant (ty : HBType) (m : Mode) (s : RungSys) (ops : List POp) :
    (AllNodup s.rungs → AllNodup (runP ty m s ops).rungs) ∧
    (∀ level t, PromotedAt s.rungs level t → PromotedAt (runP ty m s ops).rungs level t) ∧
    (runP ty m s ops).rungs.map (·.level) = s.rungs.map (·.level) := by
  induction ops generalizing s with
  | nil => exact ⟨fun h => h, fun _ _ h => h, rfl⟩
  | cons op ops ih =>
    obtain ⟨a1, a2, a3⟩ := steps_preserve (stepP_steps ty m s op)
    obtain ⟨b1, b2, b3⟩ := ih (stepP ty m s op)
    exact ⟨fun h => b1 (a1 h), fun l t h => b2 l t (a2 l t h), by rw [show runP ty m s (op :: ops) = runP ty m (stepP ty m s op) ops from rfl, b3, a3]⟩

/-- **A trial is promoted from a rung at most once** (ASHA / PASHA).  Once trial `t` has been
promoted from the rung of level `r` — at any point of any history of schedule / report /
add / remove operations since — no later promotion scan promotes `t` from `r` again. -/
theorem promoted_once (ty : HBType) (hty : ty.plain) (m : Mode) (s : RungSys) (ops : List POp)
    (hnd : AllNodup s.rungs) (hdec : RungsDecr s.rungs) (level t : Nat)
    (hp : PromotedAt s.rungs level t) (hint : Option Nat) (o : SchedOut)
    (h : ((runP ty m s ops).promoSchedule ty m hint).2.1 = some o) (ht : o.trial = t) :
    o.resumeFrom ≠ level := by
  obtain ⟨i1, i2, i3⟩ := history_invariant ty m s ops
  generalize runP ty m s ops = s2 at *
  have hnd2 := i1 hnd
  obtain ⟨rgP, hrgP, hlv, hpin⟩ := i2 level t hp
  intro heq
  unfold RungSys.promoSchedule at h
  obtain ⟨pre, rg, post, pos, h1, h2, _, _, h5, _, _⟩ :=
    promoScan_plain_pre_none ty hty m s2.numThr (s2.cap ty) hint s2.maxT s2.thresholds s2.rungs o h
  -- rungs of equal level coincide (levels are pairwise distinct)
  have hdec2 : (s2.rungs.map (·.level)).Pairwise (fun a b => b < a) := by
    rw [i3]; unfold RungsDecr at hdec; exact List.pairwise_map.mpr hdec
  have hrg : rg ∈ s2.rungs := by rw [h1]; simp
  have hsame : rgP = rg := by
    have hl : rgP.level = rg.level := by rw [hlv, h2, heq]
    have hdec3 : s2.rungs.Pairwise (fun a b => b.level < a.level) := List.pairwise_map.mp hdec2
    exact decr_level_inj s2.rungs hdec3 rgP rg hrgP hrg hl
  subst hsame
  rw [ht] at h5
  exact plainPick_not_promoted m rgP hint t pos (hnd2 rgP hrgP) hpin h5

/-- the promotion itself creates the record used by `promoted_once` -/
theorem promotion_recorded (ty : HBType) (hty : ty.plain) (m : Mode) (s : RungSys) (hint : Option Nat)
    (o : SchedOut) (h : (s.promoSchedule ty m hint).2.1 = some o) :
    PromotedAt (s.promoSchedule ty m hint).1.rungs o.resumeFrom o.trial := by
  unfold RungSys.promoSchedule at h ⊢
  obtain ⟨pre, rg, post, pos, h1, h2, _, _, h5, h6, _⟩ :=
    promoScan_plain_pre_none ty hty m s.numThr (s.cap ty) hint s.maxT s.thresholds s.rungs o h
  obtain ⟨c, e, _, g2, g3, _, _, _⟩ := plainPick_some m rg hint o.trial pos h5
  refine ⟨markPromoted m rg pos, by simp only; rw [h6]; simp, ?_, ?_⟩
  · rw [(markPromoted_perm m rg pos e g2).2.1, h2]
  · rw [← g3]; exact markPromoted_promotedIn m rg pos e g2

/-! ### PASHA: the resource cap -/

/-- **PASHA's cap grows monotonically and is always a rung level or `max_t`**, at every
report of every history (one step; `PashaInv` is preserved, so it lifts by induction). -/
theorem pasha_cap_monotone (s s' : RungSys) (m : Mode) (tid r : Nat) (v eps : Rat) (o : RepOut)
    (hinv : PashaInv s) (h : s.pashaReport m tid r v eps = .ok (s', o)) :
    PashaInv s' ∧ s.curMaxT ≤ s'.curMaxT ∧ (s'.curMaxT = s'.maxT ∨ s'.curMaxT ∈ s'.levelsAsc) :=
  pashaReport_cap s s' m tid r v eps o hinv h

/-- the freshly constructed PASHA system satisfies `PashaInv` whenever there are at least
two rung levels (strictly increasing, below `max_t`) — non-vacuity. -/
example : PashaInv (mkSys .pasha 0 [1, 3, 9] (promoteQuantiles [1, 3, 9] 27) 27) := by
  unfold PashaInv mkSys RungSys.initPasha mkRungSys promoteQuantiles pyIndex
  refine ⟨by simp, by simp, by simp, Or.inr (Or.inl ⟨by simp, by simp⟩)⟩


/-! ### cost-aware and RUSH eligibility, stated outright -/

/-- **Cost-aware promotion.**  The entry picked by the cost scan is unpromoted, everything
ranked better is already promoted, and the cumulative cost up to and including the picked
entry does not exceed the threshold `q · C(r, N)` (whenever that comparison is outside
round-off). -/
theorem cost_rule (threshold total : Rat) (level : Nat) (hint : Option Nat) (data : List Entry)
    (pos : Nat) (acc : Rat) (e : Entry) (p : Nat) (fr : Bool)
    (h : costFirstPromotable threshold total level hint data pos acc = (some (e, p), fr)) :
    ∃ pre post, data = pre ++ e :: post ∧ p = pos + pre.length ∧ e.promoted = false ∧
      (∀ x ∈ pre, x.promoted = true) ∧
      (∀ b, cmpLe (acc + (pre.map (·.cost)).foldl (· + ·) 0 + e.cost) threshold (absRat total) = .forced b →
        acc + (pre.map (·.cost)).foldl (· + ·) 0 + e.cost ≤ threshold) := by
  induction data generalizing pos acc fr with
  | nil => simp [costFirstPromotable] at h
  | cons x xs ih =>
    unfold costFirstPromotable at h
    simp only at h
    by_cases hw : (cmpLe (acc + x.cost) threshold (absRat total)).resolve (hint == some level) = true
    · simp only [hw, Bool.not_true, Bool.false_eq_true, if_false] at h
      by_cases hp : x.promoted = true
      · simp only [hp, Bool.not_true, Bool.false_eq_true, if_false] at h
        cases hr : costFirstPromotable threshold total level hint xs (pos + 1) (acc + x.cost) with
        | mk r1 r2 =>
          rw [hr] at h
          simp only [Prod.mk.injEq] at h
          obtain ⟨h1, _⟩ := h
          subst h1
          obtain ⟨pre, post, g1, g2, g3, g4, g5⟩ := ih (pos + 1) (acc + x.cost) r2 hr
          refine ⟨x :: pre, post, by rw [g1]; rfl, by simp [g2]; omega, g3, ?_, ?_⟩
          · intro y hy
            rcases List.mem_cons.mp hy with rfl | hy
            · exact hp
            · exact g4 y hy
          · have hsum : acc + ((x :: pre).map (·.cost)).foldl (· + ·) 0
                = acc + x.cost + (pre.map (·.cost)).foldl (· + ·) 0 := by
              simp only [List.map_cons, List.foldl_cons]
              have : ∀ (l : List Rat) (a : Rat), l.foldl (· + ·) a = a + l.foldl (· + ·) 0 := by
                intro l; induction l with
                | nil => intro a; simp
                | cons y ys ihy => intro a; simp only [List.foldl_cons]; rw [ihy (a + y), ihy (0 + y)]; ring
              rw [this _ (0 + x.cost)]; ring
            rw [hsum]; exact g5
      · simp only [Bool.not_eq_true] at hp
        simp only [hp, Bool.not_false, if_true, Prod.mk.injEq, Option.some.injEq] at h
        obtain ⟨⟨h1, h2⟩, _⟩ := h
        subst h1; subst h2
        refine ⟨[], xs, rfl, by simp, hp, by simp, ?_⟩
        intro b hb
        simp only [List.map_nil, List.foldl_nil, add_zero] at hb ⊢
        rw [hb] at hw
        simp only [Cmp.resolve] at hw
        subst hw
        exact (cmpLe_forced _ _ _ true hb).mp rfl
    · simp only [Bool.not_eq_true] at hw
      simp [hw] at h

/-- **RUSH threshold rule** (`RUSHDecider.task_continues`): a trial that would continue
under the base rule continues iff it is a threshold candidate (`trial_id <
num_threshold_candidates`, which also tightens the threshold of that level) or its metric
is no worse than the level's threshold (no threshold yet: continues). -/
theorem rush_rule (m : Mode) (numThr : Nat) (thr : List (Nat × Rat)) (tc : Bool) (tid : Nat)
    (v : Rat) (resource : Nat) :
    ((rushDecide m numThr thr tc tid v resource).1 = true ↔
      tc = true ∧ (tid < numThr ∨
        match alookup resource thr with
        | none => True
        | some t => m.noWorse v t)) ∧
    (tc = false ∨ ¬ tid < numThr → (rushDecide m numThr thr tc tid v resource).2 = thr) := by
  unfold rushDecide
  cases tc with
  | false => simp
  | true =>
    by_cases hc : tid < numThr
    · simp [hc]
    · simp only [Bool.not_true, Bool.false_eq_true, if_false, hc, decide_eq_true_eq, true_and, false_or,
        not_false_eq_true, or_true, implies_true, and_true]
      cases hl : alookup resource thr with
      | none => simp [rushBetter]
      | some t =>
        cases m with
        | min =>
          simp only [rushBetter, Mode.noWorse]
          constructor
          · intro h; split at h
            · exact le_of_lt ‹v < t›
            · rw [h]
          · intro h; split
            · rfl
            · rename_i hn; exact le_antisymm (not_lt.mp hn) h
        | max =>
          simp only [rushBetter, Mode.noWorse]
          constructor
          · intro h; split at h
            · exact le_of_lt ‹t < v›
            · rw [h]
          · intro h; split
            · rfl
            · rename_i hn; exact le_antisymm h (not_lt.mp hn)

/-- RUSH stopping is the base quantile rule *and* the threshold rule: it never continues a
trial the base rule stops. -/
theorem rush_stopping_stricter (s : RungSys) (m : Mode) (tid r : Nat) (v : Rat) (skip : Nat) (hint : Bool)
    (h : (s.rushStopReport m tid r v skip hint).2.continues = true) :
    (s.stopReport m tid r v skip hint).2.continues = true := by
  unfold RungSys.rushStopReport at h
  simp only at h
  split at h
  · simp only at h
    have := (rush_rule m s.numThr s.thresholds (s.stopReport m tid r v skip hint).2.continues tid v r).1.mp h
    exact this.1
  · exact h

end SyneTune.C04
