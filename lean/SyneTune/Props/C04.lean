import SyneTune.Model.HB
namespace SyneTune.C04
end SyneTune.C04
