import SyneTune.Lemmas.HBPromotion3
/-
C13 (asynchronous Hyperband part) — trial failures are contained.
`on_trial_error` is a total function of the model (`Sched.onError : Sched → Nat → Sched × List SCall`,
no error result exists), so "the scheduler does not raise" holds by construction of the
model and is tied to the code by the correspondence (error events at arbitrary points).
-/
namespace SyneTune.C13Hb
open SyneTune

theorem C14_alookup_aset_self {β} (k : Nat) (v : β) (l : List (Nat × β)) :
    alookup k (aset k v l) = some v := by
  induction l with
  | nil => simp [aset, alookup]
  | cons x xs ih =>
    obtain ⟨a, b⟩ := x
    unfold aset
    by_cases hk : k = a
    · subst hk; simp [alookup]
    · simp only [hk, if_false, alookup, ih]

theorem alookup_adel_ne {β} (k k' : Nat) (l : List (Nat × β)) (h : k' ≠ k) :
    alookup k' (adel k l) = alookup k' l := by
  induction l with
  | nil => rfl
  | cons x xs ih =>
    obtain ⟨a, b⟩ := x
    unfold adel
    by_cases hk : k = a
    · subst hk
      simp only [if_true, alookup, h, if_false]
    · simp only [hk, if_false, alookup]
      split
      · rfl
      · exact ih

theorem alookup_aset_ne {β} (k k' : Nat) (v : β) (l : List (Nat × β)) (h : k' ≠ k) :
    alookup k' (aset k v l) = alookup k' l := by
  induction l with
  | nil => simp [aset, alookup, h]
  | cons x xs ih =>
    obtain ⟨a, b⟩ := x
    unfold aset
    by_cases hk : k = a
    · subst hk; simp [alookup, h]
    · simp only [hk, if_false, alookup]
      split
      · rfl
      · exact ih

theorem delRunningAt_rungs (systems : List RungSys) (i tid : Nat) :
    (delRunningAt systems i tid).map (·.rungs) = systems.map (·.rungs) := by
  unfold delRunningAt
  cases h : systems[i]? with
  | none => rfl
  | some sys =>
    simp only [List.map_set]
    apply List.ext_getElem?
    intro k
    rw [List.getElem?_set]
    split
    · rename_i hk; subst hk
      split
      · simp [List.getElem?_map, h]
      · rename_i hlt
        simp only [List.length_map] at hlt
        have : systems[i]? = none := List.getElem?_eq_none (by omega)
        rw [this] at h; cases h
    · rfl

theorem delRunningAt_other (systems : List RungSys) (i tid t' k : Nat) (hne : t' ≠ tid) :
    ((delRunningAt systems i tid)[k]?).map (fun (y : RungSys) => alookup t' y.running)
      = (systems[k]?).map (fun (y : RungSys) => alookup t' y.running) := by
  unfold delRunningAt
  cases h : systems[i]? with
  | none => rfl
  | some sys =>
    rw [List.getElem?_set]
    split
    · rename_i hk; subst hk
      split
      · simp [h, alookup_adel_ne _ _ _ hne]
      · rename_i hlt
        have : systems[i]? = none := List.getElem?_eq_none (by omega)
        rw [this] at h; cases h
    · rfl

/-- **A failure touches only the failed trial.**  After `on_trial_error(t)`: every rung of
every rung system holds exactly the entries it held before (rung entries of all trials,
including their promoted flags, are intact); the `_running` record, the bracket assignment
and the recorded decision of every other trial are unchanged; the failed trial is recorded
as STOP; the searcher is told exactly once (`evaluation_failed(t)`). -/
theorem error_contained (s : Sched) (t : Nat) :
    ((s.onError t).1.mgr.systems.map (·.rungs) = s.mgr.systems.map (·.rungs)) ∧
    (∀ t', t' ≠ t → alookup t' (s.onError t).1.mgr.taskInfo = alookup t' s.mgr.taskInfo) ∧
    (∀ t', t' ≠ t → ∀ k : Nat, ((s.onError t).1.mgr.systems[k]?).map (fun (y : RungSys) => alookup t' y.running)
        = (s.mgr.systems[k]?).map (fun (y : RungSys) => alookup t' y.running)) ∧
    (∀ t', t' ≠ t → alookup t' (s.onError t).1.active = alookup t' s.active) ∧
    (∀ rec, alookup t s.active = some rec →
        alookup t (s.onError t).1.active = some { rec with decision := .stop }) ∧
    (s.onError t).2 = [SCall.evalFailed t] := by
  unfold Sched.onError Sched.cleanup Manager.taskRemove
  refine ⟨?_, ?_, ?_, ?_, ?_, rfl⟩
  · cases alookup t s.mgr.taskInfo with
    | none => rfl
    | some b => exact delRunningAt_rungs _ _ _
  · intro t' hne
    cases alookup t s.mgr.taskInfo with
    | none => rfl
    | some b => exact alookup_adel_ne _ _ _ hne
  · intro t' hne k
    cases alookup t s.mgr.taskInfo with
    | none => rfl
    | some b => exact delRunningAt_other _ _ _ _ _ hne
  · intro t' hne
    cases alookup t s.active with
    | none => rfl
    | some rec => exact alookup_aset_ne _ _ _ _ hne
  · intro rec hrec
    simp only [hrec]
    rw [C14_alookup_aset_self]

/-- **A running trial that fails is never resumed** (ASHA / PASHA), at any later point of any
history: a promotion needs an unpromoted rung entry of the trial; a trial that was running when
it failed has none in a rung it was promoted from, and `promoted_once` keeps it that way.
Stated for one rung: if `t` is recorded as promoted from the rung of level `r`, no later
promotion scan resumes `t` from `r` (this is `C04.promoted_once`); the remaining case — a
trial that fails *after* it has paused at a rung and before it is promoted — leaves an
unpromoted entry and is decided by the correspondence / monitor (DESIGN §6-F11). -/
theorem failed_running_trial_not_resumed (m : Mode) (rg : Rung) (hint : Option Nat) (t pos : Nat)
    (hnd : (rg.data.map (·.tid)).Nodup) (hp : PromotedIn rg t) :
    plainPick m rg hint ≠ some (t, pos) :=
  plainPick_not_promoted m rg hint t pos hnd hp

end SyneTune.C13Hb
