import SyneTune.Lemmas.SearcherBasic
import SyneTune.Lemmas.SearcherRandom
import SyneTune.Lemmas.SearcherGrid
import SyneTune.Lemmas.SearcherBO
/-
C06 — suggestions are valid, typed configurations; initial points first; no repeats.
Property theorems only; helper lemmas are in `Lemmas/Searcher{Basic,Random,Grid,BO}.lean`.
Models: `Model/{Searcher,InitialPoints,Exclusion,RandomSearcher,Grid}.lean`.

Conventions: `Space.wfb sp` is the executable well-formedness check of a configuration
space (distinct keys; non-empty homogeneous value lists; ordered bounds; casting/clipping
leaves listed values unchanged) — the correspondence driver evaluates it on every space
the stream generates.  Draws of the samplers, the shuffle permutation and the optimiser's
proposals are inputs, quantified universally.
-/
namespace SyneTune.C06
open SyneTune SyneTune.Srch

/-! ### keys, types, members -/

/-- **Every suggestion has all keys, typed member values, constants unchanged.**  If the
configuration `c` returned by a searcher gives every hyperparameter a member of its domain,
then `FIFOScheduler._suggest` / `TrialScheduler.suggest` (cast, register, post-process)
succeed and the suggested configuration `full` has exactly the keys of the space in its
order, every hyperparameter value is a member of its domain and has the domain's value
type, and every constant has the space's value (unless `c` itself carries that key). -/
theorem keys_types_members (sp : Space) (hwf : Space.wfb sp = true) (c : Config)
    (hv : ValidOn (hpEntries sp) c) :
    ∃ full, schedulerConfig sp c = .ok full ∧ FullValid sp c full :=
  schedulerConfig_valid sp hwf c hv

/-- `cast_config_values` is the identity on valid values (so casting never moves a
configuration a searcher found admissible). -/
theorem cast_member (d : Dom) (hwf : d.wfb = true) (v : Val) (hm : d.member v = true) :
    d.cast v none = .ok v :=
  Srch.cast_member d hwf v hm

/-- **Random searcher (any history).**  From the freshly constructed searcher, if the
sampler's draws are valid configurations (C07 contract), every configuration returned by
`get_config` — initial or drawn, after any history of suggest / pending / failed / result
events — is turned by the scheduler into a configuration with all keys, typed member values
and the space's constants. -/
theorem keys_types_members_random (sp : Space) (hwf : Space.wfb sp = true) (imm : RImm)
    (hints : List (String × Nat)) (p2e : Option (List Config)) (init : List Config)
    (hinit : imputePoints sp hints p2e = .ok init)
    (tape : Nat → Config) (htape : ∀ i, HpValid (hpEntries sp) (tape i))
    (ops : List ROp) (s' : RState) (outs : List (Option Config))
    (h : RState.run imm tape (RState.init init) ops = .ok (s', outs)) :
    ∀ c, some c ∈ outs → ∃ full, schedulerConfig sp c = .ok full ∧ FullValid sp c full := by
  have hn := hp_keys_nodup sp hwf
  have hinitv : ∀ c ∈ init, HpValid (hpEntries sp) c :=
    (imputePoints_spec sp hwf hints p2e init hinit).choose_spec.2.2.2.2.2.2.2
  -- invariant: the remaining initial configurations are valid
  suffices hgen : ∀ (ops : List ROp) (s s' : RState) (outs : List (Option Config)),
      (∀ c ∈ s.p2e, HpValid (hpEntries sp) c) → RState.run imm tape s ops = .ok (s', outs) →
      ∀ c, some c ∈ outs → HpValid (hpEntries sp) c by
    intro c hc
    exact keys_types_members sp hwf c
      (hpValid_validOn _ c hn (hgen ops (RState.init init) s' outs hinitv h c hc))
  intro ops
  induction ops with
  | nil =>
    intro s s' outs _ h c hc
    simp only [RState.run] at h
    injection h with h; injection h with _ h2
    subst h2; cases hc
  | cons op ops ih =>
    intro s s' outs hp h c hc
    obtain ⟨s1, o, os, hstep, hrun, hout⟩ := run_cons imm tape s s' op ops outs h
    subst hout
    by_cases hop : op = .get
    · subst hop
      obtain ⟨o1, ho, hg⟩ := step_get imm tape s s1 o hstep
      subst ho
      simp only [Option.toList, List.singleton_append, List.mem_cons] at hc
      rcases getConfig_cases imm s s1 _ o1 hg with
        ⟨c0, rest, hp0, ho1, hp1, _⟩ | ⟨_, hp1, _, hcase⟩
      · have hp1' : ∀ c ∈ s1.p2e, HpValid (hpEntries sp) c := by
          rw [hp1]; intro c hc; exact hp c (by rw [hp0]; exact List.mem_cons_of_mem _ hc)
        rcases hc with hc | hc
        · rw [ho1] at hc; injection hc with hc; subst hc
          exact hp c (by rw [hp0]; exact List.mem_cons_self)
        · exact ih s1 s' os hp1' hrun c hc
      · have hp1' : ∀ c ∈ s1.p2e, HpValid (hpEntries sp) c := by rw [hp1]; intro c hc; cases hc
        rcases hc with hc | hc
        · rcases hcase with ⟨ho1, _⟩ | ⟨c0, m, ho1, _, _, ⟨j, hj⟩, _⟩
          · rw [ho1] at hc; cases hc
          · rw [ho1] at hc; injection hc with hc; subst hc
            rw [hj]; exact htape _
        · exact ih s1 s' os hp1' hrun c hc
    · obtain ⟨ho, hp1, _⟩ := step_other imm tape s s1 op o hop hstep
      subst ho
      exact ih s1 s' os (by rw [hp1]; exact hp) hrun c (by simpa using hc)

/-- **Grid searcher.**  A configuration returned by `GridSearcher.get_config` is an initial
configuration or a grid point; if every grid point gives each hyperparameter a member of
its domain (proved for the categorical / finite-range / constant factors by construction,
C07 for the sub-sampled numeric factors), the scheduler's suggestion has all keys, typed
member values and the space's constants (the grid carries the constants itself). -/
theorem keys_types_members_grid (sp : Space) (hwf : Space.wfb sp = true) (imm : GImm)
    (s s' : GState) (c : Config) (h : s.getConfig imm = .ok (s', some c))
    (hinit : ∀ c ∈ s.p2e, HpValid (hpEntries sp) c)
    (hgrid : ∀ combo ∈ s.combos, ValidOn (hpEntries sp) (zipConfig imm.hpKeys combo)) :
    ∃ full, schedulerConfig sp c = .ok full ∧ FullValid sp c full := by
  apply keys_types_members sp hwf c
  unfold GState.getConfig at h
  cases hp : s.p2e with
  | cons c0 rest =>
    simp only [hp] at h
    cases ha : exclAddConfig imm.mkf s.allInit c0 with
    | error e => simp [ha] at h
    | ok ini =>
      simp only [ha] at h
      injection h with h; injection h with _ h2
      injection h2 with h2; subst h2
      exact hpValid_validOn _ _ (hp_keys_nodup sp hwf) (hinit c0 (by rw [hp]; exact List.mem_cons_self))
  | nil =>
    simp only [hp] at h
    cases hl : gridLoop imm s.combos (s.combos.length + 2) s.next s.allInit with
    | error e => simp [hl] at h
    | ok r =>
      obtain ⟨c1, next, ini⟩ := r
      simp only [hl] at h
      injection h with h; injection h with _ h2
      subst h2
      -- the loop only ever returns `zipConfig hpKeys combos[i]`
      have key : ∀ (fuel next : Nat) (ini : List String) (c : Config) (n' : Nat) (i' : List String),
          gridLoop imm s.combos fuel next ini = .ok (some c, n', i') →
          ∃ combo ∈ s.combos, c = zipConfig imm.hpKeys combo := by
        intro fuel
        induction fuel with
        | zero => intro next ini c n' i' h; simp [gridLoop] at h
        | succ fuel ih =>
          intro next ini c n' i' h
          rw [gridLoop_succ] at h
          cases hc : s.combos[next]? with
          | none => simp [hc] at h
          | some combo =>
            simp only [hc] at h
            cases he : exclContains imm.mkf ini (zipConfig imm.hpKeys combo) with
            | error e => simp [he] at h
            | ok b =>
              simp only [he] at h
              cases b with
              | true => simp only [if_true] at h; exact ih _ _ c n' i' h
              | false =>
                simp only [Bool.false_eq_true, if_false] at h
                injection h with h; injection h with h1 _
                injection h1 with h1
                exact ⟨combo, List.mem_of_getElem? hc, h1.symm⟩
      obtain ⟨combo, hm, hc⟩ := key _ _ _ c next ini hl
      rw [hc]; exact hgrid combo hm

/-- **PBT `_explore`.**  For every old configuration, every multiplier and every tape:
each new hyperparameter value is a member of its domain (the perturbation branch: clip,
then cast) or is literally a value the domain's own sampler returned (resampling branch,
C07 contract). -/
theorem explore_members (kc : PbtConst) (sp : Space) (hwf : Space.wfb sp = true) (old : Config)
    (hints : List (String × Nat)) (tape : List Draw) (upd : Config) (rest : List Draw)
    (h : exploreLoop kc old hints (hpEntries sp) tape = .ok (upd, rest)) :
    ExploreOK (hpEntries sp) upd tape ∧
    (∀ (d : Dom) (ov : Val) (mult : Rat) (hint : Option Nat) (w : Val), d.wfb = true →
      d.isNumerical = true → perturb d ov mult hint = .ok w → d.member w = true) := by
  have hw : ∀ kd ∈ hpEntries sp, kd.2.wfb = true := by
    simp only [Space.wfb, Bool.and_eq_true, List.all_eq_true] at hwf
    exact hwf.1
  exact ⟨exploreLoop_ok kc old hints (hpEntries sp) tape upd rest hw h,
         fun d ov mult hint w hd hn hp => perturb_member d hd hn ov mult hint w hp⟩

/-! ### initial configurations -/

/-- **`impute_points_to_evaluate`.**  The list of initial configurations is: one imputed
configuration per given point (`None ↦ [{}]`) — for each hyperparameter the user's value
(cast; rejected with an assertion if outside the domain) or, if missing, the mid-point
default — with later duplicates removed: first occurrence kept, order preserved, no two
entries equal.  -/
theorem impute (sp : Space) (hwf : Space.wfb sp = true) (hints : List (String × Nat))
    (p2e : Option (List Config)) (cs : List Config) (h : imputePoints sp hints p2e = .ok cs) :
    ∃ all, all.length = (p2e.getD [[]]).length ∧
      (∀ (i : Nat) (p : Config), (p2e.getD [[]])[i]? = some p →
        ∃ c, all[i]? = some c ∧ HpValid (hpEntries sp) c ∧
          ∀ k d, (k, d) ∈ hpEntries sp → ∃ v, (k, v) ∈ c ∧
            (match cget k p with
             | some given => d.defaultValue given = .ok v
             | none => d.midpoint (hints.lookup k) = .ok v)) ∧
      cs = firstOcc all ∧ cs.Nodup ∧ cs.Sublist all ∧ (∀ c, c ∈ cs ↔ c ∈ all) := by
  obtain ⟨all, _, hl, hi, hcs, hnd, hsub, hmem, _⟩ := imputePoints_spec sp hwf hints p2e cs h
  have hw : ∀ kd ∈ hpEntries sp, kd.2.wfb = true := by
    simp only [Space.wfb, Bool.and_eq_true, List.all_eq_true] at hwf
    exact hwf.1
  refine ⟨all, hl, ?_, hcs, hnd, hsub, hmem⟩
  intro i p hp
  obtain ⟨c, hc1, hc2⟩ := hi i p hp
  obtain ⟨a, b⟩ := imputeDefault_spec p hints (hpEntries sp) c hw hc2
  exact ⟨c, hc1, a, b⟩

/-- every initial configuration lists exactly the hyperparameters, in the order of the
space, with values that are members of their domains -/
theorem impute_members (sp : Space) (hwf : Space.wfb sp = true) (hints : List (String × Nat))
    (p2e : Option (List Config)) (cs : List Config) (h : imputePoints sp hints p2e = .ok cs) :
    ∀ c ∈ cs, HpValid (hpEntries sp) c :=
  (imputePoints_spec sp hwf hints p2e cs h).choose_spec.2.2.2.2.2.2.2

/-- **The mid-point rule, kind by kind** (`_non_default_config`): first category; middle
category of an ordinal; arithmetic mean of a linear range — rounded half-to-even for an
integer range — or the geometric mean `geo` of a log-scaled range, clipped to the bounds;
for finite numeric kinds a listed value.  Always a member of the domain. -/
theorem midpoint_rule :
    (∀ cats hint v, (Dom.cat cats false).midpoint hint = .ok v ↔ cats[0]? = some v) ∧
    (∀ cats hint v, (Dom.cat cats true).midpoint hint = .ok v ↔ cats[cats.length / 2]? = some v) ∧
    (∀ lo hi g hint, (Dom.float lo hi false g).midpoint hint = .ok (.rat (clipRat ((1/2) * (hi + lo)) lo hi))) ∧
    (∀ lo hi g hint, (Dom.float lo hi true g).midpoint hint = .ok (.rat (clipRat g lo hi))) ∧
    (∀ lo hi : Rat, lo ≤ hi → clipRat ((1/2) * (hi + lo)) lo hi = (lo + hi) / 2) ∧
    (∀ (lo hi : Int) g hint, (Dom.int lo hi false g).midpoint hint =
        .ok (.int (clipInt (roundHalfEven ((1/2) * ((hi : Rat) + (lo : Rat)))) lo hi))) ∧
    (∀ (lo hi : Int) g hint, (Dom.int lo hi true g).midpoint hint =
        .ok (.int (clipInt (roundHalfEven g) lo hi))) ∧
    (∀ (lo hi : Int), lo ≤ hi →
        clipInt (roundHalfEven ((1/2) * ((hi : Rat) + (lo : Rat)))) lo hi =
          roundHalfEven ((1/2) * ((hi : Rat) + (lo : Rat)))) ∧
    (∀ (d : Dom) hint v, d.wfb = true → d.midpoint hint = .ok v → d.member v = true) := by
  refine ⟨?_, ?_, ?_, ?_, ?_, ?_, ?_, ?_, ?_⟩
  · intro cats hint v
    simp only [Dom.midpoint, Bool.false_eq_true, if_false]
    cases cats[0]? <;> simp
  · intro cats hint v
    simp only [Dom.midpoint, if_true]
    cases cats[cats.length / 2]? <;> simp
  · intro lo hi g hint; rfl
  · intro lo hi g hint; rfl
  · intro lo hi h
    unfold clipRat
    have h1 : ¬ (1/2 * (hi + lo) < lo) := by linarith
    have h2 : ¬ (hi < 1/2 * (hi + lo)) := by linarith
    simp only [h1, h2, if_false]; ring
  · intro lo hi g hint; rfl
  · intro lo hi g hint; rfl
  · intro lo hi h
    have hq : (lo : Rat) ≤ (hi : Rat) := by exact_mod_cast h
    have := roundHalfEven_between ((1/2) * ((hi : Rat) + (lo : Rat))) lo hi (by linarith) (by linarith)
    unfold clipInt
    have h1 : ¬ (roundHalfEven ((1/2) * ((hi : Rat) + (lo : Rat))) < lo) := by omega
    have h2 : ¬ (hi < roundHalfEven ((1/2) * ((hi : Rat) + (lo : Rat)))) := by omega
    simp only [h1, h2, if_false]
  · intro d hint v hwf h; exact midpoint_member d hwf hint v h

/-- **Initial configurations first, in order (random searcher).**  For every history of
suggest / pending / failed / result events from the freshly constructed searcher, the first
`|init|` answers of `get_config` are exactly the initial configurations, in order. -/
theorem initial_first_in_order (imm : RImm) (tape : Nat → Config) (init : List Config)
    (ops : List ROp) (s' : RState) (outs : List (Option Config))
    (h : RState.run imm tape (RState.init init) ops = .ok (s', outs)) :
    outs.take init.length = (init.map some).take outs.length :=
  run_initial_first imm tape ops (RState.init init) s' outs h

/-- **Initial configurations first, in order (grid searcher)** — also when a grid point
equals an initial configuration, and for `allow_duplicates` either way. -/
theorem initial_first_in_order_grid (imm : GImm) (init : List Config) (combos : List (List Val))
    (rng : Nat) (ops : List GOp) (s' : GState) (outs : List (Option Config))
    (h : GState.run imm { p2e := init, next := 0, allInit := [], combos := combos, rng := rng } ops = .ok (s', outs)) :
    outs.take init.length = (init.map some).take outs.length := by
  suffices hgen : ∀ (ops : List GOp) (s s' : GState) (outs : List (Option Config)),
      GState.run imm s ops = .ok (s', outs) →
      outs.take s.p2e.length = (s.p2e.map some).take outs.length from hgen ops _ s' outs h
  intro ops
  induction ops with
  | nil =>
    intro s s' outs h
    rw [GState.run_nil] at h
    injection h with h; injection h with _ h2
    subst h2; simp
  | cons op ops ih =>
    intro s s' outs h
    cases op with
    | other =>
      rw [GState.run_other] at h
      exact ih s s' outs h
    | get =>
      cases hg : s.getConfig imm with
      | error e => rw [GState.run_get_error imm s ops e hg] at h; cases h
      | ok r =>
        obtain ⟨s1, o⟩ := r
        rw [GState.run_get_ok imm s s1 o ops hg] at h
        cases hr : GState.run imm s1 ops with
        | error e => rw [hr] at h; cases h
        | ok r2 =>
          obtain ⟨s2, os⟩ := r2
          rw [hr] at h
          injection h with h; injection h with h1 h2
          subst h1; subst h2
          have ih' := ih s1 s2 os hr
          unfold GState.getConfig at hg
          cases hp : s.p2e with
          | nil => simp
          | cons c0 rest =>
            simp only [hp] at hg
            cases ha : exclAddConfig imm.mkf s.allInit c0 with
            | error e => simp [ha] at hg
            | ok ini =>
              simp only [ha] at hg
              injection hg with hg; injection hg with hg1 hg2
              subst hg1; subst hg2
              simp only at ih'
              simp [ih']

/-! ### no repeats -/

/-- **No repeats (random searcher, `allow_duplicates = False`)** — invariant over arbitrary
histories of suggest / pending / failed / result events, for every tape of draws.  With
duplicate-free initial configurations (`impute`): (1) no two returned configurations are
equal; (2) every returned configuration's match string is in the exclusion set afterwards;
(3) a configuration returned after the initial ones has a match string different from that
of EVERY configuration returned before it (initial, pending, failed or finished alike) —
i.e. its match string was not in the exclusion set before. -/
theorem no_repeat (imm : RImm) (hnd : imm.allowDup = false) (tape : Nat → Config) (init : List Config)
    (hinit : init.Nodup) (ops : List ROp) (s' : RState) (outs : List (Option Config))
    (h : RState.run imm tape (RState.init init) ops = .ok (s', outs)) :
    (outs.filterMap id).Nodup ∧
    (∀ c ∈ outs.filterMap id, ∃ m, imm.mkf c = .ok m ∧ m ∈ s'.excl) ∧
    (∀ (j : Nat) (c : Config), init.length ≤ j → (outs.filterMap id)[j]? = some c →
      ∀ (i : Nat) (c' : Config), i < j → (outs.filterMap id)[i]? = some c' → imm.mkf c' ≠ imm.mkf c) := by
  have := run_norepeat imm hnd tape ops (RState.init init) s' [] outs h
    (by intro c hc; cases hc) (by intro c _ hc; cases hc) hinit (by simp)
  simp only [List.nil_append, List.length_nil, Nat.zero_add] at this
  exact ⟨this.2.1, this.1, this.2.2⟩

/-- **Excluded means never drawn** (either setting of `allow_duplicates`): a match string
that is in the exclusion set — with `allow_duplicates = True` these are exactly the
configurations of failed trials, see `evaluationFailed_spec` — stays there and is never the
match string of a later randomly drawn suggestion, whatever happens in between. -/
theorem no_repeat_failed (imm : RImm) (tape : Nat → Config) (s s' : RState) (ops : List ROp)
    (outs : List (Option Config)) (m : String)
    (h : RState.run imm tape s ops = .ok (s', outs)) (hp : s.p2e = []) (hm : m ∈ s.excl) :
    m ∈ s'.excl ∧ ∀ c ∈ outs.filterMap id, imm.mkf c ≠ .ok m :=
  run_excluded_never_drawn imm tape ops s s' outs m h hp hm

/-- **BO loop: whatever the optimiser proposes.**  For arbitrary proposal pairs (original,
locally optimised): every configuration the final filter returns has a match string outside
the exclusion set, no two returned ones share a match string, each is one of the proposals,
at most `num` are returned.  Consequently (second part) if the exclusion set holds the
match strings of all observed, pending and failed configurations of the searcher's state,
the returned configuration equals none of them. -/
theorem no_repeat_bo (mk : MK) (excl : List String) (num : Nat) (pairs : List (Config × Config))
    (res : List Config) (h : pickFromLocallyOptimized mk excl num pairs = .ok res) :
    ((∀ c ∈ res, ∃ m, mk c = .ok m ∧ m ∉ excl) ∧
     res.Pairwise (fun a b => mk a ≠ mk b) ∧
     (∀ c ∈ res, ∃ p ∈ pairs, c = p.1 ∨ c = p.2) ∧
     (1 ≤ num → res.length ≤ num)) ∧
    (∀ st : TJState, (∀ c ∈ st.allConfigs, ∃ m, mk c = .ok m ∧ m ∈ excl) →
      ∀ c ∈ res, c ∉ st.allConfigs) := by
  have hs := pick_spec mk excl num pairs res h
  refine ⟨hs, ?_⟩
  intro st hst c hc hin
  obtain ⟨m, hm, hnin⟩ := hs.1 c hc
  obtain ⟨m', hm', hin'⟩ := hst c hin
  rw [hm] at hm'; injection hm' with hm'; subst hm'
  exact hnin hin'

/-- **Python-equal values have equal match strings** (code after the fix "-0.0 and 0.0 were
treated as different configurations by the exclusion list"): for a `Float` domain, two
member values that are equal for Python (`-0.0 == 0.0`, produced by quantised samplers)
have the same match string.  Hence `no_repeat` (3) also excludes a repeat up to Python's
`==`: a drawn configuration differs from every earlier one in some match string. -/
theorem pyeq_same_match_string (lo hi g : Rat) (l : Bool) (v w : Val)
    (hv : (Dom.float lo hi l g).member v = true) (hw : (Dom.float lo hi l g).member w = true)
    (h : Val.pyEq v w = true) :
    (Dom.float lo hi l g).matchPart v = (Dom.float lo hi l g).matchPart w := by
  cases v <;> cases w <;> simp_all [Dom.member, Val.pyEq, Val.num?, Dom.matchPart]

/-! ### grid search -/

/-- **Grid search enumerates its grid exactly once.**  With `allow_duplicates = False`, for
every grid (any list of combinations — hence for every shuffle permutation), every list of
initial configurations and every history: the answers of `get_config` are the initial
configurations in order, then every grid point whose match string is not that of an initial
configuration, in traversal order, then `None` forever.  If the grid points have pairwise
different match strings, no grid point is returned twice and none is skipped. -/
theorem grid_once (imm : GImm) (hnd : imm.allowDup = false) (mk : Config → String)
    (init : List Config) (combos : List (List Val)) (rng : Nat)
    (hmk : ∀ c ∈ init ++ imm.configs combos, imm.mkf c = .ok (mk c))
    (ops : List GOp) (s' : GState) (outs : List (Option Config))
    (h : GState.run imm { p2e := init, next := 0, allInit := [], combos := combos, rng := rng } ops = .ok (s', outs)) :
    outs = (((init ++ gridRest mk init (imm.configs combos)).map some) ++
              List.replicate (ops.countP GOp.isGet) none).take (ops.countP GOp.isGet) ∧
    (((imm.configs combos).map mk).Nodup →
      (gridRest mk init (imm.configs combos)).Nodup ∧
      ∀ g ∈ imm.configs combos, mk g ∉ init.map mk → g ∈ gridRest mk init (imm.configs combos)) := by
  refine ⟨grid_outputs imm hnd mk init combos rng hmk ops s' outs h, ?_⟩
  intro hn
  constructor
  · exact (nodup_of_nodup_map mk _ hn).filter _
  · intro g hg hni
    simp only [gridRest, List.mem_filter, decide_eq_true_eq]
    exact ⟨hg, hni⟩

/-- the Cartesian product of duplicate-free value lists is duplicate-free, consists exactly
of the tuples picking one value per hyperparameter, and `dict(zip(keys, tuple))` maps
different tuples to different configurations -/
theorem grid_points_nodup (ls : List (List Val)) (h : ∀ l ∈ ls, l.Nodup) (keys : List String)
    (hk : keys.length = ls.length) :
    (product ls).Nodup ∧ (∀ t, t ∈ product ls ↔ pointwiseMem t ls) ∧
    ((product ls).map (zipConfig keys)).Nodup := by
  have hp := product_nodup ls h
  refine ⟨hp, mem_product ls, ?_⟩
  have hlen : ∀ t, t ∈ product ls → t.length = ls.length := by
    intro t ht
    have := (mem_product ls t).mp ht
    clear ht hp h hk
    induction ls generalizing t with
    | nil => cases t <;> simp_all [pointwiseMem]
    | cons l ls ih =>
      cases t with
      | nil => simp [pointwiseMem] at this
      | cons v t => simp only [pointwiseMem] at this; simp [ih t this.2]
  apply nodup_map_on (zipConfig keys) _ hp
  intro a ha b hb hab
  exact zipConfig_injective keys a b (by rw [hlen a ha, hk]) (by rw [hlen b hb, hk]) hab

/-- the value lists of the categorical, finite-range and constant factors of the grid are
duplicate-free (`OrderedDict.fromkeys`; finite ranges since the fix "GridSearcher
enumerated a grid point several times for finite ranges with duplicate values") -/
theorem grid_values_nodup (sp : Space) : ∀ kv ∈ gridDiscrete sp, kv.2.Nodup := by
  have hd : ∀ l : List Val, (dedupVals l).Nodup := by
    intro l
    induction l with
    | nil => simp [dedupVals]
    | cons a l ih =>
      simp only [dedupVals, List.nodup_cons, List.mem_filter, decide_eq_true_eq, ne_eq,
        not_true_eq_false, and_false, not_false_eq_true, true_and]
      exact ih.filter _
  induction sp with
  | nil => intro kv h; cases h
  | cons x sp ih =>
    obtain ⟨k, e⟩ := x
    intro kv h
    cases e with
    | const w =>
      simp only [gridDiscrete, List.mem_append, List.mem_singleton] at h
      rcases h with h | h
      · exact ih kv h
      · subst h; simp
    | dom d =>
      cases d with
      | cat cats o =>
        simp only [gridDiscrete, List.mem_append, List.mem_singleton] at h
        rcases h with h | h
        · exact ih kv h
        · subst h; exact hd cats
      | nn cats l g =>
        simp only [gridDiscrete, List.mem_append, List.mem_singleton] at h
        rcases h with h | h
        · exact ih kv h
        · subst h; exact hd cats
      | fin vals lo hi l g raw =>
        simp only [gridDiscrete, List.mem_append, List.mem_singleton] at h
        rcases h with h | h
        · exact ih kv h
        · subst h; exact hd vals
      | int lo hi l g => simp only [gridDiscrete] at h; exact ih kv h
      | float lo hi l g => simp only [gridDiscrete] at h; exact ih kv h

/-- the shuffle (whatever permutation `random_state` draws) keeps every grid point with its
multiplicity: the shuffled grid is a permutation of the product -/
theorem shuffle_is_permutation {α} (perm : List Nat) (xs ys : List α) (h : applyPerm perm xs = .ok ys) :
    ys.Perm xs :=
  applyPerm_perm perm xs ys h

/-! ### 'nothing left' -/

/-- **Random searcher: what `None` means.**  `get_config` answers `None` only when no
initial configuration is left and either the exclusion set has reached
`config_space_size` or each of the `MAX_RETRIES` draws hit an excluded configuration.
(The full statement "`None` ⇒ space exhausted" is false of the code:
`none_only_if_exhausted_counterexample`.) -/
theorem none_random_partial (imm : RImm) (s s' : RState) (draw : Nat → Config)
    (h : s.getConfig imm draw = .ok (s', none)) :
    s.p2e = [] ∧ s' = { s with rng := s'.rng } ∧
    (exhausted imm.size s.excl = true ∨
      ∀ i, i < imm.maxRetries → ∃ m, imm.mkf (draw i) = .ok m ∧ m ∈ s.excl) := by
  rcases getConfig_cases imm s s' draw none h with ⟨c, rest, _, ho, _⟩ | ⟨hp, hp1, hcf, hcase⟩
  · cases ho
  · rcases hcase with ⟨_, hex, hor⟩ | ⟨c, m, ho, _⟩
    · refine ⟨hp, ?_, hor⟩
      cases s; cases s'
      simp only at hp hp1 hcf hex
      subst hp; subst hp1; subst hcf; subst hex
      rfl
    · cases ho

/-- **`None` before exhaustion (F8).**  A space of 3 configurations, 2 of them excluded,
`MAX_RETRIES = 100` draws that all hit excluded configurations: `get_config` answers `None`
although the space is not used up.  (Replayed on the real `RandomSearcher` with
`randint(0, 49)` by the correspondence corpus; signature
`c06:random-none-before-exhaustion`.) -/
theorem none_only_if_exhausted_counterexample :
    ¬ (∀ (imm : RImm) (s s' : RState) (draw : Nat → Config),
        s.getConfig imm draw = .ok (s', none) → exhausted imm.size s.excl = true) := by
  intro hall
  let mk : MK := fun c => match cget "x" c with
    | some (.int 0) => .ok "0"
    | some (.int 1) => .ok "1"
    | some (.int 2) => .ok "2"
    | _ => .error (.keyError "x")
  let imm : RImm := { mkf := mk, allowDup := false, maxRetries := 100, size := some 3, debugLog := false }
  let s : RState := { p2e := [], excl := ["0", "1"], cfgFor := [], rng := 0 }
  have h := hall imm s { s with rng := 100 } (fun _ => [("x", .int 0)]) (by decide)
  revert h
  decide

/-! ### non-vacuity: concrete spaces, states and histories meeting the hypotheses -/

/-- `{"lr": uniform(1/8, 1), "bs": randint(1, 4), "act": choice(["a","b"]), "epochs": 9}` -/
def exSpace : Space :=
  [("lr", .dom (.float (1/8) 1 false 0)), ("bs", .dom (.int 1 4 false 0)),
   ("act", .dom (.cat [.str "a", .str "b"] false)), ("epochs", .const (.int 9))]

example : Space.wfb exSpace = true := by decide +kernel

/-- partial, empty and duplicate points: mid-point imputation (`bs`: round-half-even of 5/2)
and removal of the duplicate (hypotheses of `impute`, `impute_members`, `no_repeat`) -/
example :
    imputePoints exSpace [] (some [[("bs", .int 3)], [], [("bs", .int 3)]]) =
      .ok [[("lr", .rat (9/16)), ("bs", .int 3), ("act", .str "a")],
           [("lr", .rat (9/16)), ("bs", .int 2), ("act", .str "a")]] := by decide +kernel

/-- a configuration that is valid on the space, and what the scheduler suggests for it
(hypothesis and conclusion of `keys_types_members`) -/
example : ValidOn (hpEntries exSpace) [("lr", .rat (1/2)), ("bs", .int 3), ("act", .str "b")] := by
  intro k d h
  simp only [exSpace, hpEntries, List.mem_cons, Prod.mk.injEq, List.not_mem_nil, or_false] at h
  rcases h with ⟨rfl, rfl⟩ | ⟨rfl, rfl⟩ | ⟨rfl, rfl⟩
  · exact ⟨.rat (1/2), by decide +kernel, by decide +kernel⟩
  · exact ⟨.int 3, by decide +kernel, by decide +kernel⟩
  · exact ⟨.str "b", by decide +kernel, by decide +kernel⟩

example : schedulerConfig exSpace [("lr", .rat (1/2)), ("bs", .int 3), ("act", .str "b")] =
    .ok [("lr", .rat (1/2)), ("bs", .int 3), ("act", .str "b"), ("epochs", .int 9)] := by decide +kernel

/-- a value outside the domain given in `points_to_evaluate` is the constructor's assertion -/
example : imputePoints exSpace [] (some [[("bs", .int 7)]]) = .error (.assertion "not in [lower, upper]") := by
  decide +kernel

/-- a history of the random searcher on a 3-point space with one initial configuration, a
retry (second draw repeats the first) and exhaustion (hypotheses of `no_repeat`,
`initial_first_in_order`, `none_random_partial`) -/
def exMk : MK := fun c => match cget "x" c with
  | some (.int 0) => .ok "0"
  | some (.int 1) => .ok "1"
  | some (.int 2) => .ok "2"
  | _ => .error (.keyError "x")

def exImm : RImm := { mkf := exMk, allowDup := false, maxRetries := 100, size := some 3, debugLog := false }

example :
    (RState.run exImm (fun i => [("x", .int (if i = 0 then 1 else if i = 1 then 1 else 2))])
        (RState.init [[("x", .int 0)]]) [.get, .pending 0 none, .get, .failed 0, .get, .get]).map Prod.snd =
      .ok [some [("x", .int 0)], some [("x", .int 1)], some [("x", .int 2)], none] := by decide +kernel

/-- a grid `x ∈ {0,1,2}` traversed in the shuffled order 2,0,1 with the initial configuration
`x = 0` (hypotheses of `grid_once`): initial point, then 2, then 1 (0 skipped), then `None` -/
def exGImm : GImm := { mkf := exMk, hpKeys := ["x"], allowDup := false }

example : applyPerm [2, 0, 1] [[Val.int 0], [Val.int 1], [Val.int 2]] = .ok [[.int 2], [.int 0], [.int 1]] := by
  decide

example :
    (GState.run exGImm { p2e := [[("x", .int 0)]], next := 0, allInit := [],
                         combos := [[.int 2], [.int 0], [.int 1]], rng := 1 }
        [.get, .get, .other, .get, .get]).map Prod.snd =
      .ok [some [("x", .int 0)], some [("x", .int 2)], some [("x", .int 1)], none] := by decide +kernel

/-- the BO filter on a proposal whose optimised candidate is excluded: falls back to the
original candidate; a fully excluded pair is skipped (hypothesis of `no_repeat_bo`) -/
example :
    pickFromLocallyOptimized exMk ["0"] 1
      [([("x", .int 0)], [("x", .int 0)]), ([("x", .int 2)], [("x", .int 0)])] = .ok [[("x", .int 2)]] := by
  decide

end SyneTune.C06
