import SyneTune.Lemmas.CholeskyVJP
import SyneTune.Lemmas.EI
/-
C09 — Gradients for model fitting and acquisition search are the true derivatives.
Property theorems only (PARTIAL proof: the hand-written backward passes of `custom_op.py`
are the adjoints of the tangent maps, and the hand-derived head gradients of
`meanstd_acqfunc_impl.py` are the derivatives of the head values; autograd's chain rule,
kernels' / priors' derivatives, differentiability of the Cholesky map and `Φ' = φ` for the
code's `0.5 * erfc(-u / sqrt(2))` are trusted and exercised by the correspondence
(finite differences on the real objects)).
-/
namespace SyneTune.C09
open SyneTune.GP SyneTune.EI Matrix Filter Topology

set_option linter.unusedSectionVars false

variable {𝕜 : Type} [Field 𝕜] {n : ℕ}

/-- **`cholesky_factorization_backward` is the adjoint of the tangent map of `A = L Lᵀ`.**
For a lower-triangular `L` with non-zero diagonal, every output cotangent `L̄` and every
lower-triangular tangent `dL`, with `dA = dL Lᵀ + L dLᵀ` (the differentiated equation) and
`Ā = cholesky_factorization_backward(L, L̄)`:  `tr(Āᵀ dA) = tr(tril(L̄)ᵀ dL) = tr(L̄ᵀ dL)`.
(What the code does with the diagonal: `copyltu` keeps the diagonal of `Lᵀ L̄` once and mirrors
the strict lower triangle; the final `0.5` then halves everything; `Ā` is symmetric.) -/
theorem chol_vjp (h2 : (2 : 𝕜) ≠ 0) (L Lbar : Mat 𝕜 n n) (hL : LowerTri L) (hd : DiagNZ L)
    (dL : Matrix (Fin n) (Fin n) 𝕜) (hdL : ∀ i j : Fin n, i < j → dL i j = 0) :
    trace ((toM (cholBackward L Lbar))ᵀ * (dL * (toM L)ᵀ + toM L * dLᵀ)) = trace ((toM (tril Lbar))ᵀ * dL) ∧
    trace ((toM (tril Lbar))ᵀ * dL) = trace ((toM Lbar)ᵀ * dL) := by
  have hdL' : dL.IsLowerTriangular := fun i j hij => hdL i j hij
  have hu := isUnit_det_toM hL hd
  have hZ := solveLowerTM_spec L (copyltu (matMul (transpose L) Lbar)) hL hd
  rw [toM_copyltu, toM_matMul, toM_transpose] at hZ
  have hW := solveLowerTM_spec L (transpose (solveLowerTM L (copyltu (matMul (transpose L) Lbar)))) hL hd
  rw [toM_transpose] at hW
  have ht : trace ((toM (tril Lbar))ᵀ * dL) = trace ((toM Lbar)ᵀ * dL) := by
    rw [toM_tril]; exact trace_tril_mul _ _ hdL'
  refine ⟨?_, ht⟩
  rw [ht, toM_cholBackward]
  exact chol_vjp_matrix h2 hu hL.isLowerTriangular hdL' hZ hW

/-- the cotangent returned by `cholesky_factorization_backward` is a symmetric matrix -/
theorem chol_vjp_symmetric (L Lbar : Mat 𝕜 n n) (hL : LowerTri L) (hd : DiagNZ L) :
    (toM (cholBackward L Lbar))ᵀ = toM (cholBackward L Lbar) := by
  have hu := isUnit_det_toM hL hd
  have hZ := solveLowerTM_spec L (copyltu (matMul (transpose L) Lbar)) hL hd
  rw [toM_copyltu, toM_matMul, toM_transpose] at hZ
  have hW := solveLowerTM_spec L (transpose (solveLowerTM L (copyltu (matMul (transpose L) Lbar)))) hL hd
  rw [toM_transpose] at hW
  rw [toM_cholBackward, Matrix.transpose_smul, chol_vjp_symm hu hZ hW]

/-- the tangents `dL` of `chol_vjp` reach every symmetric perturbation `dA` of `A = L Lᵀ`
(so `chol_vjp` determines the pairing of `Ā` with every symmetric `dA`). -/
theorem chol_tangent_complete (h2 : (2 : 𝕜) ≠ 0) (L : Mat 𝕜 n n) (hL : LowerTri L) (hd : DiagNZ L)
    (dA : Matrix (Fin n) (Fin n) 𝕜) (hA : dAᵀ = dA) :
    ∃ dL : Matrix (Fin n) (Fin n) 𝕜, (∀ i j : Fin n, i < j → dL i j = 0) ∧
      dL * (toM L)ᵀ + toM L * dLᵀ = dA := by
  obtain ⟨dL, h1, h2'⟩ := chol_tangent_surjective h2 (isUnit_det_toM hL hd) hL.isLowerTriangular hA
  exact ⟨dL, fun i j hij => h1 (by simpa using hij), h2'⟩

/-- **`AddJitterOp_vjp`**: `g ↦ (vec g, tr g)` is the adjoint of `(X, s) ↦ X + (s + jitter)·I`
(the dependence of the jitter on the inputs being ignored, as documented):
`⟨g, dX + ds·I⟩ = ⟨ḡ_X, dX⟩ + ḡ_s · ds`. -/
theorem jitter_vjp (g : Mat 𝕜 n n) (dX : Matrix (Fin n) (Fin n) 𝕜) (ds : 𝕜) :
    ∑ i, ∑ j, toM g i j * (dX + ds • (1 : Matrix (Fin n) (Fin n) 𝕜)) i j =
      ∑ i, ∑ j, toM (jitterVjp g).1 i j * dX i j + (jitterVjp g).2 * ds := by
  simp only [jitterVjp, GP.sumFin_eq, Matrix.add_apply, Matrix.smul_apply, smul_eq_mul, mul_add,
    Finset.sum_add_distrib, toM_apply]
  congr 1
  rw [Finset.sum_mul]
  refine Finset.sum_congr rfl fun i _ => ?_
  simp [Matrix.one_apply, Finset.sum_ite_eq]

/-- `φ'(u) = −u φ(u)` for the code's `φ(u) = exp(−u²/2)/√(2π)`. -/
theorem phi_deriv (u : ℝ) : HasDerivAt phi (-u * phi u) u := phi_hasDerivAt u

/-- **EI head**: along every differentiable curve of predictive means `μⱼ` (one per fantasy
column) and standard deviation `σ ≠ 0`, the head value `−mean_j σ (uⱼ Φ(uⱼ) + φ(uⱼ))`,
`uⱼ = (bestⱼ − μⱼ − jitter)/σ`, has derivative `Σⱼ dh_dmeanⱼ μⱼ' + dh_dstd σ'` with the code's
`dh_dmean = Φ(u)/nf`, `dh_dstd = mean(−φ(u))` — under the hypothesis `Φ' = φ`. -/
theorem ei_head (Φ : ℝ → ℝ) (hΦ : ∀ u, HasDerivAt Φ (phi u) u) (nf : ℕ)
    (best : Fin nf → ℝ) (jit : ℝ) (μ : Fin nf → ℝ → ℝ) (σ : ℝ → ℝ) (μ' : Fin nf → ℝ) (σ' x : ℝ)
    (hμ : ∀ j, HasDerivAt (μ j) (μ' j) x) (hσ : HasDerivAt σ σ' x) (hs : σ x ≠ 0) :
    HasDerivAt (fun y => (eiHeadAt Φ best jit (fun j => μ j y) (σ y)).hval)
      (∑ j, (eiHeadAt Φ best jit (fun j => μ j x) (σ x)).dmean j * μ' j
        + (eiHeadAt Φ best jit (fun j => μ j x) (σ x)).dstd * σ') x :=
  ei_head_hasDerivAt Φ hΦ nf best jit μ σ μ' σ' x hμ hσ hs

/-- `get_quantiles` clamps the standard deviation at `1e-10` from below; for every `s` at or above
the clamp (all GP predictors: `s ≥ √MIN_POSTERIOR_VARIANCE = 1e-6`) the clamp is the identity, so
`ei_head` speaks about the code's `u`. Below the clamp the head does not depend on `s` any more
while the code still reports `dh_dstd = mean(−φ)`: not covered (see ASSUMPTIONS). -/
theorem std_clamp_inactive (s c : ℝ) (h : c ≤ s) : clampStd s c = s := by
  unfold clampStd
  rw [if_neg (not_lt.mpr h)]

/-- partial derivative of the EI head w.r.t. the predictive mean of fantasy column `j`:
`dh_dmean[j] = Φ(uⱼ)/nf`. -/
theorem ei_dmean (Φ : ℝ → ℝ) (hΦ : ∀ u, HasDerivAt Φ (phi u) u) (nf : ℕ)
    (best : Fin nf → ℝ) (jit : ℝ) (μ : Fin nf → ℝ) (s : ℝ) (hs : s ≠ 0) (j : Fin nf) :
    HasDerivAt (fun y => (eiHeadAt Φ best jit (Function.update μ j y) s).hval)
      ((eiHeadAt Φ best jit μ s).dmean j) (μ j) ∧
    (eiHeadAt Φ best jit μ s).dmean j = Φ (eiU (best j) (μ j) jit s) / nf := by
  refine ⟨?_, rfl⟩
  have hμ : ∀ k, HasDerivAt (fun y => Function.update μ j y k) (if k = j then 1 else 0) (μ j) := by
    intro k
    by_cases hk : k = j
    · subst hk; simpa using hasDerivAt_id' (μ k)
    · simpa [hk] using hasDerivAt_const (μ j) (μ k)
  have h := ei_head_hasDerivAt Φ hΦ nf best jit (fun k y => Function.update μ j y k) (fun _ => s)
    (fun k => if k = j then 1 else 0) 0 (μ j) hμ (hasDerivAt_const _ _) hs
  simp only [Function.update_eq_self, mul_ite, mul_one, mul_zero, Finset.sum_ite_eq', Finset.mem_univ,
    if_true, add_zero] at h
  exact h

/-- partial derivative of the EI head w.r.t. the predictive standard deviation:
`dh_dstd = mean_j(−φ(uⱼ))`. -/
theorem ei_dstd (Φ : ℝ → ℝ) (hΦ : ∀ u, HasDerivAt Φ (phi u) u) (nf : ℕ)
    (best : Fin nf → ℝ) (jit : ℝ) (μ : Fin nf → ℝ) (s : ℝ) (hs : s ≠ 0) :
    HasDerivAt (fun y => (eiHeadAt Φ best jit μ y).hval) ((eiHeadAt Φ best jit μ s).dstd) s ∧
    (eiHeadAt Φ best jit μ s).dstd = (∑ j, -phi (eiU (best j) (μ j) jit s)) / nf := by
  refine ⟨?_, by simp [eiHeadAt, eiHeadGrad]⟩
  have h := ei_head_hasDerivAt Φ hΦ nf best jit (fun k _ => μ k) (fun y => y)
    (fun _ => 0) 1 s (fun k => hasDerivAt_const _ _) (hasDerivAt_id s) hs
  simpa using h

/-- **expected improvement is never negative** (the head, which is *minus* EI, is `≤ 0`) for
every non-negative standard deviation — from `Φ' = φ` and `Φ(u) → 0` as `u → −∞` only. -/
theorem ei_nonneg (Φ : ℝ → ℝ) (hΦ : ∀ u, HasDerivAt Φ (phi u) u) (hlim : Tendsto Φ atBot (𝓝 0))
    (nf : ℕ) (best : Fin nf → ℝ) (jit : ℝ) (μ : Fin nf → ℝ) (s : ℝ) (hs : 0 ≤ s) :
    (∀ u, 0 ≤ u * Φ u + phi u) ∧ (eiHeadAt Φ best jit μ s).hval ≤ 0 ∧ eiValueAt Φ best jit μ s ≤ 0 := by
  have hg := g_nonneg Φ hΦ hlim
  refine ⟨hg, ?_, ?_⟩
  · simp only [eiHeadAt, eiHeadGrad, EI.sumFin_eq]
    rw [neg_nonpos]
    exact div_nonneg (Finset.sum_nonneg fun j _ => mul_nonneg hs (hg _)) (Nat.cast_nonneg _)
  · simp only [eiValueAt, eiHead, EI.sumFin_eq]
    apply div_nonpos_of_nonpos_of_nonneg _ (Nat.cast_nonneg _)
    exact Finset.sum_nonpos fun j _ => mul_nonpos_of_nonpos_of_nonneg (neg_nonpos.mpr hs) (hg _)

/-- **LCB head** `mean_j(μⱼ − κσ)`: derivative `Σⱼ (1/nf) μⱼ' + (−κ) σ'`, i.e. the code's
`dh_dmean = ones/nf`, `dh_dstd = −κ`. -/
theorem lcb_head (nf : ℕ) (hnf : 0 < nf) (kappa : ℝ) (μ : Fin nf → ℝ → ℝ) (σ : ℝ → ℝ)
    (μ' : Fin nf → ℝ) (σ' x : ℝ) (hμ : ∀ j, HasDerivAt (μ j) (μ' j) x) (hσ : HasDerivAt σ σ' x) :
    HasDerivAt (fun y => (lcbHeadAt kappa (fun j => μ j y) (σ y)).hval)
      (∑ j, (lcbHeadAt kappa (fun j => μ j x) (σ x)).dmean j * μ' j
        + (lcbHeadAt kappa (fun j => μ j x) (σ x)).dstd * σ') x :=
  lcb_head_hasDerivAt nf hnf kappa μ σ μ' σ' x hμ hσ

/-- **the value returned together with the gradient equals the value returned alone**
(`_compute_head_and_gradient(...).hval = _compute_head(...)`), for the EI and LCB heads, over any
field: the two code paths differ only in where the sign is applied. -/
theorem value_consistency {nf : ℕ} (sd kappa : 𝕜) (u Phi phi mu : Fin nf → 𝕜) :
    (eiHeadGrad sd u Phi phi).hval = eiHead sd u Phi phi ∧
    (lcbHeadGrad kappa sd mu).hval = lcbHead kappa sd mu := by
  refine ⟨?_, rfl⟩
  simp only [eiHeadGrad, eiHead, GP.sumFin_eq, neg_mul, Finset.sum_neg_distrib, neg_div]

/-! ### non-vacuity -/

/-- a concrete triangular factor meeting the hypotheses of `chol_vjp` -/
example : LowerTri (𝕜 := ℚ) (n := 2) #v[#v[2, 0], #v[1, 3]] ∧ DiagNZ (𝕜 := ℚ) (n := 2) #v[#v[2, 0], #v[1, 3]] := by
  constructor
  · intro i j hij; fin_cases i <;> fin_cases j <;> simp_all
  · intro i; fin_cases i <;> simp

/-- the hypotheses of `ei_head` are satisfiable: constant curves, `σ = 1` -/
example : HasDerivAt (fun _ : ℝ => (1 : ℝ)) 0 0 ∧ (1 : ℝ) ≠ 0 := ⟨hasDerivAt_const _ _, one_ne_zero⟩

/-- the backward pass on concrete numbers (the same line is in the correspondence smoke test) -/
example : cholBackward (α := ℚ) (n := 2) #v[#v[1, 0], #v[1/2, 1]] #v[#v[1, 2], #v[3, 4]] =
    #v[#v[1/4, 1/2], #v[1/2, 2]] := by
  decide +kernel

end SyneTune.C09
