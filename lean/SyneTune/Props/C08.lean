import SyneTune.Lemmas.GP
/-
C08 — GP posterior, likelihood and incremental updates equal the dense definition.
Property theorems only (PARTIAL proof: what is proved is that the *formulas the code
evaluates* — modelled in `Model/GPExec.lean`, with `nll` in `Lemmas/GP.lean` — are the
textbook dense-matrix quantities; LAPACK, `sqrt`, `log`, round-off, the jitter search and
the kernel function values are outside the model and exercised by the `gp` correspondence).

Notation: `toM`/`toV` read a model matrix/vector as a Mathlib matrix/function.  All theorems
except `nll` hold over every linearly ordered field `𝕜` (so for the `Rat` twin and for `ℝ`).
-/
namespace SyneTune.C08
open SyneTune.GP Matrix

set_option linter.unusedSectionVars false
set_option linter.unnecessarySeqFocus false

variable {𝕜 : Type} [Field 𝕜] [LinearOrder 𝕜] [IsStrictOrderedRing 𝕜] {n m t : ℕ}

/-- targets minus the mean function on the training inputs, `Y − m(X)·1ᵀ` -/
def centered (Y : Matrix (Fin n) (Fin m) 𝕜) (mX : Fin n → 𝕜) : Matrix (Fin n) (Fin m) 𝕜 :=
  Y - Matrix.of fun i _ => mX i

/-- **the posterior state invariant** (`posterior_state.py`): `L` lower triangular with non-zero
diagonal, `L Lᵀ = K + σ²I`, `L P = Y − m(X)`. -/
structure IsPosteriorState (L : Mat 𝕜 n n) (P : Mat 𝕜 n m) (K : Matrix (Fin n) (Fin n) 𝕜) (s2 : 𝕜)
    (Y : Matrix (Fin n) (Fin m) 𝕜) (mX : Fin n → 𝕜) : Prop where
  lower : LowerTri L
  diag : DiagNZ L
  factor : toM L * (toM L)ᵀ = K + s2 • 1
  solve : toM L * toM P = centered Y mX

/-- `cholesky_computations` given a factor: if `L` is a triangular factor of `K + σ²I` with
non-zero diagonal, then `(L, solve_triangular(L, Y − m(X)))` is a posterior state. -/
theorem state_of_factor (L : Mat 𝕜 n n) (K : Matrix (Fin n) (Fin n) 𝕜) (s2 : 𝕜) (Yc : Mat 𝕜 n m)
    (Y : Matrix (Fin n) (Fin m) 𝕜) (mX : Fin n → 𝕜) (hL : LowerTri L) (hd : DiagNZ L)
    (hA : toM L * (toM L)ᵀ = K + s2 • 1) (hY : toM Yc = centered Y mX) :
    IsPosteriorState L (solveLowerM L Yc) K s2 Y mX :=
  ⟨hL, hd, hA, by rw [solveLowerM_spec L Yc hL hd, hY]⟩

/-- **the jitter search only changes the diagonal** (`AddJitterOp`): whenever it returns, the result
is `x + (σ²_init + jitter)·I` with `jitter ≥ 0`, and it is a matrix that passed the factorisation
test — so `state_of_factor` applies with `σ² := σ²_init + jitter`. -/
theorem add_jitter (eps : 𝕜) (x : Mat 𝕜 n n) (s initF g ubF : 𝕜) (hi : 0 ≤ initF) (hg : 0 ≤ g) (fuel : ℕ)
    (r : JitterOut 𝕜 n) (h : addJitter eps x s initF g ubF fuel = some r) :
    toM r.sys = toM x + (s + r.jitter) • (1 : Matrix (Fin n) (Fin n) 𝕜) ∧ 0 ≤ r.jitter ∧
      isPD eps n r.sys = true := by
  unfold addJitter at h
  have hm : (0 : 𝕜) ≤ maxOf 1 (sumFin (fun i : Fin n => x[i][i]) / (n : 𝕜)) := by
    rw [maxOf_eq_max]; exact le_trans zero_le_one (le_max_left _ _)
  obtain ⟨h1, h2, h3, _⟩ := jitterLoop_spec eps x s _ g _ (mul_nonneg hi hm) hg fuel 0 0 r le_rfl h
  exact ⟨by rw [h1, toM_addDiag], h3, h2⟩

/-- **posterior mean** returned by `predict_posterior_marginals`:
`K*ᵀ (K + σ²I)⁻¹ (Y − m(X)) + m(X*)` with `K* = covariance_scale · kernel(X, X*)`. -/
theorem mean (L : Mat 𝕜 n n) (P : Mat 𝕜 n m) (K : Matrix (Fin n) (Fin n) 𝕜) (s2 : 𝕜)
    (Y : Matrix (Fin n) (Fin m) 𝕜) (mX : Fin n → 𝕜) (hS : IsPosteriorState L P K s2 Y mX)
    (Ks : Mat 𝕜 n t) (scale : 𝕜) (kd ms : Vec 𝕜 t) (floor : 𝕜) :
    toM (predictMarginals L P Ks scale kd ms floor).means =
      (scale • toM Ks)ᵀ * (K + s2 • 1)⁻¹ * centered Y mX + Matrix.of fun i _ => ms[i] := by
  have hu := isUnit_det_toM hS.lower hS.diag
  have hV := solveLowerM_spec L (scaleM Ks scale) hS.lower hS.diag
  rw [toM_scaleM] at hV
  show toM (predMean (solveLowerM L (scaleM Ks scale)) P ms) = _
  rw [toM_predMean, quad_form hu hV hS.solve, hS.factor]

/-- **posterior variance** returned by `predict_posterior_marginals`: the diagonal of
`K** − K*ᵀ (K + σ²I)⁻¹ K*` clamped from below at `floor = MIN_POSTERIOR_VARIANCE`; it lies
between the floor and the prior variance `covariance_scale · k(x*, x*)` (when the floor does not
exceed the prior variance). `Kss = kernel(X*, X*)`, of which the code only evaluates the
diagonal `kd`. -/
theorem var (L : Mat 𝕜 n n) (P : Mat 𝕜 n m) (K : Matrix (Fin n) (Fin n) 𝕜) (s2 : 𝕜)
    (Y : Matrix (Fin n) (Fin m) 𝕜) (mX : Fin n → 𝕜) (hS : IsPosteriorState L P K s2 Y mX)
    (Ks : Mat 𝕜 n t) (scale : 𝕜) (kd ms : Vec 𝕜 t) (floor : 𝕜)
    (Kss : Matrix (Fin t) (Fin t) 𝕜) (hkd : ∀ i : Fin t, kd[i] = Kss i i) (i : Fin t) :
    let v := (predictMarginals L P Ks scale kd ms floor).vars
    v[i] = max ((scale • Kss - (scale • toM Ks)ᵀ * (K + s2 • 1)⁻¹ * (scale • toM Ks)) i i) floor ∧
    floor ≤ v[i] ∧ (floor ≤ kd[i] * scale → v[i] ≤ kd[i] * scale) := by
  intro v
  have hu := isUnit_det_toM hS.lower hS.diag
  have hV := solveLowerM_spec L (scaleM Ks scale) hS.lower hS.diag
  rw [toM_scaleM] at hV
  have hq := quad_form hu hV hV
  rw [hS.factor] at hq
  have hv : v[i] = max (kd[i] * scale - ((toM (solveLowerM L (scaleM Ks scale)))ᵀ *
      toM (solveLowerM L (scaleM Ks scale))) i i) floor := by
    show (Vec.of fun i => maxOf (predVarRaw (solveLowerM L (scaleM Ks scale))
      (Vec.of fun i => kd[i] * scale))[i] floor)[i] = _
    rw [Vec.of_get, maxOf_eq_max, predVarRaw_get, Vec.of_get]
  refine ⟨?_, ?_, ?_⟩
  · rw [hv, hq, Matrix.sub_apply, Matrix.smul_apply, hkd i, smul_eq_mul, mul_comm]
  · rw [hv]; exact le_max_right _ _
  · intro hf
    rw [hv]
    apply max_le _ hf
    have : 0 ≤ ((toM (solveLowerM L (scaleM Ks scale)))ᵀ * toM (solveLowerM L (scaleM Ks scale))) i i := by
      rw [Matrix.mul_apply]
      exact Finset.sum_nonneg fun k _ => by
        rw [Matrix.transpose_apply]; exact mul_self_nonneg _
    linarith

/-- **joint posterior** computed by `sample_posterior_joint`: same mean as the marginals,
covariance `K** − K*ᵀ (K + σ²I)⁻¹ K*`; its diagonal is the unclamped marginal variance, and the
matrix factorised for sampling is this covariance plus `jitter_init · I`. -/
theorem joint_cov (L : Mat 𝕜 n n) (P : Mat 𝕜 n m) (K : Matrix (Fin n) (Fin n) 𝕜) (s2 : 𝕜)
    (Y : Matrix (Fin n) (Fin m) 𝕜) (mX : Fin n → 𝕜) (hS : IsPosteriorState L P K s2 Y mX)
    (Ks : Mat 𝕜 n t) (Kss : Mat 𝕜 t t) (scale : 𝕜) (ms : Vec 𝕜 t) (jit : 𝕜) :
    let J := posteriorJoint L P Ks Kss scale ms jit
    toM J.mean = (scale • toM Ks)ᵀ * (K + s2 • 1)⁻¹ * centered Y mX + Matrix.of (fun i _ => ms[i]) ∧
    toM J.cov = scale • toM Kss - (scale • toM Ks)ᵀ * (K + s2 • 1)⁻¹ * (scale • toM Ks) ∧
    toM J.sys = toM J.cov + jit • 1 := by
  intro J
  have hu := isUnit_det_toM hS.lower hS.diag
  have hV := solveLowerM_spec L (scaleM Ks scale) hS.lower hS.diag
  rw [toM_scaleM] at hV
  refine ⟨?_, ?_, ?_⟩
  · show toM (predMean (solveLowerM L (scaleM Ks scale)) P ms) = _
    rw [toM_predMean, quad_form hu hV hS.solve, hS.factor]
  · show toM (jointCov (solveLowerM L (scaleM Ks scale)) (scaleM Kss scale)) = _
    rw [toM_jointCov, quad_form hu hV hV, hS.factor, toM_scaleM]
  · ext i j
    show (Mat.of fun i j => if i = j then J.cov[i][j] + jit else J.cov[i][j])[i][j] = _
    rw [Mat.of_get]
    by_cases h : i = j
    · subst h; simp
    · simp [h, Matrix.one_apply_ne h]

/-- **negative log marginal likelihood** (`negative_log_marginal_likelihood`, single target
column): `½ (y−m)ᵀ A⁻¹ (y−m) + ½ log det A + (n/2) log 2π` with `A = K + σ²I`. -/
theorem nll (L : Mat ℝ n n) (P : Mat ℝ n 1) (K : Matrix (Fin n) (Fin n) ℝ) (s2 : ℝ)
    (Y : Matrix (Fin n) (Fin 1) ℝ) (mX : Fin n → ℝ) (hS : IsPosteriorState L P K s2 Y mX) :
    GP.nll L P =
      (1 / 2) * ((centered Y mX)ᵀ * (K + s2 • 1)⁻¹ * centered Y mX) 0 0 +
      (1 / 2) * Real.log (K + s2 • 1).det + (n : ℝ) / 2 * Real.log (2 * Real.pi) := by
  have hu := isUnit_det_toM hS.lower hS.diag
  have hq := quad_form hu hS.solve hS.solve
  unfold GP.nll
  simp only
  rw [logdet_eq L hS.lower hS.diag, sqNorm_one_col, hq, hS.factor]
  push_cast
  ring

/-- **incremental update** (`cholesky_update`): the bordered factor is a triangular factor with
non-zero diagonal of the bordered matrix `[[K + σ²I, k], [kᵀ, κ + noise + δ]]`
(`k = covariance_scale · kernel(X, x)`, `κ = covariance_scale · k(x, x)`), where `δ ≥ 0` is the
jitter the code adds on the new diagonal entry only when `κ + noise − ‖l‖²` is below
`MIN_CHOLESKY_DIAGONAL_VALUE²` (`δ = 0` otherwise); and the extended `P` solves the extended
system.  `sqrt` is only required to be a square root at the one argument it is called with. -/
theorem update (L : Mat 𝕜 n n) (P : Mat 𝕜 n m) (K : Matrix (Fin n) (Fin n) 𝕜) (s2 : 𝕜)
    (Y : Matrix (Fin n) (Fin m) 𝕜) (mX : Fin n → 𝕜) (hS : IsPosteriorState L P K s2 Y mX)
    (sqrt : 𝕜 → 𝕜) (minDiag : 𝕜) (hmin : 0 < minDiag) (kvec : Vec 𝕜 n)
    (scale kdiag noise mscal : 𝕜) (target : Vec 𝕜 m) :
    let U := cholUpdate sqrt minDiag L P kvec scale kdiag noise mscal target
    let raw := kdiag * scale + noise - ∑ k : Fin n, U.lvec[k] * U.lvec[k]
    let δ := U.lsq - raw
    sqrt U.lsq * sqrt U.lsq = U.lsq →
    (0 ≤ δ ∧ (minDiag * minDiag ≤ raw → δ = 0)) ∧
    LowerTri U.L ∧ DiagNZ U.L ∧
    toM U.L * (toM U.L)ᵀ =
      borderM (K + s2 • 1) (fun i => kvec[i] * scale) (fun i => kvec[i] * scale) (kdiag * scale + noise + δ) ∧
    toM U.L * toM U.P = snocRowM (centered Y mX) (fun j => target[j] - mscal) := by
  intro U raw δ hs
  have hlv : toM L *ᵥ toV U.lvec = fun i => kvec[i] * scale :=
    computeLvec_spec L kvec scale hS.lower hS.diag
  have hlsq : U.lsq = max raw (minDiag * minDiag) := by
    show maxOf _ _ = _
    rw [maxOf_eq_max]
    simp only [sumFin_eq]
    rfl
  have hpos : 0 < U.lsq := by
    rw [hlsq]; exact lt_of_lt_of_le (mul_pos hmin hmin) (le_max_right _ _)
  have hne : U.lscal ≠ 0 := by
    intro h0
    have : sqrt U.lsq = 0 := h0
    rw [this, mul_zero] at hs
    exact (ne_of_gt hpos) hs.symm
  have hUL : toM U.L = borderM (toM L) 0 (toV U.lvec) U.lscal :=
    toM_updL sqrt minDiag L P scale kdiag noise mscal target (computeLvec L kvec scale)
  refine ⟨⟨?_, ?_⟩, ?_, ?_, ?_, ?_⟩
  · show 0 ≤ U.lsq - raw
    rw [hlsq]; exact sub_nonneg.mpr (le_max_left _ _)
  · intro h
    show U.lsq - raw = 0
    rw [hlsq, max_eq_left h, sub_self]
  · exact hS.lower.border _ _
  · exact hS.diag.border _ _ hne
  · rw [hUL, border_factor, hlv, hS.factor]
    congr 1
    show _ = kdiag * scale + noise + (U.lsq - raw)
    have : U.lscal * U.lscal = U.lsq := hs
    rw [this]
    show _ = kdiag * scale + noise + (U.lsq - (kdiag * scale + noise - ∑ k : Fin n, U.lvec[k] * U.lvec[k]))
    simp only [toV_apply]
    ring
  · rw [hUL]
    show _ * toM (P.push _ : Mat 𝕜 (n + 1) m) = _
    rw [toM_push, border_solve, hS.solve]
    congr 1
    ext j
    simp only [toV_apply, Vec.of_get, dot_eq, toM_apply]
    show ∑ k : Fin n, U.lvec[k] * P[k][j] +
      U.lscal * ((target[j] - mscal - ∑ i : Fin n, U.lvec[i] * P[i][j]) / U.lscal) = target[j] - mscal
    generalize U.lscal = c at hne
    field_simp
    ring

/-- **update = recompute**: after `cholesky_update` with `noise = σ²` the new pair is a posterior
state for the data set extended by `(x, target)` — for the kernel matrix bordered by `k`, `κ`
(plus the diagonal jitter `δ` of `update`, zero unless the new pivot is clamped) — hence, by
`mean`, `var`, `nll` applied to the new state, every prediction from the updated state equals the
dense expression for the extended data set. -/
theorem update_state (L : Mat 𝕜 n n) (P : Mat 𝕜 n m) (K : Matrix (Fin n) (Fin n) 𝕜) (s2 : 𝕜)
    (Y : Matrix (Fin n) (Fin m) 𝕜) (mX : Fin n → 𝕜) (hS : IsPosteriorState L P K s2 Y mX)
    (sqrt : 𝕜 → 𝕜) (minDiag : 𝕜) (hmin : 0 < minDiag) (kvec : Vec 𝕜 n)
    (scale kdiag mscal : 𝕜) (target : Vec 𝕜 m) :
    let U := cholUpdate sqrt minDiag L P kvec scale kdiag s2 mscal target
    let δ := U.lsq - (kdiag * scale + s2 - ∑ k : Fin n, U.lvec[k] * U.lvec[k])
    sqrt U.lsq * sqrt U.lsq = U.lsq →
    IsPosteriorState U.L U.P
      (borderM K (fun i => kvec[i] * scale) (fun i => kvec[i] * scale) (kdiag * scale + δ)) s2
      (snocRowM Y (toV target)) (Fin.snoc mX mscal) := by
  intro U δ hs
  obtain ⟨_, h1, h2, h3, h4⟩ := update L P K s2 Y mX hS sqrt minDiag hmin kvec scale kdiag s2 mscal target hs
  refine ⟨h1, h2, ?_, ?_⟩
  · rw [h3]
    ext i j
    refine Fin.lastCases ?_ (fun i' => ?_) i <;> refine Fin.lastCases ?_ (fun j' => ?_) j
    · simp only [borderM_ll, Matrix.add_apply, Matrix.smul_apply, Matrix.one_apply_eq, smul_eq_mul, mul_one, δ]
      ring
    · simp [Matrix.add_apply, Matrix.one_apply_ne (Fin.castSucc_lt_last j').ne']
    · simp [Matrix.add_apply, Matrix.one_apply_ne (Fin.castSucc_lt_last i').ne]
    · simp [Matrix.add_apply, Matrix.one_apply]
  · rw [h4]
    ext i j
    refine Fin.lastCases ?_ (fun i' => ?_) i <;> simp [centered]

/-- **update = recompute, for the predictive mean** (the instance of `mean` at the updated
state; the same instantiation works for `var`, `joint_cov`, `nll`). -/
theorem update_eq_recompute (L : Mat 𝕜 n n) (P : Mat 𝕜 n m) (K : Matrix (Fin n) (Fin n) 𝕜) (s2 : 𝕜)
    (Y : Matrix (Fin n) (Fin m) 𝕜) (mX : Fin n → 𝕜) (hS : IsPosteriorState L P K s2 Y mX)
    (sqrt : 𝕜 → 𝕜) (minDiag : 𝕜) (hmin : 0 < minDiag) (kvec : Vec 𝕜 n)
    (scale kdiag mscal : 𝕜) (target : Vec 𝕜 m)
    (Ks' : Mat 𝕜 (n + 1) t) (kd ms : Vec 𝕜 t) (floor : 𝕜) :
    let U := cholUpdate sqrt minDiag L P kvec scale kdiag s2 mscal target
    let δ := U.lsq - (kdiag * scale + s2 - ∑ k : Fin n, U.lvec[k] * U.lvec[k])
    let K' := borderM K (fun i => kvec[i] * scale) (fun i => kvec[i] * scale) (kdiag * scale + δ)
    sqrt U.lsq * sqrt U.lsq = U.lsq →
    toM (predictMarginals U.L U.P Ks' scale kd ms floor).means =
      (scale • toM Ks')ᵀ * (K' + s2 • 1)⁻¹ * centered (snocRowM Y (toV target)) (Fin.snoc mX mscal)
        + Matrix.of fun i _ => ms[i] := by
  intro U δ K' hs
  exact mean U.L U.P K' s2 _ _
    (update_state L P K s2 Y mX hS sqrt minDiag hmin kvec scale kdiag mscal target hs) Ks' scale kd ms floor

/-- **`sample_and_cholesky_update`** (fantasising one pending evaluation): the target is drawn from
the marginal posterior at the new input — predictive mean plus `N(0,1)` draw times the clamped
predictive standard deviation, exactly the quantities `predict_posterior_marginals` returns for
that single test point — and the state is then updated by `cholesky_update` with that target
(so `update`, `update_state` apply to it). -/
theorem sample_update (sqrt : 𝕜 → 𝕜) (minDiag minVar : 𝕜) (L : Mat 𝕜 n n) (P : Mat 𝕜 n m) (kvec : Vec 𝕜 n)
    (scale kdiag noise mscal : 𝕜) (n01 : Vec 𝕜 m) :
    let S := sampleAndUpdate sqrt minDiag minVar L P kvec scale kdiag noise mscal n01
    let M := predictMarginals L P (Mat.of fun i (_ : Fin 1) => kvec[i]) scale (Vec.of fun _ => kdiag)
      (Vec.of fun _ => mscal) minVar
    S.upd = cholUpdate sqrt minDiag L P kvec scale kdiag noise mscal S.target ∧
    ∀ j : Fin m, S.target[j] = M.means[(0 : Fin 1)][j] + n01[j] * sqrt M.vars[(0 : Fin 1)] := by
  intro S M
  refine ⟨rfl, fun j => ?_⟩
  have hcol : GP.col (scaleM (Mat.of fun i (_ : Fin 1) => kvec[i]) scale) (0 : Fin 1) = Vec.of fun i => kvec[i] * scale := by
    apply Vector.ext; intro i hi
    simp [GP.col, scaleM]
  have hV : ∀ k : Fin n, (solveLowerM L (scaleM (Mat.of fun i (_ : Fin 1) => kvec[i]) scale))[k][(0 : Fin 1)] =
      (computeLvec L kvec scale)[k] := by
    intro k
    rw [solveLowerM_get, hcol]
    rfl
  show (Vec.of fun j => _)[j] = (predMean _ P _)[(0 : Fin 1)][j] + n01[j] * sqrt ((Vec.of fun i => maxOf (predVarRaw _ _)[i] minVar)[(0 : Fin 1)])
  simp only [Vec.of_get, predMean, Mat.of_get, predVarRaw, hV]

/-- **fantasy columns are independent target vectors sharing one covariance**: column `j` of
the state, of the predictive means and of the updated state computed from a target matrix `Y`
equals what is computed from column `j` of `Y` (and of the new target) alone; the variances do
not depend on the targets at all. -/
theorem fantasies (L : Mat 𝕜 n n) (P : Mat 𝕜 n m) (K : Matrix (Fin n) (Fin n) 𝕜) (s2 : 𝕜)
    (Y : Matrix (Fin n) (Fin m) 𝕜) (mX : Fin n → 𝕜) (hS : IsPosteriorState L P K s2 Y mX)
    (j : Fin m) (p : Mat 𝕜 n 1)
    (hp : IsPosteriorState L p K s2 (Matrix.of fun i _ => Y i j) mX)
    (Ks : Mat 𝕜 n t) (scale : 𝕜) (kd ms : Vec 𝕜 t) (floor : 𝕜)
    (sqrt : 𝕜 → 𝕜) (minDiag : 𝕜) (kvec : Vec 𝕜 n) (kdiag noise mscal : 𝕜) (target : Vec 𝕜 m) :
    (∀ i : Fin n, P[i][j] = p[i][(0 : Fin 1)]) ∧
    (∀ i : Fin t, (predictMarginals L P Ks scale kd ms floor).means[i][j] =
        (predictMarginals L p Ks scale kd ms floor).means[i][(0 : Fin 1)]) ∧
    (predictMarginals L P Ks scale kd ms floor).vars = (predictMarginals L p Ks scale kd ms floor).vars ∧
    (∀ i : Fin (n + 1), (cholUpdate sqrt minDiag L P kvec scale kdiag noise mscal target).P[i][j] =
        (cholUpdate sqrt minDiag L p kvec scale kdiag noise mscal (Vec.of fun _ => target[j])).P[i][(0 : Fin 1)]) := by
  have hu := isUnit_det_toM hS.lower hS.diag
  have hcol : ∀ i : Fin n, P[i][j] = p[i][(0 : Fin 1)] := by
    have h1 : toM L * (Matrix.of fun i (_ : Fin 1) => toM P i j) = centered (Matrix.of fun i _ => Y i j) mX := by
      ext i c
      have := congrFun (congrFun hS.solve i) j
      simpa [Matrix.mul_apply, centered] using this
    have := solve_unique hu h1 hp.solve
    intro i
    have := congrFun (congrFun this i) 0
    simpa using this
  refine ⟨hcol, ?_, rfl, ?_⟩
  · intro i
    show (predMean _ P ms)[i][j] = (predMean _ p ms)[i][(0 : Fin 1)]
    simp only [predMean, Mat.of_get, hcol]
  · intro i
    show ((P.push _ : Mat 𝕜 (n + 1) m))[i][j] = ((p.push _ : Mat 𝕜 (n + 1) 1))[i][(0 : Fin 1)]
    refine Fin.lastCases ?_ (fun i' => ?_) i
    · simp only [push_get_last, Vec.of_get, hcol]
    · simp only [push_get_castSucc, hcol]

/-! ### non-vacuity: a concrete posterior state over `ℚ` -/

/-- `K = [[1, 1/2], [1/2, 1]]`, `σ² = 1/4`... written from the factor: `L = [[1, 0], [1/2, 1]]`,
`L Lᵀ = [[1, 1/2], [1/2, 5/4]] = K + ¼ I` with `K = [[3/4, 1/2], [1/2, 1]]`; targets `(1, 2)`,
zero mean, `P = L⁻¹ y = (1, 3/2)`. -/
example :
    IsPosteriorState (𝕜 := ℚ) (n := 2) (m := 1)
      #v[#v[1, 0], #v[1/2, 1]] #v[#v[1], #v[3/2]] !![3/4, 1/2; 1/2, 1] (1/4) !![1; 2] (fun _ => 0) := by
  refine ⟨?_, ?_, ?_, ?_⟩
  · intro i j hij; fin_cases i <;> fin_cases j <;> simp_all
  · intro i; fin_cases i <;> simp
  · ext i j; fin_cases i <;> fin_cases j <;>
      simp [Matrix.mul_apply, Fin.sum_univ_two] <;> norm_num
  · ext i j; fin_cases i <;> fin_cases j <;>
      simp [Matrix.mul_apply, Fin.sum_univ_two, centered] <;> norm_num

/-- the square-root hypothesis of `update` is satisfiable: for this state and new point the new
pivot is `λ² = 1` (no clamping), so `sqrt := id` is a square root at the argument it is called with. -/
example :
    let U := cholUpdate (α := ℚ) (n := 2) (m := 1) (fun x => x) (1/10000000000)
      #v[#v[1, 0], #v[1/2, 1]] #v[#v[1], #v[3/2]] #v[1/2, 1/4] 1 1 (1/4) 0 #v[2]
    U.lsq = 1 ∧ (fun x : ℚ => x) U.lsq * (fun x : ℚ => x) U.lsq = U.lsq ∧
      U.L = #v[#v[1, 0, 0], #v[1/2, 1, 0], #v[1/2, 0, 1]] ∧ U.P = #v[#v[1], #v[3/2], #v[3/2]] := by
  decide +kernel

end SyneTune.C08
