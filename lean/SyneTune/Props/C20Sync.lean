import SyneTune.Lemmas.SyncMore
/-
C20 (synchronous Hyperband part) — a trial reported by
`trials_checkpoints_can_be_removed` (a non-promoted trial of a completed rung) is never
resumed afterwards, so deleting its checkpoint is safe.  Property theorems only;
`Reachable` as in `Props/C05.lean`.

`NotPromoted g t` (Lemmas/SyncMore.lean): some bracket has a completed rung `k` holding
`t` whose successor rung `k+1` exists and does not hold `t`.  Completed rungs are kept
for ever, so this is a property of the state, not of the history.
-/
namespace SyneTune.C20Sync
open SyneTune SyneTune.Sync

/-- **What is reported is not promoted.**  In every reachable state each trial id on the
list `_trials_checkpoints_can_be_removed` is a non-promoted trial of a completed rung. -/
theorem removable_not_promoted (mode : Mode) (systems : List (List (Nat × Nat))) (s : Sched)
    (h : Reachable mode systems s) (t : Nat) (ht : some t ∈ s.removable) : NotPromoted s.mgr t :=
  reachable_inv20 h t ht

/-- **Non-promoted stays non-promoted** over every continuation of the history (also after
the list has been fetched and cleared). -/
theorem not_promoted_stable (mode : Mode) (systems : List (List (Nat × Nat))) (s : Sched)
    (h : Reachable mode systems s) (t : Nat) (ht : NotPromoted s.mgr t) (ops : List Op) (hl : LegalRun s ops) :
    NotPromoted (s.run ops).mgr t :=
  (run_more (reachable_inv h).1 ops hl).2.1 t ht

/-- **A non-promoted trial is not resumed.**  Trial ids are global: `t` occurs in one
bracket only, there only in rungs up to the completed rung `k` it was dropped from, and
`suggest` resumes only trials sitting in the current rung of a bracket. -/
theorem not_promoted_never_resumed (mode : Mode) (systems : List (List (Nat × Nat))) (s : Sched)
    (h : Reachable mode systems s) (t : Nat) (ht : NotPromoted s.mgr t) (tid : Nat) (c : Bool)
    (hfresh : tid ∉ s.configs) (s' : Sched) (lvl : Nat) (cl : Option Nat) (calls : List SCall) :
    s.suggest tid c ≠ .ok (s', .resume t lvl cl, calls) := by
  intro hs
  have hI := (reachable_inv h).1
  obtain ⟨s2, sg, calls2, hs2, _, hf⟩ := suggest_spec hI tid c hfresh
  rw [hs] at hs2
  simp only [Except.ok.injEq, Prod.mk.injEq] at hs2
  obtain ⟨rfl, rfl, rfl⟩ := hs2
  obtain ⟨g1, id, sl, br1, rg, x, _, hcase, hh, _, hc⟩ := hf.job
  rcases hc with ⟨t', hx, hsg, _⟩ | ⟨_, _, hsg, _⟩ | ⟨_, _, hsg, _⟩
  · simp only [Suggestion.resume.injEq] at hsg
    obtain ⟨rfl, _, _⟩ := hsg
    obtain ⟨br0, rg0, x0, hjs⟩ := jobCase_struct hI.mwf hcase
    have hb1 : br1 = bump br0 := by
      have := hjs.atId; rw [hh.hbr] at this; exact Option.some.inj this
    subst hb1
    have hrg0 : br0.rungs[br0.current]? = some rg := hh.hrg
    have hid0 : br0.HasId t := (handed_hasId hh t hx).1
    have hold : s.mgr.brackets[id]? = some br0 := by
      rcases hjs.old with ho | ⟨_, hno, _⟩
      · exact ho
      · exact absurd hid0 (hno t)
    obtain ⟨spec, _, hb, _⟩ := hI.mwf.wf id br0 hold
    -- the bracket in which `t` was not promoted is the same bracket
    obtain ⟨j, b, k, prev, next, hbj, hprev, hnext, htprev, htnext⟩ := ht
    have hidb : b.HasId t := ⟨prev, List.mem_of_getElem? hprev, htprev⟩
    have hji : j = id := hI.disjoint j id b br0 t hbj hold hidb hid0
    subst hji
    rw [hold] at hbj
    have : b = br0 := (Option.some.inj hbj).symm
    subst this
    have hk1 : k + 1 < b.rungs.length := getElem?_lt hnext
    have hcur : k + 1 ≤ b.current := by have := hb.len; omega
    have htrg : t ∈ rg.ids := (mem_ids_iff rg t).mpr ⟨sl.slotIndex, x, hh.hsl, hx⟩
    -- `t` occurs in rung `k` and in the current rung, hence in rung `k+1`: contradiction
    obtain ⟨rgi, hrgi, hti⟩ := ids_down hb t k prev hprev htprev (b.current - k) b.current rg (by omega) hrg0 htrg
      (k + 1) (by omega) hcur
    rw [hnext] at hrgi
    have : rgi = next := (Option.some.inj hrgi).symm
    subst this
    exact htnext hti
  · cases hsg
  · cases hsg

/-- **A checkpoint reported as removable is never needed again.**  Once a trial id has
appeared in the list handed out by `trials_checkpoints_can_be_removed` (state `s`), no
`suggest` after any continuation `ops` of the history resumes this trial. -/
theorem resume_has_ckpt_sync (mode : Mode) (systems : List (List (Nat × Nat))) (s : Sched)
    (h : Reachable mode systems s) (t : Nat) (ht : some t ∈ s.removable)
    (ops : List Op) (hl : LegalRun s ops) (tid : Nat) (c : Bool) (hfresh : tid ∉ (s.run ops).configs)
    (s' : Sched) (lvl : Nat) (cl : Option Nat) (calls : List SCall) :
    (s.run ops).suggest tid c ≠ .ok (s', .resume t lvl cl, calls) := by
  have hnp := not_promoted_stable mode systems s h t (removable_not_promoted mode systems s h t ht) ops hl
  have hreach : Reachable mode systems (s.run ops) := by
    obtain ⟨a, b, s0, ops0, hinit, hl0, rfl⟩ := h
    refine ⟨a, b, s0, ops0 ++ ops, hinit, ?_, by simp [Sched.run, List.foldl_append]⟩
    clear hinit ht hnp hfresh
    induction ops0 generalizing s0 with
    | nil => exact hl
    | cons o os ih => exact ⟨hl0.1, ih (s0.next o) hl0.2 hl⟩
  exact not_promoted_never_resumed mode systems _ hreach t hnp tid c hfresh s' lvl cl calls

/-! ### non-vacuity -/

/-- rung system `[(2,1),(1,2)]`: trial 0 (metric 1/2) loses against trial 1 (metric 1/4) and
is reported as removable -/
example :
    ∃ s0, Sched.init .min [[(2, 1), (1, 2)]] false false = .ok s0 ∧
      (s0.run [.suggest 0 true, .suggest 1 true, .result 0 1 (.val (1/2)), .result 1 1 (.val (1/4))]).removable
        = [some 0] :=
  ⟨_, rfl, by decide +kernel⟩

end SyneTune.C20Sync
