import SyneTune.Lemmas.Moasha
/-
C19 — Multi-objective ranking is Pareto-consistent and MOASHA follows it.
Property theorems only; helper lemmas are in `Lemmas/Pareto.lean`, `Lemmas/Moasha.lean`.
Models: `Model/Pareto.lean` (`pareto_efficient`, `nondominated_sort`, `NonDominatedPriority`),
`Model/Moasha.lean` (`_Bracket.on_result`, `MOASHA`).

Conventions: `Rect X d` = the rows of `X` all have `d` entries (a numpy array of shape
`[N, d]`); `EpsOK eps` = every value returned by `compute_epsilon_net` is a permutation of
`range(len(front))` (the oracle's contract, checked by the driver on every recorded value);
`specFront / specRest / specLayers` = Pareto front, remainder and layers by the O(n²)
definition (`Lemmas/Pareto.lean`), independent of the mask algorithm.
-/
namespace SyneTune.C19
open SyneTune

/-! ### dominance -/

theorem dominates_irrefl (a : Point) : dominates a a = false := dominates_irrefl' a

theorem dominates_trans (a b c : Point) (h1 : a.length = b.length) (h2 : b.length = c.length)
    (hab : dominates a b = true) (hbc : dominates b c = true) : dominates a c = true :=
  dominates_trans' a b c h1 h2 hab hbc

/-! ### the Pareto filter -/

/-- **`pareto_efficient` marks exactly the points no other point dominates** — for the
iterative mask algorithm as coded, any number of points, any dimension, ties and
duplicates included. -/
theorem pareto (X : List Point) (d : Nat) (hX : Rect X d) :
    (paretoEfficient X).length = X.length ∧
    ∀ (i : Nat) (hi : i < X.length),
      ((paretoEfficient X)[i]? = some true ↔
        ¬ ∃ (j : Nat) (hj : j < X.length), dominates X[j] X[i] = true) := by
  rw [paretoEfficient_eq_brute X d hX]
  unfold bruteMask
  refine ⟨by simp, ?_⟩
  intro i hi
  rw [List.getElem?_map, List.getElem?_eq_getElem hi]
  simp only [Option.map_some, Option.some.injEq, Bool.not_eq_true', List.any_eq_false]
  constructor
  · rintro h ⟨j, hj, hd⟩
    exact h X[j] (List.getElem_mem hj) hd
  · intro h a ha hd
    obtain ⟨j, hj, rfl⟩ := List.getElem_of_mem ha
    exact h ⟨j, hj, hd⟩

/-- a non-empty point set has a non-dominated point (so every pass of the sort removes
at least one index). -/
theorem pareto_front_nonempty (X : List Point) (d : Nat) (hX : Rect X d) (hne : X ≠ []) :
    true ∈ paretoEfficient X := by
  rw [paretoEfficient_eq_brute X d hX]
  have hR := rectI_enumFrom 0 X d hX
  have hne' : enumFrom 0 X ≠ [] := by
    intro h; have := enumFrom_length 0 X; rw [h] at this; exact hne (List.eq_nil_of_length_eq_zero this.symm)
  have hfr := specFront_ne_nil (enumFrom 0 X) d hR hne'
  obtain ⟨q, hq⟩ := List.exists_mem_of_ne_nil _ hfr
  obtain ⟨hqR, hmin⟩ := List.mem_filter.mp hq
  unfold bruteMask
  rw [List.mem_map]
  refine ⟨q.2, ?_, ?_⟩
  · rw [← enumFrom_map_snd 0 X]; exact List.mem_map_of_mem hqR
  · unfold isMinimal at hmin
    rw [← hmin]
    congr 1
    conv_lhs => rw [← enumFrom_map_snd 0 X]
    rw [List.any_map]
    rfl

/-! ### the non-dominated sort -/

/-- the oracle the driver builds from the recorded `compute_epsilon_net` values satisfies
the contract for every argument, so the theorems below apply to every driver run. -/
theorem tape_oracle_contract (tape : List (List Nat)) : EpsOK (tapeOracle tape) := by
  intro k P
  unfold tapeOracle
  split
  · split
    · rename_i h; exact List.isPerm_iff.mp h
    · exact List.Perm.refl _
  · exact List.Perm.refl _

/-- **layers.** With `max_items = None` the sort succeeds and its `t`-th list (`flatten=False`)
is a permutation of the `t`-th Pareto layer by the O(n²) definition. -/
theorem layers (X : List Point) (d : Nat) (hX : Rect X d) (eps : Nat → List Point → List Nat)
    (hε : EpsOK eps) :
    ∃ L, nondominatedSortLayers X eps none = .ok L ∧
      List.Forall₂ List.Perm L (specLayers X.length (enumFrom 0 X)) := by
  obtain ⟨L, hL, hfor⟩ := sortLoop_none eps hε d X.length 0 (enumFrom 0 X) 0 (rectI_enumFrom 0 X d hX)
    (by rw [enumFrom_length])
  exact ⟨L, by simp [nondominatedSortLayers, sortLayersRaw, hL, truncateLayers], hfor⟩

/-- **every index exactly once** (`max_items = None`). -/
theorem sort_perm (X : List Point) (d : Nat) (hX : Rect X d) (eps : Nat → List Point → List Nat)
    (hε : EpsOK eps) :
    ∃ r, nondominatedSort X eps none = .ok r ∧ r.Perm (List.range X.length) := by
  obtain ⟨L, hL, hfor⟩ := layers X d hX eps hε
  refine ⟨L.flatten, by simp [nondominatedSort, hL], ?_⟩
  refine (forall₂_perm_flatten hfor).trans ?_
  have := specLayers_flatten_perm X.length (enumFrom 0 X) (by rw [enumFrom_length]) ⟨d, rectI_enumFrom 0 X d hX⟩
  rwa [enumFrom_map_fst, ← List.range_eq_range'] at this

/-- **a prefix otherwise**: with `max_items = m ≥ 1` on a non-empty array the result is the
first `m` entries of the full sort (same oracle). -/
theorem sort_prefix (X : List Point) (d : Nat) (hX : Rect X d) (eps : Nat → List Point → List Nat)
    (hε : EpsOK eps) (m : Nat) (hm : 0 < m) (hne : X ≠ []) :
    ∃ full, nondominatedSort X eps none = .ok full ∧
      nondominatedSort X eps (some m) = .ok (full.take m) := by
  have hR := rectI_enumFrom 0 X d hX
  obtain ⟨L, hL, hfor⟩ := sortLoop_none eps hε d X.length 0 (enumFrom 0 X) 0 hR (by rw [enumFrom_length])
  have hsome := sortLoop_some eps hε d m X.length 0 (enumFrom 0 X) 0 0 L hR hL
  have hLne : L ≠ [] := by
    intro h
    subst h
    cases X with
    | nil => exact hne rfl
    | cons x xs => simp only [specLayers, enumFrom, List.length_cons, List.isEmpty_cons, Bool.false_eq_true, if_false] at hfor; cases hfor
  obtain ⟨T, hT, hTf⟩ := truncate_takeLayers m L hm hLne
  refine ⟨L.flatten, by simp [nondominatedSort, nondominatedSortLayers, sortLayersRaw, hL, truncateLayers], ?_⟩
  simp only [nondominatedSort, nondominatedSortLayers, sortLayersRaw, hsome, Nat.sub_zero, hT, hTf]

/-- the sort never fails for `max_items = None`, nor for `max_items ≥ 1` on a non-empty
array (the fuel of the model's loop suffices, `front[order]` stays in range). -/
theorem sort_total (X : List Point) (d : Nat) (hX : Rect X d) (eps : Nat → List Point → List Nat)
    (hε : EpsOK eps) :
    (∃ r, nondominatedSort X eps none = .ok r) ∧
    (∀ m, 0 < m → X ≠ [] → ∃ r, nondominatedSort X eps (some m) = .ok r) := by
  constructor
  · obtain ⟨r, hr, _⟩ := sort_perm X d hX eps hε; exact ⟨r, hr⟩
  · intro m hm hne
    obtain ⟨full, _, h⟩ := sort_prefix X d hX eps hε m hm hne
    exact ⟨_, h⟩

/-- the one failure of the code: `indices[-1]` on an empty list (`IndexError`) when
`max_items` is given and the array is empty or `max_items = 0`. -/
theorem sort_index_error (X : List Point) (eps : Nat → List Point → List Nat) (m : Nat)
    (h : X = [] ∨ m = 0) :
    nondominatedSort X eps (some m) = .error (.indexError "indices[-1]") := by
  rcases h with h | h
  · subst h
    simp [nondominatedSort, nondominatedSortLayers, sortLayersRaw, sortLoop, loopCond, enumFrom, truncateLayers]
  · subst h
    have : sortLoop eps (some 0) X.length 0 (enumFrom 0 X) 0 = .ok [] := by
      cases X.length <;> simp [sortLoop, loopCond]
    simp [nondominatedSort, nondominatedSortLayers, sortLayersRaw, this, truncateLayers]

/-- **earlier layer first**: every index of the `a`-th list precedes every index of the
`b`-th list in the flattened sort, `a < b`. -/
theorem layers_order (X : List Point) (d : Nat) (hX : Rect X d) (eps : Nat → List Point → List Nat)
    (hε : EpsOK eps) (L : List (List Nat)) (h : nondominatedSortLayers X eps none = .ok L)
    (a b : Nat) (la lb : List Nat) (ha : L[a]? = some la) (hb : L[b]? = some lb) (hab : a < b)
    (i j : Nat) (hi : i ∈ la) (hj : j ∈ lb) :
    L.flatten.idxOf i < L.flatten.idxOf j := by
  obtain ⟨r, hr, hperm⟩ := sort_perm X d hX eps hε
  have hr' : r = L.flatten := by
    simp only [nondominatedSort, h, Except.ok.injEq] at hr; exact hr.symm
  have hnd : L.flatten.Nodup := by
    rw [← hr']; exact hperm.nodup_iff.mpr List.nodup_range
  exact idxOf_flatten_lt L hnd a b la lb ha hb hab i j hi hj

/-- **Pareto consistency**: an index whose point dominates another's is sorted before it. -/
theorem dominated_later (X : List Point) (d : Nat) (hX : Rect X d) (eps : Nat → List Point → List Nat)
    (hε : EpsOK eps) (r : List Nat) (h : nondominatedSort X eps none = .ok r)
    (i j : Nat) (hi : i < X.length) (hj : j < X.length) (hd : dominates X[i] X[j] = true) :
    r.idxOf i < r.idxOf j := by
  obtain ⟨L, hL, hfor⟩ := layers X d hX eps hε
  have hr : r = L.flatten := by
    simp only [nondominatedSort, hL, Except.ok.injEq] at h; exact h.symm
  have hpi := mem_enumFrom 0 X i X[i] (List.getElem?_eq_getElem hi)
  have hpj := mem_enumFrom 0 X j X[j] (List.getElem?_eq_getElem hj)
  simp only [Nat.zero_add] at hpi hpj
  obtain ⟨a, b, la, lb, hab, ha, hb, hia, hjb⟩ :=
    specLayers_dominated d X.length (enumFrom 0 X) (rectI_enumFrom 0 X d hX) (by rw [enumFrom_length])
      (i, X[i]) (j, X[j]) hpi hpj hd
  obtain ⟨la', ha', hpa⟩ := forall₂_getElem? hfor a la ha
  obtain ⟨lb', hb', hpb⟩ := forall₂_getElem? hfor b lb hb
  rw [hr]
  exact layers_order X d hX eps hε L hL a b la' lb' ha' hb' hab i j (hpa.mem_iff.mpr hia) (hpb.mem_iff.mpr hjb)

/-! ### `NonDominatedPriority` -/

/-- **the priority of a sample is its position in the non-dominated sort** (`len(order)`
for a sample cut off by `max_num_samples`; `List.idxOf` is the length for an absent index). -/
theorem priority_is_position (X : List Point) (d : Nat) (hX : Rect X d)
    (eps : Nat → List Point → List Nat) (hε : EpsOK eps) (mx : Option Nat) (p : List Nat)
    (h : ndPriority X eps mx = .ok p) :
    ∃ order, nondominatedSort X eps mx = .ok order ∧ order.Nodup ∧
      p = (List.range X.length).map (fun i => order.idxOf i) := by
  unfold ndPriority at h
  cases ho : nondominatedSort X eps mx with
  | error e => rw [ho] at h; cases h
  | ok order =>
    rw [ho] at h
    simp only [Except.ok.injEq] at h
    have hnd : order.Nodup := by
      obtain ⟨full, hfull, hperm⟩ := sort_perm X d hX eps hε
      have hfnd : full.Nodup := hperm.nodup_iff.mpr List.nodup_range
      cases mx with
      | none => rw [hfull] at ho; injection ho with ho; subst ho; exact hfnd
      | some m =>
        by_cases hcase : X = [] ∨ m = 0
        · rw [sort_index_error X eps m hcase] at ho; cases ho
        · have hm : 0 < m := by omega
          have hne : X ≠ [] := fun hx => hcase (Or.inl hx)
          obtain ⟨full', hfull', hpre⟩ := sort_prefix X d hX eps hε m hm hne
          rw [hfull] at hfull'; injection hfull' with hfull'; subst hfull'
          rw [hpre] at ho; injection ho with ho; subst ho
          exact List.Nodup.sublist (List.take_sublist _ _) hfnd
    exact ⟨order, rfl, hnd, by rw [← h, scatter_eq_idxOf order X.length hnd]⟩

/-- **earlier Pareto layer ⇒ strictly smaller priority** (`max_num_samples = None`). -/
theorem priority_layers (X : List Point) (d : Nat) (hX : Rect X d)
    (eps : Nat → List Point → List Nat) (hε : EpsOK eps) (p : List Nat)
    (h : ndPriority X eps none = .ok p)
    (a b : Nat) (la lb : List Nat)
    (ha : (specLayers X.length (enumFrom 0 X))[a]? = some la)
    (hb : (specLayers X.length (enumFrom 0 X))[b]? = some lb) (hab : a < b)
    (i j : Nat) (hi : i ∈ la) (hj : j ∈ lb) :
    ∃ pi pj, p[i]? = some pi ∧ p[j]? = some pj ∧ pi < pj := by
  obtain ⟨order, ho, _, hp⟩ := priority_is_position X d hX eps hε none p h
  obtain ⟨L, hL, hfor⟩ := layers X d hX eps hε
  have hr : order = L.flatten := by
    simp only [nondominatedSort, hL, Except.ok.injEq] at ho; exact ho.symm
  obtain ⟨la', ha', hpa⟩ := forall₂_getElem? hfor a la ha
  obtain ⟨lb', hb', hpb⟩ := forall₂_getElem? hfor b lb hb
  have hlt := layers_order X d hX eps hε L hL a b la' lb' ha' hb' hab i j (hpa.mem_iff.mpr hi) (hpb.mem_iff.mpr hj)
  have hsp := specLayers_flatten_perm X.length (enumFrom 0 X) (by rw [enumFrom_length]) ⟨d, rectI_enumFrom 0 X d hX⟩
  rw [enumFrom_map_fst, ← List.range_eq_range'] at hsp
  have hiN : i < X.length := by
    have : i ∈ (specLayers X.length (enumFrom 0 X)).flatten :=
      List.mem_flatten.mpr ⟨la, List.mem_of_getElem? ha, hi⟩
    simpa using hsp.mem_iff.mp this
  have hjN : j < X.length := by
    have : j ∈ (specLayers X.length (enumFrom 0 X)).flatten :=
      List.mem_flatten.mpr ⟨lb, List.mem_of_getElem? hb, hj⟩
    simpa using hsp.mem_iff.mp this
  refine ⟨order.idxOf i, order.idxOf j, ?_, ?_, by rw [hr]; exact hlt⟩
  · rw [hp, List.getElem?_map, List.getElem?_range hiN]; rfl
  · rw [hp, List.getElem?_map, List.getElem?_range hjN]; rfl

/-- a sample whose point dominates another's has the strictly smaller priority. -/
theorem priority_dominates (X : List Point) (d : Nat) (hX : Rect X d)
    (eps : Nat → List Point → List Nat) (hε : EpsOK eps) (p : List Nat)
    (h : ndPriority X eps none = .ok p)
    (i j : Nat) (hi : i < X.length) (hj : j < X.length) (hd : dominates X[i] X[j] = true) :
    ∃ pi pj, p[i]? = some pi ∧ p[j]? = some pj ∧ pi < pj := by
  obtain ⟨order, ho, _, hp⟩ := priority_is_position X d hX eps hε none p h
  have hlt := dominated_later X d hX eps hε order ho i j hi hj hd
  refine ⟨order.idxOf i, order.idxOf j, ?_, ?_, hlt⟩
  · rw [hp, List.getElem?_map, List.getElem?_range hi]; rfl
  · rw [hp, List.getElem?_map, List.getElem?_range hj]; rfl

/-! ### MOASHA -/

/-- `np.searchsorted(sorted(p), v)` is the number of elements of `p` strictly smaller than `v`. -/
theorem searchsorted_counts_smaller (p : List Rat) (v : Rat) :
    searchsortedLeft (sortRat p) v = p.countP (fun x => decide (x < v)) :=
  searchsortedLeft_sortRat p v

/-- a forced rank comparison is the exact comparison `count / n > 1 / rf`. -/
theorem rank_cmp_forced (c n : Nat) (rf : Rat) (x : Bool) (h : cmpRankGt c n rf = .forced x) :
    (x = true ↔ 1 / rf < (c : Rat) / (n : Rat)) :=
  cmpRankGt_forced c n rf x h

/-- **the rule.**  The result is taken by the first rung (largest milestone) that
`cur_iter` has reached and that does not hold the trial yet; the trial is appended to
exactly that rung; if the rung already held entries and the priority function returned
`ps ++ [v]` (`v` for the new trial), the trial continues iff
`#{recorded priorities < v} / (entries incl. the new one) ≤ 1 / rf` and is stopped
otherwise — for every comparison that is not within round-off. -/
theorem moasha_rule (prio : List Point → Except MErr (List Rat)) (rf : Rat) (tid cur : Nat)
    (metrics : Point) (hint : Bool) (pre : List MRung) (rg : MRung) (post : List MRung)
    (hpre : ∀ r ∈ pre, r.skips tid cur) (hrg : ¬ rg.skips tid cur) (hne : rg.recorded ≠ [])
    (ps : List Rat) (v : Rat)
    (hp : prio (rg.recorded.map (·.2) ++ [metrics]) = .ok (ps ++ [v])) (x : Bool)
    (hf : cmpRankGt (ps.countP (fun y => decide (y < v))) (ps.length + 1) rf = .forced x) :
    ∃ dec, bracketScan prio rf tid cur metrics hint (pre ++ rg :: post)
        = .ok (pre ++ rg.record tid metrics :: post, dec, false) ∧
      (dec = .continue ↔
        ((ps.countP (fun y => decide (y < v)) : Nat) : Rat) / ((ps.length + 1 : Nat) : Rat) ≤ 1 / rf) ∧
      (dec = .stop ↔
        1 / rf < ((ps.countP (fun y => decide (y < v)) : Nat) : Rat) / ((ps.length + 1 : Nat) : Rat)) := by
  have hemp : rg.recorded.isEmpty = false := by cases h : rg.recorded <;> simp_all
  have hdec : rungDecision prio rf rg metrics hint = .ok (if x then .stop else .continue, false) := by
    unfold rungDecision
    simp only [hemp, Bool.false_eq_true, if_false, hp, rankDecision_forced rf ps v hint x hf]
  refine ⟨if x then .stop else .continue, ?_, ?_, ?_⟩
  · rw [bracketScan_at prio rf tid cur metrics hint rg post pre hpre hrg, hdec]
  · have := cmpRankGt_forced _ _ rf x hf
    cases x
    · simp only [Bool.false_eq_true, if_false, true_iff]
      exact not_lt.mp (fun hh => by simpa using this.mpr hh)
    · simp only [if_true, reduceCtorEq, false_iff, not_le]
      exact this.mp rfl
  · have := cmpRankGt_forced _ _ rf x hf
    cases x
    · simp only [Bool.false_eq_true, if_false, reduceCtorEq, false_iff]
      exact fun hh => by simpa using this.mpr hh
    · simp only [if_true, true_iff]
      exact this.mp rfl

/-- the first entry of a rung continues (and is recorded). -/
theorem moasha_first_continues (prio : List Point → Except MErr (List Rat)) (rf : Rat) (tid cur : Nat)
    (metrics : Point) (hint : Bool) (pre : List MRung) (rg : MRung) (post : List MRung)
    (hpre : ∀ r ∈ pre, r.skips tid cur) (hrg : ¬ rg.skips tid cur) (hemp : rg.recorded = []) :
    bracketScan prio rf tid cur metrics hint (pre ++ rg :: post)
      = .ok (pre ++ rg.record tid metrics :: post, .continue, false) := by
  rw [bracketScan_at prio rf tid cur metrics hint rg post pre hpre hrg]
  simp [rungDecision, hemp]

/-- **decisions only at milestones, each trial once per rung**: a report for which every rung
is either not yet reached or already holds the trial changes nothing and continues. -/
theorem moasha_off_milestone (prio : List Point → Except MErr (List Rat)) (rf : Rat) (tid cur : Nat)
    (metrics : Point) (hint : Bool) (rungs : List MRung) (h : ∀ r ∈ rungs, r.skips tid cur) :
    bracketScan prio rf tid cur metrics hint rungs = .ok (rungs, .continue, false) :=
  bracketScan_off prio rf tid cur metrics hint rungs h

/-- the operations of the scheduler; every `result`/`complete` comes with the priority
function of that call (it depends on the ε-net oracle of the call). A failing call
(Python exception) leaves the state unchanged. -/
inductive MOp
  | add (tid idx : Nat)
  | result (prio : List Point → Except MErr (List Rat)) (tid cur : Nat) (raw : Point) (hint : Bool)
  | complete (prio : List Point → Except MErr (List Rat)) (tid cur : Nat) (raw : Point) (hint : Bool)
  | remove (tid : Nat)

def applyOp (s : Moasha) : MOp → Moasha
  | .add tid idx => match s.onAdd tid idx with | .ok s' => s' | .error _ => s
  | .result prio tid cur raw hint => match s.onResult prio tid cur raw hint with | .ok r => r.1 | .error _ => s
  | .complete prio tid cur raw hint => match s.onComplete prio tid cur raw hint with | .ok r => r.1 | .error _ => s
  | .remove tid => match s.onRemove tid with | .ok s' => s' | .error _ => s

def runOps (s : Moasha) (ops : List MOp) : Moasha := ops.foldl applyOp s

/-- **each trial is recorded at most once per rung, and the milestones never change** — in
every reachable state, i.e. after any sequence of operations with any priority functions. -/
theorem moasha_once_per_rung (s : Moasha) (h : s.OK) (ops : List MOp) :
    (runOps s ops).OK ∧
    (runOps s ops).brackets.map (fun b => b.map (·.milestone)) = s.brackets.map (fun b => b.map (·.milestone)) := by
  induction ops generalizing s with
  | nil => exact ⟨h, rfl⟩
  | cons op ops ih =>
    have step : (applyOp s op).OK ∧
        (applyOp s op).brackets.map (fun b => b.map (·.milestone)) = s.brackets.map (fun b => b.map (·.milestone)) := by
      cases op with
      | add tid idx =>
        simp only [applyOp, Moasha.onAdd]
        split
        · rename_i s' hs
          split at hs
          · injection hs with hs; subst hs; exact ⟨h, rfl⟩
          · cases hs
        · exact ⟨h, rfl⟩
      | remove tid =>
        simp only [applyOp, Moasha.onRemove]
        split
        · rename_i s' hs
          split at hs
          · cases hs
          · injection hs with hs; subst hs; exact ⟨h, rfl⟩
        · exact ⟨h, rfl⟩
      | result prio tid cur raw hint =>
        simp only [applyOp]
        split
        · rename_i r hr
          unfold Moasha.onResult at hr
          split at hr
          · injection hr with hr; subst hr
            exact ⟨h, rfl⟩
          · cases hb : s.bracketResult prio tid cur raw hint with
            | error e => rw [hb] at hr; cases hr
            | ok res =>
              rw [hb] at hr
              injection hr with hr; subst hr
              have pr := bracketResult_preserves s res.1 prio tid cur raw hint res.2 hb h
              unfold Moasha.countStop
              split
              · exact ⟨pr.1, pr.2.1⟩
              · exact ⟨pr.1, pr.2.1⟩
        · exact ⟨h, rfl⟩
      | complete prio tid cur raw hint =>
        simp only [applyOp]
        split
        · rename_i r hr
          unfold Moasha.onComplete at hr
          cases hb : s.bracketResult prio tid cur raw hint with
          | error e => rw [hb] at hr; cases hr
          | ok res =>
            rw [hb] at hr
            injection hr with hr; subst hr
            have pr := bracketResult_preserves s res.1 prio tid cur raw hint res.2 hb h
            exact ⟨pr.1, pr.2.1⟩
        · exact ⟨h, rfl⟩
    have := ih (applyOp s op) step.1
    exact ⟨this.1, by rw [show runOps s (op :: ops) = runOps (applyOp s op) ops from rfl, this.2, step.2]⟩

/-- **stop at the maximum resource**: a report with `time_attr ≥ max_t` is answered STOP
without consulting or changing any rung (only `_num_stopped` is incremented). -/
theorem moasha_stop_at_max (s : Moasha) (prio : List Point → Except MErr (List Rat))
    (tid cur : Nat) (raw : Point) (hint : Bool) (h : s.maxT ≤ cur) :
    s.onResult prio tid cur raw hint = .ok (s.countStop .stop, .stop, false) ∧
    (s.countStop .stop).brackets = s.brackets ∧ (s.countStop .stop).trialInfo = s.trialInfo := by
  unfold Moasha.onResult Moasha.countStop
  simp [h]

/-- below `max_t` the scheduler's answer is the answer of the trial's bracket on the
sign-flipped metrics (`mode` per metric), and only that bracket changes. -/
theorem moasha_result_uses_bracket (s s' : Moasha) (prio : List Point → Except MErr (List Rat))
    (tid cur : Nat) (raw : Point) (hint : Bool) (dec : Decision) (fr : Bool) (hlt : cur < s.maxT)
    (h : s.onResult prio tid cur raw hint = .ok (s', dec, fr)) :
    ∃ b rungs rungs', alookup tid s.trialInfo = some b ∧ s.brackets[b]? = some rungs ∧
      bracketScan prio s.rf tid cur (List.zipWith (· * ·) raw s.ops) hint rungs = .ok (rungs', dec, fr) ∧
      s'.brackets = s.brackets.set b rungs' := by
  unfold Moasha.onResult at h
  have : ¬ s.maxT ≤ cur := by omega
  simp only [this, if_false] at h
  unfold Moasha.bracketResult at h
  cases h1 : alookup tid s.trialInfo with
  | none => simp [h1] at h
  | some b =>
    simp only [h1] at h
    cases h2 : s.brackets[b]? with
    | none => simp [h2] at h
    | some rungs =>
      simp only [h2] at h
      cases h3 : bracketScan prio s.rf tid cur (s.signed raw) hint rungs with
      | error e => simp [h3] at h
      | ok res =>
        simp only [h3, Except.ok.injEq, Prod.mk.injEq] at h
        obtain ⟨hs, hd⟩ := h
        refine ⟨b, rungs, res.1, rfl, h2, ?_, ?_⟩
        · unfold Moasha.signed at h3; rw [h3, ← hd]
        · rw [← hs]; unfold Moasha.countStop; split <;> rfl

/-- **composition with `NonDominatedPriority`** (`max_num_samples = None`): the priorities MOASHA
ranks are positions in the non-dominated sort, so an entry of an earlier Pareto layer of the
rung always has a strictly smaller priority than one of a later layer. -/
theorem moasha_nds_layers (pts : List Point) (d : Nat) (hX : Rect pts d)
    (eps : Nat → List Point → List Nat) (hε : EpsOK eps) (p : List Rat)
    (h : prioNDS eps none pts = .ok p)
    (a b : Nat) (la lb : List Nat)
    (ha : (specLayers pts.length (enumFrom 0 pts))[a]? = some la)
    (hb : (specLayers pts.length (enumFrom 0 pts))[b]? = some lb) (hab : a < b)
    (i j : Nat) (hi : i ∈ la) (hj : j ∈ lb) :
    p.length = pts.length ∧ ∃ pi pj, p[i]? = some pi ∧ p[j]? = some pj ∧ pi < pj := by
  unfold prioNDS at h
  cases hn : ndPriority pts eps none with
  | error e => rw [hn] at h; cases h
  | ok pn =>
    rw [hn] at h
    simp only [Except.ok.injEq] at h
    subst h
    obtain ⟨order, _, _, hp⟩ := priority_is_position pts d hX eps hε none pn hn
    obtain ⟨pi, pj, h1, h2, hlt⟩ := priority_layers pts d hX eps hε pn hn a b la lb ha hb hab i j hi hj
    refine ⟨by rw [hp]; simp, (pi : Rat), (pj : Rat), by simp [h1], by simp [h2], by exact_mod_cast hlt⟩

/-- **MOASHA's rank is bounded by the Pareto layers** (`NonDominatedPriority`,
`max_num_samples = None`): if the new entry (the last row) lies in the `b`-th Pareto layer of the
rung, the number of recorded priorities strictly smaller than its own is at least the number of
entries in the layers before `b` and less than that number plus the size of layer `b`.  With
`moasha_rule`: more than `n / rf` entries in strictly earlier layers force STOP; at most `n / rf`
entries in the same or earlier layers (itself included) force CONTINUE. -/
theorem moasha_nds_rank_bounds (pts : List Point) (d : Nat) (hX : Rect pts d)
    (eps : Nat → List Point → List Nat) (hε : EpsOK eps) (ps : List Rat) (v : Rat)
    (h : prioNDS eps none pts = .ok (ps ++ [v]))
    (b : Nat) (lb : List Nat)
    (hb : (specLayers pts.length (enumFrom 0 pts))[b]? = some lb) (hmem : pts.length - 1 ∈ lb) :
    sumLengths ((specLayers pts.length (enumFrom 0 pts)).take b) ≤ ps.countP (fun y => decide (y < v)) ∧
    ps.countP (fun y => decide (y < v)) <
      sumLengths ((specLayers pts.length (enumFrom 0 pts)).take b) + lb.length := by
  unfold prioNDS at h
  cases hn : ndPriority pts eps none with
  | error e => rw [hn] at h; cases h
  | ok pn =>
    rw [hn] at h
    simp only [Except.ok.injEq] at h
    obtain ⟨order, ho, hnd, hp⟩ := priority_is_position pts d hX eps hε none pn hn
    obtain ⟨L, hL, hfor⟩ := layers pts d hX eps hε
    have hr : order = L.flatten := by
      simp only [nondominatedSort, hL, Except.ok.injEq] at ho; exact ho.symm
    obtain ⟨full, hfull, hperm⟩ := sort_perm pts d hX eps hε
    rw [ho] at hfull; injection hfull with hfull; subst hfull
    have hn1 : pts.length = ps.length + 1 := by
      have := congrArg List.length h
      rw [hp] at this
      simpa using this
    generalize hk : ps.length = k at hn1
    rw [hn1] at hp hperm hmem
    simp only [Nat.add_sub_cancel] at hmem
    -- split the priority vector into the recorded part and the new entry
    rw [hp, List.range_succ, List.map_append, List.map_append, List.map_cons, List.map_nil,
      List.map_cons, List.map_nil] at h
    have hsplit := List.append_inj' h (by simp)
    obtain ⟨hps, hv⟩ := hsplit
    simp only [List.cons.injEq, and_true] at hv
    subst hv
    -- the count is the position of the new entry
    have hcount : ps.countP (fun y => decide (y < ((order.idxOf k : Nat) : Rat))) = order.idxOf k := by
      rw [← hps, List.map_map, List.countP_map]
      have e1 : (List.range k).countP ((fun y => decide (y < ((order.idxOf k : Nat) : Rat))) ∘
            ((fun (n : Nat) => (n : Rat)) ∘ fun i => order.idxOf i))
          = (List.range (k + 1)).countP (fun i => decide (order.idxOf i < order.idxOf k)) := by
        rw [List.range_succ, List.countP_append]
        simp only [List.countP_cons, List.countP_nil, Nat.lt_irrefl, decide_false, Bool.false_eq_true,
          if_false, Nat.add_zero]
        apply List.countP_congr
        intro i _
        simp only [Function.comp_apply, decide_eq_true_eq, Nat.cast_lt]
      rw [e1, ← hperm.countP_eq, countP_idxOf_lt order hnd]
      exact Nat.min_eq_left List.idxOf_le_length
    rw [hcount]
    -- the position of the new entry inside the layers
    obtain ⟨lb', hb', hpb⟩ := forall₂_getElem? hfor b lb hb
    have hndL : L.flatten.Nodup := by rw [← hr]; exact hnd
    have hmem' : k ∈ lb' := hpb.mem_iff.mpr hmem
    have hpos := idxOf_flatten_eq L hndL b lb' hb' k hmem'
    have hsum := forall₂_sumLengths_take hfor b
    have hlt := List.idxOf_lt_length_of_mem hmem'
    rw [hr, hpos, ← hsum, ← hpb.length_eq]
    omega

/-! ### non-vacuity: concrete inputs meeting the hypotheses -/

/-- ties and duplicates: `(1,1)` twice and `(0,5)` are non-dominated among
`(3,3),(1,1),(4,4),(2,2),(1,1),(0,5)`; the sort with the recorded ε-net values. -/
example :
    let X : List Point := [[3, 3], [1, 1], [4, 4], [2, 2], [1, 1], [0, 5]]
    Rect X 2 ∧ paretoEfficient X = [false, true, false, false, true, true] ∧
    nondominatedSort X (tapeOracle [[1, 2, 0], [0], [0], [0]]) none = .ok [4, 5, 1, 3, 0, 2] ∧
    nondominatedSort X (tapeOracle [[1, 2, 0], [0]]) (some 4) = .ok [4, 5, 1, 3] ∧
    ndPriority X (tapeOracle [[1, 2, 0]]) (some 3) = .ok [3, 2, 3, 3, 0, 1] := by
  refine ⟨by intro x hx; simp at hx; rcases hx with rfl | rfl | rfl | rfl | rfl | rfl <;> rfl, ?_, ?_, ?_, ?_⟩ <;>
    decide +kernel

/-- the F13 witness: priorities of `(3,3),(1,1),(4,4),(2,2)` are the ranks `2,0,3,1`; with
`rf = 3` the fourth trial `(2,2)` has one of four priorities strictly smaller, `1/4 ≤ 1/3`,
and continues (`moasha_rule` with `ps = [2,0,3]`, `v = 1`). -/
example :
    let rg : MRung := { milestone := 1, recorded := [(0, [3, 3]), (1, [1, 1]), (2, [4, 4])] }
    let prio := prioNDS (tapeOracle [[0], [0], [0], [0]]) none
    prio (rg.recorded.map (·.2) ++ [[2, 2]]) = .ok ([2, 0, 3] ++ [1]) ∧
    cmpRankGt (([2, 0, 3] : List Rat).countP (fun y => decide (y < 1))) 4 3 = .forced false ∧
    ¬ rg.skips 3 1 ∧ rg.OK ∧
    bracketScan prio 3 3 1 [2, 2] true [{ milestone := 3, recorded := [] }, rg]
      = .ok ([{ milestone := 3, recorded := [] }, rg.record 3 [2, 2]], .continue, false) := by
  refine ⟨by decide +kernel, by decide +kernel, by decide +kernel, by simp [MRung.OK], by decide +kernel⟩

end SyneTune.C19
