import SyneTune.Lemmas.Symmetry
import SyneTune.Lemmas.HBPromotion
/-
C15 — minimising f and maximising -f are the same experiment (asynchronous Hyperband family).
Each theorem is a simulation step: running the model in mode `max` on the negated state and
negated metric yields the negation of what mode `min` yields on the original — same
decisions, same picks, same positions.  Hints (used only for comparisons within round-off)
are the same on both sides.
-/
namespace SyneTune.C15
open SyneTune

/-- rung systems whose promotion quantiles lie in (0,1) — holds for every constructed system
(`C03.promote_quantiles_in_unit_interval`). -/
def QOK (rs : List Rung) : Prop := ∀ rg ∈ rs, 0 < rg.q ∧ rg.q < 1

def negSys (s : RungSys) : RungSys :=
  { s with rungs := s.rungs.map negRung, thresholds := s.thresholds.map (fun p => (p.1, -p.2)) }

/-- inserting into a rung commutes with negation (same position) -/
theorem rung_add_symm (rg : Rung) (e : Entry) :
    (negRung rg).add .max (negE e) = negRung (rg.add .min e) := by
  simp only [Rung.add, negRung, insertEntry_neg]

/-- the cutoff (numpy quantile) is negated -/
theorem cutoff_symm (rg : Rung) (hq0 : 0 < rg.q) (hq1 : rg.q < 1) :
    (negRung rg).cutoff .max = (rg.cutoff .min).map (fun x => -x) := cutoff_neg rg hq0 hq1

theorem contains_neg (rg : Rung) (tid : Nat) : (negRung rg).contains tid = rg.contains tid := by
  simp [Rung.contains, negRung, negE, List.any_map, Function.comp_def]

/-- the stopping decision at a rung is the same -/
theorem taskContinues_symm (v : Rat) (rg : Rung) (hint : Bool) (hq0 : 0 < rg.q) (hq1 : rg.q < 1) :
    taskContinues .max (-v) (negRung rg) hint = taskContinues .min v rg hint := by
  unfold taskContinues
  rw [cutoff_symm rg hq0 hq1, scale_neg]
  cases rg.cutoff .min with
  | none => rfl
  | some c => simp only [Option.map_some, cmpNoWorse_neg]

theorem negRung_level (rg : Rung) : (negRung rg).level = rg.level := rfl
theorem negRung_q (rg : Rung) : (negRung rg).q = rg.q := rfl

/-- **Stopping-type scan is symmetric**: same rung reached, same decision, rungs negated. -/
theorem stopScan_symm (tid r : Nat) (v : Rat) (hint : Bool) (next : Nat) (rs : List Rung) (hq : QOK rs) :
    stopScan .max tid r (-v) hint next (rs.map negRung) =
      ((stopScan .min tid r v hint next rs).1.map negRung, (stopScan .min tid r v hint next rs).2) := by
  induction rs generalizing next with
  | nil => simp [stopScan]
  | cons rg rest ih =>
    have hq' : QOK rest := fun x hx => hq x (List.mem_cons_of_mem _ hx)
    have hrg := hq rg (by simp)
    simp only [List.map_cons]
    unfold stopScan
    simp only [negRung_level, contains_neg]
    by_cases h1 : r < rg.level ∨ rg.contains tid = true
    · simp only [h1, if_true, ih rg.level hq', List.map_cons]
    · simp only [h1, if_false]
      by_cases h2 : rg.level < r
      · simp only [h2, if_true, List.map_cons]
      · simp only [h2, if_false, List.map_cons]
        have hadd : (negRung rg).add .max { tid := tid, val := -v } = negRung (rg.add .min { tid := tid, val := v }) := by
          have := rung_add_symm rg { tid := tid, val := v }
          simpa [negE] using this
        rw [hadd]
        have hq2 : 0 < (rg.add .min { tid := tid, val := v }).q ∧ (rg.add .min { tid := tid, val := v }).q < 1 := hrg
        rw [taskContinues_symm v _ hint hq2.1 hq2.2]

/-- **`StoppingRungSystem.on_task_report` is symmetric.** -/
theorem stopping_symm (s : RungSys) (tid r : Nat) (v : Rat) (skip : Nat) (hint : Bool) (hq : QOK s.rungs) :
    (negSys s).stopReport .max tid r (-v) skip hint =
      (negSys (s.stopReport .min tid r v skip hint).1, (s.stopReport .min tid r v skip hint).2) := by
  unfold RungSys.stopReport negSys
  by_cases hr : r = s.maxT
  · simp [hr]
  · simp only [hr, if_false, List.length_map, milestoneRungs]
    have hq' : QOK (s.rungs.take (s.rungs.length - skip)) := fun x hx => hq x (List.mem_of_mem_take hx)
    rw [← List.map_take, stopScan_symm tid r v hint s.maxT _ hq']
    simp [List.map_drop]

/-! ### promotion -/

theorem firstUnpromoted_neg (l : List Entry) (start : Nat) :
    firstUnpromoted (l.map negE) start = (firstUnpromoted l start).map (fun p => (negE p.1, p.2)) := by
  induction l generalizing start with
  | nil => simp [firstUnpromoted]
  | cons x xs ih =>
    simp only [List.map_cons, firstUnpromoted]
    have : (negE x).promoted = x.promoted := rfl
    rw [this]
    split
    · simp
    · exact ih (start + 1)

/-- **Which trial is promotable is symmetric** (ASHA / PASHA rule): same trial, same position. -/
theorem plainPick_symm (rg : Rung) (hint : Option Nat) (hq0 : 0 < rg.q) (hq1 : rg.q < 1) :
    plainPick .max (negRung rg) hint = plainPick .min rg hint := by
  unfold plainPick
  rw [cutoff_symm rg hq0 hq1, scale_neg]
  cases rg.cutoff .min with
  | none => rfl
  | some c =>
    simp only [Option.map_some]
    show (match firstUnpromoted (rg.data.map negE) 0 with | none => none | some (e, pos) => _) = _
    rw [firstUnpromoted_neg]
    cases firstUnpromoted rg.data 0 with
    | none => rfl
    | some ep =>
      obtain ⟨e, pos⟩ := ep
      simp only [Option.map_some, negRung_level]
      have : (negE e).val = -e.val := rfl
      rw [this, cmpNoWorse_neg]
      rfl

theorem markPromoted_symm (rg : Rung) (pos : Nat) :
    markPromoted .max (negRung rg) pos = negRung (markPromoted .min rg pos) := by
  unfold markPromoted
  simp only [negRung, List.getElem?_map]
  cases h : rg.data[pos]? with
  | none => simp
  | some e =>
    simp only [Option.map_some]
    have h1 : ({ negE e with promoted := true } : Entry) = negE { e with promoted := true } := rfl
    have h2 : (rg.data.map negE).eraseIdx pos = (rg.data.eraseIdx pos).map negE := by
      rw [List.eraseIdx_map]
    rw [h1, h2, insertEntry_neg]

/-- **The promotion scan is symmetric** (ASHA / PASHA): the same trial is promoted from the
same rung to the same milestone, or nothing is. -/
theorem promoScan_symm (ty : HBType) (hty : ty.plain) (numThr cap : Nat) (hint : Option Nat) (next : Nat)
    (thr thr' : List (Nat × Rat)) (rs : List Rung) (hq : QOK rs) :
    (promoScan ty .max numThr cap hint next thr' (rs.map negRung)).out
        = (promoScan ty .min numThr cap hint next thr rs).out ∧
    (promoScan ty .max numThr cap hint next thr' (rs.map negRung)).rungs
        = (promoScan ty .min numThr cap hint next thr rs).rungs.map negRung := by
  induction rs generalizing next thr thr' with
  | nil => simp [promoScan]
  | cons rg rest ih =>
    have hq' : QOK rest := fun x hx => hq x (List.mem_cons_of_mem _ hx)
    have hrg := hq rg (by simp)
    simp only [List.map_cons]
    unfold promoScan
    simp only [negRung_level]
    have p1 := findPromotable_plain ty hty .max numThr thr' (negRung rg) hint
    have p2 := findPromotable_plain ty hty .min numThr thr rg hint
    by_cases hc : rg.level < cap
    · simp only [hc, if_true]
      rw [p1.1, p2.1, plainPick_symm rg hint hrg.1 hrg.2]
      cases plainPick .min rg hint with
      | some tp =>
        obtain ⟨tid, pos⟩ := tp
        simp only [List.map_cons, markPromoted_symm, and_self]
      | none =>
        simp only
        have := ih rg.level (findPromotable ty .min numThr thr rg hint).thr
          (findPromotable ty .max numThr thr' (negRung rg) hint).thr hq'
        simp only [this.1, this.2, List.map_cons, and_self]
    · simp only [hc, if_false]
      have := ih rg.level thr thr' hq'
      simp only [this.1, this.2, List.map_cons, and_self]

/-- **Recording a result at a milestone is symmetric.** -/
theorem promoReport_symm (s : RungSys) (tid r : Nat) (v cost : Rat) :
    (negSys s).promoReport .max tid r (-v) cost =
      (match s.promoReport .min tid r v cost with
       | .ok res => .ok (negSys res.1, res.2)
       | .error e => .error e) := by
  unfold RungSys.promoReport
  have hrun : (negSys s).running = s.running := rfl
  rw [hrun]
  cases alookup tid s.running with
  | none => rfl
  | some mr =>
    simp only
    by_cases h1 : mr.1 ≤ r
    · simp only [h1, if_true]
      by_cases h2 : r ≠ mr.1
      · simp only [h2, ne_eq, not_false_eq_true, if_true]
      · simp only [h2, if_false]
        unfold RungSys.promoReached
        have hpos : rungPos (negSys s).rungs mr.1 = rungPos s.rungs mr.1 := by
          simp only [rungPos, negSys, List.findIdx?_map]
          rfl
        rw [hpos]
        cases rungPos s.rungs mr.1 with
        | none => rfl
        | some pos =>
          simp only [negSys, List.getElem?_map]
          cases hg : s.rungs[pos]? with
          | none => rfl
          | some rg =>
            simp only [Option.map_some, contains_neg]
            by_cases hc : rg.contains tid = true
            · simp [hc]
            · simp only [hc, Bool.false_eq_true, if_false]
              have hadd : (negRung rg).add .max { tid := tid, val := -v, cost := cost }
                  = negRung (rg.add .min { tid := tid, val := v, cost := cost }) := by
                have := rung_add_symm rg { tid := tid, val := v, cost := cost }
                simpa [negE] using this
              have hnext : nextAbove (s.rungs.map negRung) pos s.maxT = nextAbove s.rungs pos s.maxT := by
                unfold nextAbove
                simp only [List.getElem?_map]
                cases s.rungs[pos - 1]? <;> rfl
              simp only [hadd, hnext, List.map_set]
    · simp only [h1, if_false]

/-! ### RUSH and cost -/

theorem rushBetter_symm (thr : Option Rat) (v : Rat) :
    rushBetter .max (thr.map (fun x => -x)) (-v) = -(rushBetter .min thr v) := by
  cases thr with
  | none => rfl
  | some t =>
    simp only [Option.map_some, rushBetter]
    by_cases h : v < t
    · have : -t < -v := by linarith
      simp [h, this]
    · have : ¬ (-t < -v) := by linarith
      simp [h, this]

theorem alookup_map_neg (k : Nat) (l : List (Nat × Rat)) :
    alookup k (l.map (fun p => (p.1, -p.2))) = (alookup k l).map (fun x => -x) := by
  induction l with
  | nil => rfl
  | cons x xs ih =>
    simp only [List.map_cons, alookup]
    split <;> simp [ih]

theorem aset_map_neg (k : Nat) (v : Rat) (l : List (Nat × Rat)) :
    aset k (-v) (l.map (fun p => (p.1, -p.2))) = (aset k v l).map (fun p => (p.1, -p.2)) := by
  induction l with
  | nil => rfl
  | cons x xs ih =>
    simp only [List.map_cons, aset]
    split <;> simp [ih]

/-- **The RUSH threshold rule is symmetric** (thresholds negated). -/
theorem rush_symm (numThr : Nat) (thr : List (Nat × Rat)) (tc : Bool) (tid : Nat) (v : Rat) (res : Nat) :
    rushDecide .max numThr (thr.map (fun p => (p.1, -p.2))) tc tid (-v) res =
      ((rushDecide .min numThr thr tc tid v res).1,
       (rushDecide .min numThr thr tc tid v res).2.map (fun p => (p.1, -p.2))) := by
  unfold rushDecide
  cases tc with
  | false => simp
  | true =>
    simp only [Bool.not_true, Bool.false_eq_true, if_false]
    by_cases h : tid < numThr
    · simp only [h, if_true, alookup_map_neg, rushBetter_symm, aset_map_neg]
    · simp only [h, if_false, alookup_map_neg, rushBetter_symm, neg_inj]

/-- **Cost-aware promotion does not look at the metric sign**: the cost scan on the negated
rung is the cost scan on the original (entries negated in the result). -/
theorem cost_symm (threshold total : Rat) (level : Nat) (hint : Option Nat) (data : List Entry)
    (pos : Nat) (acc : Rat) :
    costFirstPromotable threshold total level hint (data.map negE) pos acc =
      ((costFirstPromotable threshold total level hint data pos acc).1.map (fun p => (negE p.1, p.2)),
       (costFirstPromotable threshold total level hint data pos acc).2) := by
  induction data generalizing pos acc with
  | nil => rfl
  | cons x xs ih =>
    simp only [List.map_cons, costFirstPromotable]
    have h1 : (negE x).cost = x.cost := rfl
    have h2 : (negE x).promoted = x.promoted := rfl
    rw [h1, h2]
    split
    · rfl
    · split
      · rfl
      · rw [ih]

/-! ### non-vacuity -/

example : QOK (mkRungSys [1, 3] (promoteQuantiles [1, 3] 9) 9).rungs := by
  intro rg hrg
  simp [mkRungSys, promoteQuantiles] at hrg
  rcases hrg with rfl | rfl <;> norm_num

end SyneTune.C15
