import SyneTune.Model.SearcherState
import SyneTune.Lemmas.HBStopping
/-
C14 — multi-fidelity surrogate data: each observation once, only live pending entries.
Model: `Model/SearcherState.lean` (searcher side), `Model/HB.lean` (`_update_searcher`,
`largest_update_resource`, pending registration, `on_trial_complete/error`).
-/
namespace SyneTune.C14
open SyneTune

/-! ### association lists behave like Python dicts -/

def KeysNodup {β} (l : List (Nat × β)) : Prop := (l.map (·.1)).Nodup

theorem aset_keys {β} (k : Nat) (v : β) (l : List (Nat × β)) :
    (aset k v l).map (·.1) = if k ∈ l.map (·.1) then l.map (·.1) else l.map (·.1) ++ [k] := by
  induction l with
  | nil => simp [aset]
  | cons x xs ih =>
    obtain ⟨k', v'⟩ := x
    unfold aset
    by_cases h : k = k'
    · subst h; simp
    · simp only [h, if_false, List.map_cons, ih]
      by_cases hm : k ∈ xs.map (·.1)
      · simp [hm]
      · simp [hm, h]

theorem aset_keysNodup {β} (k : Nat) (v : β) (l : List (Nat × β)) (h : KeysNodup l) :
    KeysNodup (aset k v l) := by
  unfold KeysNodup at *
  rw [aset_keys]
  split
  · exact h
  · rename_i hk
    rw [List.nodup_append]
    refine ⟨h, by simp, ?_⟩
    intro a ha b hb
    simp at hb; subst hb
    intro hab; subst hab; exact hk ha

theorem alookup_aset {β} (k k' : Nat) (v : β) (l : List (Nat × β)) :
    alookup k' (aset k v l) = if k' = k then some v else alookup k' l := by
  induction l with
  | nil => simp [aset, alookup]
  | cons x xs ih =>
    obtain ⟨a, b⟩ := x
    unfold aset
    by_cases h : k = a
    · subst h
      by_cases h2 : k' = k
      · simp [alookup, h2]
      · simp [alookup, h2]
    · simp only [h, if_false, alookup]
      by_cases h3 : k' = a
      · subst h3
        have : ¬ k' = k := fun e => h e.symm
        simp [this]
      · simp only [h3, if_false, ih]

theorem adel_keysNodup {β} (k : Nat) (l : List (Nat × β)) (h : KeysNodup l) : KeysNodup (adel k l) := by
  unfold KeysNodup at *
  induction l with
  | nil => simp [adel]
  | cons x xs ih =>
    obtain ⟨a, b⟩ := x
    unfold adel
    simp only [List.map_cons, List.nodup_cons] at h
    by_cases hk : k = a
    · simp only [hk, if_true]; exact h.2
    · simp only [hk, if_false, List.map_cons, List.nodup_cons]
      refine ⟨?_, ih h.2⟩
      intro hm
      apply h.1
      clear ih h
      induction xs with
      | nil => simp [adel] at hm
      | cons y ys ihy =>
        obtain ⟨c, d⟩ := y
        unfold adel at hm
        by_cases hc : k = c
        · simp only [hc, if_true] at hm; exact List.mem_cons_of_mem _ hm
        · simp only [hc, if_false, List.map_cons, List.mem_cons] at hm
          rcases hm with hm | hm
          · rw [hm]; exact List.mem_cons_self ..
          · exact List.mem_cons_of_mem _ (ihy hm)

/-! ### the data set: at most one observation per (trial, level) -/

/-- the data set is well-formed: one record per trial, one value per level -/
def ObsWF (st : SState) : Prop :=
  KeysNodup st.observed ∧ ∀ t ms, (t, ms) ∈ st.observed → KeysNodup ms

theorem mem_aset {β} (k : Nat) (v : β) (l : List (Nat × β)) (x : Nat × β) (hx : x ∈ aset k v l) :
    x = (k, v) ∨ x ∈ l := by
  induction l with
  | nil => simp [aset] at hx; exact Or.inl hx
  | cons y ys ih =>
    obtain ⟨a, b⟩ := y
    unfold aset at hx
    by_cases h : k = a
    · simp only [h, if_true, List.mem_cons] at hx
      rcases hx with hx | hx
      · left; rw [hx, h]
      · right; exact List.mem_cons_of_mem _ hx
    · simp only [h, if_false, List.mem_cons] at hx
      rcases hx with hx | hx
      · right; rw [hx]; simp
      · rcases ih hx with h1 | h1
        · exact Or.inl h1
        · exact Or.inr (List.mem_cons_of_mem _ h1)

theorem alookup_mem {β} (k : Nat) (v : β) (l : List (Nat × β)) (h : alookup k l = some v) : (k, v) ∈ l := by
  induction l with
  | nil => simp [alookup] at h
  | cons y ys ih =>
    obtain ⟨a, b⟩ := y
    unfold alookup at h
    by_cases hk : k = a
    · simp only [hk, if_true, Option.some.injEq] at h; subst h; subst hk; simp
    · simp only [hk, if_false] at h; exact List.mem_cons_of_mem _ (ih h)

/-- **At most one observation per trial and level** is an invariant of every searcher call,
hence of every history. -/
theorem apply_preserves_wf (st st' : SState) (c : SCall) (h : st.apply c = .ok st') (hw : ObsWF st) :
    ObsWF st' := by
  obtain ⟨w1, w2⟩ := hw
  have hms : ∀ t ms, alookup t st.observed = some ms → KeysNodup ms :=
    fun t ms h => w2 t ms (alookup_mem t ms _ h)
  cases c with
  | pending t r =>
    simp only [SState.apply] at h
    split at h
    · injection h with h; subst h; exact ⟨w1, w2⟩
    · split at h
      · cases h
      · injection h with h; subst h; exact ⟨w1, w2⟩
  | update t r v upd =>
    simp only [SState.apply] at h
    split at h
    · injection h with h; subst h
      unfold SState.label
      refine ⟨aset_keysNodup _ _ _ w1, ?_⟩
      intro t' ms' hm
      rcases mem_aset _ _ _ _ hm with h1 | h1
      · injection h1 with _ h1; subst h1
        apply aset_keysNodup
        cases hl : alookup t st.observed with
        | none => simp [KeysNodup]
        | some ms => exact hms t ms hl
      · exact w2 t' ms' h1
    · injection h with h; subst h; exact ⟨w1, w2⟩
  | removeCase t r v =>
    simp only [SState.apply] at h
    cases hl : alookup t st.observed with
    | none => simp [hl] at h
    | some ms =>
      simp only [hl] at h
      split at h
      · cases h
      · injection h with h; subst h
        refine ⟨aset_keysNodup _ _ _ w1, ?_⟩
        intro t' ms' hm
        rcases mem_aset _ _ _ _ hm with h1 | h1
        · injection h1 with _ h1; subst h1
          exact adel_keysNodup _ _ (hms t ms hl)
        · exact w2 t' ms' h1
  | cleanup t =>
    simp only [SState.apply] at h
    injection h with h; subst h; exact ⟨w1, w2⟩
  | evalFailed t =>
    simp only [SState.apply] at h
    injection h with h; subst h
    split <;> exact ⟨w1, w2⟩

theorem applyAll_preserves_wf (st st' : SState) (cs : List SCall) (h : st.applyAll cs = .ok st')
    (hw : ObsWF st) : ObsWF st' := by
  induction cs generalizing st with
  | nil => simp [SState.applyAll] at h; subst h; exact hw
  | cons c cs ih =>
    unfold SState.applyAll at h
    cases hc : st.apply c with
    | error e => simp [hc] at h
    | ok s1 => simp only [hc] at h; exact ih s1 h (apply_preserves_wf st s1 c hc hw)

/-- **The stored value is the reported one.**  After `update(t, r, v, update=True)` the
observation at `(t, r)` is `v` in the minimisation convention; every other (trial, level)
keeps its observation. -/
theorem observation_value (st : SState) (t r : Nat) (v : Rat) (t' r' : Nat) :
    let st' := st.label t r (st.crit v)
    (alookup t' st'.observed).bind (alookup r') =
      if t' = t ∧ r' = r then some (st.crit v) else (alookup t' st.observed).bind (alookup r') := by
  intro st'
  show (alookup t' (aset t _ st.observed)).bind (alookup r') = _
  rw [alookup_aset]
  by_cases ht : t' = t
  · subst ht
    simp only [if_true, Option.bind_some, true_and, alookup_aset]
    by_cases hr : r' = r
    · simp [hr]
    · simp only [hr, if_false]
      cases alookup t' st.observed <;> simp [alookup]
  · simp [ht]

/-! ### pending evaluations -/

theorem dropPending_others (t r : Nat) (l : List (Nat × Nat)) (p : Nat × Nat) (hp : p.1 ≠ t) :
    p ∈ dropPending t r l ↔ p ∈ l := by
  induction l with
  | nil => simp [dropPending]
  | cons x xs ih =>
    unfold dropPending
    by_cases hx : (x.1 == t && x.2 == r) = true
    · simp only [hx, if_true, List.mem_cons]
      constructor
      · exact Or.inr
      · rintro (h | h)
        · exfalso; simp at hx; rw [h] at hp; exact hp hx.1
        · exact h
    · simp only [hx, Bool.false_eq_true, if_false, List.mem_cons, ih]

theorem dropPending_filter_others (t r : Nat) (l : List (Nat × Nat)) :
    (dropPending t r l).filter (fun p => p.1 != t) = l.filter (fun p => p.1 != t) := by
  induction l with
  | nil => simp [dropPending]
  | cons x xs ih =>
    unfold dropPending
    by_cases hx : (x.1 == t && x.2 == r) = true
    · simp only [hx, if_true]
      have : (x.1 != t) = false := by simp at hx; simp [hx.1]
      simp [this]
    · simp only [hx, Bool.false_eq_true, if_false, List.filter_cons, ih]

/-- **An observation removes only the matching pending entry**: pending evaluations of all
other trials are untouched (same entries, same order). -/
theorem label_keeps_others (st : SState) (t r : Nat) (c : Rat) :
    (st.label t r c).pending.filter (fun p => p.1 != t) = st.pending.filter (fun p => p.1 != t) :=
  dropPending_filter_others t r st.pending

/-- **When a trial completes or fails, its pending evaluations disappear and everybody
else's stay exactly as they were.** -/
theorem cleanup_spec (st : SState) (t : Nat) :
    (∀ p ∈ (st.cleanupPending t).pending, p.1 ≠ t) ∧
    (st.cleanupPending t).pending.filter (fun p => p.1 != t) = st.pending.filter (fun p => p.1 != t) ∧
    (st.cleanupPending t).observed = st.observed := by
  unfold SState.cleanupPending
  refine ⟨?_, ?_, rfl⟩
  · intro p hp
    simp only [List.mem_filter, bne_iff_ne, ne_eq] at hp
    exact hp.2
  · simp [List.filter_filter]

/-- scheduler side: `on_trial_complete` always ends with `cleanup_pending(trial)`, and
`on_trial_error` issues `evaluation_failed(trial)`. -/
theorem complete_calls_cleanup (s s' : Sched) (tid r : Nat) (v : Rat) (calls : List SCall)
    (h : s.onComplete tid r v = .ok (s', calls)) : calls.getLast? = some (SCall.cleanup tid) := by
  unfold Sched.onComplete at h
  cases hl : alookup tid s.active with
  | none => simp [hl] at h
  | some rec =>
    simp only [hl] at h
    injection h with h
    injection h with _ h2
    rw [← h2]; simp

theorem error_calls_failed (s : Sched) (tid : Nat) : (s.onError tid).2 = [SCall.evalFailed tid] := rfl

/-- composition for failure: after `evaluation_failed` the failed trial has no pending
entry, the others' pending entries and all observations are unchanged. -/
theorem failed_spec (st st' : SState) (t : Nat) (h : st.apply (.evalFailed t) = .ok st') :
    (∀ p ∈ st'.pending, p.1 ≠ t) ∧
    st'.pending.filter (fun p => p.1 != t) = st.pending.filter (fun p => p.1 != t) ∧
    st'.observed = st.observed ∧ t ∈ st'.failed := by
  simp only [SState.apply] at h
  injection h with h
  obtain ⟨c1, c2, c3⟩ := cleanup_spec st t
  subst h
  split
  · rename_i hc
    exact ⟨c1, c2, c3, by simpa using hc⟩
  · exact ⟨c1, c2, c3, by simp⟩

/-- registering a pending evaluation never duplicates an entry and is refused for a level
that already has an observation. -/
theorem register_pending_spec (st st' : SState) (t r : Nat) (h : st.apply (.pending t r) = .ok st') :
    st'.isPending t r = true ∧ (st.isPending t r = true → st' = st) ∧
    (st.isPending t r = false → st.isLabeled t r = false ∧ st'.pending = st.pending ++ [(t, r)]) := by
  simp only [SState.apply] at h
  by_cases hp : st.isPending t r = true
  · simp only [hp, if_true] at h
    injection h with h; subst h
    exact ⟨hp, fun _ => rfl, fun hc => by rw [hp] at hc; cases hc⟩
  · simp only [hp, Bool.false_eq_true, if_false] at h
    by_cases hl : st.isLabeled t r = true
    · simp [hl] at h
    · simp only [hl, Bool.false_eq_true, if_false] at h
      injection h with h; subst h
      refine ⟨?_, fun hc => absurd hc hp, fun _ => ⟨by simpa using hl, rfl⟩⟩
      simp [SState.isPending]

/-! ### scheduler side: every level is passed to the model at most once -/

/-- `update=True` is issued for `(t, r)` only if `r` differs from the trial's
`largest_update_resource`, which is then set to `r`; together with the assertion
`largest_update_resource ≤ r` this makes the updated levels of a trial strictly
increasing — each (trial, level) is passed to the model at most once, re-reports of a
resumed trial are ignored. -/
theorem update_strictly_increasing (rec : TrialInfo) (r : Nat) (v : Rat) (o : RepOut) (doUpd : Bool)
    (hle : rec.lastUpdate r ≤ r) :
    ((rec.afterReport r v o doUpd).1 = true →
        doUpd = true ∧ rec.lastUpdate r < r ∧ (rec.afterReport r v o doUpd).2.largestUpdate = some r) ∧
    ((rec.afterReport r v o doUpd).1 = false →
        (rec.afterReport r v o doUpd).2.largestUpdate = rec.largestUpdate) := by
  unfold TrialInfo.afterReport
  cases doUpd with
  | false => simp
  | true =>
    simp only [if_true]
    by_cases he : r = rec.lastUpdate r
    · simp [← he]
    · simp only [he, if_false, true_and, Bool.true_eq_false, false_implies, and_true]
      intro _; omega

/-- the data policy `rungs`: a result is passed to the model only at rung levels or `max_t`. -/
theorem policy_rungs (s : Sched) (tid r : Nat) (v : Rat) (o : RepOut) (rec : TrialInfo)
    (h : s.searcherData = .rungs) :
    (s.updateSearcher tid r v o rec).1 = true ↔ (r ∈ s.mgr.rungLevels ∨ r = s.mgr.maxT) := by
  unfold Sched.updateSearcher
  simp only [h]
  split <;> simp_all

/-- the data policies `all` / `rungs_and_last`: every non-ignored result is passed on. -/
theorem policy_all (s : Sched) (tid r : Nat) (v : Rat) (o : RepOut) (rec : TrialInfo)
    (h : s.searcherData ≠ .rungs) :
    (s.updateSearcher tid r v o rec).1 = !o.ignoreData := by
  unfold Sched.updateSearcher
  cases hs : s.searcherData with
  | rungs => exact absurd hs h
  | all => simp only; split <;> simp_all
  | rungsAndLast => simp only; split <;> simp_all

/-- `rungs_and_last`: the previously stored result of the trial is removed iff it was not
at a rung level (`keep_case` false). -/
theorem policy_rungs_and_last (s : Sched) (tid r : Nat) (v : Rat) (o : RepOut) (rec : TrialInfo)
    (h : s.searcherData = .rungsAndLast) (hig : o.ignoreData = false) (pv : Rat) (pr : Nat)
    (hrep : rec.reported = some (pv, pr)) :
    (SCall.removeCase tid pr pv ∈ (s.updateSearcher tid r v o rec).2 ↔ rec.keepCase = false) := by
  unfold Sched.updateSearcher
  simp only [h, hig, Bool.false_eq_true, if_false, hrep]
  cases hk : rec.keepCase <;> simp

/-! ### non-vacuity -/

example : ObsWF { mode := .min } := ⟨by simp [KeysNodup], by simp⟩

example : (({ mode := .max, pending := [(0, 1), (1, 1), (2, 3)] } : SState).cleanupPending 1).pending
    = [(0, 1), (2, 3)] := by decide

end SyneTune.C14
