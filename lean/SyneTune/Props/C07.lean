import SyneTune.Lemmas.DomainsRange
/-
C07 — Domains: samples and decoded vectors are members; encoding round-trips.
Property theorems only; helper lemmas are in `Lemmas/Domains*.lean`.
Models: `Model/Domains.lean` (config_space.py), `Model/Encoding.lean` (hp_ranges*.py, scaling.py).

Reading guide.  `Env` holds the abstract `exp`/`log` (`Scaling` = pair of functions on ℚ); the
linear scaling is the identity and needs no hypothesis.  `Consts` holds the literals `EPS`,
`0.499`, `0.01` (inputs).  `mkSpace env c hps pk nl vl = .ok sp` says that
`make_hyperparameter_ranges` accepted the space `hps` (with its `active_config_space` entries,
`prefix_keys`, `name_last_pos`, `value_for_last_pos`); `sp.entries` are the per-hyperparameter
encoders in internal order.  `Domain.ok` is what the public constructors accept.
`Domain.member env d v`: right type, inside the bounds / among the listed values.
-/
namespace SyneTune.C07
open SyneTune SyneTune.Dom

/-! ### decoded vectors are members -/

/-- **decode_member.** For every accepted space and every vector of the advertised length whose
coordinates lie in `[-EPS, 1+EPS]` (in particular every point of the unit cube, corners
included), `from_ndarray` succeeds and every decoded value is a member of its domain — for every
scaling whatsoever (the code clips), every kind, degenerate ones included. -/
theorem decode_member {env : Env} {c : Consts} {hps : List HP} {pk : Option (List String)}
    {nl : Option String} {vl : Option Val} {sp : Space}
    (hok : ∀ h ∈ hps, h.dom.ok = true) (hsp : mkSpace env c hps pk nl vl = .ok sp)
    (xs : List ℚ) (hlen : xs.length = sp.ndarraySize) (hx : ∀ x ∈ xs, -c.eps ≤ x ∧ x ≤ 1 + c.eps) :
    ∃ cfg, sp.decode env c xs = .ok cfg ∧
      List.Forall₂ (fun e kv => kv.1 = e.1 ∧ ∃ h ∈ hps, h.name = e.1 ∧ h.dom.member env kv.2 = true)
        sp.entries cfg := by
  have hspec := mkSpace_spec hsp
  obtain ⟨cfg, hcfg, hall⟩ := decodeAll_spec (env := env) (c := c) (Q := InMargin c)
    (P := fun k _ v => ∃ h ∈ hps, h.name = k ∧ h.dom.member env v = true) sp.entries
    (by
      intro e he ys hys hq
      obtain ⟨h, hm, hn, hr⟩ := hspec e he
      obtain ⟨v, hv, hmem⟩ := range_decode_member (hok h hm) hr ys hys hq
      exact ⟨v, hv, h, hm, hn, hmem⟩)
    xs hlen hx
  refine ⟨cfg, ?_, hall⟩
  unfold Space.decode
  simp only [hlen, if_true, hcfg]

/-- a vector of the wrong length is rejected (`assert enc_config.size == self._ndarray_size`) -/
theorem decode_wrong_length {env : Env} {c : Consts} {sp : Space} (xs : List ℚ)
    (hlen : xs.length ≠ sp.ndarraySize) : sp.decode env c xs = .error .assertion := by
  unfold Space.decode; simp only [hlen, if_false]

/-- **outside `[-EPS, 1+EPS]` the code rejects** — every encoder except the one-hot one, which
only looks at the arg max of its slice. -/
theorem decode_rejects_outside {env : Env} {c : Consts} {h : HP} {r : Range}
    (hmk : mkRange env c h = .ok r) (hne : ∀ o, r ≠ .onehot o) {x : ℚ}
    (hx : ¬ (-c.eps ≤ x ∧ x ≤ 1 + c.eps)) : r.decode env c [x] = .error .assertion :=
  range_decode_reject hmk hne hx

/-! ### encodings lie in the unit cube and have the advertised length -/

/-- **encode_cube.** Whenever `to_ndarray` returns, the vector has length `ndarray_size` and lies
in `[0,1]^d` — every scaling, every kind. (That it does return for member configurations is part
of `roundtrip_partial`.) -/
theorem encode_cube {env : Env} {c : Consts} {sp : Space} {cfg : Config} {xs : List ℚ}
    (h : sp.encode env c cfg = .ok xs) : xs.length = sp.ndarraySize ∧ ∀ x ∈ xs, 0 ≤ x ∧ x ≤ 1 :=
  encodeAll_spec sp.entries (fun _ _ _ _ he => range_encode_cube he) h

/-! ### round trip -/

/- Full statement (property text): `from_ndarray (to_ndarray cfg) = cfg` for every member
configuration of every space, exactly for integer / finite / categorical / ordinal kinds and (over
the reals) for continuous ones.  What is proved: exactly that, with two explicit restrictions —
(1) for log / reverse-log scaled kinds the hypotheses `ScalingHyp` on the abstract `exp`/`log`
(inverse on the range, monotone; `scalingHyp_lin` discharges them for linear kinds), and
(2) `RTVal` excludes log-spaced finite ranges with `cast_int=True`, for which the statement is
false (`roundtrip_logfin_castint_counterexample`). -/
/-- **roundtrip (partial).** A configuration that assigns every hyperparameter a member value is
encodable, the encoding has the advertised length, and it decodes back to the same values. -/
theorem roundtrip_partial {env : Env} {c : Consts} {hps : List HP} {pk : Option (List String)}
    {nl : Option String} {vl : Option Val} {sp : Space}
    (hok : ∀ h ∈ hps, h.dom.ok = true) (hsp : mkSpace env c hps pk nl vl = .ok sp)
    (heps : 0 ≤ c.eps) (heps2 : c.eps ≤ 1 / 2) (hs : ∀ h ∈ hps, ScalingHyp env c h.dom)
    (cfg : Config) (hcfg : ∀ h ∈ hps, ∃ v, lookupS h.name cfg = some v ∧ RTVal env h.dom v) :
    ∃ xs, sp.encode env c cfg = .ok xs ∧ xs.length = sp.ndarraySize ∧
      ∃ out, sp.decode env c xs = .ok out ∧
        List.Forall₂ (fun e kv => kv.1 = e.1 ∧ lookupS e.1 cfg = some kv.2) sp.entries out := by
  have hspec := mkSpace_spec hsp
  obtain ⟨xs, h1, h2, out, h3, h4⟩ := roundtripAll_spec (env := env) (c := c)
    (M := fun k r v => ∃ h ∈ hps, h.name = k ∧ mkRange env c h = .ok r ∧ RTVal env h.dom v) sp.entries
    (by
      intro e _ v ⟨h, hm, _, hr, hv⟩
      exact range_roundtrip (hok h hm) hr heps heps2 (hs h hm) hv)
    cfg
    (by
      intro e he
      obtain ⟨h, hm, hn, hr⟩ := hspec e he
      obtain ⟨v, hv, hrt⟩ := hcfg h hm
      exact ⟨v, by rw [← hn]; exact hv, h, hm, hn, hr, hrt⟩)
  refine ⟨xs, h1, h2, out, ?_, h4⟩
  unfold Space.decode
  have : xs.length = sp.ndarraySize := h2
  simp only [this, if_true, h3]

/-- kinds whose encoder and sampler use the linear scaling only -/
def Linear : Domain → Prop
  | .flt d => d.scale = .lin ∨ d.q.isSome = true
  | .int d => d.scale = .lin ∨ d.q.isSome = true
  | .nn d => d.log = false
  | .fin d => d.log = false
  | .cat _ => True

/-- the scaling hypotheses hold outright for linear kinds: uniform, randint, quantised kinds
(encoded linearly), choice, ordinal equal / nn, finrange -/
theorem scalingHyp_lin (env : Env) (c : Consts) {d : Domain} (h : Linear d) : ScalingHyp env c d := by
  cases d with
  | flt f =>
    have : (Domain.flt f).encScale = .lin := by
      rcases h with h | h
      · simp [Domain.encScale, Domain.isLog, Domain.isRLog, h]
      · have hq : f.q.isNone = false := by cases hq : f.q <;> simp_all
        simp [Domain.encScale, Domain.isLog, Domain.isRLog, hq]
    simp only [ScalingHyp, this]; exact scaleOK_lin _ _ _
  | int f =>
    have : (Domain.int f).encScale = .lin := by
      rcases h with h | h
      · simp [Domain.encScale, Domain.isLog, Domain.isRLog, h]
      · have hq : f.q.isNone = false := by cases hq : f.q <;> simp_all
        simp [Domain.encScale, Domain.isLog, Domain.isRLog, hq]
    simp only [ScalingHyp, this]; exact scaleOK_lin _ _ _
  | nn f =>
    simp only [ScalingHyp, LogMono]
    intro hl; rw [h] at hl; cases hl
  | fin f =>
    simp only [ScalingHyp]
    intro hl; rw [h] at hl; cases hl
  | cat f => trivial

/-- **roundtrip, linear kinds: unconditional and exact** (no hypothesis on `exp`/`log`; includes
`cast_int` finite ranges, integer ranges of any size, all categorical encodings) -/
theorem roundtrip_linear {env : Env} {c : Consts} {hps : List HP} {pk : Option (List String)}
    {nl : Option String} {vl : Option Val} {sp : Space}
    (hok : ∀ h ∈ hps, h.dom.ok = true) (hlin : ∀ h ∈ hps, Linear h.dom)
    (hsp : mkSpace env c hps pk nl vl = .ok sp) (heps : 0 ≤ c.eps) (heps2 : c.eps ≤ 1 / 2)
    (cfg : Config) (hcfg : ∀ h ∈ hps, ∃ v, lookupS h.name cfg = some v ∧ h.dom.member env v = true) :
    ∃ xs, sp.encode env c cfg = .ok xs ∧ xs.length = sp.ndarraySize ∧
      ∃ out, sp.decode env c xs = .ok out ∧
        List.Forall₂ (fun e kv => kv.1 = e.1 ∧ lookupS e.1 cfg = some kv.2) sp.entries out := by
  refine roundtrip_partial hok hsp heps heps2 (fun h hm => scalingHyp_lin env c (hlin h hm)) cfg ?_
  intro h hm
  obtain ⟨v, hv, hmem⟩ := hcfg h hm
  refine ⟨v, hv, hmem, ?_⟩
  have := hlin h hm
  cases hd : h.dom with
  | fin f => rw [hd] at this; intro _; exact this
  | flt _ => trivial
  | int _ => trivial
  | cat _ => trivial
  | nn _ => trivial

/-! ### active sub-ranges -/

/-- the domain a value decoded inside the bounds box has to belong to: the entry of
`active_config_space` when there is one, else the domain itself -/
def targetDomain (h : HP) : Domain := h.active.getD h.dom

/-- every one-hot slice of the vector has a positive coordinate -/
def PosOneHot : List (String × Range) → List ℚ → Prop :=
  Slices (fun e ys => (∃ o, e.2 = .onehot o) → ∃ x ∈ ys, 0 < x)

/-- **active_onehot (partial).** One-hot categorical with active categories: inside the bounds
box, if some coordinate is positive, the decoded category is an active one. -/
theorem active_onehot_partial {choices act : List Val} {r : OneHot}
    (h : mkOneHot choices (some act) = .ok r) {xs : List ℚ} (hbox : InBox xs r.bounds)
    (hpos : ∃ x ∈ xs, 0 < x) : ∃ v, r.decode xs = .ok v ∧ v ∈ choices ∧ pyIn v act = true :=
  onehot_active_partial h hbox hpos

/-- **active_onehot, full statement refuted (F7):** `choice(["a","b","c","d"])` with active
`choice(["b","c"])`: the bounds are `[(0,0),(0,1),(0,1),(0,0)]`, the all-zero corner lies in the
box and decodes to the inactive category `"a"`. -/
theorem active_onehot_counterexample :
    ¬ (∀ (choices act : List Val) (r : OneHot) (xs : List ℚ), mkOneHot choices (some act) = .ok r →
        InBox xs r.bounds → ∃ v, r.decode xs = .ok v ∧ pyIn v act = true) := by
  intro hall
  have hmk : mkOneHot [.str "a", .str "b", .str "c", .str "d"] (some [.str "b", .str "c"]) =
      .ok ⟨[.str "a", .str "b", .str "c", .str "d"], [(0, 0), (0, 1), (0, 1), (0, 0)]⟩ := by rfl
  have hbox : InBox [0, 0, 0, 0] [((0 : ℚ), (0 : ℚ)), (0, 1), (0, 1), (0, 0)] := by
    refine ⟨rfl, ?_⟩
    intro i hi hb
    simp only [List.length_cons, List.length_nil] at hi
    have : i = 0 ∨ i = 1 ∨ i = 2 ∨ i = 3 := by omega
    rcases this with rfl | rfl | rfl | rfl <;> norm_num
  obtain ⟨v, hv, hin⟩ := hall _ _ _ _ hmk hbox
  have hdec : (OneHot.mk [.str "a", .str "b", .str "c", .str "d"] [(0, 0), (0, 1), (0, 1), (0, 0)]).decode
      [0, 0, 0, 0] = .ok (.str "a") := by decide +kernel
  rw [hdec] at hv
  injection hv with hv
  have hno : pyIn (.str "a") [.str "b", .str "c"] = false := by decide +kernel
  rw [← hv, hno] at hin
  cases hin

/- Full statement: every point of the `get_ndarray_bounds` box decodes to values inside the active
sub-ranges.  Proved with the restrictions: `PosOneHot` (see the counterexample above), the
scaling hypotheses, and no fixed last position (`value_for_last_pos`; that clause is covered by the
correspondence only). -/
/-- **active (partial).** For every accepted space without fixed last position, every vector in
the box `get_ndarray_bounds` decodes, and each value is a member of the active domain of its
hyperparameter (of the domain itself where no active entry is given) — integers, continuous,
binary, ordinal equal / nn exactly; one-hot under `PosOneHot`. -/
theorem active_partial {env : Env} {c : Consts} {hps : List HP} {pk : Option (List String)}
    {nl : Option String} {sp : Space}
    (hok : ∀ h ∈ hps, h.dom.ok = true) (hsp : mkSpace env c hps pk nl none = .ok sp)
    (heps : 0 < c.eps) (h499 : c.c499 < 1 / 2) (hs : ∀ h ∈ hps, ScalingHyp env c h.dom)
    (xs : List ℚ) (hbox : ∃ bs, sp.bounds env c = .ok bs ∧ InBox xs bs) (hpos : PosOneHot sp.entries xs) :
    ∃ cfg, sp.decode env c xs = .ok cfg ∧
      List.Forall₂ (fun e kv => kv.1 = e.1 ∧
        ∃ h ∈ hps, h.name = e.1 ∧ (targetDomain h).member env kv.2 = true) sp.entries cfg := by
  have hspec := mkSpace_spec hsp
  obtain ⟨bs, hbs, hin⟩ := hbox
  have hvl : sp.valueLast = none := by
    unfold mkSpace at hsp
    split at hsp
    · cases hsp
    · split at hsp
      · injection hsp with hsp; subst hsp; rfl
      · cases hsp
  have hbs' : bs = (sp.entries.map (fun e => e.2.bounds)).flatten := by
    unfold Space.bounds at hbs
    rw [hvl] at hbs
    cases hnl : sp.nameLast <;> simp [hnl] at hbs <;> exact hbs.symm
  subst hbs'
  have hsl := Slices.and (slices_of_inBox sp.entries hspec hin) hpos
  have hlen : xs.length = sp.ndarraySize := by
    obtain ⟨hl, _⟩ := hin
    rw [hl]
    unfold Space.ndarraySize
    have : ∀ es : List (String × Range), (∀ e ∈ es, ∃ hp ∈ hps, hp.name = e.1 ∧ mkRange env c hp = .ok e.2) →
        (es.map (fun e => e.2.bounds)).flatten.length = (es.map (fun e => e.2.size)).sum := by
      intro es hes
      induction es with
      | nil => rfl
      | cons e es ih =>
        obtain ⟨hp, _, _, hr⟩ := hes e (by simp)
        simp only [List.map_cons, List.flatten_cons, List.length_append, List.sum_cons,
          (range_bounds_cube hr).1, ih (fun e he => hes e (List.mem_cons_of_mem _ he))]
    exact this sp.entries hspec
  obtain ⟨cfg, hcfg, hall⟩ := decodeAll_slices (env := env) (c := c)
    (P := fun k _ v => ∃ h ∈ hps, h.name = k ∧ (targetDomain h).member env v = true) sp.entries
    (by
      intro e he ys ⟨hys, hposy⟩
      obtain ⟨h, hm, hn, hr⟩ := hspec e he
      cases ha : h.active with
      | some a =>
        obtain ⟨v, hv, hmem⟩ := range_active (hok h hm) hr ha heps h499 (hs h hm) hys hposy
        exact ⟨v, hv, h, hm, hn, by simpa [targetDomain, ha] using hmem⟩
      | none =>
        obtain ⟨hbl, hbc⟩ := range_bounds_cube hr
        obtain ⟨v, hv, hmem⟩ := range_decode_member (hok h hm) hr ys (by rw [hys.1, hbl])
          (inBox_margin (le_of_lt heps) hbc hys)
        exact ⟨v, hv, h, hm, hn, by simpa [targetDomain, ha] using hmem⟩)
    xs hsl
  refine ⟨cfg, ?_, hall⟩
  unfold Space.decode
  simp only [hlen, if_true, hcfg]

end SyneTune.C07
