import SyneTune.Lemmas.DomainsRange
/-
C07 — Domains: samples and decoded vectors are members; encoding round-trips.
Property theorems only; helper lemmas are in `Lemmas/Domains*.lean`.
Models: `Model/Domains.lean` (config_space.py), `Model/Encoding.lean` (hp_ranges*.py, scaling.py).

Reading guide.  `Env` holds the abstract `exp`/`log` (`Scaling` = pair of functions on ℚ); the
linear scaling is the identity and needs no hypothesis.  `Consts` holds the literals `EPS`,
`0.499`, `0.01` (inputs).  `mkSpace env c hps pk nl vl = .ok sp` says that
`make_hyperparameter_ranges` accepted the space `hps` (with its `active_config_space` entries,
`prefix_keys`, `name_last_pos`, `value_for_last_pos`); `sp.entries` are the per-hyperparameter
encoders in internal order.  `Domain.ok` is what the public constructors accept.
`Domain.member env d v`: right type, inside the bounds / among the listed values.
-/
namespace SyneTune.C07
open SyneTune SyneTune.Dom

/-! ### decoded vectors are members -/

/-- **decode_member.** For every accepted space and every vector of the advertised length whose
coordinates lie in `[-EPS, 1+EPS]` (in particular every point of the unit cube, corners
included), `from_ndarray` succeeds and every decoded value is a member of its domain — for every
scaling whatsoever (the code clips), every kind, degenerate ones included. -/
theorem decode_member {env : Env} {c : Consts} {hps : List HP} {pk : Option (List String)}
    {nl : Option String} {vl : Option Val} {sp : Space}
    (hok : ∀ h ∈ hps, h.dom.ok = true) (hsp : mkSpace env c hps pk nl vl = .ok sp)
    (xs : List ℚ) (hlen : xs.length = sp.ndarraySize) (hx : ∀ x ∈ xs, -c.eps ≤ x ∧ x ≤ 1 + c.eps) :
    ∃ cfg, sp.decode env c xs = .ok cfg ∧
      List.Forall₂ (fun e kv => kv.1 = e.1 ∧ ∃ h ∈ hps, h.name = e.1 ∧ h.dom.member env kv.2 = true)
        sp.entries cfg := by
  have hspec := mkSpace_spec hsp
  obtain ⟨cfg, hcfg, hall⟩ := decodeAll_spec (env := env) (c := c) (Q := InMargin c)
    (P := fun k _ v => ∃ h ∈ hps, h.name = k ∧ h.dom.member env v = true) sp.entries
    (by
      intro e he ys hys hq
      obtain ⟨h, hm, hn, hr⟩ := hspec e he
      obtain ⟨v, hv, hmem⟩ := range_decode_member (hok h hm) hr ys hys hq
      exact ⟨v, hv, h, hm, hn, hmem⟩)
    xs hlen hx
  refine ⟨cfg, ?_, hall⟩
  unfold Space.decode
  simp only [hlen, if_true, hcfg]

/-- a vector of the wrong length is rejected (`assert enc_config.size == self._ndarray_size`) -/
theorem decode_wrong_length {env : Env} {c : Consts} {sp : Space} (xs : List ℚ)
    (hlen : xs.length ≠ sp.ndarraySize) : sp.decode env c xs = .error .assertion := by
  unfold Space.decode; simp only [hlen, if_false]

/-- **outside `[-EPS, 1+EPS]` the code rejects** — every encoder except the one-hot one, which
only looks at the arg max of its slice. -/
theorem decode_rejects_outside {env : Env} {c : Consts} {h : HP} {r : Range}
    (hmk : mkRange env c h = .ok r) (hne : ∀ o, r ≠ .onehot o) {x : ℚ}
    (hx : ¬ (-c.eps ≤ x ∧ x ≤ 1 + c.eps)) : r.decode env c [x] = .error .assertion :=
  range_decode_reject hmk hne hx

/-! ### encodings lie in the unit cube and have the advertised length -/

/-- **encode_cube.** Whenever `to_ndarray` returns, the vector has length `ndarray_size` and lies
in `[0,1]^d` — every scaling, every kind. (That it does return for member configurations is part
of `roundtrip_partial`.) -/
theorem encode_cube {env : Env} {c : Consts} {sp : Space} {cfg : Config} {xs : List ℚ}
    (h : sp.encode env c cfg = .ok xs) : xs.length = sp.ndarraySize ∧ ∀ x ∈ xs, 0 ≤ x ∧ x ≤ 1 :=
  encodeAll_spec sp.entries (fun _ _ _ _ he => range_encode_cube he) h

/-! ### round trip -/

/- Full statement (property text): `from_ndarray (to_ndarray cfg) = cfg` for every member
configuration of every space, exactly for integer / finite / categorical / ordinal kinds and (over
the reals) for continuous ones.  What is proved: exactly that, with two explicit restrictions —
(1) for log / reverse-log scaled kinds the hypotheses `ScalingHyp` on the abstract `exp`/`log`
(inverse on the range, monotone; `scalingHyp_lin` discharges them for linear kinds), and
(2) `RTVal` excludes log-spaced finite ranges with `cast_int=True`, for which the statement is
false (`roundtrip_logfin_castint_counterexample`). -/
/-- **roundtrip (partial).** A configuration that assigns every hyperparameter a member value is
encodable, the encoding has the advertised length, and it decodes back to the same values. -/
theorem roundtrip_partial {env : Env} {c : Consts} {hps : List HP} {pk : Option (List String)}
    {nl : Option String} {vl : Option Val} {sp : Space}
    (hok : ∀ h ∈ hps, h.dom.ok = true) (hsp : mkSpace env c hps pk nl vl = .ok sp)
    (heps : 0 ≤ c.eps) (heps2 : c.eps ≤ 1 / 2) (hs : ∀ h ∈ hps, ScalingHyp env c h.dom)
    (cfg : Config) (hcfg : ∀ h ∈ hps, ∃ v, lookupS h.name cfg = some v ∧ RTVal env h.dom v) :
    ∃ xs, sp.encode env c cfg = .ok xs ∧ xs.length = sp.ndarraySize ∧
      ∃ out, sp.decode env c xs = .ok out ∧
        List.Forall₂ (fun e kv => kv.1 = e.1 ∧ lookupS e.1 cfg = some kv.2) sp.entries out := by
  have hspec := mkSpace_spec hsp
  obtain ⟨xs, h1, h2, out, h3, h4⟩ := roundtripAll_spec (env := env) (c := c)
    (M := fun k r v => ∃ h ∈ hps, h.name = k ∧ mkRange env c h = .ok r ∧ RTVal env h.dom v) sp.entries
    (by
      intro e _ v ⟨h, hm, _, hr, hv⟩
      exact range_roundtrip (hok h hm) hr heps heps2 (hs h hm) hv)
    cfg
    (by
      intro e he
      obtain ⟨h, hm, hn, hr⟩ := hspec e he
      obtain ⟨v, hv, hrt⟩ := hcfg h hm
      exact ⟨v, by rw [← hn]; exact hv, h, hm, hn, hr, hrt⟩)
  refine ⟨xs, h1, h2, out, ?_, h4⟩
  unfold Space.decode
  have : xs.length = sp.ndarraySize := h2
  simp only [this, if_true, h3]

/-- kinds whose encoder and sampler use the linear scaling only -/
def Linear : Domain → Prop
  | .flt d => d.scale = .lin ∨ d.q.isSome = true
  | .int d => d.scale = .lin ∨ d.q.isSome = true
  | .nn d => d.log = false
  | .fin d => d.log = false
  | .cat _ => True

/-- the scaling hypotheses hold outright for linear kinds: uniform, randint, quantised kinds
(encoded linearly), choice, ordinal equal / nn, finrange -/
theorem scalingHyp_lin (env : Env) (c : Consts) {d : Domain} (h : Linear d) : ScalingHyp env c d := by
  cases d with
  | flt f =>
    have : (Domain.flt f).encScale = .lin := by
      rcases h with h | h
      · simp [Domain.encScale, Domain.isLog, Domain.isRLog, h]
      · have hq : f.q.isNone = false := by cases hq : f.q <;> simp_all
        simp [Domain.encScale, Domain.isLog, Domain.isRLog, hq]
    simp only [ScalingHyp, this]; exact scaleOK_lin _ _ _
  | int f =>
    have : (Domain.int f).encScale = .lin := by
      rcases h with h | h
      · simp [Domain.encScale, Domain.isLog, Domain.isRLog, h]
      · have hq : f.q.isNone = false := by cases hq : f.q <;> simp_all
        simp [Domain.encScale, Domain.isLog, Domain.isRLog, hq]
    simp only [ScalingHyp, this]; exact scaleOK_lin _ _ _
  | nn f =>
    simp only [ScalingHyp, LogMono]
    intro hl; rw [h] at hl; cases hl
  | fin f =>
    simp only [ScalingHyp]
    intro hl; rw [h] at hl; cases hl
  | cat f => trivial

/-- **roundtrip, linear kinds: unconditional and exact** (no hypothesis on `exp`/`log`; includes
`cast_int` finite ranges, integer ranges of any size, all categorical encodings) -/
theorem roundtrip_linear {env : Env} {c : Consts} {hps : List HP} {pk : Option (List String)}
    {nl : Option String} {vl : Option Val} {sp : Space}
    (hok : ∀ h ∈ hps, h.dom.ok = true) (hlin : ∀ h ∈ hps, Linear h.dom)
    (hsp : mkSpace env c hps pk nl vl = .ok sp) (heps : 0 ≤ c.eps) (heps2 : c.eps ≤ 1 / 2)
    (cfg : Config) (hcfg : ∀ h ∈ hps, ∃ v, lookupS h.name cfg = some v ∧ h.dom.member env v = true) :
    ∃ xs, sp.encode env c cfg = .ok xs ∧ xs.length = sp.ndarraySize ∧
      ∃ out, sp.decode env c xs = .ok out ∧
        List.Forall₂ (fun e kv => kv.1 = e.1 ∧ lookupS e.1 cfg = some kv.2) sp.entries out := by
  refine roundtrip_partial hok hsp heps heps2 (fun h hm => scalingHyp_lin env c (hlin h hm)) cfg ?_
  intro h hm
  obtain ⟨v, hv, hmem⟩ := hcfg h hm
  refine ⟨v, hv, hmem, ?_⟩
  have := hlin h hm
  cases hd : h.dom with
  | fin f => rw [hd] at this; intro _; exact this
  | flt _ => trivial
  | int _ => trivial
  | cat _ => trivial
  | nn _ => trivial

/-! ### active sub-ranges -/

/-- the domain a value decoded inside the bounds box has to belong to: the entry of
`active_config_space` when there is one, else the domain itself -/
def targetDomain (h : HP) : Domain := h.active.getD h.dom

/-- every one-hot slice of the vector has a positive coordinate -/
def PosOneHot : List (String × Range) → List ℚ → Prop :=
  Slices (fun e ys => (∃ o, e.2 = .onehot o) → ∃ x ∈ ys, 0 < x)

/-- **active_onehot (partial).** One-hot categorical with active categories: inside the bounds
box, if some coordinate is positive, the decoded category is an active one. -/
theorem active_onehot_partial {choices act : List Val} {r : OneHot}
    (h : mkOneHot choices (some act) = .ok r) {xs : List ℚ} (hbox : InBox xs r.bounds)
    (hpos : ∃ x ∈ xs, 0 < x) : ∃ v, r.decode xs = .ok v ∧ v ∈ choices ∧ pyIn v act = true :=
  onehot_active_partial h hbox hpos

/-- **active_onehot, full statement refuted (F7):** `choice(["a","b","c","d"])` with active
`choice(["b","c"])`: the bounds are `[(0,0),(0,1),(0,1),(0,0)]`, the all-zero corner lies in the
box and decodes to the inactive category `"a"`. -/
theorem active_onehot_counterexample :
    ¬ (∀ (choices act : List Val) (r : OneHot) (xs : List ℚ), mkOneHot choices (some act) = .ok r →
        InBox xs r.bounds → ∃ v, r.decode xs = .ok v ∧ pyIn v act = true) := by
  intro hall
  have hmk : mkOneHot [.str "a", .str "b", .str "c", .str "d"] (some [.str "b", .str "c"]) =
      .ok ⟨[.str "a", .str "b", .str "c", .str "d"], [(0, 0), (0, 1), (0, 1), (0, 0)]⟩ := by rfl
  have hbox : InBox [0, 0, 0, 0] [((0 : ℚ), (0 : ℚ)), (0, 1), (0, 1), (0, 0)] := by
    refine ⟨rfl, ?_⟩
    intro i hi hb
    simp only [List.length_cons, List.length_nil] at hi
    have : i = 0 ∨ i = 1 ∨ i = 2 ∨ i = 3 := by omega
    rcases this with rfl | rfl | rfl | rfl <;> norm_num
  obtain ⟨v, hv, hin⟩ := hall _ _ _ _ hmk hbox
  have hdec : (OneHot.mk [.str "a", .str "b", .str "c", .str "d"] [(0, 0), (0, 1), (0, 1), (0, 0)]).decode
      [0, 0, 0, 0] = .ok (.str "a") := by decide +kernel
  rw [hdec] at hv
  injection hv with hv
  have hno : pyIn (.str "a") [.str "b", .str "c"] = false := by decide +kernel
  rw [← hv, hno] at hin
  cases hin

/- Full statement: every point of the `get_ndarray_bounds` box decodes to values inside the active
sub-ranges.  Proved with the restrictions: `PosOneHot` (see the counterexample above), the
scaling hypotheses, and no fixed last position (`value_for_last_pos`; that clause is covered by the
correspondence only). -/
/-- **active (partial).** For every accepted space without fixed last position, every vector in
the box `get_ndarray_bounds` decodes, and each value is a member of the active domain of its
hyperparameter (of the domain itself where no active entry is given) — integers, continuous,
binary, ordinal equal / nn exactly; one-hot under `PosOneHot`. -/
theorem active_partial {env : Env} {c : Consts} {hps : List HP} {pk : Option (List String)}
    {nl : Option String} {sp : Space}
    (hok : ∀ h ∈ hps, h.dom.ok = true) (hsp : mkSpace env c hps pk nl none = .ok sp)
    (heps : 0 < c.eps) (h499 : c.c499 < 1 / 2) (hs : ∀ h ∈ hps, ScalingHyp env c h.dom)
    (xs : List ℚ) (hbox : ∃ bs, sp.bounds env c = .ok bs ∧ InBox xs bs) (hpos : PosOneHot sp.entries xs) :
    ∃ cfg, sp.decode env c xs = .ok cfg ∧
      List.Forall₂ (fun e kv => kv.1 = e.1 ∧
        ∃ h ∈ hps, h.name = e.1 ∧ (targetDomain h).member env kv.2 = true) sp.entries cfg := by
  have hspec := mkSpace_spec hsp
  obtain ⟨bs, hbs, hin⟩ := hbox
  have hvl : sp.valueLast = none := by
    unfold mkSpace at hsp
    split at hsp
    · cases hsp
    · split at hsp
      · injection hsp with hsp; subst hsp; rfl
      · cases hsp
  have hbs' : bs = (sp.entries.map (fun e => e.2.bounds)).flatten := by
    unfold Space.bounds at hbs
    rw [hvl] at hbs
    cases hnl : sp.nameLast <;> simp [hnl] at hbs <;> exact hbs.symm
  subst hbs'
  have hsl := Slices.and (slices_of_inBox sp.entries hspec hin) hpos
  have hlen : xs.length = sp.ndarraySize := by
    obtain ⟨hl, _⟩ := hin
    rw [hl]
    unfold Space.ndarraySize
    have : ∀ es : List (String × Range), (∀ e ∈ es, ∃ hp ∈ hps, hp.name = e.1 ∧ mkRange env c hp = .ok e.2) →
        (es.map (fun e => e.2.bounds)).flatten.length = (es.map (fun e => e.2.size)).sum := by
      intro es hes
      induction es with
      | nil => rfl
      | cons e es ih =>
        obtain ⟨hp, _, _, hr⟩ := hes e (by simp)
        simp only [List.map_cons, List.flatten_cons, List.length_append, List.sum_cons,
          (range_bounds_cube hr).1, ih (fun e he => hes e (List.mem_cons_of_mem _ he))]
    exact this sp.entries hspec
  obtain ⟨cfg, hcfg, hall⟩ := decodeAll_slices (env := env) (c := c)
    (P := fun k _ v => ∃ h ∈ hps, h.name = k ∧ (targetDomain h).member env v = true) sp.entries
    (by
      intro e he ys ⟨hys, hposy⟩
      obtain ⟨h, hm, hn, hr⟩ := hspec e he
      cases ha : h.active with
      | some a =>
        obtain ⟨v, hv, hmem⟩ := range_active (hok h hm) hr ha heps h499 (hs h hm) hys hposy
        exact ⟨v, hv, h, hm, hn, by simpa [targetDomain, ha] using hmem⟩
      | none =>
        obtain ⟨hbl, hbc⟩ := range_bounds_cube hr
        obtain ⟨v, hv, hmem⟩ := range_decode_member (hok h hm) hr ys (by rw [hys.1, hbl])
          (inBox_margin (le_of_lt heps) hbc hys)
        exact ⟨v, hv, h, hm, hn, by simpa [targetDomain, ha] using hmem⟩)
    xs hsl
  refine ⟨cfg, ?_, hall⟩
  unfold Space.decode
  simp only [hlen, if_true, hcfg]

/-! ### samples and casts are members -/

/-- the contract of the `random_state` tape for a draw of domain `d`: unit draws lie in `[0,1]`,
`randint` / `choice` return an integer of the requested range -/
def DrawOK : Domain → Draw → Prop
  | .flt _, .unit u => 0 ≤ u ∧ u ≤ 1
  | .int d, .idx k => d.scale = .lin ∧ d.lower ≤ k ∧ k ≤ d.upper
  | .int d, .unit u => d.scale = .log ∧ 0 ≤ u ∧ u ≤ 1
  | .cat d, .idx k => 0 ≤ k ∧ k < d.cats.length
  | .nn _, .unit u => 0 ≤ u ∧ u ≤ 1
  | .fin d, .idx k => 0 ≤ k ∧ k < d.size
  | _, _ => False

/-- hypotheses of `sample_member_partial`: the abstract `exp`/`log` of the sampler invert and are
monotone on the bounds (log / reverse-log kinds only); a quantisation step is positive and both
bounds are multiples of it (`Float.quantized` enforces this for floats; for integers it does not:
F6); a nearest-neighbour ordinal has more than one category (else `sample` raises) -/
def SampleHyp (env : Env) : Domain → Prop
  | .flt d =>
      (match d.scale with
       | .lin => True
       | .log => ScalingOK env.log d.lower d.upper
       | .rlog => ScalingOK env.rlogS d.lower d.upper) ∧
      ∀ q, d.q = some q → 0 < q ∧ ∃ i j : ℤ, d.lower = (i : ℚ) * q ∧ d.upper = (j : ℚ) * q
  | .int d =>
      (d.scale = .log → ScalingOK env.log (d.lower : ℚ) (d.upper : ℚ)) ∧
      ∀ q, d.q = some q → 0 < q ∧ q ∣ d.lower ∧ q ∣ d.upper
  | .nn d => 1 < d.cats.length
  | _ => True

/- Full statement: every sampled value is a member.  False for quantised integers with a step
that does not divide the bounds (`qrandint_counterexample`) and for one-category nearest-neighbour
ordinals (`nn_single_sample_counterexample`); `SampleHyp` excludes exactly these. -/
/-- **sample_member (partial).** For every draw the tape contract allows, `sample` returns a
member of the domain: inside the bounds / a listed value, of the right type. -/
theorem sample_member_partial {env : Env} {c : Consts} {d : Domain} (hok : d.ok = true)
    {dr : Draw} (hdr : DrawOK d dr) (hs : SampleHyp env d) :
    ∃ v, d.sample env c dr = .ok v ∧ d.member env v = true := by
  cases d with
  | flt f =>
    cases dr with
    | idx _ => simp [DrawOK] at hdr
    | unit u =>
      simp only [DrawOK] at hdr
      simp only [Domain.ok, Bool.and_eq_true, decide_eq_true_eq] at hok
      obtain ⟨hsc, hq⟩ := hs
      have hraw : ∃ v, f.sampleRaw env u = .ok v ∧ f.lower ≤ v ∧ v ≤ f.upper := by
        apply float_sampleRaw_mem hok.1 _ hdr.1 hdr.2
        cases hk : f.scale with
        | lin => trivial
        | log => rw [hk] at hsc hok; simp only [decide_eq_true_eq] at hok; exact ⟨hok.2, hsc⟩
        | rlog => rw [hk] at hsc hok; simp only [decide_eq_true_eq] at hok; exact ⟨hok.2.1, hok.2.2, hsc⟩
      obtain ⟨v, hv, h1, h2⟩ := hraw
      simp only [Domain.sample, FloatDom.sample, hv]
      refine ⟨_, rfl, ?_⟩
      have key : f.lower ≤ f.applyQ v ∧ f.applyQ v ≤ f.upper := by
        unfold FloatDom.applyQ
        split
        · exact ⟨h1, h2⟩
        · rename_i q hqq
          obtain ⟨hq0, i, j, hl, hu⟩ := hq q hqq
          exact quantizeR_mem hq0 hl hu h1 h2
      simp only [Domain.member, decide_eq_true_eq]
      exact key
  | int f =>
    simp only [Domain.ok, Bool.and_eq_true, decide_eq_true_eq] at hok
    obtain ⟨hsc, hq⟩ := hs
    have hraw : ∃ k, f.sampleRaw env dr = .ok k ∧ f.lower ≤ k ∧ k ≤ f.upper := by
      apply int_sampleRaw_mem hok.1
      cases dr with
      | idx k =>
        simp only [DrawOK] at hdr
        rw [hdr.1]; exact hdr.2
      | unit u =>
        simp only [DrawOK] at hdr
        rw [hdr.1]
        have hpos : 0 < f.lower := by
          have := hok.2; rw [hdr.1] at this; simpa using this
        exact ⟨hdr.2.1, hdr.2.2, hpos, hsc hdr.1⟩
    obtain ⟨k, hk, h1, h2⟩ := hraw
    simp only [Domain.sample, IntDom.sample, hk]
    refine ⟨_, rfl, ?_⟩
    have key : f.lower ≤ f.applyQ k ∧ f.applyQ k ≤ f.upper := by
      unfold IntDom.applyQ
      split
      · exact ⟨h1, h2⟩
      · rename_i q hqq
        obtain ⟨hq0, hl, hu⟩ := hq q hqq
        exact quantizeI_mem hq0 hl hu h1 h2
    simp only [Domain.member, decide_eq_true_eq]
    exact key
  | cat f =>
    cases dr with
    | unit _ => simp [DrawOK] at hdr
    | idx k =>
      simp only [DrawOK] at hdr
      simp only [Domain.ok] at hok
      obtain ⟨v, hv, hm⟩ := cat_sample_member (c := c) hok hdr.1 hdr.2
      exact ⟨v, hv, member_cat hok hm⟩
  | nn f =>
    cases dr with
    | idx _ => simp [DrawOK] at hdr
    | unit u =>
      simp only [Domain.ok] at hok
      obtain ⟨v, hv, hm⟩ := nn_sample_member env f hs u
      exact ⟨v, hv, member_nn hok hm⟩
  | fin f =>
    cases dr with
    | unit _ => simp [DrawOK] at hdr
    | idx k =>
      simp only [DrawOK] at hdr
      obtain ⟨v, hv, hm⟩ := fin_sample_member env f k hdr.1 hdr.2
      exact ⟨v, hv, member_fin hm⟩

/-- **qrandint (partial).** A quantised integer domain whose step divides both bounds samples
inside the bounds. -/
theorem qrandint_partial {env : Env} {c : Consts} (lower upper q k : ℤ) (_hle : lower ≤ upper)
    (hq : 0 < q) (hl : q ∣ lower) (hu : q ∣ upper) (h1 : lower ≤ k) (h2 : k ≤ upper) :
    ∃ v, (Domain.int ⟨lower, upper, .lin, some q⟩).sample env c (.idx k) = .ok (.int v) ∧
      lower ≤ v ∧ v ≤ upper := by
  refine ⟨quantizeI q k, rfl, quantizeI_mem hq hl hu h1 h2⟩

/-- **qrandint, full statement refuted (F6):** `qrandint(1, 10, 4)`: the draw `1` (a legal
result of `randint(1, 11)`) is quantised to `round(1/4)*4 = 0`, outside `[1, 10]`. -/
theorem qrandint_counterexample :
    ¬ (∀ (env : Env) (c : Consts) (lower upper q k : ℤ), lower ≤ upper → 0 < q → lower ≤ k → k ≤ upper →
        ∃ v, (Domain.int ⟨lower, upper, .lin, some q⟩).sample env c (.idx k) = .ok (.int v) ∧
          lower ≤ v ∧ v ≤ upper) := by
  intro hall
  obtain ⟨v, hv, h1, _⟩ := hall ⟨⟨id, id⟩, ⟨id, id⟩, ⟨id, id⟩⟩ ⟨0, 0, 0⟩ 1 10 4 1 (by decide) (by decide)
    (by decide) (by decide)
  have : (Domain.int ⟨1, 10, .lin, some 4⟩).sample ⟨⟨id, id⟩, ⟨id, id⟩, ⟨id, id⟩⟩ ⟨0, 0, 0⟩ (.idx 1) =
      .ok (.int 0) := by decide +kernel
  rw [this] at hv
  injection hv with hv
  injection hv with hv
  omega

theorem mapM_members {f : Draw → Except Err Val} {P : Val → Prop} (drs : List Draw)
    (h : ∀ dr ∈ drs, ∃ v, f dr = .ok v ∧ P v) :
    ∃ vs, drs.mapM f = .ok vs ∧ vs.length = drs.length ∧ ∀ v ∈ vs, P v := by
  induction drs with
  | nil => exact ⟨[], rfl, rfl, by simp⟩
  | cons d ds ih =>
    obtain ⟨v, hv, hp⟩ := h d (by simp)
    obtain ⟨vs, hvs, hl, hall⟩ := ih (fun dr hdr => h dr (List.mem_cons_of_mem _ hdr))
    refine ⟨v :: vs, ?_, by simp [hl], ?_⟩
    · simp only [List.mapM_cons, hv, hvs, bind, Except.bind, pure, Except.pure]
    · intro w hw
      rcases List.mem_cons.mp hw with rfl | hw
      · exact hp
      · exact hall w hw

/-- **sample_list_member (partial).** `sample(size = n)`: as many values as draws, each a member
of the domain (right type included — since the fix of the list branch of `Quantized.sample` also
for quantised domains).  Same restrictions as `sample_member_partial`. -/
theorem sample_list_member_partial {env : Env} {c : Consts} {d : Domain} (hok : d.ok = true)
    {drs : List Draw} (hdr : ∀ dr ∈ drs, DrawOK d dr) (hs : SampleHyp env d) :
    ∃ vs, d.sampleN env c drs = .ok vs ∧ vs.length = drs.length ∧ ∀ v ∈ vs, d.member env v = true := by
  have hall : ∀ dr ∈ drs, ∃ v, d.sample env c dr = .ok v ∧ d.member env v = true :=
    fun dr h => sample_member_partial hok (hdr dr h) hs
  unfold Domain.sampleN
  split
  · rename_i dr
    obtain ⟨v, hv, hm⟩ := hall dr (by simp)
    refine ⟨[v], by rw [hv]; rfl, rfl, ?_⟩
    intro w hw; simp only [List.mem_singleton] at hw; subst hw; exact hm
  · exact mapM_members drs hall

/-- `qrandint(0, 8, 4).sample(size=3)` on the draws `1, 5, 7`: integers `0, 4, 8` (before the fix
of `Quantized.sample` these were `np.float64`) -/
theorem sample_list_quantised_int_example :
    (Domain.int ⟨0, 8, .lin, some 4⟩).sampleN ⟨⟨id, id⟩, ⟨id, id⟩, ⟨id, id⟩⟩ ⟨0, 0, 0⟩
      [.idx 1, .idx 5, .idx 7] = .ok [.int 0, .int 4, .int 8] := by decide +kernel

/-- a one-category nearest-neighbour ordinal (`ordinal([5], kind="nn")`) cannot be sampled:
`uniform(None, None)` raises `TypeError` -/
theorem nn_single_sample_counterexample (env : Env) (c : Consts) (u : ℚ) :
    (Domain.nn ⟨[.int 5], false⟩).ok = true ∧
    (Domain.nn ⟨[.int 5], false⟩).sample env c (.unit u) = .error .typeError :=
  ⟨by decide, nn_sample_single env ⟨[.int 5], false⟩ rfl u⟩

/-- … and cannot be encoded: `HyperparameterRangesImpl` picks the nearest-neighbour encoder, whose
constructor asserts `len(choices) > 1` -/
theorem nn_single_encoder_counterexample (env : Env) (c : Consts) :
    mkRange env c ⟨"x", .nn ⟨[.int 5], false⟩, none⟩ = .error .assertion := by
  simp [mkRange, mkRangeCore, mkOrdNN]

/-- **cast_member.** Casting a member gives a member, for every kind. -/
theorem cast_member {env : Env} {c : Consts} {d : Domain} (hok : d.ok = true) {v : Val}
    (hv : d.member env v = true) : ∃ v', d.cast env c v = .ok v' ∧ d.member env v' = true := by
  cases d with
  | flt f =>
    cases v with
    | flt x => exact ⟨.flt x, rfl, hv⟩
    | int _ => simp [Domain.member] at hv
    | str _ => simp [Domain.member] at hv
  | int f =>
    cases v with
    | int k => exact ⟨.int k, int_cast_member f k, hv⟩
    | flt _ => simp [Domain.member] at hv
    | str _ => simp [Domain.member] at hv
  | cat f =>
    simp only [Domain.ok] at hok
    have hm := mem_of_member_cats hv hok
    exact ⟨v, cat_cast_member hok hm, hv⟩
  | nn f =>
    simp only [Domain.ok] at hok
    have hm := mem_of_member_cats hv (nn_catsOk hok)
    obtain ⟨x, hx⟩ := nn_num_some hok hm
    have hne : f.cats ≠ [] := List.ne_nil_of_mem hm
    obtain ⟨v', hv', hm'⟩ := nn_castInt_member env f hne (f.toInternal env x)
    refine ⟨v', ?_, member_nn hok hm'⟩
    simp only [Domain.cast, NNDom.cast, hx, hv']
  | fin f =>
    simp only [Domain.ok] at hok
    have hm : v ∈ f.values env := List.contains_iff_mem.mp hv
    obtain ⟨k, _, rfl⟩ := fin_mem_values hm
    have hnum : ∃ x, (f.valueAt env k).num? = some x := by
      unfold FinDom.valueAt; split <;> exact ⟨_, rfl⟩
    obtain ⟨x, hx⟩ := hnum
    obtain ⟨v', hv', hm'⟩ := fin_cast_member env f hok _ x hx
    exact ⟨v', hv', member_fin hm'⟩

/-- **cast of a member is the member itself** for float, integer, categorical, ordinal and (with
a strictly increasing `log`) nearest-neighbour ordinal domains -/
theorem cast_member_id {env : Env} {c : Consts} {d : Domain} (hok : d.ok = true) {v : Val}
    (hv : d.member env v = true) (hnf : ∀ f, d ≠ .fin f)
    (hmono : ∀ f, d = .nn f → LogMono env f.log) : d.cast env c v = .ok v := by
  cases d with
  | flt f =>
    cases v with
    | flt x => rfl
    | int _ => simp [Domain.member] at hv
    | str _ => simp [Domain.member] at hv
  | int f =>
    cases v with
    | int k => exact int_cast_member f k
    | flt _ => simp [Domain.member] at hv
    | str _ => simp [Domain.member] at hv
  | cat f =>
    simp only [Domain.ok] at hok
    exact cat_cast_member hok (mem_of_member_cats hv hok)
  | nn f =>
    simp only [Domain.ok] at hok
    exact nn_cast_self hok (hmono f rfl) (mem_of_member_cats hv (nn_catsOk hok))
  | fin f => exact absurd rfl (hnf f)

/-! ### JSON form -/

/- Full statement: a space written to JSON and read back is equal and encodes identically.  False
for quantised domains (counterexample below). -/
/-- **json (partial).** Every domain that is not quantised is restored identically by
`config_space_from_json_dict (config_space_to_json_dict ·)` — identical domain, hence identical
encoder (`mkRange` is a function of the domain). Reverse-log domains are included since
`_ReverseLogUniform.__str__` names its own class. -/
theorem json_roundtrip_partial {d : Domain} (hok : d.ok = true) (hq : isQuantised d = false) :
    jsonRoundTrip d = .ok d :=
  json_roundtrip_dom hok hq

/-- `reverseloguniform(0.1, 0.9)` is read back as itself -/
theorem json_rlog_restored :
    jsonRoundTrip (.flt ⟨1 / 10, 9 / 10, .rlog, none⟩) = .ok (.flt ⟨1 / 10, 9 / 10, .rlog, none⟩) :=
  json_roundtrip_dom (by decide +kernel) rfl

/-- a quantised domain cannot be written to JSON at all (`sampler_kwargs` holds a sampler object) -/
theorem json_quantized_counterexample :
    jsonRoundTrip (.int ⟨1, 10, .lin, some 4⟩) = .error .typeError := rfl

/-! ### `get_ndarray_bounds` -/

/-- **bounds_in_cube.** The bounds every encoder advertises: as many pairs as coordinates, each
inside `[0,1]` (so the box of `active_partial` is a subset of the cube of `decode_member`). -/
theorem bounds_in_cube {env : Env} {c : Consts} {h : HP} {r : Range} (hmk : mkRange env c h = .ok r) :
    r.bounds.length = r.size ∧ ∀ b ∈ r.bounds, 0 ≤ b.1 ∧ b.2 ≤ 1 :=
  range_bounds_cube hmk

/-! ### log-spaced finite range with `cast_int`: the round trip fails -/

/-- a piecewise-linear stand-in for `log`/`exp` on `[3/5, 8/5]` (concave, strictly increasing,
with its exact inverse): it satisfies every hypothesis the theorems put on the abstract scaling -/
def pwLog : Scaling where
  toInt := fun x => if x ≤ 1 then (x - 3 / 5) * (13 / 10) else 13 / 25 + (x - 1) * (4 / 5)
  fromInt := fun t => if t ≤ 13 / 25 then 3 / 5 + t * (10 / 13) else 1 + (t - 13 / 25) * (5 / 4)

def pwEnv : Env := ⟨pwLog, ⟨id, id⟩, ⟨id, id⟩⟩
def cxConsts : Consts := ⟨1 / 100000000, 499 / 1000, 1 / 100⟩
def cxFin : FinDom := ⟨3 / 5, 8 / 5, 2, true, true⟩

theorem cx_low : cxFin.lowInt pwEnv = 0 := by decide +kernel
theorem cx_up : cxFin.upInt pwEnv = 1 := by decide +kernel

/-- encode the member `1`, decode: is the result `2`? -/
def cxCheck : Bool :=
  match mkFin pwEnv cxConsts cxFin.lower cxFin.upper cxFin.size .log cxFin.castInt with
  | .ok r =>
    match r.encode pwEnv cxConsts 1 with
    | .ok x =>
      match r.decode pwEnv cxConsts x with
      | .ok v => v == .int 2
      | .error _ => false
    | .error _ => false
  | .error _ => false

theorem roundtrip_logfin_castint_counterexample :
    (Domain.fin cxFin).ok = true ∧ ScalingHyp pwEnv cxConsts (.fin cxFin) ∧
    cxFin.values pwEnv = [.int 1, .int 2] ∧
    ∃ r x, mkFin pwEnv cxConsts cxFin.lower cxFin.upper cxFin.size .log cxFin.castInt = .ok r ∧
      r.encode pwEnv cxConsts 1 = .ok x ∧ r.decode pwEnv cxConsts x = .ok (.int 2) := by
  refine ⟨by decide +kernel, ?_, by decide +kernel, ?_⟩
  · intro _
    rw [cx_low, cx_up]
    refine ⟨?_, by norm_num, ?_⟩
    · intro t h0 h1
      simp only [pwEnv, pwLog]
      by_cases ht : t ≤ 13 / 25
      · have : 3 / 5 + t * (10 / 13) ≤ 1 := by linarith
        simp only [ht, this, if_true]; ring
      · have : ¬ (1 + (t - 13 / 25) * (5 / 4) ≤ 1) := by
          rw [not_le] at ht ⊢; linarith
        simp only [ht, this, if_false]; ring
    · intro t h0 h1
      simp only [pwEnv, pwLog, cxFin]
      by_cases ht : t ≤ 13 / 25
      · simp only [ht, if_true]; constructor <;> linarith
      · simp only [ht, if_false]; rw [not_le] at ht; constructor <;> linarith
  · have hc : cxCheck = true := by decide +kernel
    unfold cxCheck at hc
    split at hc
    · rename_i r hr
      split at hc
      · rename_i x hx
        split at hc
        · rename_i v hv
          exact ⟨r, x, hr, hx, by rw [hv, eq_of_beq hc]⟩
        · cases hc
      · cases hc
    · cases hc

/-! ### non-vacuity: concrete objects meeting the hypotheses -/

section Examples

/-- identity scalings (exact for linear kinds) and the literals `EPS = 1e-8`, `0.499`, `0.01` -/
def exEnv : Env := ⟨⟨id, id⟩, ⟨id, id⟩, ⟨id, id⟩⟩
def exConsts : Consts := ⟨1 / 100000000, 499 / 1000, 1 / 100⟩

/-- `{"lr": uniform(0.1, 1) [active uniform(0.2, 0.5)], "n": randint(1, 81), "opt": choice([..3..])
[active 2 of them], "k": finrange(0.1, 1, 10, cast_int=True)}` with `name_last_pos = "n"` -/
def exHPs : List HP :=
  [⟨"lr", .flt ⟨1 / 10, 1, .lin, none⟩, some (.flt ⟨1 / 5, 1 / 2, .lin, none⟩)⟩,
   ⟨"n", .int ⟨1, 81, .lin, none⟩, none⟩,
   ⟨"opt", .cat ⟨[.str "sgd", .str "adam", .str "rms"], false⟩, some (.cat ⟨[.str "adam", .str "rms"], false⟩)⟩,
   ⟨"k", .fin ⟨1 / 10, 1, 10, false, true⟩, none⟩]

/-- the space is accepted, has 6 encoded coordinates, internal order k, lr, opt, n -/
example : ((mkSpace exEnv exConsts exHPs none (some "n") none).map
    (fun sp => (sp.ndarraySize, sp.entries.map (·.1)))) = .ok (6, ["k", "lr", "opt", "n"]) := by
  decide +kernel

example : ∀ h ∈ exHPs, h.dom.ok = true := by decide +kernel
example : ∀ h ∈ exHPs, Linear h.dom := by
  intro h hh
  simp only [exHPs, List.mem_cons, List.mem_nil_iff, or_false] at hh
  rcases hh with rfl | rfl | rfl | rfl <;> simp [Linear]

/-- hypotheses on the constants used by the theorems -/
example : 0 < exConsts.eps ∧ exConsts.eps ≤ 1 / 2 ∧ exConsts.c499 < 1 / 2 := by decide +kernel

/-- the abstract-scaling hypotheses are satisfiable by a genuinely non-linear scaling -/
example : ScalingOK pwLog (3 / 5) (8 / 5) := by
  refine ⟨?_, ?_, ?_⟩
  · intro y h1 h2
    simp only [pwLog]
    by_cases hy : y ≤ 1
    · have : (y - 3 / 5) * (13 / 10) ≤ 13 / 25 := by linarith
      simp only [hy, this, if_true]; ring
    · have : ¬ (13 / 25 + (y - 1) * (4 / 5) ≤ 13 / 25) := by rw [not_le] at hy ⊢; linarith
      simp only [hy, this, if_false]; ring
  · intro y z h1 h2 h3
    simp only [pwLog]
    by_cases hy : y ≤ 1 <;> by_cases hz : z ≤ 1 <;> simp only [hy, hz, if_true, if_false] <;>
      (try rw [not_le] at hy) <;> (try rw [not_le] at hz) <;> linarith
  · intro t u h1 h2 h3
    simp only [pwLog] at h1 h3 ⊢
    by_cases ht : t ≤ 13 / 25 <;> by_cases hu : u ≤ 13 / 25 <;> simp only [ht, hu, if_true, if_false] <;>
      (try rw [not_le] at ht) <;> (try rw [not_le] at hu) <;> linarith

/-- `qrandint(4, 16, 4)` meets the hypotheses of `sample_member_partial` -/
example : DrawOK (.int ⟨4, 16, .lin, some 4⟩) (.idx 9) ∧ SampleHyp exEnv (.int ⟨4, 16, .lin, some 4⟩) := by
  refine ⟨by simp [DrawOK], ?_⟩
  show (ScaleKind.lin = ScaleKind.log → _) ∧ ∀ q : ℤ, some (4 : ℤ) = some q → _
  refine ⟨fun h => (by cases h), ?_⟩
  intro q hq
  injection hq with hq
  subst hq
  exact ⟨by decide, ⟨1, by decide⟩, ⟨4, by decide⟩⟩

/-- the hypotheses of `active_onehot_partial` are satisfiable: a point of the bounds box of
`choice([a,b,c,d])` / active `[b,c]` with a positive coordinate -/
example : ∃ r, mkOneHot [.str "a", .str "b", .str "c", .str "d"] (some [.str "b", .str "c"]) = .ok r ∧
    InBox [0, 1 / 2, 0, 0] r.bounds ∧ ∃ x ∈ ([0, 1 / 2, 0, 0] : List ℚ), 0 < x := by
  refine ⟨⟨[.str "a", .str "b", .str "c", .str "d"], [(0, 0), (0, 1), (0, 1), (0, 0)]⟩, rfl, ?_,
    ⟨1 / 2, by simp, by norm_num⟩⟩
  refine ⟨rfl, ?_⟩
  intro i hi hb
  simp only [List.length_cons, List.length_nil] at hi
  have : i = 0 ∨ i = 1 ∨ i = 2 ∨ i = 3 := by omega
  rcases this with rfl | rfl | rfl | rfl <;> norm_num

/-- the hypotheses of `roundtrip_partial` / `active_partial` for a log-scaled float domain
(`loguniform(0.6, 1.6)`) are met by the non-linear stand-in scaling -/
example : ScalingHyp pwEnv exConsts (.flt ⟨3 / 5, 8 / 5, .log, none⟩) := by
  have h : ScalingOK pwLog (3 / 5) (8 / 5) := by
    refine ⟨?_, ?_, ?_⟩
    · intro y h1 h2
      simp only [pwLog]
      by_cases hy : y ≤ 1
      · have : (y - 3 / 5) * (13 / 10) ≤ 13 / 25 := by linarith
        simp only [hy, this, if_true]; ring
      · have : ¬ (13 / 25 + (y - 1) * (4 / 5) ≤ 13 / 25) := by rw [not_le] at hy ⊢; linarith
        simp only [hy, this, if_false]; ring
    · intro y z h1 h2 h3
      simp only [pwLog]
      by_cases hy : y ≤ 1 <;> by_cases hz : z ≤ 1 <;> simp only [hy, hz, if_true, if_false] <;>
        (try rw [not_le] at hy) <;> (try rw [not_le] at hz) <;> linarith
    · intro t u h1 h2 h3
      simp only [pwLog] at h1 h3 ⊢
      by_cases ht : t ≤ 13 / 25 <;> by_cases hu : u ≤ 13 / 25 <;> simp only [ht, hu, if_true, if_false] <;>
        (try rw [not_le] at ht) <;> (try rw [not_le] at hu) <;> linarith
  exact ⟨h.inv, h.mono, h.monoFrom⟩

/-! degenerate but legal domains: accepted, and the theorems apply to them -/

/-- `uniform(2.5, 2.5)`: encodes to 0, every admissible `x` decodes to 2.5, bounds `(0, 0)` -/
example : (mkRange exEnv exConsts ⟨"x", .flt ⟨5 / 2, 5 / 2, .lin, none⟩, none⟩).map
    (fun r => (r.bounds, r.encode exEnv exConsts (.flt (5 / 2)), r.decode exEnv exConsts [1], r.decode exEnv exConsts [0]))
    = .ok ([(0, 0)], .ok [0], .ok (.flt (5 / 2)), .ok (.flt (5 / 2))) := by decide +kernel

/-- `randint(7, 7)` -/
example : (mkRange exEnv exConsts ⟨"x", .int ⟨7, 7, .lin, none⟩, none⟩).map
    (fun r => (r.decode exEnv exConsts [0], r.decode exEnv exConsts [1], r.decode exEnv exConsts [1 / 2]))
    = .ok (.ok (.int 7), .ok (.int 7), .ok (.int 7)) := by decide +kernel

/-- `choice(["only"])`: one-hot of size one with bounds `(1, 1)` -/
example : (mkRange exEnv exConsts ⟨"x", .cat ⟨[.str "only"], false⟩, none⟩).map
    (fun r => (r.size, r.bounds, r.encode exEnv exConsts (.str "only"), r.decode exEnv exConsts [0]))
    = .ok (1, [(1, 1)], .ok [1], .ok (.str "only")) := by decide +kernel

/-- `ordinal([3], kind="equal")` and `finrange(0.5, 0.5, 1)` -/
example : (mkRange exEnv exConsts ⟨"x", .cat ⟨[.int 3], true⟩, none⟩).map
    (fun r => (r.decode exEnv exConsts [0], r.decode exEnv exConsts [1])) = .ok (.ok (.int 3), .ok (.int 3)) := by
  decide +kernel
example : (mkRange exEnv exConsts ⟨"x", .fin ⟨1 / 2, 1 / 2, 1, false, false⟩, none⟩).map
    (fun r => (r.decode exEnv exConsts [0], r.decode exEnv exConsts [1], r.encode exEnv exConsts (.flt (1 / 2))))
    = .ok (.ok (.flt (1 / 2)), .ok (.flt (1 / 2)), .ok [1 / 2]) := by decide +kernel

end Examples

end SyneTune.C07
