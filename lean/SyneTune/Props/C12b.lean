import SyneTune.Lemmas.TunerC12bRun
import SyneTune.Lemmas.TunerC12bWitness
import SyneTune.Lemmas.TunerWitness
/-
C12b — overshoot of the count-based stopping criteria other than `max_num_trials_started`
(which `Props/C12.lean: overshoot` covers).  Property theorems only.
Model: `Model/Tuner.lean`, `Model/StoppingCriterion.lean`, `Model/TuningStatus.lean`; helper lemmas:
`Lemmas/TunerC12bFrame.lean` (frame lemma, counting), `TunerC12bCount.lean` (the generic invariant),
`TunerC12bInProgress.lean` (recorded `in_progress` ⊆ running set), `TunerC12bRun.lean` (instances,
`max_num_evaluations`); witnesses: `Lemmas/TunerC12bWitness.lean`.

`run (init c) as` is the state of `Tuner.run()` after the environment answers `as` (any poll
outcomes, decisions, suggestions, clock readings, `raise` at ANY call).  `stopReached` is the
variable `stop_condition_reached`: the value of `_stop_condition()` at its last evaluation, so a
state with `stopReached = false` is a state up to and including the moment at which the criterion is
found to hold for the first time.  `n` = `n_workers`.

What holds (B = contract B of `Props/C01.lean` on the poll answers):
* `max_num_trials_completed = m`:  count `≤ m` from the `while` test to `tuning_status.update`
  while the condition is false (`completed_before`); `≤ m + n` when the criterion first holds
  (`completed_first`); `≤ m + n` at EVERY point incl. the end of `run()` without
  `wait_trial_completion_when_stopping` (`completed_overshoot_partial`); with it the trials started in
  the last scheduling round complete afterwards: `≤ m + 2n` (`completed_overshoot_wait`), and `m + n`
  is exceeded (`completed_overshoot_counterexample`).
* `max_num_trials_finished = m` (completed + failed + stopped + stopping): the same three statements
  up to `mark_running_job_as_stopped` (`finished_before`, `finished_first`,
  `finished_overshoot_partial`, `finished_overshoot_wait`, `finished_overshoot_counterexample`); that call turns every trial still
  recorded as in progress into a stopped one (`finished_mark`), so at the end of `run()` the count is
  `≤ m + 2n` (`finished_end_partial`), `m + n` is exceeded without waiting
  (`finished_marked_counterexample`), and the `m + 2n` bound needs the running set not to be rebound
  (F15; `finished_end_counterexample`).
* `max_num_evaluations = m`: one poll may deliver any number of results of one trial, so the
  overshoot is NOT bounded by `n`: it is bounded by the number of results of the last poll
  (`evals_before`, `evals_first`, `evals_overshoot_partial`; `evals_workers_counterexample`,
  `evals_wait_counterexample`).
* `max_cost`, `max_wallclock_time`, `min_metric_value`, `max_metric_value` are not count-based: the
  criterion is evaluated once per iteration on whatever the polls delivered (`C12.exit_criterion`);
  there is no overshoot statement to make, and none is made here.
-/
namespace SyneTune.C12b
open SyneTune SyneTune.Tuner SyneTune.Tuner.Cnt

/-! ### `max_num_trials_completed` -/

/-- while the stopping condition is false the budget itself is respected from the `while` test up to
the `tuning_status.update` of `_process_new_results` -/
theorem completed_before (c : Cfg) (m : Nat) (hm : c.crit.maxCompleted = some m) (as : List Ans)
    (hB : Along BOk (init c) as) (hs : (run (init c) as).stopReached = false)
    (hp : prePc (run (init c) as).pc = true) : (run (init c) as).status.numCompleted ≤ m :=
  (completed_run c m hm as hB).g1 hs hp

/-- **the count when the criterion first holds**: as long as the last evaluation of the stopping condition
was false — in particular at the evaluation that finds it true — at most `m + n_workers` trials are
recorded as completed (any configuration of the tuner) -/
theorem completed_first (c : Cfg) (m : Nat) (hm : c.crit.maxCompleted = some m) (as : List Ans)
    (hB : Along BOk (init c) as) (hs : (run (init c) as).stopReached = false)
    (hf : finPc (run (init c) as).pc = false) : (run (init c) as).status.numCompleted ≤ m + c.nWorkers := by
  have := (completed_run c m hm as hB).g4 hs hf
  rwa [run_cfg] at this

/-- **Overshoot, partial**: without `wait_trial_completion_when_stopping` the number of completed trials never
exceeds `m + n_workers`, at any point of any run obeying contract B, in particular when `run()` returns
(normally or by exception).  Full statement (without `hw`) is false: `completed_overshoot_counterexample`. -/
theorem completed_overshoot_partial (c : Cfg) (m : Nat) (hm : c.crit.maxCompleted = some m) (hw : c.wait = false)
    (as : List Ans) (hB : Along BOk (init c) as) : (run (init c) as).status.numCompleted ≤ m + c.nWorkers := by
  have := (completed_run c m hm as hB).g2 (by rw [run_cfg]; exact hw) (Or.inl markInv_completed)
  rwa [run_cfg] at this

/-- **Overshoot with `wait_trial_completion_when_stopping`** (any configuration): the trials that `_schedule_new_tasks`
started in the iteration in which the count passed `m` may complete afterwards; never more than `m + 2·n_workers`. -/
theorem completed_overshoot_wait (c : Cfg) (m : Nat) (hm : c.crit.maxCompleted = some m) (as : List Ans)
    (hB : Along BOk (init c) as) : (run (init c) as).status.numCompleted ≤ m + 2 * c.nWorkers := by
  have := (completed_run c m hm as hB).g5
  rwa [run_cfg] at this

/-- inside the loop the completed trials and the running ones together never exceed `m + 2·n_workers` -/
theorem completed_plus_running (c : Cfg) (m : Nat) (hm : c.crit.maxCompleted = some m) (as : List Ans)
    (hB : Along BOk (init c) as) (hf : finPc (run (init c) as).pc = false) :
    psi pCompleted (run (init c) as).running (run (init c) as).status.last ≤ m + 2 * c.nWorkers := by
  have := (completed_run c m hm as hB).g3 (ip_of_loop hf)
  rwa [run_cfg] at this

/-- **`m + n_workers` is exceeded with `wait_trial_completion_when_stopping=True`.**  `max_num_trials_completed = 0`, two
workers: trials 0 and 1 complete in iteration 2 (count 2 = m + n_workers at the evaluation that finds the criterion
true), the same iteration starts trials 2 and 3 (its stopping condition was still false), the loop waits for them and
`run()` returns normally with 4 completed trials.  Contract B holds. -/
theorem completed_overshoot_counterexample :
    Witness.cwCfg.wait = true ∧ Witness.cwCfg.crit.maxCompleted = some 0 ∧ Witness.cwCfg.nWorkers = 2 ∧
    Along BOk (init Witness.cwCfg) (Witness.twoPrefix ++ Witness.twoWaitRest) ∧
    (run (init Witness.cwCfg) Witness.twoPrefix).pc = .loopHead ∧
    (run (init Witness.cwCfg) Witness.twoPrefix).stopReached = true ∧
    (run (init Witness.cwCfg) Witness.twoPrefix).status.numCompleted = 2 ∧
    (run (init Witness.cwCfg) Witness.twoPrefix).running = [2, 3] ∧
    (run (init Witness.cwCfg) (Witness.twoPrefix ++ Witness.twoWaitRest)).pc = .done ∧
    (run (init Witness.cwCfg) (Witness.twoPrefix ++ Witness.twoWaitRest)).err = none ∧
    (run (init Witness.cwCfg) (Witness.twoPrefix ++ Witness.twoWaitRest)).status.numCompleted = 4 := by
  refine ⟨rfl, rfl, rfl, along_of bOk_of (by decide +kernel), ?_, ?_, ?_, ?_, ?_, ?_, ?_⟩ <;> decide +kernel

/-! ### `max_num_trials_finished` -/

theorem finished_before (c : Cfg) (m : Nat) (hm : c.crit.maxFinished = some m) (as : List Ans)
    (hB : Along BOk (init c) as) (hs : (run (init c) as).stopReached = false)
    (hp : prePc (run (init c) as).pc = true) : (run (init c) as).status.numFinished ≤ m :=
  (finished_run c m hm as hB).g1 hs hp

/-- the count when the criterion first holds (any configuration) -/
theorem finished_first (c : Cfg) (m : Nat) (hm : c.crit.maxFinished = some m) (as : List Ans)
    (hB : Along BOk (init c) as) (hs : (run (init c) as).stopReached = false)
    (hf : finPc (run (init c) as).pc = false) : (run (init c) as).status.numFinished ≤ m + c.nWorkers := by
  have := (finished_run c m hm as hB).g4 hs hf
  rwa [run_cfg] at this

/-- **Overshoot, partial**: without `wait_trial_completion_when_stopping` the number of finished trials never exceeds
`m + n_workers` at any point of the run up to `mark_running_job_as_stopped` (`markedPc`: the control points after it) —
in particular when the loop is left, normally or by exception, and while `stop_all` works.
Without `hw`: `finished_overshoot_counterexample`; past the mark: `finished_marked_counterexample`. -/
theorem finished_overshoot_partial (c : Cfg) (m : Nat) (hm : c.crit.maxFinished = some m) (hw : c.wait = false)
    (as : List Ans) (hB : Along BOk (init c) as) (hk : markedPc (run (init c) as).pc = false) :
    (run (init c) as).status.numFinished ≤ m + c.nWorkers := by
  have := (finished_run c m hm as hB).g2 (by rw [run_cfg]; exact hw) (Or.inr hk)
  rwa [run_cfg] at this

/-- **Overshoot with `wait_trial_completion_when_stopping`** (any configuration), up to the entry of the `finally` block
(`ipPc`: the control points of the loop and `on_tuning_end`): never more than `m + 2·n_workers` finished trials. -/
theorem finished_overshoot_wait (c : Cfg) (m : Nat) (hm : c.crit.maxFinished = some m) (as : List Ans)
    (hB : Along BOk (init c) as) (hp : ipPc (run (init c) as).pc = true) :
    (run (init c) as).status.numFinished ≤ m + 2 * c.nWorkers := by
  have := (finished_run c m hm as hB).g3 hp
  rw [run_cfg] at this
  exact Nat.le_trans (by rw [numFinished_eq, numIn_eq]; exact cnt_le_psi _ _ _) this

/-- with `wait_trial_completion_when_stopping=True` the bound `m + n_workers` is exceeded before the mark already
(same answers as `completed_overshoot_counterexample`; the state is the entry of the `finally` block) -/
theorem finished_overshoot_counterexample :
    Witness.fwCfg.wait = true ∧ Witness.fwCfg.crit.maxFinished = some 0 ∧ Witness.fwCfg.nWorkers = 2 ∧
    Along BOk (init Witness.fwCfg) (Witness.twoPrefix ++ Witness.twoWaitRest.take 19) ∧
    (run (init Witness.fwCfg) (Witness.twoPrefix ++ Witness.twoWaitRest.take 19)).pc = .finTuningEnd ∧
    (run (init Witness.fwCfg) (Witness.twoPrefix ++ Witness.twoWaitRest.take 19)).err = none ∧
    (run (init Witness.fwCfg) (Witness.twoPrefix ++ Witness.twoWaitRest.take 19)).status.numFinished = 4 := by
  refine ⟨rfl, rfl, rfl, along_of bOk_of (by decide +kernel), ?_, ?_, ?_⟩ <;> decide +kernel

/-- **what `mark_running_job_as_stopped` does to the count**: every trial still recorded as in progress becomes a
finished one -/
theorem finished_mark (ts : TStatus) : ts.markStopped.numFinished = ts.numFinished + ts.numRunning :=
  numFinished_markStopped ts

/-- without waiting, the count at the END of `run()` exceeds `m + n_workers`: `max_num_trials_finished = 0`, two workers;
when the loop is left 2 trials are finished (= m + n_workers) and 2 are running; `stop_all` stops them and
`mark_running_job_as_stopped` records them: 4 finished -/
theorem finished_marked_counterexample :
    Witness.fnCfg.wait = false ∧ Witness.fnCfg.crit.maxFinished = some 0 ∧ Witness.fnCfg.nWorkers = 2 ∧
    Along BOk (init Witness.fnCfg) (Witness.twoPrefix ++ Witness.twoStopRest) ∧
    Along RebindOk (init Witness.fnCfg) (Witness.twoPrefix ++ Witness.twoStopRest) ∧
    (run (init Witness.fnCfg) (Witness.twoPrefix ++ Witness.twoStopRest.take 15)).pc = .finMark ∧
    (run (init Witness.fnCfg) (Witness.twoPrefix ++ Witness.twoStopRest.take 15)).status.numFinished = 2 ∧
    (run (init Witness.fnCfg) (Witness.twoPrefix ++ Witness.twoStopRest)).pc = .done ∧
    (run (init Witness.fnCfg) (Witness.twoPrefix ++ Witness.twoStopRest)).err = none ∧
    (run (init Witness.fnCfg) (Witness.twoPrefix ++ Witness.twoStopRest)).status.numFinished = 4 := by
  refine ⟨rfl, rfl, rfl, along_of bOk_of (by decide +kernel), along_of rebindOk_of (by decide +kernel), ?_, ?_, ?_, ?_, ?_⟩ <;>
    decide +kernel

/-- **The count at the end of `run()`, partial**: finished trials and trials recorded as in progress together never
exceed `m + 2·n_workers` — at any point of any run, with or without waiting, in particular after
`mark_running_job_as_stopped` (when none is in progress any more) — PROVIDED the local `running_trials_ids` of
`_schedule_new_tasks` is never rebound (`RebindOk`; for free with `start_jobs_without_delay=True`, `finished_end_swd`).
Full statement (without `hR`) is false: `finished_end_counterexample`. -/
theorem finished_end_partial (c : Cfg) (m : Nat) (hm : c.crit.maxFinished = some m) (as : List Ans)
    (hB : Along BOk (init c) as) (hR : Along RebindOk (init c) as) :
    (run (init c) as).status.numFinished + (run (init c) as).status.numRunning ≤ m + 2 * c.nWorkers := by
  have := (finished_end_run c m hm as hB hR).g5
  rwa [run_cfg, numIn_finOrRun] at this

theorem finished_end_swd (c : Cfg) (m : Nat) (hm : c.crit.maxFinished = some m) (hs : c.swd = true) (as : List Ans)
    (hB : Along BOk (init c) as) :
    (run (init c) as).status.numFinished + (run (init c) as).status.numRunning ≤ m + 2 * c.nWorkers :=
  finished_end_partial c m hm as hB (rebindOk_of_swd c hs as)

/-- **F15 breaks the `m + 2·n_workers` bound.**  One worker, `start_jobs_without_delay=False`,
`max_num_trials_finished = 0`: the busy list `[]` is shorter than the running set `{0}`, trial 1 is started into the
rebound set and stays in progress unseen; trial 0 completes, trial 2 is started; at the end 1 completed + 2 stopped
= 3 finished > 0 + 2·1.  Contract B holds; `RebindOk` is what fails. -/
theorem finished_end_counterexample :
    Witness.frCfg.swd = false ∧ Witness.frCfg.crit.maxFinished = some 0 ∧ Witness.frCfg.nWorkers = 1 ∧
    Along BOk (init Witness.frCfg) Witness.frRun ∧
    alongB rebindOkB (init Witness.frCfg) Witness.frRun = false ∧
    (run (init Witness.frCfg) Witness.frRun).pc = .done ∧
    (run (init Witness.frCfg) Witness.frRun).err = none ∧
    (run (init Witness.frCfg) Witness.frRun).status.numFinished = 3 := by
  refine ⟨rfl, rfl, rfl, along_of bOk_of (by decide +kernel), ?_, ?_, ?_, ?_⟩ <;> decide +kernel

/-! ### `max_num_evaluations` -/

/-- while the stopping condition is false the budget itself is respected up to `tuning_status.update` (no contract) -/
theorem evals_before (c : Cfg) (m : Nat) (hm : c.crit.maxEvals = some m) (as : List Ans)
    (hs : (run (init c) as).stopReached = false) (hp : prePc (run (init c) as).pc = true) :
    (run (init c) as).status.overall.count ≤ m :=
  (evals_run c m hm as).e1 hs hp

/-- **the count when the criterion first holds**: at most `m` plus the number of results that the last poll
delivered (`allRes` is `new_results` of the last `fetch_status_results`) -/
theorem evals_first (c : Cfg) (m : Nat) (hm : c.crit.maxEvals = some m) (as : List Ans)
    (hs : (run (init c) as).stopReached = false) (hf : finPc (run (init c) as).pc = false) :
    (run (init c) as).status.overall.count ≤ m + (run (init c) as).allRes.length :=
  (evals_run c m hm as).e2 hs hf

/-- **Overshoot, partial**: without `wait_trial_completion_when_stopping` the number of reported results never exceeds
`m` plus the size of the last poll's result list, at any point of any run, in particular when `run()` returns.
The bound `m + n_workers` is false (`evals_workers_counterexample`); with waiting every further poll adds its
results (`evals_wait_counterexample`). -/
theorem evals_overshoot_partial (c : Cfg) (m : Nat) (hm : c.crit.maxEvals = some m) (hw : c.wait = false)
    (as : List Ans) : (run (init c) as).status.overall.count ≤ m + (run (init c) as).allRes.length :=
  (evals_run c m hm as).e3 (by rw [run_cfg]; exact hw)

/-- **not bounded by `n_workers`**: one worker, `max_num_evaluations = 0`; one poll delivers three results of the one
running trial: 3 > 0 + 1 when the criterion is evaluated and when `run()` returns.  Contract B holds, no waiting. -/
theorem evals_workers_counterexample :
    Witness.evCfg.wait = false ∧ Witness.evCfg.crit.maxEvals = some 0 ∧ Witness.evCfg.nWorkers = 1 ∧
    Along BOk (init Witness.evCfg) (Witness.evPrefix ++ Witness.evRest) ∧
    (run (init Witness.evCfg) Witness.evPrefix).stopReached = false ∧
    (run (init Witness.evCfg) Witness.evPrefix).status.overall.count = 3 ∧
    (run (init Witness.evCfg) Witness.evPrefix).allRes.length = 3 ∧
    (run (init Witness.evCfg) (Witness.evPrefix ++ Witness.evRest)).pc = .done ∧
    (run (init Witness.evCfg) (Witness.evPrefix ++ Witness.evRest)).err = none ∧
    (run (init Witness.evCfg) (Witness.evPrefix ++ Witness.evRest)).status.overall.count = 3 := by
  refine ⟨rfl, rfl, rfl, along_of bOk_of (by decide +kernel), ?_, ?_, ?_, ?_, ?_, ?_⟩ <;> decide +kernel

/-- with `wait_trial_completion_when_stopping=True` the results of later polls add up: 4 reported results, the last
poll delivered 2, `m = 0` -/
theorem evals_wait_counterexample :
    Witness.ewCfg.wait = true ∧ Witness.ewCfg.crit.maxEvals = some 0 ∧ Witness.ewCfg.nWorkers = 2 ∧
    (run (init Witness.ewCfg) (Witness.twoPrefix ++ Witness.twoWaitRest)).pc = .done ∧
    (run (init Witness.ewCfg) (Witness.twoPrefix ++ Witness.twoWaitRest)).err = none ∧
    (run (init Witness.ewCfg) (Witness.twoPrefix ++ Witness.twoWaitRest)).status.overall.count = 4 ∧
    (run (init Witness.ewCfg) (Witness.twoPrefix ++ Witness.twoWaitRest)).allRes.length = 2 := by
  refine ⟨rfl, rfl, rfl, ?_, ?_, ?_, ?_⟩ <;> decide +kernel

/-! ### concrete instances: the hypotheses are satisfiable and the bounds are attained -/

/-- `completed_before` / `completed_first`: iteration 2 of the two-worker run, just before and just after
`tuning_status.update` (stopping condition false): 0 ≤ m = 0 completed, then 2 = m + n_workers -/
example :
    (run (init Witness.cnCfg) (Witness.twoPrefix.take 41)).pc = .afterUpd ∧
    prePc (run (init Witness.cnCfg) (Witness.twoPrefix.take 41)).pc = true ∧
    (run (init Witness.cnCfg) (Witness.twoPrefix.take 41)).stopReached = false ∧
    (run (init Witness.cnCfg) (Witness.twoPrefix.take 41)).status.numCompleted = 0 ∧
    (run (init Witness.cnCfg) (Witness.twoPrefix.take 42)).pc = .schedNew ∧
    (run (init Witness.cnCfg) (Witness.twoPrefix.take 42)).stopReached = false ∧
    (run (init Witness.cnCfg) (Witness.twoPrefix.take 42)).status.numCompleted = 2 := by
  decide +kernel

example : (run (init Witness.cnCfg) (Witness.twoPrefix.take 42)).status.numCompleted ≤ 0 + 2 :=
  completed_first Witness.cnCfg 0 rfl _ (along_of bOk_of (by decide +kernel)) (by decide +kernel) (by decide +kernel)

/-- `completed_overshoot_partial` on the whole run without waiting (the bound is attained: 2 completed) -/
example : (run (init Witness.cnCfg) (Witness.twoPrefix ++ Witness.twoStopRest)).status.numCompleted ≤ 0 + 2 :=
  completed_overshoot_partial Witness.cnCfg 0 rfl rfl _ (along_of bOk_of (by decide +kernel))

example : (run (init Witness.cnCfg) (Witness.twoPrefix ++ Witness.twoStopRest)).pc = .done ∧
    (run (init Witness.cnCfg) (Witness.twoPrefix ++ Witness.twoStopRest)).status.numCompleted = 2 := by decide +kernel

/-- `completed_overshoot_wait` / `completed_plus_running`: the bound `m + 2·n_workers = 4` is attained -/
example : (run (init Witness.cwCfg) (Witness.twoPrefix ++ Witness.twoWaitRest)).status.numCompleted ≤ 0 + 2 * 2 :=
  completed_overshoot_wait Witness.cwCfg 0 rfl _ (along_of bOk_of (by decide +kernel))

example : psi pCompleted (run (init Witness.cwCfg) Witness.twoPrefix).running
    (run (init Witness.cwCfg) Witness.twoPrefix).status.last = 4 := by decide +kernel

/-- `finished_before`, `finished_first`, `finished_overshoot_partial`: the run without waiting, at the `while` test
that leaves the loop: 2 finished = m + n_workers, not yet marked -/
example :
    (run (init Witness.fnCfg) Witness.twoPrefix).pc = .loopHead ∧
    markedPc (run (init Witness.fnCfg) Witness.twoPrefix).pc = false ∧
    (run (init Witness.fnCfg) Witness.twoPrefix).status.numFinished = 2 ∧
    (run (init Witness.fnCfg) (Witness.twoPrefix.take 41)).stopReached = false ∧
    prePc (run (init Witness.fnCfg) (Witness.twoPrefix.take 41)).pc = true ∧
    (run (init Witness.fnCfg) (Witness.twoPrefix.take 55)).stopReached = false ∧
    (run (init Witness.fnCfg) (Witness.twoPrefix.take 55)).pc = .evalStop ∧
    (run (init Witness.fnCfg) (Witness.twoPrefix.take 55)).status.numFinished = 2 := by
  decide +kernel

example : (run (init Witness.fnCfg) Witness.twoPrefix).status.numFinished ≤ 0 + 2 :=
  finished_overshoot_partial Witness.fnCfg 0 rfl rfl _ (along_of bOk_of (by decide +kernel)) (by decide +kernel)

/-- `finished_mark` on the status at the mark of that run: 2 finished + 2 in progress become 4 finished -/
example :
    (run (init Witness.fnCfg) (Witness.twoPrefix ++ Witness.twoStopRest.take 15)).status.numRunning = 2 ∧
    (run (init Witness.fnCfg) (Witness.twoPrefix ++ Witness.twoStopRest.take 15)).status.markStopped.numFinished = 4 := by
  decide +kernel

/-- `finished_end_partial` / `finished_end_swd`: the bound `m + 2·n_workers = 4` is attained at the end of that run -/
example : (run (init Witness.fnCfg) (Witness.twoPrefix ++ Witness.twoStopRest)).status.numFinished
    + (run (init Witness.fnCfg) (Witness.twoPrefix ++ Witness.twoStopRest)).status.numRunning ≤ 0 + 2 * 2 :=
  finished_end_swd Witness.fnCfg 0 rfl rfl _ (along_of bOk_of (by decide +kernel))

/-- `evals_before`, `evals_first`, `evals_overshoot_partial` on the three-results run: before the update 0 ≤ m, after
it 3 = m + |new_results| -/
example :
    (run (init Witness.evCfg) (Witness.evPrefix.take 34)).pc = .afterUpd ∧
    (run (init Witness.evCfg) (Witness.evPrefix.take 34)).stopReached = false ∧
    (run (init Witness.evCfg) (Witness.evPrefix.take 34)).status.overall.count = 0 ∧
    (run (init Witness.evCfg) Witness.evPrefix).pc = .schedNew ∧
    finPc (run (init Witness.evCfg) Witness.evPrefix).pc = false := by
  decide +kernel

example : (run (init Witness.evCfg) (Witness.evPrefix ++ Witness.evRest)).status.overall.count
    ≤ 0 + (run (init Witness.evCfg) (Witness.evPrefix ++ Witness.evRest)).allRes.length :=
  evals_overshoot_partial Witness.evCfg 0 rfl rfl _

end SyneTune.C12b
