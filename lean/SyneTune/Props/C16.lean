import SyneTune.Lemmas.SearcherBasic
import SyneTune.Lemmas.SearcherRandom
import SyneTune.Lemmas.SearcherGrid
import SyneTune.Lemmas.SearcherBO
/-
C16 — a saved and restored searcher continues exactly like the original
(`get_state` / `clone_from_state` half; the `dill` half is decided by twin continuation
traces in `harness/props/c16.py`, translation-validation style).
Property theorems only; helper lemmas are in `Lemmas/Searcher{Random,Grid,BO}.lean`.
Models: `Model/{RandomSearcher,Grid,Searcher}.lean`.

The random generator is an input tape shared by the original and the clone: the state
holds the position `rng` on it, so "the generator state is restored" means the clone reads
the tape from the same position.  The iteration order of the set of match strings in the
snapshot (`list(self.excl_set)`) is an arbitrary permutation `order`.
-/
namespace SyneTune.C16
open SyneTune SyneTune.Srch

/-- **Random searcher.**  Take the snapshot at ANY point of ANY history (`pre`), listing
the exclusion set in ANY order, and re-create the searcher from it
(`RandomSearcher.clone_from_state`, after the fixes dc67087 / 4e9ab8a).  The clone exists
and, for EVERY continuation `ops` (suggest / pending / failed / result events, any draws),
returns exactly the outputs — or raises exactly the error — of the searcher that was never
interrupted. -/
theorem random (imm : RImm) (tape : Nat → Config) (init : List Config) (pre : List ROp)
    (s : RState) (outs0 : List (Option Config))
    (hpre : RState.run imm tape (RState.init init) pre = .ok (s, outs0))
    (keys order : List String) (hord : order.Perm s.excl) (ops : List ROp) :
    ∃ t, RState.clone imm (s.getState imm keys order) = .ok t ∧ RState.Equiv imm s t ∧
      (RState.run imm tape t ops).map Prod.snd = (RState.run imm tape s ops).map Prod.snd := by
  have hn : s.excl.Nodup := run_excl_nodup imm tape pre (RState.init init) s outs0 hpre (by simp [RState.init])
  obtain ⟨t, hc, he⟩ := clone_equiv imm s keys order hn hord
  refine ⟨t, hc, he, ?_⟩
  have hr := run_equiv imm tape ops s t he
  revert hr
  cases h1 : RState.run imm tape s ops with
  | error e =>
    cases h2 : RState.run imm tape t ops with
    | error e' => intro h; simp only [RelE] at h; subst h; rfl
    | ok r => intro h; exact h.elim
  | ok r =>
    obtain ⟨s1, o1⟩ := r
    cases h2 : RState.run imm tape t ops with
    | error e' => intro h; exact h.elim
    | ok r' =>
      obtain ⟨t1, o2⟩ := r'
      intro h
      simp only [RelE] at h
      simp [Except.map, h.1]

/-- equivalent states (equal up to the representation of the exclusion set) are
indistinguishable by any continuation: a bisimulation -/
theorem random_bisimulation (imm : RImm) (tape : Nat → Config) (s t : RState)
    (he : RState.Equiv imm s t) (ops : List ROp) :
    RelE imm (RState.run imm tape s ops) (RState.run imm tape t ops) :=
  run_equiv imm tape ops s t he

/-- **Grid searcher** (code after the fix 167bb09: the grid order is part of the state).
Snapshot at any point of any history, any listing order of the set of initial
configurations; the clone is built on ANY freshly constructed searcher `fresh` — whatever
grid order that object shuffled for itself.  For every continuation the clone's outputs
(and errors) are those of the original: no configuration is suggested twice or skipped
because of the restore (with `C06.grid_once`). -/
theorem grid (imm : GImm) (s0 : GState) (hs0 : s0.allInit.Nodup) (pre : List GOp) (s : GState)
    (outs0 : List (Option Config)) (hpre : GState.run imm s0 pre = .ok (s, outs0))
    (fresh : GState) (keys order : List String) (hord : order.Perm s.allInit) (ops : List GOp) :
    GState.Equiv s (GState.clone fresh (s.getState keys order)) ∧
    (GState.run imm (GState.clone fresh (s.getState keys order)) ops).map Prod.snd =
      (GState.run imm s ops).map Prod.snd := by
  have hn : s.allInit.Nodup := GState.run_nodup imm s0 s pre outs0 hs0 hpre
  have he := GState.clone_equiv s fresh keys order hn hord
  refine ⟨he, ?_⟩
  obtain ⟨herr, hok⟩ := GState.run_equiv imm s _ he ops
  cases h1 : GState.run imm s ops with
  | error e => rw [(herr e).mp h1]
  | ok r =>
    obtain ⟨s1, o1⟩ := r
    obtain ⟨t1, ht, _⟩ := hok s1 o1 h1
    rw [ht]; rfl

def exMk : MK := fun c => match cget "x" c with
  | some (.int 0) => .ok "0"
  | some (.int 1) => .ok "1"
  | some (.int 2) => .ok "2"
  | _ => .error (.keyError "x")

def f3Imm : GImm := { mkf := exMk, hpKeys := ["x"], allowDup := false }
/-- the original has traversed one point of its grid 2,0,1 -/
def f3Orig : GState := { p2e := [], next := 1, allInit := [], combos := [[.int 2], [.int 0], [.int 1]], rng := 1 }
/-- the fresh object built the default-seed order 0,1,2 -/
def f3Fresh : GState := { p2e := [], next := 0, allInit := [], combos := [[.int 0], [.int 1], [.int 2]], rng := 1 }

/-- **The behaviour before the fix (F3)** on the model: a clone that keeps the grid its own
constructor shuffled continues differently — here it repeats `x = 2` and skips `x = 0` —
while the fixed clone continues like the original.  The twin monitor of `c16.py` reports
the former as `c16:grid-clone-reshuffled`. -/
theorem grid_reshuffled_counterexample :
    (GState.run f3Imm f3Orig [.get, .get]).map Prod.snd = .ok [some [("x", .int 0)], some [("x", .int 1)]] ∧
    (GState.run f3Imm (GState.cloneOld f3Fresh (f3Orig.getState ["x"] [])) [.get, .get]).map Prod.snd =
      .ok [some [("x", .int 1)], some [("x", .int 2)]] ∧
    (GState.run f3Imm (GState.clone f3Fresh (f3Orig.getState ["x"] [])) [.get, .get]).map Prod.snd =
      .ok [some [("x", .int 0)], some [("x", .int 1)]] := by
  refine ⟨by decide +kernel, by decide +kernel, by decide +kernel⟩

/-- **State codec of the GP searchers** (`encode_state` / `decode_state` of the
bookkeeping state: configurations per trial, observations incl. multi-fidelity metric
dictionaries, failed trials, pending evaluations with and without resource): decoding the
encoded state gives back the state, for every state satisfying the constructor's invariant
that all trial ids are registered. -/
theorem state_codec (st : TJState) (h : st.idsRegistered = true) :
    decodeState (encodeState st) = .ok st :=
  decode_encode st h

/-! ### non-vacuity -/

def exImm : RImm := { mkf := exMk, allowDup := true, maxRetries := 100, size := some 3, debugLog := false }

def exTape : Nat → Config := fun i => [("x", .int ((i % 3 : Nat) : Int))]

/-- a history after which the exclusion set, the trial→configuration map and the generator
position are all non-trivial (hypothesis `hpre` of `random`); the snapshot may list the set
as `["0", "2"]` -/
example :
    RState.run exImm exTape (RState.init [[("x", .int 2)]])
        [.get, .pending 0 (some [("x", .int 2)]), .get, .pending 1 (some [("x", .int 0)]), .failed 1, .failed 0] =
      .ok ({ p2e := [], excl := ["2", "0"], cfgFor := [(0, [("x", .int 2)]), (1, [("x", .int 0)])], rng := 1 },
           [some [("x", .int 2)], some [("x", .int 0)]]) := by
  decide +kernel

example : (["0", "2"] : List String).Perm ["2", "0"] := List.Perm.swap "2" "0" []

example :
    let st : TJState :=
      { configFor := [("0", [("x", .rat (1/2))]), ("1", [("x", .rat (1/4))]), ("2", [("x", .nzero)])],
        evals := [{ tid := "0", metrics := [("target", .byRes [("1", 3/4), ("3", 1/2)])] }],
        failed := ["2"], pending := [{ tid := "1", resource := some 3 }, { tid := "0", resource := none }] }
    st.idsRegistered = true ∧ decodeState (encodeState st) = .ok st := by
  refine ⟨by decide +kernel, state_codec _ (by decide +kernel)⟩

end SyneTune.C16
