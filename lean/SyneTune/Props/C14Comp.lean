import SyneTune.Lemmas.C14CompDecision
/-
C14, COMPOSED SYSTEM — "multi-fidelity surrogate data: each observation once, only live
pending entries", for the `HyperbandScheduler` model (`Model/HB.lean`, `Sched`) and the model
of the data bookkeeping of `GPMultiFidelitySearcher` (`Model/SearcherState.lean`, `SState`)
running together: every searcher call an operation emits is fed, in order, into `SState.apply`
(`stepC`, `Lemmas/C14CompDefs.lean`).

* `OpOK` is the contract of the operation stream (what the `Tuner` loop and the training
  scripts guarantee), evaluated along the run by `OpsOK`; each clause is justified at its
  definition and shown NECESSARY by a `…_counterexample` below.
* `CInv` is the invariant relating the two states; `init_CInv` (every scheduler type, every
  `searcher_data` policy, `register_pending_myopic` / `max_resource_attr` on or off),
  `cinv_all_histories` (induction over the history).
* `calls_accepted`: the searcher's assertions are unreachable — the error branch of `stepC`
  is never taken on a reachable state.
* `pending_only_running`, `observed_once`, `no_pending_after_end` are the property.
-/
namespace SyneTune.C14Comp
open SyneTune SyneTune.C04K SyneTune.C14

/-! ### the searcher never raises; the invariant holds after every history -/

/-- **The searcher accepts every call the scheduler makes.**  From a state satisfying the
invariant, for an operation within the contract, none of the emitted calls hits an assertion
of the searcher (`register_pending` for a level which already has an observation,
`remove_case` for a case which is not there): the error branch of `stepC` is unreachable. -/
theorem calls_accepted (y : Sys) (h : CInv y) (op : SOp) (hok : OpOK y op) :
    ∃ st', y.st.applyAll (opStep y.sched op).2 = .ok st' := by
  cases op with
  | suggest n b hint => exact (cinv_suggest y n b hint h).2
  | result t r v hint c e => exact (cinv_result y t r v hint c e h hok).2
  | remove t => exact ⟨y.st, rfl⟩
  | error t => exact ⟨_, rfl⟩
  | complete t r v => exact (cinv_complete y t r v h hok).2

/-- one operation within the contract preserves the invariant -/
theorem cinv_step (y : Sys) (h : CInv y) (op : SOp) (hok : OpOK y op) : CInv (stepC y op) := by
  cases op with
  | suggest n b hint => exact (cinv_suggest y n b hint h).1
  | result t r v hint c e => exact (cinv_result y t r v hint c e h hok).1
  | remove t => exact cinv_remove y t h hok
  | error t => exact cinv_error y t h
  | complete t r v => exact (cinv_complete y t r v h hok).1

/-- **`CInv` holds after every history** of scheduler operations within the contract. -/
theorem cinv_all_histories (y0 : Sys) (h : CInv y0) (ops : List SOp) (hok : OpsOK y0 ops) :
    CInv (runC y0 ops) := by
  induction ops generalizing y0 with
  | nil => exact h
  | cons op ops ih => exact ih (stepC y0 op) (cinv_step y0 h op hok.1) hok.2

/-- **Every constructed system satisfies the invariant**: scheduler of any type (stopping,
promotion, pasha, cost_promotion, rush_stopping, rush_promotion) built by the bracket manager's
constructor from positive, strictly increasing rung levels below `max_t`, every `searcher_data`
policy, `register_pending_myopic` / `max_resource_attr` / cost attribute on or off; searcher
without data. -/
theorem init_CInv (ty : HBType) (mode : Mode) (maxT : Nat) (levels : List Nat) (brackets : Nat)
    (perBracket : Bool) (numThr : Nat) (sd : SearcherData) (my mra hc : Bool)
    (hmax : 1 ≤ maxT) (hinc : levels.Pairwise (· < ·)) (hlev : ∀ l ∈ levels, 1 ≤ l ∧ l < maxT) :
    CInv { sched := { mgr := Manager.init ty mode maxT levels brackets perBracket numThr, searcherData := sd,
                      hasCost := hc, pendingMyopic := my, maxResourceAttr := mra },
           st := { mode := mode } } :=
  init_CInv' ty mode maxT levels brackets perBracket numThr sd my mra hc hmax hinc hlev

/-- the rung levels computed from `grace_period` / `reduction_factor` satisfy `init_CInv`'s
hypotheses -/
theorem init_CInv_rf (ty : HBType) (mode : Mode) (minT : Nat) (rf : Rat) (maxT : Nat) (brackets : Nat)
    (perBracket : Bool) (numThr : Nat) (sd : SearcherData) (my mra hc : Bool)
    (hmax : 1 ≤ maxT) (hm : 1 ≤ minT) (hrf : 2 ≤ rf) :
    CInv { sched := { mgr := Manager.init ty mode maxT (rungLevelsRF minT rf maxT) brackets perBracket numThr,
                      searcherData := sd, hasCost := hc, pendingMyopic := my, maxResourceAttr := mra },
           st := { mode := mode } } := by
  obtain ⟨h1, h2⟩ := C03.rung_levels_rf minT rf maxT hm hrf
  exact init_CInv ty mode maxT _ brackets perBracket numThr sd my mra hc hmax h1
    (fun l hl => ⟨(h2 l hl).1, (h2 l hl).2⟩)

/-! ### (a) pending evaluations belong to running trials only -/

/-- **Only live pending entries.**  After every history within the contract, every pending
evaluation `(t, r)` the searcher holds belongs to a trial which the scheduler currently
considers running (it is in `_active_trials` with decision CONTINUE — not paused, stopped,
completed, failed or removed), `r` is above the last level the trial reported, not above the
milestone it is currently running to, and has no observation yet. -/
theorem pending_only_running (y0 : Sys) (h0 : CInv y0) (ops : List SOp) (hok : OpsOK y0 ops) (t r : Nat)
    (hp : (t, r) ∈ (runC y0 ops).st.pending) :
    ∃ rec, alookup t (runC y0 ops).sched.active = some rec ∧ rec.decision = .continue ∧
      lastRep rec < r ∧ r ≤ milestoneOf (runC y0 ops).sched.mgr t (lastRep rec) ∧
      (runC y0 ops).st.isLabeled t r = false := by
  have h := cinv_all_histories y0 h0 ops hok
  obtain ⟨rec, h1, h2, h3, h4, _⟩ := h.pend (t, r) hp
  refine ⟨rec, h1, h2, h3, h4, ?_⟩
  cases hl : (runC y0 ops).st.isLabeled t r with
  | false => rfl
  | true =>
    obtain ⟨rec', k1, k2⟩ := h.obs t r hl
    rw [h1] at k1; injection k1 with k1; subst k1
    simp only at h3; omega

/-- for `searcher_data = "rungs"` the only pending level of a running trial is its milestone;
and no pending entry occurs twice -/
theorem pending_rungs_milestone_nodup (y0 : Sys) (h0 : CInv y0) (ops : List SOp) (hok : OpsOK y0 ops) :
    (runC y0 ops).st.pending.Nodup ∧
    ((runC y0 ops).sched.searcherData = .rungs → ∀ t r, (t, r) ∈ (runC y0 ops).st.pending →
      ∀ rec, alookup t (runC y0 ops).sched.active = some rec →
        r = milestoneOf (runC y0 ops).sched.mgr t (lastRep rec)) := by
  have h := cinv_all_histories y0 h0 ops hok
  refine ⟨h.pnd, ?_⟩
  intro hsd t r hp rec hrec
  obtain ⟨rec', h1, _, _, _, h5⟩ := h.pend (t, r) hp
  rw [hrec] at h1; injection h1 with h1; subst h1
  exact h5 hsd

/-- no pending evaluation for a trial which is not running: paused, stopped, completed,
failed, removed (`NotRunning`: recorded with a decision other than CONTINUE) or unknown -/
theorem no_pending_unless_running (y0 : Sys) (h0 : CInv y0) (ops : List SOp) (hok : OpsOK y0 ops) (t : Nat)
    (hnr : NotRunning (runC y0 ops).sched t ∨ alookup t (runC y0 ops).sched.active = none) :
    ∀ p ∈ (runC y0 ops).st.pending, p.1 ≠ t := by
  intro p hp he
  obtain ⟨a, b⟩ := p
  simp only at he; subst he
  obtain ⟨rec, h1, h2, _⟩ := pending_only_running y0 h0 ops hok a b hp
  rcases hnr with ⟨rec', k1, k2⟩ | hn
  · rw [h1] at k1; injection k1 with k1; subst k1; exact k2 h2
  · rw [h1] at hn; cases hn

/-! ### (b) each observation once, with the reported value -/

/-- **Each observation once, equal to what was reported.**  After every history (no contract
needed) started without data: the data set holds at most one record per trial and one value
per level (`ObsWF`: it is a dict of dicts and `label_trial` overwrites), and every stored
value for trial `t` at level `r` is the criterion (`1 - x` for mode max) of a metric value
which some `on_trial_result` / `on_trial_complete` call of the history reported for `t` at
level `r`. -/
theorem observed_once (y0 : Sys) (hemp : y0.st.observed = []) (ops : List SOp) :
    ObsWF (runC y0 ops).st ∧
    ∀ t r c, obsAt (runC y0 ops).st t r = some c →
      ∃ v, (t, r, v) ∈ ops.flatMap opReports ∧ c = y0.st.crit v := by
  have key : ∀ (ops : List SOp) (y : Sys), ObsWF y.st →
      ObsWF (runC y ops).st ∧ (runC y ops).st.mode = y.st.mode ∧
      ∀ t r c, obsAt (runC y ops).st t r = some c →
        obsAt y.st t r = some c ∨ ∃ v, (t, r, v) ∈ ops.flatMap opReports ∧ c = y.st.crit v := by
    intro ops
    induction ops with
    | nil => intro y hw; exact ⟨hw, rfl, fun t r c hc => Or.inl hc⟩
    | cons op ops ih =>
      intro y hw
      obtain ⟨w1, m1⟩ := stepC_wf y op hw
      obtain ⟨i1, i2, i3⟩ := ih (stepC y op) w1
      refine ⟨i1, i2.trans m1, ?_⟩
      intro t r c hc
      rcases i3 t r c hc with hc' | ⟨v, hv, hcv⟩
      · obtain ⟨_, _, k⟩ := stepC_obsAt y op hw t r c hc'
        rcases k with k | ⟨v, hv, hcv⟩
        · exact Or.inl k
        · exact Or.inr ⟨v, by simp only [List.flatMap_cons, List.mem_append]; exact Or.inl hv, hcv⟩
      · exact Or.inr ⟨v, by simp only [List.flatMap_cons, List.mem_append]; exact Or.inr hv,
          by rw [hcv, crit_of_mode m1]⟩
  have hw0 : ObsWF y0.st := by
    unfold ObsWF; rw [hemp]; exact ⟨by simp [KeysNodup], by simp⟩
  obtain ⟨k1, _, k3⟩ := key ops y0 hw0
  refine ⟨k1, ?_⟩
  intro t r c hc
  rcases k3 t r c hc with h | h
  · unfold obsAt at h; rw [hemp] at h; simp [alookup] at h
  · exact h

/-- observations exist only for levels the trial has reported (within the contract) -/
theorem observed_only_reported_levels (y0 : Sys) (h0 : CInv y0) (ops : List SOp) (hok : OpsOK y0 ops) (t r : Nat)
    (hl : (runC y0 ops).st.isLabeled t r = true) :
    ∃ rec, alookup t (runC y0 ops).sched.active = some rec ∧ r ≤ lastRep rec :=
  (cinv_all_histories y0 h0 ops hok).obs t r hl

/-! ### (c) pending evaluations disappear when the trial ends -/

/-- **No pending evaluation survives the end of a trial.**  From a state satisfying the
invariant: after `on_trial_complete(t)` and after `on_trial_error(t)` no pending entry of `t`
remains; and after an `on_trial_result` (within the contract) whose answer is STOP or PAUSE no
pending entry of the reporting trial remains. -/
theorem no_pending_after_end (y : Sys) (h : CInv y) :
    (∀ t r v, ∀ p ∈ (stepC y (.complete t r v)).st.pending, p.1 ≠ t) ∧
    (∀ t, ∀ p ∈ (stepC y (.error t)).st.pending, p.1 ≠ t) ∧
    (∀ t r v hint c e s' out, OpOK y (.result t r v hint c e) →
      y.sched.onResult t r v hint c e = .ok (s', out) → out.decision ≠ .continue →
      ∀ p ∈ (stepC y (.result t r v hint c e)).st.pending, p.1 ≠ t) := by
  refine ⟨?_, fun t => stepC_error_pending y t, ?_⟩
  · intro t r v p hp he
    cases hrec : alookup t y.sched.active with
    | some rec => exact stepC_complete_pending y t r v rec hrec p hp he
    | none =>
      -- unknown trial: the operation is rejected, the state unchanged, and `t` has no pending entry
      have hsame : stepC y (.complete t r v) = y := by
        unfold stepC; rw [opStep_complete, hrec]; rfl
      rw [hsame] at hp
      obtain ⟨rec, h1, _⟩ := h.pend p hp
      rw [he, hrec] at h1; cases h1
  · intro t r v hint c e s' out hok hres hd p hp he
    have h' := cinv_step y h _ hok
    obtain ⟨rec', k1, k2⟩ := onResult_decision_recorded y.sched s' t r v hint c e out hres hd
    obtain ⟨st', hst⟩ := calls_accepted y h _ hok
    have hsched : (stepC y (.result t r v hint c e)).sched = s' := by
      unfold stepC; rw [hst]; simp only [opStep_result, hres]
    obtain ⟨rec, g1, g2, _⟩ := h'.pend p hp
    rw [he, hsched, k1] at g1; injection g1 with g1; subst g1
    rw [k2] at g2; exact hd g2

/-! ### the clauses of the contract are necessary -/

/-- ASHA, `max_t = 9`, rung levels 1, 3, one bracket, `searcher_data = "rungs"` -/
def exPromo : Sys :=
  { sched := { mgr := Manager.init .promotion .min 9 [1, 3] 1 false }, st := { mode := .min } }

/-- the same with `searcher_data = "all"` (pending for every level up to the milestone) -/
def exPromoAll : Sys :=
  { sched := { mgr := Manager.init .promotion .min 9 [1, 3] 1 false, searcherData := .all }, st := { mode := .min } }

/-- stopping type, `searcher_data = "all"` -/
def exStopAll : Sys :=
  { sched := { mgr := Manager.init .stopping .min 9 [1, 3] 1 false, searcherData := .all }, st := { mode := .min } }

/-
FULL STATEMENT of (a) without the contract — FALSE:
  ∀ ops, ∀ (t, r) ∈ (runC y0 ops).st.pending, t is running in (runC y0 ops).sched
`on_trial_remove` only calls `_cleanup_trial`; unlike `on_trial_complete` / `on_trial_error` it
does not clean the searcher's pending list.  It is harmless when called as the `Tuner` does
(right after a STOP / PAUSE answer: the milestone report has labelled the pending entries),
but removing a trial the scheduler considers RUNNING leaves its pending evaluations behind for
good (the trial can never be promoted again: it sits in no rung as unpromoted).
-/
/-- **Counterexample (clause `remove` of the contract is necessary).**  Start trial 0
(pending `(0, 1)` registered), then `on_trial_remove(0)` while it is running: the scheduler
records it as PAUSED, the searcher keeps the pending evaluation `(0, 1)`. -/
theorem pending_only_running_counterexample :
    ¬ OpsOK exPromo [.suggest 0 0 none, .remove 0] ∧
    (runC exPromo [.suggest 0 0 none, .remove 0]).st.pending = [(0, 1)] ∧
    (alookup 0 (runC exPromo [.suggest 0 0 none, .remove 0]).sched.active).map (·.decision) = some .pause := by
  decide +kernel

/-- the same for a promoted trial removed on its way to the next milestone, policy `all`:
trial 0 pauses at level 1, is promoted to milestone 3 (pending `(0,2)`, `(0,3)`), reports level 2
and is removed: `(0, 3)` stays pending although trial 0 is not running -/
theorem pending_only_running_counterexample_promoted :
    ¬ OpsOK exPromoAll [.suggest 0 0 none, .result 0 1 1 false 0 0, .remove 0, .suggest 1 0 none,
        .result 1 1 2 false 0 0, .remove 1, .suggest 2 0 none, .result 0 2 1 false 0 0, .remove 0] ∧
    (runC exPromoAll [.suggest 0 0 none, .result 0 1 1 false 0 0, .remove 0, .suggest 1 0 none,
        .result 1 1 2 false 0 0, .remove 1, .suggest 2 0 none, .result 0 2 1 false 0 0, .remove 0]).st.pending = [(0, 3)] ∧
    (alookup 0 (runC exPromoAll [.suggest 0 0 none, .result 0 1 1 false 0 0, .remove 0, .suggest 1 0 none,
        .result 1 1 2 false 0 0, .remove 1, .suggest 2 0 none, .result 0 2 1 false 0 0,
        .remove 0]).sched.active).map (·.decision) = some .pause := by
  decide +kernel

/-- **Counterexample (clause `result` of the contract is necessary).**  Stopping type, policy
`all`: trial 1 reports levels 1 and 3 but never level 2; it is STOPPED at rung 3 and its
pending evaluation `(1, 2)` is left behind. -/
theorem skipped_level_counterexample :
    ¬ OpsOK exStopAll [.suggest 0 0 none, .result 0 1 1 false 0 0, .result 0 2 1 false 0 0, .result 0 3 1 false 0 0,
        .suggest 1 0 none, .result 1 1 (1/2) false 0 0, .result 1 3 2 false 0 0] ∧
    (1, 2) ∈ (runC exStopAll [.suggest 0 0 none, .result 0 1 1 false 0 0, .result 0 2 1 false 0 0, .result 0 3 1 false 0 0,
        .suggest 1 0 none, .result 1 1 (1/2) false 0 0, .result 1 3 2 false 0 0]).st.pending ∧
    (alookup 1 (runC exStopAll [.suggest 0 0 none, .result 0 1 1 false 0 0, .result 0 2 1 false 0 0, .result 0 3 1 false 0 0,
        .suggest 1 0 none, .result 1 1 (1/2) false 0 0, .result 1 3 2 false 0 0]).sched.active).map (·.decision) = some .stop := by
  decide +kernel

/-! ### non-vacuity -/

example : CInv exPromo := init_CInv .promotion .min 9 [1, 3] 1 false 0 .rungs false false false (by decide) (by decide) (by decide)
example : CInv exPromoAll := init_CInv .promotion .min 9 [1, 3] 1 false 0 .all false false false (by decide) (by decide) (by decide)
example : CInv exStopAll := init_CInv .stopping .min 9 [1, 3] 1 false 0 .all false false false (by decide) (by decide) (by decide)

/-- two trials pause at rung 1 (values 1, 2), the next `_suggest` promotes trial 0 to
milestone 3, which reports level 2 -/
def histPromo : List SOp :=
  [.suggest 0 0 none, .result 0 1 1 false 0 0, .remove 0, .suggest 1 0 none, .result 1 1 2 false 0 0, .remove 1,
   .suggest 2 0 none, .result 0 2 1 false 0 0]

/-- the history is within the contract; mid-run the promoted trial 0 has the pending
evaluation `(0, 3)` (policy `all`, levels 2 and 3 registered at promotion, 2 observed since),
trial 1 (paused) has none; observations: both at level 1, trial 0 also at level 2 -/
example : OpsOK exPromoAll histPromo ∧ (runC exPromoAll histPromo).st.pending = [(0, 3)] ∧
    (runC exPromoAll histPromo).st.observed = [(0, [(1, 1), (2, 1)]), (1, [(1, 2)])] ∧
    (runC exPromoAll (histPromo.take 7)).st.pending = [(0, 2), (0, 3)] := by decide +kernel

/-- stopping type, policy `all`: trial 0 passes rungs 1 and 3, trial 1 is STOPPED at rung 3;
before its last report it has the pending evaluation `(1, 3)`, afterwards none, while
trial 0 (still running to `max_t = 9`) keeps `(0, 4) … (0, 9)` -/
def histStop : List SOp :=
  [.suggest 0 0 none, .result 0 1 1 false 0 0, .result 0 2 1 false 0 0, .result 0 3 1 false 0 0,
   .suggest 1 0 none, .result 1 1 (1/2) false 0 0, .result 1 2 2 false 0 0, .result 1 3 2 false 0 0]

example : OpsOK exStopAll histStop ∧
    (runC exStopAll (histStop.take 7)).st.pending = [(0, 4), (0, 5), (0, 6), (0, 7), (0, 8), (0, 9), (1, 3)] ∧
    (runC exStopAll histStop).st.pending = [(0, 4), (0, 5), (0, 6), (0, 7), (0, 8), (0, 9)] ∧
    (alookup 1 (runC exStopAll histStop).sched.active).map (·.decision) = some .stop := by decide +kernel

end SyneTune.C14Comp
