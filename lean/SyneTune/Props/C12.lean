import SyneTune.Lemmas.TunerC12
import SyneTune.Lemmas.TunerWitnessData
/-
C12 — tuning terminates on the stopping criterion and leaves nothing running.
Property theorems only.  Model: `Model/Tuner.lean`, `Model/StoppingCriterion.lean`,
`Model/TuningStatus.lean`; helper lemmas: `Lemmas/TunerC12.lean`, `Lemmas/TunerStruct.lean`.

`run (init c) as` is the state of `Tuner.run()` after the environment answers `as` (any poll
outcomes, decisions, suggestions, clock readings, and `raise` at ANY call, in the loop or in the
`finally` block).
-/
namespace SyneTune.C12
open SyneTune SyneTune.Tuner

/-- **The stopping condition** is `stop_criterion(status) or num_failed > max_failures`,
evaluated on the status as it is at the end of the iteration (criterion without a wall-clock
part; `exit_criterion_clock` is the variant that first reads the clock). -/
theorem exit_criterion (s : LState) (a : Ans) (hp : s.pc = .evalStop) (hw : s.cfg.crit.maxWallclock = none) :
    (step s a).pc = .loopHead ∧
    (step s a).stopReached =
      (s.cfg.crit.eval s.status 0 s.cfg.keyCost || decide (s.cfg.maxFailures < s.status.numFailed)) := by
  rw [step_eq]
  simp [next, hp, hw, Pc.silent, stopCond]

theorem exit_criterion_clock (s : LState) (t : Rat) (hp : s.pc = .clock) :
    (step s (.clock t)).pc = .loopHead ∧
    (step s (.clock t)).stopReached =
      (s.cfg.crit.eval s.status t s.cfg.keyCost || decide (s.cfg.maxFailures < s.status.numFailed)) := by
  rw [step_eq]
  simp [next, hp, Pc.silent, stopCond]

/-- **The `while` test**: after the stopping condition has been evaluated the loop goes on iff
the condition is false, or trials are still running and `wait_trial_completion_when_stopping`
is set; otherwise the `finally` block starts. -/
theorem exit_test (s : LState) (a : Ans) (hp : s.pc = .loopHead) :
    (step s a).pc = if (!s.stopReached || (s.cfg.wait && !s.running.isEmpty)) then .loopStart else .finTuningEnd := by
  rw [step_pc]
  simp only [next, hp]
  split <;> rfl

/-- **The `break`**: when the search space is exhausted, or the stopping condition holds and the
loop only waits for running trials, the loop is left as soon as no trial is running any more. -/
theorem exit_break (s : LState) (a : Ans) (hp : s.pc = .afterUpd) :
    (step s a).pc =
      if s.exhausted || (s.cfg.wait && s.stopReached) then
        (if !(s.running.filter (fun t => !hasKey t s.done)).isEmpty then .sleepWait else .finTuningEnd)
      else .schedNew := by
  rw [step_pc]
  simp only [next, hp, afterUpdate]

/-- **The loop is left only there**: a step from inside the loop into the `finally` block is
the `while` test with the stopping condition true, the `break`, or an exception. -/
theorem exit_only (c : Cfg) (as : List Ans) (a : Ans) (hf : finPc (run (init c) as).pc = false)
    (hf' : finPc (step (run (init c) as) a).pc = true) :
    ((run (init c) as).pc = .loopHead ∧ (run (init c) as).stopReached = true) ∨
    ((run (init c) as).pc = .afterUpd ∧
      ((run (init c) as).exhausted = true ∨ ((run (init c) as).cfg.wait = true ∧ (run (init c) as).stopReached = true))) ∨
    (step (run (init c) as) a).err.isSome = true := by
  rw [step_pc] at hf'
  have : (step (run (init c) as) a).err = (next (run (init c) as) a).err := by rw [step_eq]; split <;> rfl
  rw [this]
  exact next_into_fin _ a hf hf'

/-- **No trial is started once the stopping condition holds.** Whenever the loop is inside
`_schedule_new_tasks` (about to ask the backend for busy workers, to ask the scheduler for a
suggestion, to start or to resume a trial), `stop_condition_reached` — the value of the
stopping condition at the end of the previous iteration — is false. -/
theorem no_start_after (c : Cfg) (as : List Ans) (h : startPc (run (init c) as).pc = true) :
    (run (init c) as).stopReached = false :=
  (run_inv (Inv := JInv) JInv_step as (init c) (JInv_init c)).j2 h

/-- an iteration that begins with the stopping condition true only exists with
`wait_trial_completion_when_stopping` -/
theorem no_start_after_wait (c : Cfg) (as : List Ans) (h : iterPc (run (init c) as).pc = true)
    (hs : (run (init c) as).stopReached = true) : c.wait = true := by
  have := (run_inv (Inv := JInv) JInv_step as (init c) (JInv_init c)).j1 h hs
  rwa [run_cfg] at this

/-- **Overshoot.** With `max_num_trials_started = m` the number of trials the loop has started
(recorded in the tuning status) never exceeds `m + n_workers` — at any point of any run
obeying contract B, in particular when `run()` returns. -/
theorem overshoot (c : Cfg) (m : Nat) (hm : c.crit.maxStarted = some m) (as : List Ans)
    (hB : Along BOk (init c) as) : (run (init c) as).status.numStarted ≤ m + c.nWorkers := by
  have := (overshoot_run c m hm as hB).o1
  rwa [run_cfg] at this

/-- while the stopping condition is false the budget itself is respected at the start of
an iteration -/
theorem overshoot_before (c : Cfg) (m : Nat) (hm : c.crit.maxStarted = some m) (as : List Ans)
    (hB : Along BOk (init c) as) (hs : (run (init c) as).stopReached = false)
    (hp : beforeSchedPc (run (init c) as).pc = true) : (run (init c) as).status.numStarted ≤ m :=
  (overshoot_run c m hm as hB).o2 hs hp

/-- **Nothing is left running.** When `run()` is over (`pc = done`) and no exception was raised
inside the `finally` block itself, every trial that `stop_all` saw (`_all_trial_results`) is
not in progress any more: its status was read as not-in-progress when its turn came, or
`stop_trial` was issued for it and returned.  This holds for EVERY way the loop was left — in
particular for an exception at any call of the loop (`Ans.raise` anywhere in `as`). -/
theorem nothing_running (c : Cfg) (as : List Ans) (hp : (run (init c) as).pc = .done)
    (he : (run (init c) as).err ≠ some .envFin) :
    ∀ t ∈ (run (init c) as).visible, alookup t (run (init c) as).bst ≠ some .inProgress := by
  intro t ht
  have hF := (EF_run c as).2
  rcases hF.stage (by rw [hp]; rfl) he t ht with ⟨h1, _⟩ | ⟨h1, _⟩ | h1
  · rw [hp] at h1; cases h1
  · rcases h1 with h1 | h1 <;> (rw [hp] at h1; cases h1)
  · exact h1

/-- an exception raised by any call inside the loop leads into the `finally` block (callbacks'
`on_tuning_end` first) -/
theorem exception_enters_finally (s : LState) (hc : (pending s) ≠ .tau) (hf : finPc s.pc = false) :
    (step s .raise).pc = .finTuningEnd := by
  rw [step_pc]
  revert hc hf
  unfold pending next
  cases s.pc <;> simp [finPc, raiseFin]

/-- **Results are stored before trials are stopped**: `stop_all` (its `_all_trial_results`) is
only ever called right after the callbacks' `on_tuning_end` has returned, and at that moment
the rows of the `StoreResultsCallback` are written. -/
theorem results_stored (s : LState) (a : Ans) (h : (step s a).pc = .finAll) :
    s.pc = .finTuningEnd ∧ (step s a).stored = if s.cfg.store then some s.rows else none := by
  have hfl := step_flow s a
  rw [h] at hfl
  have hp : s.pc = .finTuningEnd := by
    revert hfl; cases s.pc <;> simp [flow, succs]
  refine ⟨hp, ?_⟩
  have hst : (step s a).stored = (next s a).stored := by rw [step_eq]; split <;> rfl
  rw [step_pc] at h
  rw [hst]
  revert h
  simp only [next, hp]
  cases a <;> simp [exitRaise]

/-! ### counters -/

/-- **Counters.** After `mark_running_job_as_stopped` no trial counts as running, the number of
started trials is unchanged, and the counters partition the started trials:
started = completed + failed + stopped + stopping + paused. -/
theorem counters (ts : TStatus) :
    ts.markStopped.numRunning = 0 ∧
    ts.markStopped.numStarted = ts.numStarted ∧
    ts.markStopped.numStarted =
      ts.markStopped.numCompleted + ts.markStopped.numFailed + ts.markStopped.numIn (· == .stopped)
      + ts.markStopped.numIn (· == .stopping) + ts.markStopped.numIn (· == .paused) := by
  have hno : ∀ kv ∈ ts.markStopped.last, kv.2 ≠ .inProgress := by
    intro kv hkv
    unfold TStatus.markStopped at hkv
    simp only [List.mem_map] at hkv
    obtain ⟨x, _, rfl⟩ := hkv
    simp only []
    split
    · exact fun hc => nomatch hc
    · assumption
  refine ⟨?_, ?_, ?_⟩
  · unfold TStatus.numRunning TStatus.numIn
    rw [List.length_eq_zero_iff, List.filter_eq_nil_iff]
    intro kv hkv
    have := hno kv hkv
    simp only [beq_iff_eq]
    exact this
  · unfold TStatus.numStarted TStatus.markStopped; simp
  · unfold TStatus.numStarted TStatus.numCompleted TStatus.numFailed TStatus.numIn
    simp only [← List.countP_eq_length_filter]
    exact partition_statuses _ hno

/-! ### concrete instances (runs of `Lemmas/TunerWitnessData.lean`) -/

/-- overshoot: `max_num_trials_started = 1`, two workers, `start_jobs_without_delay=True`: the
first iteration starts two trials (1 + n_workers would allow three), then the criterion is true
and the loop is left through the `while` test -/
example :
    let c : Cfg := { nWorkers := 2, maxFailures := 1, crit := { maxStarted := some 1 } }
    (run (init c) (Witness.pbtPrefix.take 22)).status.numStarted = 2 ∧
    (run (init c) (Witness.pbtPrefix.take 22)).pc = .evalStop ∧
    (run (init c) (Witness.pbtPrefix.take 22 ++ [Witness.τ])).stopReached = true ∧
    (run (init c) (Witness.pbtPrefix.take 22 ++ [Witness.τ, Witness.τ])).pc = .finTuningEnd := by
  decide +kernel

/-- nothing running: in the F15 run trial 2 is still in progress when the loop ends; `stop_all`
sees it and stops it -/
example :
    (run (init Witness.f15Cfg) (Witness.f15Prefix ++ Witness.f15Rest)).visible = [0, 1, 2] ∧
    alookup 2 (run (init Witness.f15Cfg) (Witness.f15Prefix ++ Witness.f15Rest.take 34)).bst = some .inProgress ∧
    alookup 2 (run (init Witness.f15Cfg) (Witness.f15Prefix ++ Witness.f15Rest)).bst = some .stopped := by
  decide +kernel

/-- results stored: the two rows of the F15 run are written when `on_tuning_end` returns, before
`stop_all` asks for the trials -/
example :
    (run (init Witness.f15Cfg) (Witness.f15Prefix ++ Witness.f15Rest.take 28)).pc = .finAll ∧
    ((run (init Witness.f15Cfg) (Witness.f15Prefix ++ Witness.f15Rest.take 28)).stored.map List.length) = some 2 := by
  decide +kernel

/-- counters of the F15 run when `run()` returns: 3 started = 2 completed + 1 stopped, none running -/
example :
    (run (init Witness.f15Cfg) (Witness.f15Prefix ++ Witness.f15Rest)).status.last
      = [(0, .completed), (1, .completed), (2, .stopped)] ∧
    (run (init Witness.f15Cfg) (Witness.f15Prefix ++ Witness.f15Rest)).status.numStarted = 3 ∧
    (run (init Witness.f15Cfg) (Witness.f15Prefix ++ Witness.f15Rest)).status.numCompleted = 2 ∧
    (run (init Witness.f15Cfg) (Witness.f15Prefix ++ Witness.f15Rest)).status.numRunning = 0 := by
  decide +kernel

/-- an exception at a call inside the loop (here: `on_trial_result` of the scheduler raises) -/
example : (run (init Witness.f15Cfg) (Witness.f15Prefix.take 29 ++ [.raise])).pc = .finTuningEnd ∧
    (run (init Witness.f15Cfg) (Witness.f15Prefix.take 29 ++ [.raise])).err = some .env := by
  decide +kernel

end SyneTune.C12
