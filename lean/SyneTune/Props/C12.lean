import SyneTune.Lemmas.TunerC12
/-
C12 — tuning terminates on the stopping criterion and leaves nothing running.
Property theorems only.  Model: `Model/Tuner.lean`, `Model/StoppingCriterion.lean`,
`Model/TuningStatus.lean`; helper lemmas: `Lemmas/TunerC12.lean`, `Lemmas/TunerStruct.lean`.

`run (init c) as` is the state of `Tuner.run()` after the environment answers `as` (any poll
outcomes, decisions, suggestions, clock readings, and `raise` at ANY call, in the loop or in the
`finally` block).
-/
namespace SyneTune.C12
open SyneTune SyneTune.Tuner

/-- **The stopping condition** is `stop_criterion(status) or num_failed > max_failures`,
evaluated on the status as it is at the end of the iteration (criterion without a wall-clock
part; `exit_criterion_clock` is the variant that first reads the clock). -/
theorem exit_criterion (s : LState) (a : Ans) (hp : s.pc = .evalStop) (hw : s.cfg.crit.maxWallclock = none) :
    (step s a).pc = .loopHead ∧
    (step s a).stopReached =
      (s.cfg.crit.eval s.status 0 s.cfg.keyCost || decide (s.cfg.maxFailures < s.status.numFailed)) := by
  rw [step_eq]
  simp only [next, hp, hw, Option.isSome_none, Bool.false_eq_true, if_false, Pc.silent, Bool.true_or, if_true]
  exact ⟨rfl, rfl⟩

theorem exit_criterion_clock (s : LState) (t : Rat) (hp : s.pc = .clock) :
    (step s (.clock t)).pc = .loopHead ∧
    (step s (.clock t)).stopReached =
      (s.cfg.crit.eval s.status t s.cfg.keyCost || decide (s.cfg.maxFailures < s.status.numFailed)) := by
  rw [step_eq]
  simp only [next, hp, Pc.silent, Bool.true_or, if_true]
  exact ⟨rfl, rfl⟩

/-- **The `while` test**: after the stopping condition has been evaluated the loop goes on iff
the condition is false, or trials are still running and `wait_trial_completion_when_stopping`
is set; otherwise the `finally` block starts. -/
theorem exit_test (s : LState) (a : Ans) (hp : s.pc = .loopHead) :
    (step s a).pc = if (!s.stopReached || (s.cfg.wait && !s.running.isEmpty)) then .loopStart else .finTuningEnd := by
  rw [step_pc]
  simp only [next, hp]
  split <;> rfl

/-- **The `break`**: when the search space is exhausted, or the stopping condition holds and the
loop only waits for running trials, the loop is left as soon as no trial is running any more. -/
theorem exit_break (s : LState) (a : Ans) (hp : s.pc = .afterUpd) :
    (step s a).pc =
      if s.exhausted || (s.cfg.wait && s.stopReached) then
        (if !(s.running.filter (fun t => !hasKey t s.done)).isEmpty then .sleepWait else .finTuningEnd)
      else .schedNew := by
  rw [step_pc]
  simp only [next, hp, afterUpdate]

/-- **The loop is left only there**: a step from inside the loop into the `finally` block is
the `while` test with the stopping condition true, the `break`, or an exception. -/
theorem exit_only (c : Cfg) (as : List Ans) (a : Ans) (hf : finPc (run (init c) as).pc = false)
    (hf' : finPc (step (run (init c) as) a).pc = true) :
    ((run (init c) as).pc = .loopHead ∧ (run (init c) as).stopReached = true) ∨
    ((run (init c) as).pc = .afterUpd ∧
      ((run (init c) as).exhausted = true ∨ ((run (init c) as).cfg.wait = true ∧ (run (init c) as).stopReached = true))) ∨
    (step (run (init c) as) a).err.isSome = true := by
  sorry

end SyneTune.C12
