import SyneTune.Lemmas.TunerC12
import SyneTune.Lemmas.TunerNotify
/-
C13 (loop side) — trial failures are contained.
Property theorems only; model `Model/Tuner.lean`, lemmas `Lemmas/TunerStruct.lean`
(`SInv.failedNamed`), `Lemmas/TunerNotify.lean`, `Lemmas/TunerC12.lean`.
Scheduler-side parts (the schedulers keep working after `on_trial_error`) are separate.
-/
namespace SyneTune.C13Loop
open SyneTune SyneTune.Tuner AL

/-- **Every failure is notified.** When the second loop of `_update_running_trials` comes to an
item whose polled status is `failed`, `scheduler.on_trial_error(trial)` is the next call. -/
theorem notified_failed (s : LState) (a : Ans) (t : Nat) (rest : List (Nat × St))
    (hp : s.pc = .second) (hi : s.items = (t, .failed) :: rest) :
    pending (step s a) = .schedError t ∧ (step s a).items = rest := by
  have hn : next s a = { s with pc := .errorS, t := t, tSt := .failed, items := rest } := by
    simp only [next, hp, hi, secondItem]
  have : step s a = { next s a with log := (next s a).log ++ [pending (next s a)] } := by
    rw [step_eq, hn]; simp [Pc.silent, hp]
  rw [this, hn]
  exact ⟨rfl, rfl⟩

/-- the same for a trial that was stopped from outside (status `stopped` although the scheduler
never said STOP) -/
theorem notified_external_stop (s : LState) (a : Ans) (t : Nat) (rest : List (Nat × St))
    (hp : s.pc = .second) (hi : s.items = (t, .stopped) :: rest) (hns : t ∉ s.schedStopped) :
    pending (step s a) = .schedError t ∧ (step s a).items = rest := by
  have hn : next s a = { s with pc := .errorS, t := t, tSt := .stopped, items := rest } := by
    simp only [next, hp, hi, secondItem, hns, if_false]
  have : step s a = { next s a with log := (next s a).log ++ [pending (next s a)] } := by
    rw [step_eq, hn]; simp [Pc.silent, hp]
  rw [this, hn]
  exact ⟨rfl, rfl⟩

/-- **… and only once.** `on_trial_error(t)` is only called while the run of `t` is open for the
scheduler, and its return closes it (`kst t = dead`): no second `on_trial_error`, no
`on_trial_result`, for that run (under B, K and the no-end-clash hypothesis, see
`C01.notify_partial`; without the latter the scheduler hears `on_trial_remove` and then
`on_trial_error`, `C01.notify_end_clash_counterexample`). -/
theorem notified_once (c : Cfg) (as : List Ans)
    (hB : Along BOk (init c) as) (hK : Along KOk (init c) as) (hN : Along NCOk (init c) as)
    (hp : (run (init c) as).pc = .errorS) :
    alookup (run (init c) as).t (run (init c) as).kst = some .live ∧
    alookup (run (init c) as).t (step (run (init c) as) .ret).kst = some .dead := by
  obtain ⟨hS, hI, hD⟩ := SKD_run c as hB hK hN
  refine ⟨(notifyOK_of_inv hS hI hD).error hp, ?_⟩
  have : (step (run (init c) as) .ret).kst = (next (run (init c) as) .ret).kst := by rw [step_eq]; split <;> rfl
  rw [this]
  simp only [next, hp]
  exact alookup_aset_self _ _ _

/-- **The run carries on while failures stay within the limit.** If, when the stopping condition
is evaluated, the stopping criterion is false and the number of failed trials is at most
`max_failures`, the loop starts another iteration. -/
theorem continues (s : LState) (a a' : Ans) (hp : s.pc = .evalStop) (hw : s.cfg.crit.maxWallclock = none)
    (hc : s.cfg.crit.eval s.status 0 s.cfg.keyCost = false) (hf : s.status.numFailed ≤ s.cfg.maxFailures) :
    (step (step s a) a').pc = .loopStart := by
  have h1 : step s a = { s with stopReached := false, pc := .loopHead } := by
    rw [step_eq]
    have : next s a = { s with stopReached := false, pc := .loopHead } := by
      simp only [next, hp, hw, Option.isSome_none, Bool.false_eq_true, if_false, stopCond, hc, Bool.false_or]
      have : decide (s.cfg.maxFailures < s.status.numFailed) = false := by simp; omega
      rw [this]
    rw [this]; simp [Pc.silent]
  rw [h1, step_pc]
  simp [next]

/-- firstFailed finds a failed trial whenever there is one -/
theorem firstFailed_spec (l : List (Nat × St)) (hn : (keys l).Nodup) :
    (∀ t, firstFailed l = some t → alookup t l = some .failed) ∧
    ((∃ t, alookup t l = some .failed) → (firstFailed l).isSome = true) := by
  induction l with
  | nil => exact ⟨fun t h => by simp [firstFailed] at h, fun ⟨t, h⟩ => by simp [alookup] at h⟩
  | cons x xs ih =>
    obtain ⟨k, v⟩ := x
    simp only [keys, List.map_cons, List.nodup_cons] at hn
    obtain ⟨ih1, ih2⟩ := ih hn.2
    constructor
    · intro t h
      simp only [firstFailed] at h
      by_cases hv : v = .failed
      · simp only [hv, if_true, Option.some.injEq] at h
        subst h; simp [alookup, hv]
      · simp only [hv, if_false] at h
        have := ih1 t h
        have hne : t ≠ k := by
          intro hc; subst hc
          exact hn.1 ((hasKey_iff_mem_keys _ _).mp (by unfold hasKey; rw [this]; rfl))
        simp [alookup, hne, this]
    · rintro ⟨t, h⟩
      simp only [firstFailed]
      by_cases hv : v = .failed
      · simp [hv]
      · simp only [hv, if_false]
        apply ih2
        by_cases hc : t = k
        · subst hc; simp [alookup] at h; exact absurd h hv
        · exact ⟨t, by simpa [alookup, hc] using h⟩

/-- a positive count exhibits an entry -/
theorem exists_of_numIn_pos (ts : TStatus) (p : St → Bool) (h : 0 < ts.numIn p) (hn : (keys ts.last).Nodup) :
    ∃ t st, alookup t ts.last = some st ∧ p st = true := by
  unfold TStatus.numIn at h
  obtain ⟨kv, hkv⟩ := List.exists_mem_of_length_pos h
  obtain ⟨h1, h2⟩ := List.mem_filter.mp hkv
  exact ⟨kv.1, kv.2, alookup_of_mem hn h1, h2⟩


/-- the keys of `last_trial_status_seen` are distinct (it is a dict) -/
def LNInv (s : LState) : Prop := (keys s.status.last).Nodup

theorem LNInv_next (s : LState) (a : Ans) (h : LNInv s) : LNInv (next s a) := by
  unfold next
  split
  all_goals (try simp only [])
  all_goals (repeat' split)
  all_goals first
    | exact h
    | (show (keys (addRow s).status.last).Nodup; rw [addRow_status]; exact h)
    | (show (keys (secondItem s _ _ _).status.last).Nodup; rw [secondItem_status]; exact h)
    | (show (keys (afterUpdate s).status.last).Nodup
       rw [show (afterUpdate s).status.last = aupdate s.status.last (aupdate s.sd s.done) from update_last _ _ _]
       exact nodup_keys_aupdate _ _ h)
    | (show (keys (scheduled s _).status.last).Nodup
       have hl : ∀ u, (scheduled s u).status.last = aset u .inProgress s.status.last := by
         intro u; unfold scheduled addRunning; split <;> exact update_last _ _ _
       rw [hl]; exact nodup_keys_aset _ _ _ h)
    | (show (keys (TStatus.markStopped s.status).last).Nodup; rw [markStopped_keys]; exact h)

theorem LNInv_run (c : Cfg) (as : List Ans) : LNInv (run (init c) as) :=
  run_inv (Inv := LNInv) (fun s a h => step_of_next (P := LNInv) (fun _ _ h => h) s a (LNInv_next s a h)) as (init c)
    (by simp [LNInv, init, keys])

/-- **Exceeding the limit ends the run with an error that names a failed trial.** Under contract
B: when the `finally` block reaches `_handle_failure` with more than `max_failures` failed
trials, the run goes on to show the log of a trial `t` whose entry in `done_trials_statuses` is
`failed` (the first such), and — the two log calls returning — `run()` raises
`ValueError("Trial - t failed")`. -/
theorem abort_names_failed (c : Cfg) (as : List Ans) (hB : Along BOk (init c) as)
    (hp : (run (init c) as).pc = .finMark)
    (hmax : (run (init c) as).cfg.maxFailures < (run (init c) as).status.markStopped.numFailed) (a : Ans) :
    ∃ t, alookup t (run (init c) as).doneAll = some .failed ∧
      pending (step (run (init c) as) a) = .stdout t ∧
      (step (step (step (run (init c) as) a) .ret) .ret).err = some (.failed t) ∧
      (step (step (step (run (init c) as) a) .ret) .ret).pc = .done := by
  have hS := SInv_run c as hB
  have hL := LNInv_run c as
  generalize run (init c) as = s at *
  -- some trial is recorded as failed
  have hpos : 0 < s.status.markStopped.numFailed := Nat.lt_of_le_of_lt (Nat.zero_le _) hmax
  obtain ⟨t0, st, hlk, hst⟩ := exists_of_numIn_pos _ _ hpos (by rw [markStopped_keys]; exact hL)
  have hst' : st = .failed := by simpa using hst
  subst hst'
  have hd0 := hS.failedNamed t0 (markStopped_failed _ _ hlk)
  obtain ⟨hff1, hff2⟩ := firstFailed_spec s.doneAll hS.doneAllNodup
  have hsome := hff2 ⟨t0, hd0⟩
  cases hff : firstFailed s.doneAll with
  | none => rw [hff] at hsome; cases hsome
  | some t =>
    have hn : next s a = { s with status := s.status.markStopped, pc := .hfOut, t := t } := by
      simp only [next, hp, hmax, if_true, hff]
    have h1 : step s a = { next s a with log := (next s a).log ++ [pending (next s a)] } := by
      rw [step_eq, hn]; simp [Pc.silent, hp]
    refine ⟨t, hff1 t hff, ?_, ?_, ?_⟩
    · rw [h1, hn]; rfl
    · rw [h1, hn]; simp [step, next, Pc.silent]
    · rw [h1, hn]; simp [step, next, Pc.silent]

end SyneTune.C13Loop
