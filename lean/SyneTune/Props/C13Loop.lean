import SyneTune.Lemmas.TunerFail
import SyneTune.Lemmas.TunerNotify
import SyneTune.Lemmas.TunerWitness
/-
C13 (loop side) — trial failures are contained.
Property theorems only; model `Model/Tuner.lean`, lemmas `Lemmas/TunerStruct.lean`
(`SInv.failedNamed`), `Lemmas/TunerNotify.lean`, `Lemmas/TunerC12.lean`, `Lemmas/TunerFail.lean`.
Scheduler-side parts (the schedulers keep working after `on_trial_error`) are separate.
-/
namespace SyneTune.C13Loop
open SyneTune SyneTune.Tuner AL

/-- **Every failure is notified.** When the second loop of `_update_running_trials` comes to an
item whose polled status is `failed`, `scheduler.on_trial_error(trial)` is the next call. -/
theorem notified_failed (s : LState) (a : Ans) (t : Nat) (rest : List (Nat × St))
    (hp : s.pc = .second) (hi : s.items = (t, .failed) :: rest) :
    pending (step s a) = .schedError t ∧ (step s a).items = rest := by
  have hn : next s a = { s with pc := .errorS, t := t, tSt := .failed, items := rest } := by
    simp only [next, hp, hi, secondItem]
  have : step s a = { next s a with log := (next s a).log ++ [pending (next s a)] } := by
    rw [step_eq, hn]; simp [Pc.silent, hp]
  rw [this, hn]
  exact ⟨rfl, rfl⟩

/-- the same for a trial that was stopped from outside (status `stopped` although the scheduler
never said STOP) -/
theorem notified_external_stop (s : LState) (a : Ans) (t : Nat) (rest : List (Nat × St))
    (hp : s.pc = .second) (hi : s.items = (t, .stopped) :: rest) (hns : t ∉ s.schedStopped) :
    pending (step s a) = .schedError t ∧ (step s a).items = rest := by
  have hn : next s a = { s with pc := .errorS, t := t, tSt := .stopped, items := rest } := by
    simp only [next, hp, hi, secondItem, hns, if_false]
  have : step s a = { next s a with log := (next s a).log ++ [pending (next s a)] } := by
    rw [step_eq, hn]; simp [Pc.silent, hp]
  rw [this, hn]
  exact ⟨rfl, rfl⟩

/-- **… and only once.** `on_trial_error(t)` is only called while the run of `t` is open for the
scheduler, and its return closes it (`kst t = dead`): no second `on_trial_error`, no
`on_trial_result`, for that run (under B, K and the no-end-clash hypothesis, see
`C01.notify_partial`; without the latter the scheduler hears `on_trial_remove` and then
`on_trial_error`, `C01.notify_end_clash_counterexample`). -/
theorem notified_once (c : Cfg) (as : List Ans)
    (hB : Along BOk (init c) as) (hK : Along KOk (init c) as) (hN : Along NCOk (init c) as)
    (hp : (run (init c) as).pc = .errorS) :
    alookup (run (init c) as).t (run (init c) as).kst = some .live ∧
    alookup (run (init c) as).t (step (run (init c) as) .ret).kst = some .dead := by
  obtain ⟨hS, hI, hD⟩ := SKD_run c as hB hK hN
  refine ⟨(notifyOK_of_inv hS hI hD).error hp, ?_⟩
  have : (step (run (init c) as) .ret).kst = (next (run (init c) as) .ret).kst := by rw [step_eq]; split <;> rfl
  rw [this]
  simp only [next, hp]
  exact alookup_aset_self _ _ _

/-- **The run carries on while failures stay within the limit.** If, when the stopping condition
is evaluated, the stopping criterion is false and the number of failed trials is at most
`max_failures`, the loop starts another iteration. -/
theorem continues (s : LState) (a a' : Ans) (hp : s.pc = .evalStop) (hw : s.cfg.crit.maxWallclock = none)
    (hc : s.cfg.crit.eval s.status 0 s.cfg.keyCost = false) (hf : s.status.numFailed ≤ s.cfg.maxFailures) :
    (step (step s a) a').pc = .loopStart := by
  have h1 : step s a = { s with stopReached := false, pc := .loopHead } := by
    rw [step_eq]
    have : next s a = { s with stopReached := false, pc := .loopHead } := by
      simp only [next, hp, hw, Option.isSome_none, Bool.false_eq_true, if_false, stopCond, hc, Bool.false_or]
      have : decide (s.cfg.maxFailures < s.status.numFailed) = false := by simp; omega
      rw [this]
    rw [this]; simp [Pc.silent]
  rw [h1, step_pc]
  simp [next]

/-- **Exceeding the limit ends the run with an error that names a failed trial.** Under contract
B: when the `finally` block reaches `_handle_failure` with more than `max_failures` failed
trials, the run goes on to show the log of a trial `t` whose entry in `done_trials_statuses` is
`failed` (the first such), and — the two log calls returning — `run()` raises
`ValueError("Trial - t failed")`. -/
theorem abort_names_failed (c : Cfg) (as : List Ans) (hB : Along BOk (init c) as)
    (hp : (run (init c) as).pc = .finMark)
    (hmax : (run (init c) as).cfg.maxFailures < (run (init c) as).status.markStopped.numFailed) (a : Ans) :
    ∃ t, alookup t (run (init c) as).doneAll = some .failed ∧
      pending (step (run (init c) as) a) = .stdout t ∧
      (step (step (step (run (init c) as) a) .ret) .ret).err = some (.failed t) ∧
      (step (step (step (run (init c) as) a) .ret) .ret).pc = .done := by
  have hS := SInv_run c as hB
  have hL := LNInv_run c as
  generalize run (init c) as = s at *
  -- some trial is recorded as failed
  have hpos : 0 < s.status.markStopped.numFailed := Nat.lt_of_le_of_lt (Nat.zero_le _) hmax
  obtain ⟨t0, st, hlk, hst⟩ := exists_of_numIn_pos _ _ hpos (by rw [markStopped_keys]; exact hL)
  have hst' : st = .failed := by simpa using hst
  subst hst'
  have hd0 := hS.failedNamed t0 (markStopped_failed _ _ hlk)
  obtain ⟨hff1, hff2⟩ := firstFailed_spec s.doneAll hS.doneAllNodup
  have hsome := hff2 ⟨t0, hd0⟩
  cases hff : firstFailed s.doneAll with
  | none => rw [hff] at hsome; cases hsome
  | some t =>
    have hn : next s a = { s with status := s.status.markStopped, pc := .hfOut, t := t } := by
      simp only [next, hp, hmax, if_true, hff]
    have h1 : step s a = { next s a with log := (next s a).log ++ [pending (next s a)] } := by
      rw [step_eq, hn]; simp [Pc.silent, hp]
    refine ⟨t, hff1 t hff, ?_, ?_, ?_⟩
    · rw [h1, hn]; rfl
    · rw [h1, hn]; simp [step, next, Pc.silent]
    · rw [h1, hn]; simp [step, next, Pc.silent]

/-! ### concrete instances (the end-clash run of `Lemmas/TunerWitnessData.lean`) -/

/-- `notified_failed`: trial 0 polled as failed → `on_trial_error(0)` -/
example : (run (init Witness.clashCfg) (Witness.clashPrefix.take 28)).pc = .second ∧
    (run (init Witness.clashCfg) (Witness.clashPrefix.take 28)).items = [(0, .failed)] ∧
    pending (run (init Witness.clashCfg) Witness.clashPrefix) = .schedError 0 := by
  decide +kernel

/-- `continues`: one failure with `max_failures = 1`: the next iteration starts -/
example : (run (init Witness.clashCfg) (Witness.clashPrefix ++ Witness.clashRest.take 7)).pc = .evalStop ∧
    (run (init Witness.clashCfg) (Witness.clashPrefix ++ Witness.clashRest.take 7)).status.numFailed = 1 ∧
    (run (init Witness.clashCfg) (Witness.clashPrefix ++ Witness.clashRest.take 9)).pc = .loopStart := by
  decide +kernel

/-- `abort_names_failed`: the same answers with `max_failures = 0`: the loop is left at the next
`while` test, `_handle_failure` shows the logs of trial 0 and `run()` raises "Trial - 0 failed" -/
example :
    let c : Cfg := { Witness.clashCfg with maxFailures := 0 }
    let as : List Ans := Witness.clashPrefix ++ Witness.clashRest.take 9 ++
      [.ret, .ids [0], Witness.τ, .status .failed, Witness.τ, Witness.τ]
    (run (init c) as).pc = .finMark ∧
    pending (run (init c) (as ++ [Witness.τ])) = .stdout 0 ∧
    (run (init c) (as ++ [Witness.τ, .ret, .ret])).err = some (.failed 0) ∧
    (run (init c) (as ++ [Witness.τ, .ret, .ret])).pc = .done := by
  decide +kernel

end SyneTune.C13Loop
