import SyneTune.Lemmas.Symmetry3
import SyneTune.Props.C03
/-
C15 — minimising f and maximising -f are the same experiment, for the WHOLE asynchronous
Hyperband scheduler (`HyperbandScheduler` with any of the six rung-system types: stopping,
promotion, pasha, cost_promotion, rush_stopping, rush_promotion) and EVERY history of scheduler
operations.

`negSched` mirrors a scheduler state (mode flipped; every rung entry's metric, every RUSH
threshold and the stored last reported metric of every trial negated; everything else — rung
levels, quantiles, `_running`, costs, PASHA's `current_rung_idx` / `current_max_t` / `epsilon`,
brackets, decisions, ... — identical); `negOp` mirrors an operation (metric of `result` /
`complete` negated; hints, cost and PASHA's `eps` input unchanged).

Each step theorem says: the mirrored scheduler on the mirrored operation answers the same
(same suggestion, same decision, same round-off flag, same error; searcher calls equal up to the
negated metric they carry) and ends in the mirror of the original's new state.  `run_symm`,
`outs_symm`, `calls_symm` lift this to all histories by induction.

All six types are symmetric in the model — no `_partial` theorem.  For PASHA note
`softGroups_symm`: the model keeps both ranking lists best-first in either mode (as the code's
`sorted(..., reverse=(mode == "max"))` does), and the ε-tests of the two modes are mirror images.
PASHA's `epsilon` after `_update_epsilon()` is an INPUT of the model (`eps`), assumed equal in the
two experiments; that the real code computes the same ε is checked by the paired runs.

Helper lemmas: `Lemmas/Symmetry.lean`, `Props/C15.lean` (rung level), `Lemmas/Symmetry2.lean`
(rung systems, bracket manager), `Lemmas/Symmetry3.lean` (scheduler, invariant).
-/
namespace SyneTune.C15Sched
open SyneTune SyneTune.C15 SyneTune.C04K

/-! ### well-formedness -/

/-- every promotion quantile of every rung system lies in (0,1) (`QOK` of `Props/C15.lean`).
No assumption on the mode: the step theorems hold for `min` and for `max`. -/
def WF (s : Sched) : Prop := ∀ sys ∈ s.mgr.systems, QOK sys.rungs

/-- **`WF` is preserved by every operation** (no operation changes a promotion quantile). -/
theorem step_WF (s : Sched) (op : SOp) (hw : WF s) : WF (stepS s op) := by
  have h1 : MgrQOK (stepS s op).mgr ↔ MgrQOK s.mgr := by
    rw [MgrQOK_iff, MgrQOK_iff, stepS_qs]
  exact h1.mpr hw

/-- `WF` holds after every history. -/
theorem run_WF (s : Sched) (ops : List SOp) (hw : WF s) : WF (runS s ops) := by
  induction ops generalizing s with
  | nil => exact hw
  | cons op ops ih => exact ih (stepS s op) (step_WF s op hw)

/-- the mirror of a well-formed scheduler is well-formed -/
theorem neg_WF (s : Sched) (hw : WF s) : WF (negSched s) := MgrQOK_neg s.mgr hw

/-- **Every scheduler built by `Manager.init` is well-formed**: any type, mode, number of
brackets, `rung_system_per_bracket`, for positive strictly increasing rung levels below `max_t`
(what `C03.rung_levels_rf`, `C03.rung_levels_inc` and the explicit-list assertions give). -/
theorem init_WF (ty : HBType) (mode : Mode) (maxT : Nat) (levels : List Nat) (brackets : Nat)
    (perBracket : Bool) (numThr : Nat) (sd : SearcherData) (my mra hc : Bool)
    (hpos : ∀ l ∈ levels, 0 < l) (hinc : (levels ++ [maxT]).Pairwise (· < ·)) :
    WF { mgr := Manager.init ty mode maxT levels brackets perBracket numThr, searcherData := sd,
         pendingMyopic := my, maxResourceAttr := mra, hasCost := hc } := by
  intro sys hsys rg hrg
  simp only [Manager.init, List.mem_map, List.mem_range] at hsys
  obtain ⟨k, _, rfl⟩ := hsys
  rw [mkSys_rungs] at hrg
  simp only [mkRungSys, List.mem_reverse] at hrg
  have h1 := zipWith_q_mem _ _ rg hrg
  exact C03.promote_quantiles_in_unit_interval levels maxT hpos hinc rg.q (List.mem_of_mem_drop h1)

/-! ### step theorems, all six types, both modes -/

/-- **`_suggest` is symmetric**: same suggestion (start / resume of the same trial from the same
rung to the same milestone), same searcher calls, same round-off flag, same error. -/
theorem suggest_symm (s : Sched) (hw : WF s) (newTid bracket : Nat) (hint : Option Nat) :
    (negSched s).suggest newTid bracket hint =
      (s.suggest newTid bracket hint).map (fun res => (negSched res.1, res.2)) :=
  suggest_symm_any s hw newTid bracket hint

/-- **`on_trial_result` is symmetric**: same decision (CONTINUE / PAUSE / STOP), same round-off
flag, same searcher calls up to the negated metric (`negRes`), same error. -/
theorem result_symm (s : Sched) (hw : WF s) (tid r : Nat) (v : Rat) (hint : Bool) (cost eps : Rat) :
    (negSched s).onResult tid r (-v) hint cost eps =
      (s.onResult tid r v hint cost eps).map (fun res => (negSched res.1, negRes res.2)) :=
  onResult_symm_any s hw tid r v hint cost eps

/-- **`on_trial_remove` is symmetric.** -/
theorem remove_symm (s : Sched) (tid : Nat) : (negSched s).onRemove tid = negSched (s.onRemove tid) :=
  onRemove_symm s tid

/-- **`on_trial_error` is symmetric**: same searcher calls. -/
theorem error_symm (s : Sched) (tid : Nat) :
    (negSched s).onError tid = (negSched (s.onError tid).1, (s.onError tid).2) :=
  onError_symm s tid

/-- **`on_trial_complete` is symmetric**: same searcher calls up to the negated metric, same error. -/
theorem complete_symm (s : Sched) (tid r : Nat) (v : Rat) :
    (negSched s).onComplete tid r (-v) =
      (s.onComplete tid r v).map (fun res => (negSched res.1, res.2.map negCall)) :=
  onComplete_symm s tid r v

/-- **One step of the mirrored experiment is the mirror of one step of the original**, for
every operation (accepted or rejected), every type, both modes. -/
theorem step_symm (s : Sched) (op : SOp) (hw : WF s) :
    stepS (negSched s) (negOp op) = negSched (stepS s op) := by
  cases op with
  | suggest n b h =>
    simp only [negOp, stepS, suggest_symm s hw]
    cases s.suggest n b h <;> rfl
  | result t r v h c e =>
    simp only [negOp, stepS, result_symm s hw]
    cases s.onResult t r v h c e <;> rfl
  | remove t => exact remove_symm s t
  | error t => simp only [negOp, stepS, error_symm]
  | complete t r v =>
    simp only [negOp, stepS, complete_symm]
    cases s.onComplete t r v <;> rfl

/-! ### all histories -/

/-- **C15 for the whole scheduler, every history**: running the mirrored history on the
mirrored scheduler ends in the mirror of the original's final state. -/
theorem run_symm (s : Sched) (ops : List SOp) (hw : WF s) :
    runS (negSched s) (ops.map negOp) = negSched (runS s ops) := by
  induction ops generalizing s with
  | nil => rfl
  | cons op ops ih =>
    simp only [List.map_cons, runS, List.foldl_cons]
    rw [step_symm s op hw]
    exact ih (stepS s op) (step_WF s op hw)

/-- what the outside sees of one operation: the suggestion or the decision with its round-off
flag, or the error -/
inductive Out
  | suggestion (sg : Suggestion) (free : Bool)
  | decision (d : Decision) (free : Bool)
  | done
  | err (e : Err)
deriving DecidableEq, Repr

def outS (s : Sched) : SOp → Out
  | .suggest n b h =>
    match s.suggest n b h with | .ok res => .suggestion res.2.1 res.2.2.2 | .error e => .err e
  | .result t r v h c e =>
    match s.onResult t r v h c e with | .ok res => .decision res.2.decision res.2.free | .error e => .err e
  | .remove _ => .done
  | .error _ => .done
  | .complete t r v => match s.onComplete t r v with | .ok _ => .done | .error e => .err e

/-- the searcher calls issued by one operation (none when it is rejected) -/
def callsS (s : Sched) : SOp → List SCall
  | .suggest n b h => match s.suggest n b h with | .ok res => res.2.2.1 | .error _ => []
  | .result t r v h c e => match s.onResult t r v h c e with | .ok res => res.2.calls | .error _ => []
  | .remove _ => []
  | .error t => (s.onError t).2
  | .complete t r v => match s.onComplete t r v with | .ok res => res.2 | .error _ => []

/-- the output stream of a history -/
def outsS (s : Sched) : List SOp → List Out
  | [] => []
  | op :: ops => outS s op :: outsS (stepS s op) ops

/-- the stream of searcher calls of a history -/
def callsOfRun (s : Sched) : List SOp → List (List SCall)
  | [] => []
  | op :: ops => callsS s op :: callsOfRun (stepS s op) ops

theorem out_symm (s : Sched) (op : SOp) (hw : WF s) : outS (negSched s) (negOp op) = outS s op := by
  cases op with
  | suggest n b h =>
    simp only [negOp, outS, suggest_symm s hw]
    cases s.suggest n b h <;> rfl
  | result t r v h c e =>
    simp only [negOp, outS, result_symm s hw]
    cases s.onResult t r v h c e <;> rfl
  | remove t => rfl
  | error t => rfl
  | complete t r v =>
    simp only [negOp, outS, complete_symm]
    cases s.onComplete t r v <;> rfl

theorem call_symm (s : Sched) (op : SOp) (hw : WF s) :
    callsS (negSched s) (negOp op) = (callsS s op).map negCall := by
  cases op with
  | suggest n b h =>
    simp only [negOp, callsS, suggest_symm s hw]
    cases hs : s.suggest n b h with
    | error e => rfl
    | ok res =>
      simp only [Except.map]
      -- `_suggest` only registers pending evaluations: no metric in its calls
      unfold Sched.suggest at hs
      cases hts : s.mgr.taskSchedule b h with
      | error e => simp [hts] at hs
      | ok r1 =>
        simp only [hts] at hs
        cases ho : r1.2.1 with
        | none =>
          simp only [ho] at hs
          unfold Sched.suggestStart at hs
          split at hs
          · simp at hs
          · cases ha : r1.1.taskAdd n b none with
            | error e => simp [ha] at hs
            | ok r2 =>
              simp only [ha, Except.ok.injEq] at hs
              subst hs
              exact (map_pending_negCall n _).symm
        | some o =>
          simp only [ho] at hs
          unfold Sched.suggestResume at hs
          cases ha : r1.1.taskAdd o.trial b (some (o.milestone, o.resumeFrom)) with
          | error e => simp [ha] at hs
          | ok r2 =>
            simp only [ha] at hs
            cases hl : alookup o.trial s.active with
            | none => simp [hl] at hs
            | some rec =>
              simp only [hl] at hs
              split at hs
              · simp at hs
              · simp only [Except.ok.injEq] at hs
                subst hs
                exact (map_pending_negCall o.trial _).symm
  | result t r v h c e =>
    simp only [negOp, callsS, result_symm s hw]
    cases s.onResult t r v h c e <;> rfl
  | remove t => rfl
  | error t => simp only [negOp, callsS, error_symm]; rfl
  | complete t r v =>
    simp only [negOp, callsS, complete_symm]
    cases s.onComplete t r v <;> rfl

/-- **The two experiments produce the same output stream**: identical suggestions, decisions,
round-off flags and errors, operation by operation, over every history. -/
theorem outs_symm (s : Sched) (ops : List SOp) (hw : WF s) :
    outsS (negSched s) (ops.map negOp) = outsS s ops := by
  induction ops generalizing s with
  | nil => rfl
  | cons op ops ih =>
    simp only [List.map_cons, outsS]
    rw [out_symm s op hw, step_symm s op hw, ih (stepS s op) (step_WF s op hw)]

/-- **The searcher sees the same calls**, with the metric values negated, over every history. -/
theorem calls_symm (s : Sched) (ops : List SOp) (hw : WF s) :
    callsOfRun (negSched s) (ops.map negOp) = (callsOfRun s ops).map (fun cs => cs.map negCall) := by
  induction ops generalizing s with
  | nil => rfl
  | cons op ops ih =>
    simp only [List.map_cons, callsOfRun]
    rw [call_symm s op hw, step_symm s op hw, ih (stepS s op) (step_WF s op hw)]

/-- `run_symm` and `outs_symm` together -/
theorem run_outs_symm (s : Sched) (ops : List SOp) (hw : WF s) :
    runS (negSched s) (ops.map negOp) = negSched (runS s ops) ∧
    outsS (negSched s) (ops.map negOp) = outsS s ops ∧
    callsOfRun (negSched s) (ops.map negOp) = (callsOfRun s ops).map (fun cs => cs.map negCall) :=
  ⟨run_symm s ops hw, outs_symm s ops hw, calls_symm s ops hw⟩

/-- the mirror maps are involutions: "maximising f = minimising -f" is the same statement -/
theorem neg_involutive (s : Sched) (op : SOp) : negSched (negSched s) = s ∧ negOp (negOp op) = op :=
  ⟨negSched_negSched s, negOp_negOp op⟩

/-- the mirror of a `min` scheduler is a `max` scheduler and vice versa -/
theorem neg_mode (s : Sched) : (negSched s).mgr.mode = s.mgr.mode.flip := rfl

/-! ### non-vacuity -/

/-- a stopping-type (ASHA stopping) scheduler: `max_t = 9`, rung levels 1, 3 -/
def exStop : Sched := { mgr := Manager.init .stopping .min 9 [1, 3] 1 false }
/-- a promotion-type (ASHA promotion) scheduler -/
def exPromo : Sched := { mgr := Manager.init .promotion .min 9 [1, 3] 1 false }
/-- RUSH stopping with one threshold candidate, PASHA, cost-aware promotion -/
def exRush : Sched := { mgr := Manager.init .rushStopping .min 9 [1, 3] 1 false 1 }
def exPasha : Sched := { mgr := Manager.init .pasha .min 27 [1, 3, 9] 1 false }

example : WF exStop :=
  init_WF .stopping .min 9 [1, 3] 1 false 0 .rungs false false false (by decide) (by decide)
example : WF exPromo :=
  init_WF .promotion .min 9 [1, 3] 1 false 0 .rungs false false false (by decide) (by decide)
example : WF exRush :=
  init_WF .rushStopping .min 9 [1, 3] 1 false 1 .rungs false false false (by decide) (by decide)
example : WF exPasha :=
  init_WF .pasha .min 27 [1, 3, 9] 1 false 0 .rungs false false false (by decide) (by decide)

/-- two trials report 1 and 2 at the first rung: the second is STOPPED (cutoff 4/3) -/
def histStop : List SOp :=
  [.suggest 0 0 none, .result 0 1 1 false 0 0, .suggest 1 0 none, .result 1 1 2 false 0 0,
   .result 0 3 1 false 0 0]

/-- two trials pause at the first rung with 1 and 2; the next `_suggest` PROMOTES trial 0 -/
def histPromo : List SOp :=
  [.suggest 0 0 none, .result 0 1 1 false 0 0, .suggest 1 0 none, .result 1 1 2 false 0 0,
   .suggest 2 0 none, .result 0 3 1 false 0 0]

/-- a STOP occurs in the original … -/
example : outsS exStop histStop =
    [.suggestion (.start 0 0 1) false, .decision .continue false, .suggestion (.start 1 0 1) false,
     .decision .stop false, .decision .continue false] := by decide +kernel

/-- … and, evaluated independently of the theorem, in the mirrored experiment (mode max, metrics -1, -2). -/
example : outsS (negSched exStop) (histStop.map negOp) = outsS exStop histStop := by decide +kernel

example : (negSched exStop).mgr.mode = .max := rfl

/-- a promotion (resume of trial 0 from rung 1 to milestone 3) occurs in the original … -/
example : outsS exPromo histPromo =
    [.suggestion (.start 0 0 1) false, .decision .pause false, .suggestion (.start 1 0 1) false,
     .decision .pause false, .suggestion (.resume 0 1 3) false, .decision .pause false] := by decide +kernel

/-- … and in the mirrored experiment. -/
example : outsS (negSched exPromo) (histPromo.map negOp) = outsS exPromo histPromo := by decide +kernel

/-- RUSH stopping and PASHA on the same histories: STOP resp. promotion occur in both experiments -/
example : outsS (negSched exRush) (histStop.map negOp) = outsS exRush histStop ∧
    (Out.decision .stop false) ∈ outsS exRush histStop := by decide +kernel

example : outsS (negSched exPasha) (histPromo.map negOp) = outsS exPasha histPromo ∧
    (Out.suggestion (.resume 0 1 3) false) ∈ outsS exPasha histPromo := by decide +kernel

end SyneTune.C15Sched
