import SyneTune.Lemmas.C14SyncConsec
/-
C14, COMPOSED SYSTEM, SYNCHRONOUS HYPERBAND — "multi-fidelity surrogate data: each observation
once, only live pending entries", for the model of `SynchronousHyperbandScheduler`
(`Model/SyncScheduler.lean`, `Sync.Sched`) and the model of the data bookkeeping of the GP
searcher (`Model/SearcherState.lean`, `SState`) running together: every searcher call an
operation emits is translated (`trCall`) and applied, in order, to the searcher state (`applyActs`:
`SState.apply`, or `drop_pending_evaluation` + `mark_trial_failed` for a NaN result passed with
`update=True` — the behaviour of /repo since commit b827303) by `stepCS` (`Lemmas/C14SyncDefs.lean`).  Proved for ALL histories, in the style of `Props/C14Comp.lean`
(asynchronous `HyperbandScheduler`).

* `SysS` = scheduler + searcher state + the ghost map `last` (level of the last result a trial
  reported in its current run; only contract and invariant read it).
* `OpOKS` is the contract of the operation stream (what the `Tuner` loop and the training scripts
  guarantee), evaluated along the run by `OpsOKS`; each clause is justified at its definition and
  shown NECESSARY by a `…_counterexample` below.
* `CInvS` is the invariant; `init_CInvS` (every scheduler built by `Sched.init`, both
  `searcher_data` policies, `max_resource_attr` on or off, searcher without data),
  `cinvS_step`, `cinvS_all_histories`.
* `calls_accepted_sync`: neither the scheduler's nor the searcher's assertions are reachable.
* `pending_only_running_sync`, `pending_exact_sync`, `no_pending_after_end_sync`,
  `observed_once_sync`, `observed_levels_sync`, `observed_levels_window_sync`,
  `selected_report_present_sync`, `observed_levels_all_present_partial` are the property.

Levels: `s.lvl id k` is the level of rung `k` of bracket `id` (`bracket_rungs[id mod n][k][1]`),
`s.prevLvl id k` the level of the rung below (0 for the base rung); `window_is_code_window`
shows that these are `rung.level` and `level_to_prev_level(bracket_id, level)` of the code.
`s.mgr.SlotAt id k p ⟨tid, metric⟩`: slot `p` of rung `k` of bracket `id` holds `(tid, metric)`.
-/
namespace SyneTune.Sync.C14S
open SyneTune.C14 SyneTune.C14Comp

/-! ### the searcher never raises; the invariant holds after every history -/

/-- **Scheduler and searcher accept every operation within the contract.**  From a state
satisfying the invariant: the scheduler method does not raise (in particular not "Training
script must not skip rung levels"), and none of the calls it makes on the searcher (`applyActs` of their translation) hits the
searcher's assertion ("already has observation, cannot be pending" in `register_pending`): the
two error branches of `stepCS` are unreachable. -/
theorem calls_accepted_sync (y : SysS) (h : CInvS y) (op : Op) (hok : OpOKS y op) :
    ∃ s' o st', y.sched.step op = .ok (s', o) ∧ applyActs y.st (o.calls.map trCall) = .ok st' :=
  accepted_step h op hok

/-- one operation within the contract preserves the invariant -/
theorem cinvS_step (y : SysS) (h : CInvS y) (op : Op) (hok : OpOKS y op) : CInvS (stepCS y op) :=
  cinvS_step' h op hok

/-- **`CInvS` holds after every history** of scheduler operations within the contract. -/
theorem cinvS_all_histories (y0 : SysS) (h : CInvS y0) (ops : List Op) (hok : OpsOKS y0 ops) :
    CInvS (runCS y0 ops) :=
  cinvS_run h ops hok

/-- **Every constructed system satisfies the invariant**: any scheduler the constructor
`SynchronousHyperbandScheduler(config_space, bracket_rungs, mode, max_resource_attr,
searcher_data)` accepts (`Sched.init … = .ok s0`: the assertions on `bracket_rungs` hold), with
a searcher that has no data yet. -/
theorem init_CInvS (mode : Mode) (systems : List (List (Nat × Nat))) (maxResourceAttr searcherAll : Bool)
    (s0 : Sched) (h : Sched.init mode systems maxResourceAttr searcherAll = .ok s0) :
    CInvS { sched := s0, st := { mode := mode }, last := [] } :=
  init_cinvS mode systems maxResourceAttr searcherAll s0 h mode

/-- **The scheduler inside the composed system is the scheduler of C05/C13/C20.**  Along a
history within the contract the scheduler component is `Sched.run` of the same operations and
the history is a `LegalRun`; started from a constructed scheduler its states are `Reachable`, so
`C05.distinct`, `C05.barrier`, `C05.top`, `C13Sync.*`, `C20Sync.*` apply to them. -/
theorem sched_component_sync (y0 : SysS) (h : CInvS y0) (ops : List Op) (hok : OpsOKS y0 ops) :
    (runCS y0 ops).sched = y0.sched.run ops ∧ LegalRun y0.sched ops ∧
    (runCS y0 ops).sched.mgr.bracketRungs = y0.sched.mgr.bracketRungs ∧
    (runCS y0 ops).sched.searcherAll = y0.sched.searcherAll :=
  ⟨(sched_run_eq h ops hok).1, (sched_run_eq h ops hok).2, (run_consts h ops hok).1, (run_consts h ops hok).2⟩

/-- **`lvl` / `prevLvl` are the code's milestone and `prev_level`.**  In a state satisfying the
invariant, for every materialised rung `k` of bracket `id`: `lvl id k` is the rung's level,
`level_to_prev_level(id, level)` returns `prevLvl id k`, and `prevLvl id k < lvl id k`; for a
trial registered in `_trial_to_pending_slot` the milestone `slot_in_rung.level` is `lvl` of its
rung. -/
theorem window_is_code_window (y : SysS) (h : CInvS y) :
    (∀ id k br rg, y.sched.mgr.brackets[id]? = some br → br.rungs[k]? = some rg →
      y.sched.lvl id k = rg.level ∧
      y.sched.mgr.levelToPrevLevel id rg.level = .ok (y.sched.prevLvl id k) ∧
      y.sched.prevLvl id k < y.sched.lvl id k) ∧
    (∀ t id sl, alookup t y.sched.pending = some (id, sl) → sl.level = y.sched.lvl id sl.rungIndex) := by
  refine ⟨?_, fun t id sl hl => (pend_level h.inv hl).1⟩
  intro id k br rg hbr hrg
  have h1 := lvl_of_rung h.inv.mwf hbr hrg
  refine ⟨h1, ?_, prevLvl_lt_lvl h.inv.mwf hbr hrg⟩
  rw [← h1]; exact levelToPrevLevel_eq h.inv.mwf hbr hrg

/-! ### (a) pending evaluations belong to running trials only -/

/-- **Only live pending entries.**  After every history within the contract, every pending
evaluation `(t, r)` the searcher holds belongs to a trial which is registered in the scheduler's
`_trial_to_pending_slot` (it is running: started or resumed and has neither reported its
milestone, nor failed), `r` is the milestone of its slot, above the last level the trial
reported in this run, there is no observation for `(t, r)`, and the trial was STARTED for this
slot (the bracket's slot still holds `(None, None)`: `register_pending` is called for a new
trial only).  Histories with NaN metric values are covered: the contract does not restrict the
values reported. -/
theorem pending_only_running_sync (y0 : SysS) (h0 : CInvS y0) (ops : List Op) (hok : OpsOKS y0 ops) (t r : Nat)
    (hp : (t, r) ∈ (runCS y0 ops).st.pending) :
    ∃ id sl, alookup t (runCS y0 ops).sched.pending = some (id, sl) ∧ r = sl.level ∧
      (runCS y0 ops).lastOf t < r ∧ (runCS y0 ops).st.isLabeled t r = false ∧
      (runCS y0 ops).sched.mgr.SlotAt id sl.rungIndex sl.slotIndex ⟨none, none⟩ := by
  have h := cinvS_all_histories y0 h0 ops hok
  obtain ⟨id, sl, h1, h2, h3⟩ := h.pend (t, r) hp
  refine ⟨id, sl, h1, h2, ?_, pending_not_labeled h hp, h3⟩
  have := h.lastOk t id sl h1
  simp only at h2; omega

/-- **Exactly the started trials have a pending evaluation.**  After every history within the
contract: no pending entry occurs twice; a running trial has the pending evaluation
`(t, milestone)` iff it was started for its slot (slot content `(None, None)`); a running trial
which was RESUMED for its slot (slot content `(t, None)`) has no pending evaluation at all (the
synchronous scheduler does not call `register_pending` on promotion); a trial which is not
running has none. -/
theorem pending_exact_sync (y0 : SysS) (h0 : CInvS y0) (ops : List Op) (hok : OpsOKS y0 ops) :
    (runCS y0 ops).st.pending.Nodup ∧
    (∀ t id sl, alookup t (runCS y0 ops).sched.pending = some (id, sl) →
      ((t, sl.level) ∈ (runCS y0 ops).st.pending ↔
        (runCS y0 ops).sched.mgr.SlotAt id sl.rungIndex sl.slotIndex ⟨none, none⟩)) ∧
    (∀ t id sl, alookup t (runCS y0 ops).sched.pending = some (id, sl) →
      (runCS y0 ops).sched.mgr.SlotAt id sl.rungIndex sl.slotIndex ⟨some t, none⟩ →
      ∀ p ∈ (runCS y0 ops).st.pending, p.1 ≠ t) ∧
    (∀ t, alookup t (runCS y0 ops).sched.pending = none → ∀ p ∈ (runCS y0 ops).st.pending, p.1 ≠ t) := by
  have h := cinvS_all_histories y0 h0 ops hok
  refine ⟨h.pnd, ?_, ?_, fun t hn => no_pending_of_not_running h hn⟩
  · intro t id sl hl
    constructor
    · intro hp
      obtain ⟨id', sl', h1, _, h3⟩ := h.pend (t, sl.level) hp
      rw [hl] at h1
      simp only [Option.some.injEq, Prod.mk.injEq] at h1
      obtain ⟨rfl, rfl⟩ := h1
      exact h3
    · exact h.conv t id sl hl
  · intro t id sl hl hs p hp he
    obtain ⟨id', sl', h1, _, h3⟩ := h.pend p hp
    rw [he, hl] at h1
    simp only [Option.some.injEq, Prod.mk.injEq] at h1
    obtain ⟨rfl, rfl⟩ := h1
    have := slotAt_functional hs h3
    simp at this

/-! ### (c) pending evaluations disappear when the run of the trial ends -/

/-- **No pending evaluation survives the end of a run.**  From a state satisfying the
invariant: after `on_trial_error(t)` no pending entry of `t` remains; after an
`on_trial_result` (within the contract) whose answer is PAUSE (the milestone report — with a
finite OR a NaN metric value) or STOP no pending entry of the reporting trial remains; and
`on_trial_complete` (within the contract) changes neither the scheduler nor the pending
evaluations nor the data (with a finite value nothing at all; a NaN value only marks the trial as
failed) — the trial has been paused at its milestone before. -/
theorem no_pending_after_end_sync (y : SysS) (h : CInvS y) :
    (∀ t, ∀ p ∈ (stepCS y (.error t)).st.pending, p.1 ≠ t) ∧
    (∀ t r v s' d calls, OpOKS y (.result t r v) → y.sched.onResult t r v = .ok (s', d, calls) →
      d ≠ .continue → ∀ p ∈ (stepCS y (.result t r v)).st.pending, p.1 ≠ t) ∧
    (∀ t r v, OpOKS y (.complete t r v) →
      (stepCS y (.complete t r v)).sched = y.sched ∧
      (stepCS y (.complete t r v)).st.pending = y.st.pending ∧
      (stepCS y (.complete t r v)).st.observed = y.st.observed ∧
      (∀ x, v = .val x → stepCS y (.complete t r v) = y)) := by
  refine ⟨fun t => error_no_pending h t,
    fun t r v _ _ _ hok hres hd => result_end_no_pending h t r v hok hres hd, ?_⟩
  intro t r v hok
  obtain ⟨st', hp, ho, _, hv, he⟩ := stepCS_complete h t r v hok
  rw [he]
  refine ⟨rfl, hp, ho, ?_⟩
  intro x hx
  rw [hv x hx]

/-! ### (b) each observation once, with the reported value -/

/-- **Each observation once, equal to what was reported, never overwritten.**  After every
history within the contract: the data set holds at most one record per trial and one value per
level (`ObsWF`); every stored value for trial `t` at level `r` was there at the start or is the
criterion (`1 - x` for mode max) of a FINITE metric value `x` which an `on_trial_result` call of
the history reported for `t` at level `r`; and an observation which was in the data at the start
is still there, unchanged (`label_trial` never overwrites, nothing is removed). -/
theorem observed_once_sync (y0 : SysS) (h0 : CInvS y0) (ops : List Op) (hok : OpsOKS y0 ops) :
    ObsWF (runCS y0 ops).st ∧
    (∀ t r c, obsAt (runCS y0 ops).st t r = some c →
      obsAt y0.st t r = some c ∨
      ∃ x, (t, r, Metric.val x) ∈ ops.flatMap opReportsS ∧ c = y0.st.crit x) ∧
    (∀ t r c, obsAt y0.st t r = some c → obsAt (runCS y0 ops).st t r = some c) :=
  ⟨(cinvS_all_histories y0 h0 ops hok).owf, fun t r c hc => run_obs_source h0 ops hok t r c hc,
   (run_stable h0 ops hok).2⟩

/-- the same from a searcher without data: every observation is a reported value -/
theorem observed_once_from_init_sync (y0 : SysS) (h0 : CInvS y0) (hemp : y0.st.observed = [])
    (ops : List Op) (hok : OpsOKS y0 ops) (t r : Nat) (c : Rat)
    (hc : obsAt (runCS y0 ops).st t r = some c) :
    ∃ x, (t, r, Metric.val x) ∈ ops.flatMap opReportsS ∧ c = y0.st.crit x := by
  rcases run_obs_source h0 ops hok t r c hc with h | h
  · unfold obsAt at h; rw [hemp] at h; simp [alookup] at h
  · exact h

/-! ### (d) exactly the levels the policy selects -/

/-- **`searcher_data = "rungs"`: the data set is exactly the set of finite rung entries.**
After every history within the contract, with the policy `rungs`: trial `t` has the observation
`c` at level `r` iff some bracket has a rung of level `r` in which `t` holds a slot with a finite
metric value `x`, and `c` is the criterion of `x` — i.e. `t` reached the milestone `r` in its own
bracket and reported `x` there.  Present and no others: a failed trial (slot `(t, NaN)`), a
level between rungs, a level of another bracket's rung system never occur. -/
theorem observed_levels_sync (y0 : SysS) (h0 : CInvS y0) (ops : List Op) (hok : OpsOKS y0 ops)
    (hpol : y0.sched.searcherAll = false) (t r : Nat) (c : Rat) :
    obsAt (runCS y0 ops).st t r = some c ↔
      ∃ id k p x, (runCS y0 ops).sched.mgr.SlotAt id k p ⟨some t, some (.val x)⟩ ∧
        r = (runCS y0 ops).sched.lvl id k ∧ c = (runCS y0 ops).st.crit x := by
  have h := cinvS_all_histories y0 h0 ops hok
  have hsa : (runCS y0 ops).sched.searcherAll = false := by rw [(run_consts h0 ops hok).2]; exact hpol
  constructor
  · intro hc
    have hl : (runCS y0 ops).st.isLabeled t r = true := by rw [lab_iff, hc]; rfl
    rcases h.obs t r hl with ⟨id, k, p, m, hs, _, _, a3, a4⟩ | ⟨_, _, _, _, _, h3⟩
    · have hr := a4 hsa
      obtain ⟨x, hx, ho⟩ := a3 hr
      subst hx
      rw [hc] at ho
      exact ⟨id, k, p, x, hs, hr, Option.some.inj ho⟩
    · rw [hsa] at h3; cases h3
  · rintro ⟨id, k, p, x, hs, rfl, rfl⟩
    exact h.fin t id k p x hs

/-- **No observation outside the windows of the runs** (both policies).  After every history
within the contract an observation for trial `t` at level `r` belongs to a run of `t`:
* a finished run — slot `p` of rung `k` of bracket `id` holds `(t, m)` — with
  `prev_level < r ≤ level` of that rung; `r` is the rung level itself only if `m` is a finite
  value (then the observation is its criterion); with `searcher_data = "rungs"`, `r` is the rung
  level; or
* the current run of the running trial `t` (`searcher_data = "all"` only), with `prev_level < r`
  and `r` not above the last level `t` reported. -/
theorem observed_levels_window_sync (y0 : SysS) (h0 : CInvS y0) (ops : List Op) (hok : OpsOKS y0 ops) (t r : Nat)
    (hl : (runCS y0 ops).st.isLabeled t r = true) :
    (∃ id k p m, (runCS y0 ops).sched.mgr.SlotAt id k p ⟨some t, some m⟩ ∧
        (runCS y0 ops).sched.prevLvl id k < r ∧ r ≤ (runCS y0 ops).sched.lvl id k ∧
        (r = (runCS y0 ops).sched.lvl id k →
          ∃ x, m = .val x ∧ obsAt (runCS y0 ops).st t r = some ((runCS y0 ops).st.crit x)) ∧
        ((runCS y0 ops).sched.searcherAll = false → r = (runCS y0 ops).sched.lvl id k)) ∨
    (∃ id sl, alookup t (runCS y0 ops).sched.pending = some (id, sl) ∧
        (runCS y0 ops).sched.prevLvl id sl.rungIndex < r ∧ r ≤ (runCS y0 ops).lastOf t ∧
        (runCS y0 ops).sched.searcherAll = true) :=
  (cinvS_all_histories y0 h0 ops hok).obs t r hl

/-- **Every report the policy selects is in the data** (both policies).  If at some point of a
history within the contract the running trial `t`, registered for a slot of rung `sl.rungIndex`
of bracket `id`, reports the finite value `x` at a level `r` above `prev_level` of that rung, and
the policy selects it (`searcher_data = "all"`, or `r` is the milestone), then at the end of the
history — whatever happens afterwards — the observation of `t` at `r` is the criterion of `x`. -/
theorem selected_report_present_sync (y0 : SysS) (h0 : CInvS y0) (ops1 ops2 : List Op) (t r : Nat) (x : Rat)
    (hok : OpsOKS y0 (ops1 ++ .result t r (.val x) :: ops2)) (id : Nat) (sl : SlotInRung)
    (hlook : alookup t (runCS y0 ops1).sched.pending = some (id, sl))
    (hprev : (runCS y0 ops1).sched.prevLvl id sl.rungIndex < r)
    (hsel : (runCS y0 ops1).sched.searcherAll = true ∨ r = sl.level) :
    obsAt (runCS y0 (ops1 ++ .result t r (.val x) :: ops2)).st t r = some (y0.st.crit x) := by
  rw [opsOKS_append] at hok
  obtain ⟨hok1, hok2, hok3⟩ := hok
  have h1 := cinvS_all_histories y0 h0 ops1 hok1
  have hp := result_present h1 hok2 hlook hprev hsel
  rw [crit_of_mode (run_stable h0 ops1 hok1).1] at hp
  rw [runCS_append, runCS_cons]
  exact (run_stable (cinvS_step' h1 _ hok2) ops2 hok3).2 t r _ hp

/-- **`searcher_data = "all"`: every level of the window of every run — PARTIAL**: proved under
the extra hypothesis `ConsecRun` (the training scripts leave out no resource level: each report
of a running trial is the level after its previous one, the first report of a run being 1 or
`prev_level + 1`), which is not part of the contract `OpOKS`.  Then, started from a constructed
system, after every history: a running trial has an observation at every level `r` with
`prev_level < r ≤ last level reported`, and a finished run with a finite milestone report has one
at every `r` with `prev_level < r ≤ milestone`.  What is missing without `ConsecRun`: nothing
forces a script to report every level (the scheduler only asserts that the milestone itself is
not skipped); a level which was never reported is simply absent — `selected_report_present_sync`
is the unconditional statement. -/
theorem observed_levels_all_present_partial (mode : Mode) (systems : List (List (Nat × Nat)))
    (maxResourceAttr : Bool) (s0 : Sched) (hinit : Sched.init mode systems maxResourceAttr true = .ok s0)
    (ops : List Op) (hok : OpsOKS { sched := s0, st := { mode := mode }, last := [] } ops)
    (hcon : ConsecRun { sched := s0, st := { mode := mode }, last := [] } ops) :
    let y := runCS { sched := s0, st := { mode := mode }, last := [] } ops
    (∀ t id sl, alookup t y.sched.pending = some (id, sl) →
      ∀ r, y.sched.prevLvl id sl.rungIndex < r → r ≤ y.lastOf t → y.st.isLabeled t r = true) ∧
    (∀ t id k p x, y.sched.mgr.SlotAt id k p ⟨some t, some (.val x)⟩ →
      ∀ r, y.sched.prevLvl id k < r → r ≤ y.sched.lvl id k → y.st.isLabeled t r = true) := by
  intro y
  have h0 := init_CInvS mode systems maxResourceAttr true s0 hinit
  have hall := allInv_run h0 ops hok hcon (allInv_init mode systems maxResourceAttr true s0 hinit mode)
  apply hall
  rw [(run_consts h0 ops hok).2]
  exact (init_fields hinit).2.2

/-! ### concrete systems -/

/-- the system constructed by `Sched.init`, with a searcher without data -/
def mkSys (mode : Mode) (systems : List (List (Nat × Nat))) (maxResourceAttr searcherAll : Bool) : SysS :=
  match Sched.init mode systems maxResourceAttr searcherAll with
  | .ok s => { sched := s, st := { mode := mode } }
  | .error _ => { sched := default, st := { mode := mode } }

theorem mkSys_CInvS (mode : Mode) (systems : List (List (Nat × Nat))) (a b : Bool)
    (hok : (Sched.init mode systems a b).toOption.isSome = true) : CInvS (mkSys mode systems a b) := by
  unfold mkSys
  cases h : Sched.init mode systems a b with
  | error e => rw [h] at hok; cases hok
  | ok s => exact init_CInvS mode systems a b s h

/-- the searcher raises on a call the scheduler makes -/
def searcherRaises (y : SysS) (op : Op) : Bool :=
  match y.sched.step op with
  | .ok (_, o) => (match applyActs y.st (o.calls.map trCall) with | .error _ => true | .ok _ => false)
  | .error _ => false

/-- the scheduler method raises -/
def schedRaises (y : SysS) (op : Op) : Bool :=
  match y.sched.step op with
  | .ok _ => false
  | .error _ => true

/-- two brackets, rung systems `[(4,1),(2,3)]` and `[(2,3)]`, `searcher_data = "all"` -/
def exAll : SysS := mkSys .min [[(4, 1), (2, 3)], [(2, 3)]] false true
/-- the same with `searcher_data = "rungs"` -/
def exRungs : SysS := mkSys .min [[(4, 1), (2, 3)], [(2, 3)]] false false
/-- one bracket with the rung system `[(2,1),(1,3)]`, `searcher_data = "rungs"` / `"all"` -/
def exSmall : SysS := mkSys .min [[(2, 1), (1, 3)]] false false
def exSmallAll : SysS := mkSys .min [[(2, 1), (1, 3)]] false true
/-- one bracket with the single rung `(1,3)`, `searcher_data = "all"` / `"rungs"` -/
def exOneAll : SysS := mkSys .min [[(1, 3)]] false true
def exOne : SysS := mkSys .min [[(1, 3)]] false false
/-- one bracket with the single rung `(1,1)` -/
def exUnit : SysS := mkSys .min [[(1, 1)]] false false

/-! ### the clauses of the contract are necessary -/

/-- **Counterexample (clause `suggest`: new trial ids).**  Trial 0 is started, reports its
milestone 1 and is paused; the `Tuner` then offers the id 0 again for a new trial: the scheduler
accepts it (trial 0 is not registered any more) and calls `register_pending(0, milestone=1)`,
which the searcher refuses: "already has observation, cannot be pending". -/
theorem fresh_id_counterexample :
    ¬ OpsOKS exSmall [.suggest 0 true, .result 0 1 (.val 1), .suggest 0 true] ∧
    OpsOKS exSmall [.suggest 0 true, .result 0 1 (.val 1)] ∧
    searcherRaises (runCS exSmall [.suggest 0 true, .result 0 1 (.val 1)]) (.suggest 0 true) = true := by
  decide +kernel

/-- **A NaN report at the milestone drops the pending evaluation** (no contract clause about
metric values is needed).  The new trial 0 (pending evaluation `(0, 1)`) reports `NaN` at its
milestone 1: the history is within the contract; the bracket records the slot as failed,
`(0, NaN)`, the trial leaves `_trial_to_pending_slot` (answer PAUSE); the searcher's `_update`
"rejects NaN or infinite values" — no observation — but drops the pending evaluation the result
replaces and marks the trial as failed: nothing is pending at the end, `failed_trials = [0]`.
(Before commit b827303 of /repo the pending evaluation `(0, 1)` stayed for ever; replayed on the
fixed code: same state as here.) -/
theorem nan_report_drops_pending :
    OpsOKS exUnit [.suggest 0 true, .result 0 1 .nan] ∧
    (runCS exUnit [.suggest 0 true]).st.pending = [(0, 1)] ∧
    (runCS exUnit [.suggest 0 true, .result 0 1 .nan]).st.pending = [] ∧
    (runCS exUnit [.suggest 0 true, .result 0 1 .nan]).sched.pending.map (·.1) = [] ∧
    (runCS exUnit [.suggest 0 true, .result 0 1 .nan]).st.observed = [] ∧
    (runCS exUnit [.suggest 0 true, .result 0 1 .nan]).st.failed = [0] ∧
    (runCS exUnit [.suggest 0 true, .result 0 1 .nan]).sched.mgr.brackets.map (fun b => b.rungs.map (·.slots)) =
      [[[⟨some 0, some .nan⟩]], [[⟨none, none⟩]]] := by
  decide +kernel

/-- **Counterexample (clause `result`: increasing levels).**  `searcher_data = "all"`: trial 0
(milestone 3) reports level 1 twice with different values; the second report overwrites the
observation — the searcher "receives multiple reports for the same resource", the observation
5 is not stable (`observed_once_sync`, third part). -/
theorem rereport_counterexample :
    ¬ OpsOKS exOneAll [.suggest 0 true, .result 0 1 (.val 5), .result 0 1 (.val 7)] ∧
    obsAt (runCS exOneAll [.suggest 0 true, .result 0 1 (.val 5)]).st 0 1 = some 5 ∧
    obsAt (runCS exOneAll [.suggest 0 true, .result 0 1 (.val 5), .result 0 1 (.val 7)]).st 0 1 = some 7 := by
  decide +kernel

/-- **Counterexample (clause `result`: not above the milestone).**  Trial 0 has milestone 3 and
reports level 4 without having reported level 3: `on_trial_result` raises the assertion
"Training script must not skip rung levels" (`calls_accepted_sync` fails). -/
theorem skip_level_counterexample :
    ¬ OpsOKS exOneAll [.suggest 0 true, .result 0 4 (.val 1)] ∧
    schedRaises (runCS exOneAll [.suggest 0 true]) (.result 0 4 (.val 1)) = true := by
  decide +kernel

/-- **Counterexample (clause `complete`).**  `searcher_data = "rungs"`, trial 0 has milestone 3.
(1) Its script ends after level 2 and the `Tuner` calls `on_trial_complete` with that result:
the searcher stores an observation at level 2, which is not a rung level
(`observed_levels_sync` fails), while the trial stays registered for its slot for ever, with its
pending evaluation `(0, 3)`.  (2) `on_trial_complete` with a level-3 result which was never
passed to `on_trial_result`: the pending evaluation of the running, started trial disappears
(`pending_exact_sync` fails) and the data contains a value no `on_trial_result` reported.
(3) The same with a NaN value: nothing is stored (the trial is marked failed), but the pending
evaluation of the running trial is dropped all the same. -/
theorem complete_counterexample :
    ¬ OpsOKS exOne [.suggest 0 true, .result 0 2 (.val 1), .complete 0 2 (.val 1)] ∧
    (runCS exOne [.suggest 0 true, .result 0 2 (.val 1), .complete 0 2 (.val 1)]).st.observed = [(0, [(2, 1)])] ∧
    (runCS exOne [.suggest 0 true, .result 0 2 (.val 1), .complete 0 2 (.val 1)]).st.pending = [(0, 3)] ∧
    (runCS exOne [.suggest 0 true, .result 0 2 (.val 1), .complete 0 2 (.val 1)]).sched.pending.map (·.1) = [0] ∧
    ¬ OpsOKS exOne [.suggest 0 true, .complete 0 3 (.val 1)] ∧
    (runCS exOne [.suggest 0 true, .complete 0 3 (.val 1)]).st.pending = [] ∧
    (runCS exOne [.suggest 0 true, .complete 0 3 (.val 1)]).st.observed = [(0, [(3, 1)])] ∧
    (runCS exOne [.suggest 0 true, .complete 0 3 (.val 1)]).sched.pending.map (·.1) = [0] ∧
    ¬ OpsOKS exOne [.suggest 0 true, .complete 0 3 .nan] ∧
    (runCS exOne [.suggest 0 true, .complete 0 3 .nan]).st.pending = [] ∧
    (runCS exOne [.suggest 0 true, .complete 0 3 .nan]).sched.pending.map (·.1) = [0] := by
  decide +kernel

/-! ### non-vacuity -/

example : CInvS exAll := mkSys_CInvS _ _ _ _ (by decide +kernel)
example : CInvS exRungs := mkSys_CInvS _ _ _ _ (by decide +kernel)
example : CInvS exSmall := mkSys_CInvS _ _ _ _ (by decide +kernel)
example : CInvS exOneAll := mkSys_CInvS _ _ _ _ (by decide +kernel)

/-- five trials are started (0–3 in the base rung of bracket 0, 4 in bracket 1), 0, 1, 3 report
their milestone 1, trial 2 fails: the rung is complete, trials 1 and 3 are promoted; the next
`_suggest` resumes trial 1 to milestone 3, which trains again from scratch (re-reports level 1),
reports 2 and 3; trial 4 reports 1, 2, 3; finally `on_trial_complete` for trial 1 -/
def histA : List Op :=
  [.suggest 0 true, .suggest 1 true, .suggest 2 true, .suggest 3 true, .suggest 4 true,
   .result 0 1 (.val 5), .result 1 1 (.val 3), .error 2, .result 3 1 (.val 4), .suggest 5 true,
   .result 1 1 (.val 3), .result 1 2 (.val 2), .result 4 1 (.val 1), .result 4 2 (.val 1),
   .result 4 3 (.val 1), .result 1 3 (.val 2), .complete 1 3 (.val 2)]

/-- the history is within the contract (also `ConsecRun`), for both policies.  Policy `all`: after
the five starts every trial has its milestone pending; after the tenth operation trial 1 is
running again (resumed) WITHOUT a pending evaluation, trial 4 still has `(4, 3)`; at the end
nothing is pending, the failed trial 2 has no observation, the resumed trial 1 has levels 1
(first run), 2, 3 (second run, the re-report of level 1 was not passed on), trial 4 levels 1–3. -/
example : OpsOKS exAll histA ∧ ConsecRun exAll histA ∧
    (runCS exAll (histA.take 5)).st.pending = [(0, 1), (1, 1), (2, 1), (3, 1), (4, 3)] ∧
    (runCS exAll (histA.take 10)).st.pending = [(4, 3)] ∧
    (runCS exAll (histA.take 10)).sched.pending.map (·.1) = [4, 1] ∧
    (runCS exAll histA).st.pending = [] ∧
    (runCS exAll histA).st.observed =
      [(0, [(1, 5)]), (1, [(1, 3), (2, 2), (3, 2)]), (3, [(1, 4)]), (4, [(1, 1), (2, 1), (3, 1)])] ∧
    (runCS exAll histA).st.failed = [2] := by decide +kernel

/-- policy `rungs`, same history: only milestone reports are in the data -/
example : OpsOKS exRungs histA ∧
    (runCS exRungs histA).st.observed = [(0, [(1, 5)]), (1, [(1, 3), (3, 2)]), (3, [(1, 4)]), (4, [(3, 1)])] ∧
    (runCS exRungs histA).st.pending = [] := by decide +kernel

/-- hypotheses of `selected_report_present_sync`: the report `(1, 2, 2)` of the resumed trial 1
(registered for rung 1 of bracket 0, `prev_level = 1 < 2`, policy `all`) -/
example : OpsOKS exAll (histA.take 11 ++ .result 1 2 (.val 2) :: histA.drop 12) ∧
    (alookup 1 (runCS exAll (histA.take 11)).sched.pending).map (fun v => (v.1, v.2.rungIndex, v.2.level)) = some (0, 1, 3) ∧
    (runCS exAll (histA.take 11)).sched.prevLvl 0 1 = 1 ∧
    (runCS exAll (histA.take 11)).sched.searcherAll = true := by decide +kernel

/-- NaN reports of a started trial, policy `all`, single rung `(1,3)`: NaN at level 1 (nothing
stored, `(0, 1)` is not pending: nothing dropped, trial marked failed), a finite value at level 2, NaN at the milestone 3
(the pending evaluation `(0, 3)` is dropped, no observation at 3) — replayed on the real code -/
example : OpsOKS exOneAll [.suggest 0 true, .result 0 1 .nan, .result 0 2 (.val 2), .result 0 3 .nan] ∧
    (runCS exOneAll [.suggest 0 true, .result 0 1 .nan, .result 0 2 (.val 2)]).st.pending = [(0, 3)] ∧
    (runCS exOneAll [.suggest 0 true, .result 0 1 .nan, .result 0 2 (.val 2), .result 0 3 .nan]).st.pending = [] ∧
    (runCS exOneAll [.suggest 0 true, .result 0 1 .nan, .result 0 2 (.val 2), .result 0 3 .nan]).st.observed =
      [(0, [(2, 2)])] ∧
    (runCS exOneAll [.suggest 0 true, .result 0 1 .nan, .result 0 2 (.val 2), .result 0 3 .nan]).sched.pending.map (·.1)
      = [] ∧
    (runCS exOneAll [.suggest 0 true, .result 0 1 .nan]).st.failed = [0] ∧
    (runCS exOneAll [.suggest 0 true, .result 0 1 .nan, .result 0 2 (.val 2), .result 0 3 .nan]).st.failed = [0] := by
  decide +kernel

/-- NaN reports of a resumed trial (no pending evaluation): trial 1 reports NaN at level 2 and at
its milestone 3 — the searcher stores nothing (and has nothing to drop), the bracket marks the
slot as failed, nothing is pending for trial 1, its observation of the first run stays -/
example : OpsOKS exAll (histA.take 11 ++ [.result 1 2 .nan, .result 1 3 .nan]) ∧
    (runCS exAll (histA.take 11 ++ [.result 1 2 .nan, .result 1 3 .nan])).st.pending = [(4, 3)] ∧
    (runCS exAll (histA.take 11 ++ [.result 1 2 .nan, .result 1 3 .nan])).st.observed =
      [(0, [(1, 5)]), (1, [(1, 3)]), (3, [(1, 4)])] ∧
    (runCS exAll (histA.take 11 ++ [.result 1 2 .nan, .result 1 3 .nan])).sched.pending.map (·.1) = [4] := by
  decide +kernel

/-- hypotheses of `observed_levels_sync` / `observed_once_from_init_sync`: policy `rungs`, no data at
the start -/
example : exRungs.sched.searcherAll = false ∧ exRungs.st.observed = [] ∧ exAll.st.observed = [] := by
  decide +kernel

/-- hypotheses of `observed_levels_all_present_partial` on the same history -/
example : ∃ s0, Sched.init .min [[(4, 1), (2, 3)], [(2, 3)]] false true = .ok s0 ∧
    OpsOKS { sched := s0, st := { mode := .min }, last := [] } histA ∧
    ConsecRun { sched := s0, st := { mode := .min }, last := [] } histA :=
  ⟨_, rfl, by decide +kernel, by decide +kernel⟩

/-- hypotheses of `no_pending_after_end_sync`: the milestone report of trial 0 is answered PAUSE;
before it trial 0 has the pending evaluation `(0, 1)`, afterwards none; the failure of trial 2
removes `(2, 1)` -/
example : ((runCS exAll (histA.take 5)).sched.onResult 0 1 (.val 5)).toOption.map (·.2.1) = some Decision.pause ∧
    OpOKS (runCS exAll (histA.take 5)) (.result 0 1 (.val 5)) ∧
    (runCS exAll (histA.take 6)).st.pending = [(1, 1), (2, 1), (3, 1), (4, 3)] ∧
    (runCS exAll (histA.take 8)).st.pending = [(3, 1), (4, 3)] := by decide +kernel

/-- **A trial started in a promoted empty slot.**  Rung system `[(2,1),(1,3)]`, policy `all`: the
searcher has no configuration for the two base slots, both are reported as failed `(None, NaN)`;
the rung is complete and `get_top_list` promotes an empty entry; the next `_suggest` STARTS the
new trial 2 in rung 1 (milestone 3, `prev_level` 1): pending `(2, 3)`.  It trains from scratch
and reports levels 1, 2, 3 — within the contract and `ConsecRun` — but the report at level
1 ≤ `prev_level` is withheld from the searcher: the data has levels 2 and 3 only. -/
example : OpsOKS exSmallAll [.suggest 0 false, .suggest 1 false, .suggest 2 true, .result 2 1 (.val 9),
      .result 2 2 (.val 8), .result 2 3 (.val 7)] ∧
    ConsecRun exSmallAll [.suggest 0 false, .suggest 1 false, .suggest 2 true, .result 2 1 (.val 9),
      .result 2 2 (.val 8), .result 2 3 (.val 7)] ∧
    (runCS exSmallAll [.suggest 0 false, .suggest 1 false, .suggest 2 true]).st.pending = [(2, 3)] ∧
    (runCS exSmallAll [.suggest 0 false, .suggest 1 false, .suggest 2 true]).sched.pending.map
      (fun v => (v.1, v.2.2.rungIndex)) = [(2, 1)] ∧
    (runCS exSmallAll [.suggest 0 false, .suggest 1 false, .suggest 2 true, .result 2 1 (.val 9),
      .result 2 2 (.val 8), .result 2 3 (.val 7)]).st.observed = [(2, [(2, 8), (3, 7)])] := by
  decide +kernel

end SyneTune.Sync.C14S
