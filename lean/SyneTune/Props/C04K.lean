import SyneTune.Lemmas.HBContractK5
/-
Scheduler contract K for promotion-type asynchronous Hyperband (ASHA, PASHA, cost-aware, RUSH), used by the
loop theorems of C01 (`resume_only_paused`) and by C20: over EVERY history of scheduler
operations, a `resume(t)` is only issued for a trial the scheduler itself has recorded as
not running (its last decision was PAUSE or STOP and it has not been resumed since), and
`_promote_trial`'s assertions are unreachable.
-/
namespace SyneTune.C04K
open SyneTune

/-- the public operations of `HyperbandScheduler` -/
inductive SOp
  | suggest (newTid bracket : Nat) (hint : Option Nat)
  | result (tid r : Nat) (v : Rat) (hint : Bool) (cost eps : Rat)
  | remove (tid : Nat)
  | error (tid : Nat)
  | complete (tid r : Nat) (v : Rat)

/-- state after an operation; an operation the model rejects leaves the state unchanged -/
def stepS (s : Sched) : SOp → Sched
  | .suggest n b h => match s.suggest n b h with | .ok res => res.1 | .error _ => s
  | .result t r v h c e => match s.onResult t r v h c e with | .ok res => res.1 | .error _ => s
  | .remove t => s.onRemove t
  | .error t => (s.onError t).1
  | .complete t r v => match s.onComplete t r v with | .ok res => res.1 | .error _ => s

def runS (s : Sched) (ops : List SOp) : Sched := ops.foldl stepS s

theorem step_KInv (s : Sched) (op : SOp) (h : KInv s) : KInv (stepS s op) := by
  cases op with
  | suggest n b hint =>
    simp only [stepS]
    cases hs : s.suggest n b hint with
    | error e => exact h
    | ok res => obtain ⟨s', sg, calls, fr⟩ := res; exact (suggest_KInv s s' n b hint sg calls fr h hs).1
  | result t r v hint c e =>
    simp only [stepS]
    cases hs : s.onResult t r v hint c e with
    | error e => exact h
    | ok res => obtain ⟨s', out⟩ := res; exact onResult_KInv s s' t r v hint c e out h hs
  | remove t => exact cleanup_KInv s t .pause (by simp) h
  | error t => exact cleanup_KInv s t .stop (by simp) h
  | complete t r v =>
    simp only [stepS]
    unfold Sched.onComplete
    cases alookup t s.active with
    | none => exact h
    | some rec => exact cleanup_KInv s t .stop (by simp) h

/-- **`KInv` holds after every history.** -/
theorem kinv_all_histories (s : Sched) (h : KInv s) (ops : List SOp) : KInv (runS s ops) := by
  induction ops generalizing s with
  | nil => exact h
  | cons op ops ih => exact ih (stepS s op) (step_KInv s op h)

/-- **Contract K.**  After any history of operations starting from a state satisfying the
invariant (e.g. the constructor's), if `_suggest` answers `resume(t, from, to)` then the
scheduler has `t` recorded with a decision other than CONTINUE — it was paused (or stopped)
by this scheduler and has not been resumed since; and it never answers `start` with an id
it already knows. -/
theorem resume_only_not_running (s : Sched) (h : KInv s) (ops : List SOp) (newTid bracket : Nat)
    (hint : Option Nat) (s' : Sched) (sg : Suggestion) (calls : List SCall) (fr : Bool)
    (hs : (runS s ops).suggest newTid bracket hint = .ok (s', sg, calls, fr)) :
    (∀ t f m, sg = .resume t f m → NotRunning (runS s ops) t) ∧
    (∀ t b m, sg = .start t b m → alookup t (runS s ops).active = none) := by
  have hk := kinv_all_histories s h ops
  obtain ⟨_, h2, h3⟩ := suggest_KInv _ s' newTid bracket hint sg calls fr hk hs
  exact ⟨h2, fun t b m e => by obtain ⟨e1, e2⟩ := h3 t b m e; rw [e1]; exact e2⟩

/-- the freshly constructed scheduler satisfies the invariant -/
theorem init_KInv (ty : HBType) (hty : ty.pauseResume = true) (mode : Mode) (maxT : Nat) (levels : List Nat)
    (brackets : Nat) (perBracket : Bool) (numThr : Nat) (sd : SearcherData) (my mra hc : Bool) :
    KInv { mgr := Manager.init ty mode maxT levels brackets perBracket numThr, searcherData := sd, hasCost := hc,
           pendingMyopic := my, maxResourceAttr := mra } := by
  have hsys : ∀ sys ∈ (Manager.init ty mode maxT levels brackets perBracket numThr).systems,
      unpromotedOf sys.rungs = [] ∧ sys.running = [] := by
    intro sys hsys
    simp only [Manager.init, List.mem_map, List.mem_range] at hsys
    obtain ⟨k, _, rfl⟩ := hsys
    have hempty : ∀ (ls : List Nat) (qs : List Rat), unpromotedOf (mkRungSys ls qs maxT).rungs = [] := by
      intro ls qs
      have : ∀ rg ∈ (mkRungSys ls qs maxT).rungs, rg.unpromoted = [] := by
        intro rg hrg
        have hok := C03_init_data ls qs maxT rg hrg
        simp [Rung.unpromoted, hok]
      unfold unpromotedOf
      generalize (mkRungSys ls qs maxT).rungs = rs at this
      induction rs with
      | nil => rfl
      | cons a as ih => simp [List.flatMap_cons, this a (by simp), ih (fun x hx => this x (List.mem_cons_of_mem _ hx))]
    have hk := hempty (levels.drop k) ((promoteQuantiles levels maxT).drop k)
    unfold mkSys
    split
    · exact ⟨by simpa [RungSys.initPasha] using hk, by simp [RungSys.initPasha, mkRungSys]⟩
    · exact ⟨by simpa using hk, by simp [mkRungSys]⟩
  refine ⟨hty, ?_, ?_, ?_⟩
  · intro t ht
    exfalso
    simp only [unpromotedSys, List.mem_flatMap] at ht
    obtain ⟨sys, h1, h2⟩ := ht
    rw [(hsys sys h1).1] at h2; cases h2
  · have : unpromotedSys (Manager.init ty mode maxT levels brackets perBracket numThr).systems = [] := by
      unfold unpromotedSys
      generalize (Manager.init ty mode maxT levels brackets perBracket numThr).systems = ss at hsys
      induction ss with
      | nil => rfl
      | cons a as ih =>
        simp [List.flatMap_cons, (hsys a (by simp)).1, ih (fun x hx => hsys x (List.mem_cons_of_mem _ hx))]
    simp only [this]; exact List.nodup_nil
  · intro sys h1 x hx
    rw [(hsys sys h1).2] at hx; cases hx

/-- non-vacuity: a concrete ASHA scheduler -/
example : KInv { mgr := Manager.init .promotion .min 9 [1, 3] 1 false } :=
  init_KInv .promotion rfl .min 9 [1, 3] 1 false 0 .rungs false false false

end SyneTune.C04K
