import SyneTune.Lemmas.SearcherBasic
import SyneTune.Lemmas.RandomRestrictClone
/-
C06 for the random searcher WITH `restrict_configurations` — suggestions are valid, typed
configurations of the caller's list; initial points first; no repeats; what "nothing left"
means; the caller's list object is never changed.
Property theorems only; helper lemmas are in `Lemmas/RandomRestrict{,Run,Clone}.lean`.
Model: `Model/RandomRestrict.lean` (extends `Model/RandomSearcher.lean`).

Conventions: `construct imm init (some l)` is the constructor with the imputed initial
configurations `init` (`C06.impute`) and the caller's list `l`; it returns the searcher AND
the caller's list object (`World`).  The draws `random_state.randint(0, len(list))` are an
arbitrary tape `di` of positions (a value that is not a position of the list contradicts
numpy's contract and is the model error `tape`); `dc` is the tape of the unrestricted path
(never read by a searcher with a list).  All theorems quantify over all histories of
suggest / pending / failed / result events.
-/
namespace SyneTune.C06R
open SyneTune SyneTune.Srch

/-- "the configuration is in the list" as the code decides it (`matchstr_to_pos.get(...)`):
some list entry has the same match string -/
theorem in_list_iff (mk : MK) (l : List Config) (mss : List String) (hm : mapMk mk l = .ok mss) (c : Config) :
    inMss mk mss c = true ↔ ∃ r ∈ l, ∃ m, mk r = .ok m ∧ mk c = .ok m := by
  obtain ⟨hl, hsp⟩ := mapMk_spec mk l mss hm
  unfold inMss
  cases hc : mk c with
  | error e =>
    simp only [Bool.false_eq_true, false_iff]
    rintro ⟨r, _, m, _, h⟩; cases h
  | ok m =>
    simp only [decide_eq_true_eq]
    constructor
    · intro hin
      obtain ⟨j, hj⟩ := List.getElem?_of_mem hin
      have hjl : j < l.length := by
        rcases Nat.lt_or_ge j mss.length with hh | hh
        · omega
        · rw [List.getElem?_eq_none hh] at hj; cases hj
      obtain ⟨m', a, b⟩ := hsp j l[j] (List.getElem?_eq_getElem hjl)
      rw [hj] at b; injection b with b; subst b
      exact ⟨l[j], List.getElem_mem hjl, m, a, rfl⟩
    · rintro ⟨r, hr, m', a, b⟩
      injection b with b; subst b
      obtain ⟨j, hj⟩ := List.getElem?_of_mem hr
      obtain ⟨m'', a', b'⟩ := hsp j r hj
      rw [a] at a'; injection a' with a'; subst a'
      exact List.mem_of_getElem? b'

/-! ### 1. suggestions come from the list; initial configurations first -/

/-- **The constructor** (`_filter_points_to_evaluate`): it rejects an empty list; the
initial configurations that are in the list stay, in their order, the others are dropped;
the searcher's list is a sub-list of the caller's (the caller's list itself if duplicates
are allowed); `_rc_returned_pos` starts empty; the caller's list object is not changed and
is not the searcher's list object. -/
theorem constructor (imm : RImm) (init l : List Config) (w : World)
    (h : construct imm init (some l) = .ok w) :
    l ≠ [] ∧ w.caller = l ∧ w.shared = false ∧ w.s.pos = [] ∧
    ∃ mss rc, mapMk imm.mkf l = .ok mss ∧ w.s.rc = some rc ∧ rc.Sublist l ∧
      w.s.base = RState.init (init.filter (inMss imm.mkf mss)) ∧
      (imm.allowDup = true → rc = l) := by
  obtain ⟨a, b, c, d, mss, rc, e, f, g, i, j, _⟩ := construct_spec imm init l w h
  exact ⟨a, b, c, d, mss, rc, e, f, g, i, j⟩

/-- **Initial configurations first, in order; everything else from the list.**  For every
history from the freshly constructed searcher: the first answers of `get_config` are
exactly the initial configurations that are in the list (`kept`), in order; every later
answer is a member of the caller's list; hence every answer is a member of the list or an
initial configuration with the match string of a list entry. -/
theorem suggestions_from_list (imm : RImm) (dc : Nat → Config) (di : Nat → Nat) (init l : List Config)
    (w : World) (hc : construct imm init (some l) = .ok w) (ops : List ROp) (s' : XState)
    (outs : List (Option Config)) (h : XState.run imm dc di w.s ops = .ok (s', outs)) :
    ∃ mss, mapMk imm.mkf l = .ok mss ∧
      outs.take (init.filter (inMss imm.mkf mss)).length =
        ((init.filter (inMss imm.mkf mss)).map some).take outs.length ∧
      (∀ (j : Nat) (c : Config), (init.filter (inMss imm.mkf mss)).length ≤ j → outs[j]? = some (some c) → c ∈ l) ∧
      (∀ c, some c ∈ outs → c ∈ l ∨ (c ∈ init ∧ ∃ r ∈ l, ∃ m, imm.mkf r = .ok m ∧ imm.mkf c = .ok m)) := by
  obtain ⟨_, _, _, hpos, mss, rc, hm, hrc, hsub, hbase, _, _⟩ := construct_spec imm init l w hc
  obtain ⟨_, _, htake, hlater⟩ := xrun_members imm dc di ops w.s s' rc outs h hrc hpos
  rw [hbase] at htake hlater
  simp only [RState.init] at htake hlater
  refine ⟨mss, hm, htake, fun j c hj ho => hsub.subset (hlater j c hj ho), ?_⟩
  intro c hc'
  obtain ⟨j, hj⟩ := List.getElem?_of_mem hc'
  rcases Nat.lt_or_ge j (init.filter (inMss imm.mkf mss)).length with hlt | hge
  · right
    have hjo : j < outs.length := by
      rcases Nat.lt_or_ge j outs.length with hh | hh
      · exact hh
      · rw [List.getElem?_eq_none hh] at hj; cases hj
    have e1 : (outs.take (init.filter (inMss imm.mkf mss)).length)[j]? = some (some c) := by
      rw [List.getElem?_take_of_lt hlt]; exact hj
    rw [htake, List.getElem?_take_of_lt hjo, List.getElem?_map] at e1
    cases hk : (init.filter (inMss imm.mkf mss))[j]? with
    | none => rw [hk] at e1; cases e1
    | some c1 =>
      rw [hk] at e1
      simp only [Option.map_some] at e1
      injection e1 with e1; injection e1 with e1; subst e1
      have hmem := List.mem_of_getElem? hk
      rw [List.mem_filter] at hmem
      exact ⟨hmem.1, (in_list_iff imm.mkf l mss hm c1).mp hmem.2⟩
  · left; exact hsub.subset (hlater j c hge hj)

/-- **Valid, typed suggestions.**  If every configuration of the caller's list gives each
hyperparameter a member of its domain, every configuration the searcher returns — initial
or drawn, after any history — is turned by the scheduler into a configuration with all
keys, typed member values and the space's constants (`C06.keys_types_members`). -/
theorem keys_types_members_restricted (sp : Space) (hwf : Space.wfb sp = true) (imm : RImm)
    (hints : List (String × Nat)) (p2e : Option (List Config)) (init : List Config)
    (hinit : imputePoints sp hints p2e = .ok init) (l : List Config)
    (hl : ∀ c ∈ l, ValidOn (hpEntries sp) c) (w : World) (hc : construct imm init (some l) = .ok w)
    (dc : Nat → Config) (di : Nat → Nat) (ops : List ROp) (s' : XState) (outs : List (Option Config))
    (h : XState.run imm dc di w.s ops = .ok (s', outs)) :
    ∀ c, some c ∈ outs → ∃ full, schedulerConfig sp c = .ok full ∧ FullValid sp c full := by
  intro c hc'
  obtain ⟨_, _, _, _, hall⟩ := suggestions_from_list imm dc di init l w hc ops s' outs h
  have hinitv : ∀ c ∈ init, HpValid (hpEntries sp) c :=
    (imputePoints_spec sp hwf hints p2e init hinit).choose_spec.2.2.2.2.2.2.2
  rcases hall c hc' with hin | ⟨hin, _⟩
  · exact schedulerConfig_valid sp hwf c (hl c hin)
  · exact schedulerConfig_valid sp hwf c (hpValid_validOn _ c (hp_keys_nodup sp hwf) (hinitv c hin))

/-- `_rc_returned_pos` is empty between any two calls, and the searcher's list stays a
sub-list of the caller's (unchanged if duplicates are allowed) -/
theorem returned_pos_empty_between_calls (imm : RImm) (dc : Nat → Config) (di : Nat → Nat) (init l : List Config)
    (w : World) (hc : construct imm init (some l) = .ok w) (ops : List ROp) (s' : XState)
    (outs : List (Option Config)) (h : XState.run imm dc di w.s ops = .ok (s', outs)) :
    s'.pos = [] ∧ ∃ l', s'.rc = some l' ∧ l'.Sublist l ∧ (imm.allowDup = true → l' = l) := by
  obtain ⟨_, _, _, hpos, mss, rc, _, hrc, hsub, _, hT, _⟩ := construct_spec imm init l w hc
  obtain ⟨⟨l', a, b, c⟩, d, _, _⟩ := xrun_members imm dc di ops w.s s' rc outs h hrc hpos
  exact ⟨d, l', a, b.trans hsub, fun hd => by rw [c hd, hT hd]⟩

/-! ### 2. no repeats; "nothing left" -/

/-- **No repeats (`allow_duplicates = False`)** — for every caller's list (duplicates in
it or not), duplicate-free initial configurations (`C06.impute`), every history and every
tape: (1) no two returned configurations are equal; (2) every returned configuration's
match string is in the exclusion set afterwards; (3) a configuration returned after the
initial ones has a match string different from that of EVERY configuration returned before. -/
theorem no_repeat (imm : RImm) (hnd : imm.allowDup = false) (dc : Nat → Config) (di : Nat → Nat)
    (init l : List Config) (hinit : init.Nodup) (w : World) (hc : construct imm init (some l) = .ok w)
    (ops : List ROp) (s' : XState) (outs : List (Option Config))
    (h : XState.run imm dc di w.s ops = .ok (s', outs)) :
    (outs.filterMap id).Nodup ∧
    (∀ c ∈ outs.filterMap id, ∃ m, imm.mkf c = .ok m ∧ m ∈ s'.base.excl) ∧
    (∀ (j : Nat) (c : Config), w.s.base.p2e.length ≤ j → (outs.filterMap id)[j]? = some c →
      ∀ (i : Nat) (c' : Config), i < j → (outs.filterMap id)[i]? = some c' → imm.mkf c' ≠ imm.mkf c) := by
  obtain ⟨_, _, _, hpos, mss, rc, _, hrc, _, hbase, _, _⟩ := construct_spec imm init l w hc
  have hp2e : w.s.base.p2e.Nodup := by
    rw [hbase]; exact hinit.sublist List.filter_sublist
  have := xrun_norepeat imm hnd dc di ops w.s s' rc [] outs h hrc hpos
    (by intro c hc; cases hc) (by intro c _ hc; cases hc) hp2e (by simp)
  simp only [List.nil_append, List.length_nil, Nat.zero_add] at this
  exact ⟨this.2.1, this.1, this.2.2⟩

/-- **Accounting of the list (`allow_duplicates = False`).**  From any state without
initial configurations left, over any history: the configurations suggested together with
the list that remains are a rearrangement of the list before — every suggestion removes
exactly itself from the list, nothing else ever leaves it. -/
theorem list_accounting (imm : RImm) (hnd : imm.allowDup = false) (dc : Nat → Config) (di : Nat → Nat)
    (s s' : XState) (l : List Config) (ops : List ROp) (outs : List (Option Config))
    (h : XState.run imm dc di s ops = .ok (s', outs)) (hrc : s.rc = some l) (hpos : s.pos = [])
    (hp : s.base.p2e = []) :
    ∃ l', s'.rc = some l' ∧ (outs.filterMap id ++ l').Perm l :=
  xrun_accounting imm hnd dc di ops s s' l outs h hrc hpos hp

/-- **What `None` means (any list, either setting of `allow_duplicates`).**  `get_config`
of a searcher with list `rc` answers `None` only when no initial configuration is left and
either the list is empty (no draw is made) or each of the `MAX_RETRIES` draws hit a list
entry whose match string is excluded; the state is unchanged apart from the generator.
(The full statement "`None` ⇒ every list entry is excluded" is false of the code:
`none_only_if_used_up_counterexample`.) -/
theorem none_restricted_partial (imm : RImm) (s s' : XState) (rc : List Config) (dc : Nat → Config)
    (di : Nat → Nat) (hrc : s.rc = some rc) (hpos : s.pos = [])
    (h : s.getConfig imm dc di = .ok (s', none)) :
    s.base.p2e = [] ∧ s' = s.advance (s'.base.rng - s.base.rng) ∧
    ((rc = [] ∧ s'.base.rng = s.base.rng) ∨
     (rc ≠ [] ∧ s'.base.rng = s.base.rng + imm.maxRetries ∧
       ∀ i, i < imm.maxRetries → ∃ c m, rc[di i]? = some c ∧ imm.mkf c = .ok m ∧ m ∈ s.base.excl)) := by
  obtain ⟨hpos1, hcf, hcase⟩ := xget_cases imm s s' rc dc di none hrc hpos h
  rcases hcase with ⟨c, rest, _, ho, _⟩ | ⟨hp, hp1, hcase⟩
  · cases ho
  · rcases hcase with ⟨_, hex, hrc1, hwhy⟩ | ⟨c, m, p, n, ho, _⟩
    · refine ⟨hp, ?_, hwhy⟩
      have hrng : s.base.rng ≤ s'.base.rng := by
        rcases hwhy with ⟨_, e⟩ | ⟨_, e, _⟩ <;> omega
      obtain ⟨b, r, ps⟩ := s
      obtain ⟨b', r', ps'⟩ := s'
      obtain ⟨p2e, excl, cf, rng⟩ := b
      obtain ⟨p2e', excl', cf', rng'⟩ := b'
      simp only at hp hp1 hcf hex hrc hrc1 hpos hpos1 hrng
      subst hp; subst hp1; subst hcf; subst hex; subst hpos; subst hpos1
      rw [hrc1, ← hrc]
      simp only [XState.advance]
      congr 2; omega
    · cases ho

/-- **… and `None` is answered whenever the list is used up relative to the exclusion
list**: no initial configuration left and every entry of the list excluded (in particular:
the list is empty) — whatever positions are drawn. -/
theorem none_when_all_excluded (imm : RImm) (s : XState) (rc : List Config) (dc : Nat → Config) (di : Nat → Nat)
    (hrc : s.rc = some rc) (hp : s.base.p2e = [])
    (hall : ∀ c ∈ rc, ∃ m, imm.mkf c = .ok m ∧ m ∈ s.base.excl) (hdi : ∀ i, rc ≠ [] → di i < rc.length) :
    ∃ n, s.getConfig imm dc di = .ok (s.advance n, none) := by
  unfold XState.getConfig XState.drawConfig XState.drawRestricted
  simp only [hp, hrc]
  by_cases he : rc.isEmpty = true
  · simp only [he, if_true, XState.finish]
    exact ⟨0, by simp [XState.advance]⟩
  · have hne : rc ≠ [] := by intro hc; subst hc; simp at he
    simp only [he]
    simp only [Bool.false_eq_true, if_false]
    rw [restrictLoop_all_excluded imm.mkf s.base.excl rc di hall (fun i => hdi i hne) imm.maxRetries 0]
    exact ⟨0 + imm.maxRetries, rfl⟩

def exMk : MK := fun c => match cget "x" c with
  | some (.int 0) => .ok "0"
  | some (.int 1) => .ok "1"
  | some (.int 2) => .ok "2"
  | _ => .error (.keyError "x")

def cfg (i : Int) : Config := [("x", .int i)]

def exImm : RImm := { mkf := exMk, allowDup := false, maxRetries := 100, size := some 3, debugLog := false }
def exImmDup : RImm := { exImm with allowDup := true }

/-- **`None` before the list is used up.**  The caller lists `x=0` twice and `x=1` once;
`x=0` has been suggested (its second copy stays in the list, excluded); `MAX_RETRIES = 100`
draws that all hit that copy: `get_config` answers `None` although `x=1` was never
suggested.  The state is reached from the constructor by one `get_config` (second part).
Same loop bound as `C06.none_only_if_exhausted_counterexample` (F8); on the real code the
monitor reports it as `c06:random-none-before-exhaustion`. -/
theorem none_only_if_used_up_counterexample :
    ¬ (∀ (imm : RImm) (s s' : XState) (rc : List Config) (dc : Nat → Config) (di : Nat → Nat),
        s.rc = some rc → s.pos = [] → s.getConfig imm dc di = .ok (s', none) →
        ∀ c ∈ rc, ∃ m, imm.mkf c = .ok m ∧ m ∈ s.base.excl) ∧
    ((construct exImm [] (some [cfg 0, cfg 0, cfg 1])).toOption.bind fun w =>
        (XState.run exImm (fun _ => []) (fun _ => 0) w.s [.get]).toOption) =
      some ({ base := { p2e := [], excl := ["0"], cfgFor := [], rng := 1 }, rc := some [cfg 0, cfg 1], pos := [] },
            [some (cfg 0)]) := by
  refine ⟨?_, by decide +kernel⟩
  intro hall
  let s : XState := { base := { p2e := [], excl := ["0"], cfgFor := [], rng := 1 }, rc := some [cfg 0, cfg 1], pos := [] }
  obtain ⟨m, hm, hin⟩ := hall exImm s (s.advance 100) [cfg 0, cfg 1] (fun _ => []) (fun _ => 0) rfl rfl
    (by decide +kernel) (cfg 1) (by simp)
  have h1 : exImm.mkf (cfg 1) = .ok "1" := by decide +kernel
  rw [h1] at hm
  injection hm with hm; subst hm
  revert hin
  decide +kernel

/-- **`None` exactly when the list is used up** — full statement for a caller's list
without duplicates (pairwise different match strings) and `allow_duplicates = False`.
After ANY history from the constructor the state is `Clean` (no remaining entry excluded,
none equal to a pending initial configuration), and then a `get_config`: answers `None`
iff no initial configuration and no list entry is left; never retries (at most one draw);
and leaves a `Clean` state. -/
theorem none_iff_list_used_up (imm : RImm) (hnd : imm.allowDup = false) (hmr : 0 < imm.maxRetries)
    (dc : Nat → Config) (di : Nat → Nat) (init l : List Config) (mss : List String)
    (hm : mapMk imm.mkf l = .ok mss) (hn : mss.Nodup) (w : World) (hc : construct imm init (some l) = .ok w)
    (ops : List ROp) (s : XState) (outs : List (Option Config))
    (h : XState.run imm dc di w.s ops = .ok (s, outs)) :
    ∃ rc, XState.Clean imm s rc ∧
      ∀ (dc' : Nat → Config) (di' : Nat → Nat) (s' : XState) (o : Option Config),
        s.getConfig imm dc' di' = .ok (s', o) →
        (o = none ↔ s.base.p2e = [] ∧ rc = []) ∧ s'.base.rng ≤ s.base.rng + 1 := by
  obtain ⟨rc0, hc0⟩ := construct_clean imm hnd init l w hc mss hm hn
  obtain ⟨rc, hcl⟩ := xrun_clean imm hnd hmr dc di ops w.s s rc0 outs h hc0
  refine ⟨rc, hcl, ?_⟩
  intro dc' di' s' o hg
  obtain ⟨a, b, _⟩ := xget_clean imm hnd hmr s s' rc dc' di' o hcl hg
  exact ⟨a, b⟩

/-! ### 3. the list object of the caller -/

/-- **The caller's list is never changed** (code after the fix 923cd41).  The constructor
returns the searcher and the caller's list object; over every history the content of that
object after EVERY operation (`cl`) and at the end is what the caller passed, and the
outputs are those of the searcher alone. -/
theorem caller_list_unchanged (imm : RImm) (dc : Nat → Config) (di : Nat → Nat) (init l : List Config)
    (w : World) (hc : construct imm init (some l) = .ok w) (ops : List ROp) (w' : World)
    (outs : List (Option Config)) (cl : List (List Config))
    (h : World.run imm dc di w ops = .ok (w', outs, cl)) :
    w.caller = l ∧ w'.caller = l ∧ (∀ x ∈ cl, x = l) ∧ cl.length = ops.length ∧
    XState.run imm dc di w.s ops = .ok (w'.s, outs) := by
  obtain ⟨_, hcal, hsh, _⟩ := construct_spec imm init l w hc
  obtain ⟨a, _, c, d, e⟩ := wrun_unshared imm dc di ops w w' outs cl h hsh
  rw [hcal] at a c
  exact ⟨hcal, a, c, d, e⟩

/-- **The behaviour before the fix 923cd41 (F26)** on the model: the old constructor keeps
the caller's list object when no initial configuration has to be removed from it; the first
drawn suggestion is then popped off the caller's list.  With the fixed constructor the same
history leaves it alone.  On the real code the monitor reports the former as
`c06:restrict-configurations-caller-list-mutated`. -/
theorem caller_list_mutated_counterexample :
    ((constructOld exImm [] (some [cfg 0, cfg 1, cfg 2])).toOption.bind fun w =>
        ((World.run exImm (fun _ => []) (fun _ => 1) w [.get]).toOption.map fun r => (r.2.1, r.1.caller))) =
      some ([some (cfg 1)], [cfg 0, cfg 2]) ∧
    ((construct exImm [] (some [cfg 0, cfg 1, cfg 2])).toOption.bind fun w =>
        ((World.run exImm (fun _ => []) (fun _ => 1) w [.get]).toOption.map fun r => (r.2.1, r.1.caller))) =
      some ([some (cfg 1)], [cfg 0, cfg 1, cfg 2]) := by
  refine ⟨by decide +kernel, by decide +kernel⟩

/-! ### the model without a list is the model of `C06` -/

/-- without `restrict_configurations` every history gives exactly the outputs (and errors)
of the unrestricted model `RState.run` the theorems of `C06` are about -/
theorem unrestricted_agrees (imm : RImm) (dc : Nat → Config) (di : Nat → Nat) (init : List Config)
    (ops : List ROp) :
    (construct imm init none).map (fun w => w.s) = .ok (XState.ofBase (RState.init init)) ∧
    XState.run imm dc di (XState.ofBase (RState.init init)) ops =
      liftBase (RState.run imm dc (RState.init init) ops) :=
  ⟨rfl, xrun_unrestricted imm dc di ops (RState.init init)⟩

/-! ### 5. non-vacuity: concrete histories meeting the hypotheses -/

/-- the constructor: of the initial configurations `x=2, x=0` only `x=0` is in the list
`[x=0, x=1, x=0]`; its LAST copy is removed from the searcher's list; the caller's list is
left alone (hypotheses of `constructor`, `suggestions_from_list`) -/
example :
    construct exImm [cfg 2, cfg 0] (some [cfg 0, cfg 1, cfg 0]) =
      .ok { s := { base := RState.init [cfg 0], rc := some [cfg 0, cfg 1], pos := [] },
            caller := [cfg 0, cfg 1, cfg 0], shared := false } := by decide +kernel

/-- an empty list is the constructor's assertion -/
example : construct exImm [] (some []) = .error (.assertion "len(restrict_configurations) > 0") := by
  decide +kernel

/-- a history with a pending and a failed trial, a retry (the first draw hits the excluded
copy of `x=0`) and exhaustion: initial `x=0`, then `x=1`, then `None` for ever, the
remaining list `[x=0]` being excluded (hypotheses of `no_repeat`, `none_restricted_partial`,
`none_when_all_excluded`, `caller_list_unchanged`) -/
def exHistory : Option (World × List (Option Config) × List (List Config)) :=
  (construct exImm [cfg 2, cfg 0] (some [cfg 0, cfg 1, cfg 0])).toOption.bind fun w =>
    (World.run exImm (fun _ => []) (fun i => if i = 1 then 1 else 0) w
      [.get, .pending 0 (some (cfg 0)), .get, .failed 0, .get, .result 1, .get]).toOption

example :
    exHistory.map (fun r => (r.1.s.rc, r.1.s.base.rng)) = some (some [cfg 0], 202) ∧
    exHistory.map (fun r => r.2.1) = some [some (cfg 0), some (cfg 1), none, none] ∧
    exHistory.map (fun r => r.1.caller) = some [cfg 0, cfg 1, cfg 0] := by
  refine ⟨by decide +kernel, by decide +kernel, by decide +kernel⟩

/-- a duplicate-free list driven past exhaustion (hypotheses of `none_iff_list_used_up`,
`list_accounting`): one draw per suggestion, the remainder ends as `[]` (not `None`) -/
def exHistory2 : Option (XState × List (Option Config)) :=
  (construct exImm [cfg 1] (some [cfg 2, cfg 0, cfg 1])).toOption.bind fun w =>
    (XState.run exImm (fun _ => []) (fun i => if i = 0 then 1 else 0) w.s
      [.get, .get, .pending 1 none, .get, .get, .get]).toOption

example :
    mapMk exMk [cfg 2, cfg 0, cfg 1] = .ok ["2", "0", "1"] ∧
    exHistory2.map (fun r => (r.1.rc, r.1.base.rng)) = some (some [], 2) ∧
    exHistory2.map (fun r => r.2) = some [some (cfg 1), some (cfg 0), some (cfg 2), none, none] := by
  refine ⟨by decide +kernel, by decide +kernel, by decide +kernel⟩

/-- `allow_duplicates = True`: the list is never shortened, a configuration comes back,
and the configuration of a failed trial is excluded from then on -/
def exHistory3 : Option (XState × List (Option Config)) :=
  (construct exImmDup [] (some [cfg 0, cfg 1])).toOption.bind fun w =>
    (XState.run exImmDup (fun _ => []) (fun i => if i < 3 then 0 else 1) w.s
      [.get, .pending 0 (some (cfg 0)), .get, .failed 0, .get]).toOption

example :
    exHistory3.map (fun r => (r.1.rc, r.1.base.excl)) = some (some [cfg 0, cfg 1], ["0"]) ∧
    exHistory3.map (fun r => r.2) = some [some (cfg 0), some (cfg 0), some (cfg 1)] := by
  refine ⟨by decide +kernel, by decide +kernel⟩

end SyneTune.C06R
