import SyneTune.Lemmas.SyncMore
/-
C13 (synchronous Hyperband part) — trial failures are contained.
Property theorems only; `Reachable` as in `Props/C05.lean`.  `s.mgr.SlotAt id k p y`: slot
`p` of rung `k` of bracket `id` holds `y = (trial_id, metric_val)`.
-/
namespace SyneTune.C13Sync
open SyneTune SyneTune.Sync

/-- **`on_trial_error` never raises and touches nothing but the failed trial's own slot.**
At any point of any history: the call returns; if the trial is not pending nothing changes;
otherwise its pending entry is removed, the pending entries of all other trials are the
same, and every slot of every bracket except the slot the trial owed is unchanged. -/
theorem sync_total (mode : Mode) (systems : List (List (Nat × Nat))) (s : Sched)
    (h : Reachable mode systems s) (tid : Nat) :
    ∃ s' calls, s.onError tid = .ok (s', calls) ∧
      (alookup tid s.pending = none → s' = s) ∧
      (∀ t', t' ≠ tid → alookup t' s'.pending = alookup t' s.pending) ∧
      (∀ id sl, alookup tid s.pending = some (id, sl) →
        ∀ (j k p : Nat) (y : Slot), s.mgr.SlotAt j k p y → (j, k, p) ≠ (id, sl.rungIndex, sl.slotIndex) →
          s'.mgr.SlotAt j k p y) := by
  have hI := (reachable_inv h).1
  obtain ⟨s', calls, hs, _, hc⟩ := onError_spec hI tid
  refine ⟨s', calls, hs, ?_, ?_, ?_⟩
  · intro hnone
    rcases hc with ⟨_, rfl⟩ | ⟨s1, hf, _⟩
    · rfl
    · obtain ⟨_, _, _, _, _, _, _, hlook, _⟩ := hf.ex
      rw [hnone] at hlook; cases hlook
  · intro t' hne
    rcases hc with ⟨_, rfl⟩ | ⟨s1, _, rfl⟩
    · rfl
    · exact alookup_adel_ne _ _ _ hne
  · intro id sl hlook j k p y hslot hne
    rcases hc with ⟨hnone, _⟩ | ⟨s1, hf, rfl⟩
    · rw [hnone] at hlook; cases hlook
    · obtain ⟨id', sl', br, rg, x, br', np, hlook', hbr, hps, hrc, hmr, _⟩ := hf.ex
      rw [hlook] at hlook'
      simp only [Option.some.injEq, Prod.mk.injEq] at hlook'
      obtain ⟨rfl, rfl⟩ := hlook'
      have hl := pend_legal (List.mem_of_getElem? hbr) hps Metric.nan
      apply (slotAt_after_report hbr hl hrc hmr).1 j k p y hslot
      rw [← hps.ri]; exact hne

/-- **After a failure the slot is occupied.**  The failed trial's slot holds
`(trial, NaN)` afterwards and the trial is not pending any more — so the barrier theorem
(`C05.barrier`) applies: the rung completes as soon as the other jobs have answered. -/
theorem sync_no_wait (mode : Mode) (systems : List (List (Nat × Nat))) (s : Sched)
    (h : Reachable mode systems s) (tid id : Nat) (sl : SlotInRung)
    (hlook : alookup tid s.pending = some (id, sl)) :
    ∃ s' calls, s.onError tid = .ok (s', calls) ∧
      s'.mgr.SlotAt id sl.rungIndex sl.slotIndex ⟨some tid, some .nan⟩ ∧
      alookup tid s'.pending = none := by
  have hI := (reachable_inv h).1
  obtain ⟨s', calls, hs, _, hc⟩ := onError_spec hI tid
  refine ⟨s', calls, hs, ?_⟩
  rcases hc with ⟨hnone, _⟩ | ⟨s1, hf, rfl⟩
  · rw [hnone] at hlook; cases hlook
  · obtain ⟨id', sl', br, rg, x, br', np, hlook', hbr, hps, hrc, hmr, _⟩ := hf.ex
    rw [hlook] at hlook'
    simp only [Option.some.injEq, Prod.mk.injEq] at hlook'
    obtain ⟨rfl, rfl⟩ := hlook'
    have hl := pend_legal (List.mem_of_getElem? hbr) hps Metric.nan
    refine ⟨?_, alookup_adel_self _ _ hI.keys⟩
    have := (slotAt_after_report hbr hl hrc hmr).2
    rw [← hps.ri] at this
    simpa [hps.tid] using this

/-- **No slot waits for a job nobody owes.**  In every reachable state each slot that has
been handed out and is not yet occupied belongs to a trial registered as pending for
exactly this slot (which will report or fail). -/
theorem no_orphan_slot (mode : Mode) (systems : List (List (Nat × Nat))) (s : Sched)
    (h : Reachable mode systems s) (id : Nat) (br : Bracket) (rg : Rung) (p : Nat) (x : Slot)
    (hbr : s.mgr.brackets[id]? = some br) (hrg : br.rungs[br.current]? = some rg)
    (hx : rg.slots[p]? = some x) (hp : p < br.firstFree) (hxm : x.metric = none) :
    ∃ t sl, alookup t s.pending = some (id, sl) ∧ sl.slotIndex = p ∧ sl.rungIndex = br.current ∧
      sl.tid = some t := by
  have hI := (reachable_inv h).1
  obtain ⟨t, sl, hlook, hq⟩ := hI.owed id br rg p x hbr hrg hx hp hxm (by simp)
  obtain ⟨b', rg', x', hb', hps, _⟩ := hI.pend t id sl hlook
  rw [hbr] at hb'
  have : b' = br := (Option.some.inj hb').symm
  subst this
  exact ⟨t, sl, hlook, hq, hps.ri, hps.tid⟩

/-- **A slot, once occupied, never changes** (over any continuation of the history): in
particular the NaN written for a failed trial stays where it is. -/
theorem occupied_slots_stable (mode : Mode) (systems : List (List (Nat × Nat))) (s : Sched)
    (h : Reachable mode systems s) (ops : List Op) (hl : LegalRun s ops)
    (j k p : Nat) (y : Slot) (hy : s.mgr.SlotAt j k p y) (hocc : y.metric.isSome = true) :
    (s.run ops).mgr.SlotAt j k p y :=
  (run_more (reachable_inv h).1 ops hl).2.2 j k p y hy hocc

/-- no completed rung of any bracket had fewer valid entries than the next rung has slots -/
def NoShortfall (g : Manager) : Prop := ∀ br ∈ g.brackets, NoShortfallBr br

/-- the full statement "a trial which is resumed has no failed (NaN) entry in any rung" -/
def NoResumeFailed : Prop :=
  ∀ (mode : Mode) (systems : List (List (Nat × Nat))) (s : Sched), Reachable mode systems s →
    ∀ (tid : Nat) (c : Bool), tid ∉ s.configs →
    ∀ (s' : Sched) (t lvl : Nat) (cl : Option Nat) (calls : List SCall),
      s.suggest tid c = .ok (s', .resume t lvl cl, calls) →
      ∀ br ∈ s.mgr.brackets, ∀ rg ∈ br.rungs, (⟨some t, some .nan⟩ : Slot) ∉ rg.slots

/-- **A failed trial is not resumed — as long as no rung runs short of valid entries.**
`_partial`: the full statement `NoResumeFailed` (without the hypothesis `NoShortfall`) is
false of the code, see `no_resume_failed_counterexample`: `get_top_list` fills a rung with
failed trials when the completed rung has fewer valid entries than the next rung has
slots (DESIGN §6 F4). -/
theorem no_resume_failed_partial (mode : Mode) (systems : List (List (Nat × Nat))) (s : Sched)
    (h : Reachable mode systems s) (hns : NoShortfall s.mgr) (tid : Nat) (c : Bool) (hfresh : tid ∉ s.configs)
    (s' : Sched) (t lvl : Nat) (cl : Option Nat) (calls : List SCall)
    (hs : s.suggest tid c = .ok (s', .resume t lvl cl, calls)) :
    ∀ br ∈ s.mgr.brackets, ∀ rg ∈ br.rungs, (⟨some t, some .nan⟩ : Slot) ∉ rg.slots := by
  have hI := (reachable_inv h).1
  obtain ⟨s2, sg, calls2, hs2, _, hf⟩ := suggest_spec hI tid c hfresh
  rw [hs] at hs2
  simp only [Except.ok.injEq, Prod.mk.injEq] at hs2
  obtain ⟨rfl, rfl, rfl⟩ := hs2
  obtain ⟨g1, id, sl, br1, rg, x, _, hcase, hh, _, hc⟩ := hf.job
  rcases hc with ⟨t', hx, hsg, _⟩ | ⟨_, _, hsg, _⟩ | ⟨_, _, hsg, _⟩
  · simp only [Suggestion.resume.injEq] at hsg
    obtain ⟨rfl, _, _⟩ := hsg
    obtain ⟨br0, rg0, x0, hjs⟩ := jobCase_struct hI.mwf hcase
    -- the bracket handed out is an old one: it holds the id `t`
    have hb1 : br1 = bump br0 := by
      have := hjs.atId; rw [hh.hbr] at this; exact Option.some.inj this
    subst hb1
    have hrg0 : br0.rungs[br0.current]? = some rg := hh.hrg
    have hid0 : br0.HasId t := (handed_hasId hh t hx).1
    have hold : s.mgr.brackets[id]? = some br0 := by
      rcases hjs.old with ho | ⟨_, hno, _⟩
      · exact ho
      · exact absurd hid0 (hno t)
    obtain ⟨spec, _, hb, _⟩ := hI.mwf.wf id br0 hold
    intro br hbr rgy hrgy hmem
    obtain ⟨j, hj⟩ := List.mem_iff_getElem?.mp hbr
    obtain ⟨k, hk⟩ := List.mem_iff_getElem?.mp hrgy
    obtain ⟨i, hi⟩ := List.mem_iff_getElem?.mp hmem
    have hidy : br.HasId t := ⟨rgy, hrgy, (mem_ids_iff rgy t).mpr ⟨i, _, hi, rfl⟩⟩
    have hji : j = id := hI.disjoint j id br br0 t hj hold hidy hid0
    subst hji
    rw [hold] at hj
    have : br = br0 := (Option.some.inj hj).symm
    subst this
    have hklt := getElem?_lt hk
    have hkle : k ≤ br.current := by have := hb.len; omega
    by_cases hkc : k = br.current
    · subst hkc
      rw [hrg0] at hk
      have : rgy = rg := (Option.some.inj hk).symm
      subst this
      have hnd := hb.nodup rgy hrgy
      have := nodup_idx rgy.slots t hnd i sl.slotIndex _ x hi hh.hsl rfl hx
      subst this
      rw [hh.hsl] at hi
      have hxe : x = ⟨some t, some Metric.nan⟩ := Option.some.inj hi
      have := hh.empty
      rw [hxe] at this; cases this
    · exact no_nan_below hb (hns br hbr) t br.current rg hrg0
        ((mem_ids_iff rg t).mpr ⟨sl.slotIndex, x, hh.hsl, hx⟩) k rgy (by omega) hk hmem
  · cases hsg
  · cases hsg

/-- the history of the counterexample: rung system `[(2,1),(1,2)]`, both trials of the base
rung fail -/
def witnessOps : List Op := [.suggest 0 true, .suggest 1 true, .error 0, .error 1]

/-- after both trials have failed, the next `suggest` resumes the failed trial 0 -/
theorem witness_resumes_failed :
    ∃ s0 s', Sched.init .min [[(2, 1), (1, 2)]] false false = .ok s0 ∧ LegalRun s0 witnessOps ∧
      (s0.run witnessOps).suggest 2 true = .ok (s', .resume 0 2 none, []) ∧
      (s0.run witnessOps).mgr.brackets.map (fun b => b.rungs.map (fun r => r.slots)) =
        [[[⟨some 0, some .nan⟩, ⟨some 1, some .nan⟩], [⟨some 0, none⟩]]] ∧
      (s0.run witnessOps).configs = [0, 1] :=
  ⟨_, _, rfl, by decide +kernel, rfl, by decide +kernel, by decide +kernel⟩

/-- **The full statement is false of the code** (F4): with the rung system `[(2,1),(1,2)]`
and both trials of the base rung failing, `get_top_list` finds no valid entry for the one
slot of the next rung, promotes the failed trial 0, and the next `suggest` resumes it.
The harness replays this history on the real code (`props/c05.py: WITNESS`). -/
theorem no_resume_failed_counterexample : ¬ NoResumeFailed := by
  intro hfull
  obtain ⟨s0, s', hinit, hlegal, hsug, hslots, hcfg⟩ := witness_resumes_failed
  have hreach : Reachable .min [[(2, 1), (1, 2)]] (s0.run witnessOps) :=
    ⟨false, false, s0, witnessOps, hinit, hlegal, rfl⟩
  have hfresh : 2 ∉ (s0.run witnessOps).configs := by rw [hcfg]; decide
  have hmem : ∃ br ∈ (s0.run witnessOps).mgr.brackets, ∃ rg ∈ br.rungs, (⟨some 0, some .nan⟩ : Slot) ∈ rg.slots := by
    cases hb : (s0.run witnessOps).mgr.brackets with
    | nil => rw [hb] at hslots; cases hslots
    | cons br rest =>
      rw [hb] at hslots
      simp only [List.map_cons, List.cons.injEq] at hslots
      refine ⟨br, by simp, ?_⟩
      cases hr : br.rungs with
      | nil => rw [hr] at hslots; simp at hslots
      | cons rg rrest =>
        rw [hr] at hslots
        simp only [List.map_cons, List.cons.injEq] at hslots
        exact ⟨rg, by simp, by rw [hslots.1.1]; simp⟩
  obtain ⟨br, hbr, rg, hrg, hin⟩ := hmem
  exact hfull .min [[(2, 1), (1, 2)]] _ hreach 2 true hfresh s' 0 2 none [] hsug br hbr rg hrg hin

/-! ### non-vacuity -/

/-- the hypotheses of `no_resume_failed_partial` are satisfiable with a real promotion: on
`[(3,1),(1,3)]` one of three trials fails, two report; the state is reachable, has no
shortfall, and the next `suggest` resumes the best valid trial (2). -/
example :
    ∃ s0, Sched.init .min [[(3, 1), (1, 3)]] false false = .ok s0 ∧
      LegalRun s0 [.suggest 0 true, .suggest 1 true, .suggest 2 true, .error 0,
                   .result 1 1 (.val (3/4)), .result 2 1 (.val (1/4))] ∧
      (∀ br ∈ (s0.run [.suggest 0 true, .suggest 1 true, .suggest 2 true, .error 0,
                   .result 1 1 (.val (3/4)), .result 2 1 (.val (1/4))]).mgr.brackets, NoShortfallBr br) ∧
      ((s0.run [.suggest 0 true, .suggest 1 true, .suggest 2 true, .error 0,
                   .result 1 1 (.val (3/4)), .result 2 1 (.val (1/4))]).suggest 3 true).toOption.map (·.2.1)
        = some (.resume 2 3 none) := by
  refine ⟨_, rfl, by decide +kernel, ?_, by decide +kernel⟩
  intro br hbr
  apply noShortfallPairs_sound
  revert br
  decide +kernel

/-- a reachable state with a pending trial whose failure is then contained -/
example :
    ∃ s0, Sched.init .max [[(3, 1), (1, 3)]] true false = .ok s0 ∧
      alookup 1 (s0.run [.suggest 0 true, .suggest 1 true]).pending = some (0, ⟨0, 1, 1, some 1, none⟩) :=
  ⟨_, rfl, by decide +kernel⟩

end SyneTune.C13Sync
