import SyneTune.Lemmas.TunerC01bCount
import SyneTune.Lemmas.TunerC12bWitness
import SyneTune.Lemmas.TunerWitness
/-
C01b — the counters of the tuning status against the trials the loop has started and is running,
at every control point of every run (C01: ids are issued once and in sequence, the life cycle is legal;
C12, last clause: "the status counters equal the numbers of trials in each state").
Property theorems only.  Model: `Model/Tuner.lean`, `Model/TuningStatus.lean`; helper lemmas:
`Lemmas/TunerC01bCount.lean`, `Lemmas/TunerC12bInProgress.lean`; witnesses: `Lemmas/TunerC12bWitness.lean`,
`Lemmas/TunerWitnessData.lean`.

`run (init c) as` is the state of `Tuner.run()` after the environment answers `as`.  Contracts as in
`Props/C01.lean`: `BOk` (backend, poll answers), `KOk` (scheduler, resume only what it paused), `RebindOk`
(the busy list is never shorter than the running set; for free with `start_jobs_without_delay=True`).
`nStarted` is `len(trial_backend.trial_ids)` = `new_trial_id()`; `startIds log` the ids of the `start_trial`
commands issued so far; `status.last` is `tuning_status.last_trial_status_seen`.
-/
namespace SyneTune.C01b
open SyneTune SyneTune.Tuner SyneTune.Tuner.Cnt SyneTune.Tuner.AL

/-- **The counters partition the started trials** — for every tuning status, hence at every control point of every
run (no contract): started = completed + failed + stopped + stopping + paused + running. -/
theorem counters_partition (ts : TStatus) :
    ts.numStarted = ts.numCompleted + ts.numFailed + ts.numIn (· == .stopped) + ts.numIn (· == .stopping)
      + ts.numIn (· == .paused) + ts.numRunning := by
  unfold TStatus.numStarted TStatus.numCompleted TStatus.numFailed TStatus.numRunning TStatus.numIn
  simp only [← List.countP_eq_length_filter]
  exact partition_all _

/-- **Each started trial is recorded once, under its id, in the order of the ids**: under the contracts B and K the
keys of `last_trial_status_seen` are `0, 1, …, num_trials_started − 1`, at every point of every run. -/
theorem started_keys (c : Cfg) (as : List Ans) (hB : Along BOk (init c) as) (hK : Along KOk (init c) as) :
    keys (run (init c) as).status.last = List.range (run (init c) as).status.numStarted :=
  (NInv_run c as hB hK).rng

/-- the recorded ids are distinct (no contract needed) -/
theorem started_distinct (c : Cfg) (as : List Ans) : (keys (run (init c) as).status.last).Nodup :=
  LNInv_run c as

/-- **`num_trials_started` against the backend and the commands**: inside the loop the number of recorded trials is
the backend's number of trials — one less between the return of `start_trial` and the
`tuning_status.update` that records the new trial (`addPend`: at `on_trial_add`, `on_start_trial`) — and the
number of `start_trial` commands issued is that plus the command in flight (`startPend`). -/
theorem started_count (c : Cfg) (as : List Ans) (hB : Along BOk (init c) as) (hK : Along KOk (init c) as)
    (hf : finPc (run (init c) as).pc = false) :
    (run (init c) as).status.numStarted + addPend (run (init c) as).pc = (run (init c) as).nStarted ∧
    (startIds (run (init c) as).log).length =
      (run (init c) as).status.numStarted + addPend (run (init c) as).pc + startPend (run (init c) as).pc := by
  have h1 := (NInv_run c as hB hK).cntL hf
  have h2 := (run_inv (Inv := IdsInv) IdsInv_step as (init c) (IdsInv_init c)).cnt hf
  exact ⟨h1, by rw [h2, h1]⟩

/-- at an iteration boundary (from the `while` test to the end of `_process_new_results`, and from `on_loop_end` to
the next evaluation of the stopping condition) the three numbers coincide -/
theorem started_at_boundary (c : Cfg) (as : List Ans) (hB : Along BOk (init c) as) (hK : Along KOk (init c) as)
    (hp : prePc (run (init c) as).pc = true ∨ (run (init c) as).pc = .loopEnd ∨ (run (init c) as).pc = .evalStop ∨
      (run (init c) as).pc = .clock) :
    (run (init c) as).status.numStarted = (run (init c) as).nStarted ∧
    (startIds (run (init c) as).log).length = (run (init c) as).status.numStarted := by
  have hf : finPc (run (init c) as).pc = false := by
    rcases hp with hp | hp | hp | hp
    · revert hp; cases (run (init c) as).pc <;> simp [prePc, iterPc, finPc]
    all_goals (rw [hp]; rfl)
  have h0 : addPend (run (init c) as).pc = 0 ∧ startPend (run (init c) as).pc = 0 := by
    rcases hp with hp | hp | hp | hp
    · revert hp; cases (run (init c) as).pc <;> simp [prePc, iterPc, addPend, startPend]
    all_goals (rw [hp]; exact ⟨rfl, rfl⟩)
  obtain ⟨h1, h2⟩ := started_count c as hB hK hf
  rw [h0.1, h0.2] at h2
  rw [h0.1] at h1
  exact ⟨h1, h2⟩

/-- inside the `finally` block at most one trial of the backend is not recorded -/
theorem started_fin (c : Cfg) (as : List Ans) (hB : Along BOk (init c) as) (hK : Along KOk (init c) as)
    (hf : finPc (run (init c) as).pc = true) :
    (run (init c) as).status.numStarted ≤ (run (init c) as).nStarted ∧
    (run (init c) as).nStarted ≤ (run (init c) as).status.numStarted + 1 := by
  obtain ⟨h1, h2, _⟩ := (NInv_run c as hB hK).cntF hf
  exact ⟨h1, h2⟩

/-- **When `run()` returns without an exception** every trial the backend has started is recorded, under the ids
`0 … num_trials_started − 1`, and exactly that many `start_trial` commands were issued; none is recorded as running
(`C12.counters`). -/
theorem started_end (c : Cfg) (as : List Ans) (hB : Along BOk (init c) as) (hK : Along KOk (init c) as)
    (hp : (run (init c) as).pc = .done) (he : (run (init c) as).err = none) :
    (run (init c) as).status.numStarted = (run (init c) as).nStarted ∧
    (startIds (run (init c) as).log).length = (run (init c) as).status.numStarted ∧
    startIds (run (init c) as).log = keys (run (init c) as).status.last := by
  have hf : finPc (run (init c) as).pc = true := by rw [hp]; rfl
  have h1 := ((NInv_run c as hB hK).cntF hf).2.2 he
  have h2 := FIds_run c as hf he
  have h3 := (run_inv (Inv := IdsInv) IdsInv_step as (init c) (IdsInv_init c)).ids
  refine ⟨h1.symm, by rw [h2, h1], ?_⟩
  rw [started_keys c as hB hK, h3, h2, h1]

/-- **A trial the backend has started is never recorded when `scheduler.on_trial_add` (or a callback's
`on_start_trial`) raises.**  One worker: `start_trial` returns trial 0, `on_trial_add(0)` raises; the `finally` block
runs, `stop_all` finds trial 0 in progress and stops it, `run()` re-raises — the backend holds one (stopped) trial, the
tuning status none: `num_trials_started = 0`, all counters 0.  Contracts B and K hold. -/
theorem started_not_recorded_counterexample :
    Along BOk (init Witness.addRaiseCfg) Witness.addRaiseRun ∧
    Along KOk (init Witness.addRaiseCfg) Witness.addRaiseRun ∧
    pending (run (init Witness.addRaiseCfg) (Witness.addRaiseRun.take 13)) = .schedAdd 0 ∧
    (run (init Witness.addRaiseCfg) Witness.addRaiseRun).pc = .done ∧
    (run (init Witness.addRaiseCfg) Witness.addRaiseRun).err = some .env ∧
    (run (init Witness.addRaiseCfg) Witness.addRaiseRun).nStarted = 1 ∧
    startIds (run (init Witness.addRaiseCfg) Witness.addRaiseRun).log = [0] ∧
    alookup 0 (run (init Witness.addRaiseCfg) Witness.addRaiseRun).bst = some .stopped ∧
    (run (init Witness.addRaiseCfg) Witness.addRaiseRun).status.numStarted = 0 ∧
    (run (init Witness.addRaiseCfg) Witness.addRaiseRun).status.last = [] := by
  refine ⟨along_of bOk_of (by decide +kernel), along_of kOk_of (by decide +kernel), ?_, ?_, ?_, ?_, ?_, ?_, ?_, ?_⟩ <;>
    decide +kernel

/-- **`num_trials_running` against the running set, partial.**  Under B, K and PROVIDED `running_trials_ids` is never
rebound, at every control point of the loop the trials recorded as in progress are exactly the members of the running
set not recorded as `stopping`: `num_trials_running` + (running trials recorded as stopping) = `len(running_trials_ids)`.
(Status and running set change in the same step, so there is no control point inside the loop at which they differ.)
Full statement (without `hR`) is false: `running_count_counterexample` (F15). -/
theorem running_count_partial (c : Cfg) (as : List Ans) (hB : Along BOk (init c) as) (hK : Along KOk (init c) as)
    (hR : Along RebindOk (init c) as) (hf : finPc (run (init c) as).pc = false) :
    (run (init c) as).status.numRunning +
      ((run (init c) as).running.filter (fun t => alookup t (run (init c) as).status.last == some .stopping)).length
      = (run (init c) as).running.length := by
  obtain ⟨_, hI⟩ := SK_run c as hB hK
  have hRI := RInv_run c as hB hR
  have hBu := run_inv (Inv := BudgetInv) budget_step as (init c) (budget_init c)
  exact running_count _ _ (LNInv_run c as) hBu.1.nodup (hI hf).ls.act (hRI.ip (ip_of_loop hf))

/-- if no trial is recorded as `stopping` (only the SageMaker backend reports that status) the two numbers are equal -/
theorem running_count_eq (c : Cfg) (as : List Ans) (hB : Along BOk (init c) as) (hK : Along KOk (init c) as)
    (hR : Along RebindOk (init c) as) (hf : finPc (run (init c) as).pc = false)
    (hs : (run (init c) as).status.numIn (· == .stopping) = 0) :
    (run (init c) as).status.numRunning = (run (init c) as).running.length := by
  have h := running_count_partial c as hB hK hR hf
  have h0 : ((run (init c) as).running.filter
      (fun t => alookup t (run (init c) as).status.last == some .stopping)).length = 0 := by
    rw [List.length_eq_zero_iff, List.filter_eq_nil_iff]
    intro t _ ht
    have hlk : alookup t (run (init c) as).status.last = some .stopping := by simpa using ht
    have hm := mem_of_alookup hlk
    unfold TStatus.numIn at hs
    rw [List.length_eq_zero_iff, List.filter_eq_nil_iff] at hs
    exact hs _ hm (by simp)
  omega

theorem running_count_swd (c : Cfg) (hs : c.swd = true) (as : List Ans) (hB : Along BOk (init c) as)
    (hK : Along KOk (init c) as) (hf : finPc (run (init c) as).pc = false) :
    (run (init c) as).status.numRunning +
      ((run (init c) as).running.filter (fun t => alookup t (run (init c) as).status.last == some .stopping)).length
      = (run (init c) as).running.length :=
  running_count_partial c as hB hK (rebindOk_of_swd c hs as) hf

/-- every trial recorded as in progress is in the running set (B, no rebinding); also at the entry of the `finally` block -/
theorem in_progress_running (c : Cfg) (as : List Ans) (hB : Along BOk (init c) as) (hR : Along RebindOk (init c) as)
    (hp : ipPc (run (init c) as).pc = true) (t : Nat)
    (ht : alookup t (run (init c) as).status.last = some .inProgress) : t ∈ (run (init c) as).running :=
  (RInv_run c as hB hR).ip hp t ht

/-- **F15: `num_trials_running` exceeds the running set.**  The witness of `C01.notify_polled_counterexample`: trial 2
was started into the rebound local set; at the next poll three trials are recorded as in progress, two are in
`running_trials_ids` (and `n_workers = 2`).  B and K hold. -/
theorem running_count_counterexample :
    Along BOk (init Witness.f15Cfg) Witness.f15Prefix ∧ Along KOk (init Witness.f15Cfg) Witness.f15Prefix ∧
    alongB rebindOkB (init Witness.f15Cfg) Witness.f15Prefix = false ∧
    (run (init Witness.f15Cfg) Witness.f15Prefix).pc = .fetch ∧
    (run (init Witness.f15Cfg) Witness.f15Prefix).status.numRunning = 3 ∧
    (run (init Witness.f15Cfg) Witness.f15Prefix).status.numIn (· == .stopping) = 0 ∧
    (run (init Witness.f15Cfg) Witness.f15Prefix).running = [0, 1] := by
  refine ⟨along_of bOk_of (by decide +kernel), along_of kOk_of (by decide +kernel), ?_, ?_, ?_, ?_, ?_⟩ <;> decide +kernel

/-! ### concrete instances -/

/-- `counters_partition` in the middle of the PBT run (2 started = 2 stopped) and late in the F15 run
(3 started = 2 completed + 1 running) -/
example :
    (run (init Witness.pbtCfg) Witness.pbtPrefix).status.numStarted = 2 ∧
    (run (init Witness.pbtCfg) Witness.pbtPrefix).status.numIn (· == .stopped) = 2 ∧
    (run (init Witness.pbtCfg) Witness.pbtPrefix).status.numRunning = 0 ∧
    (run (init Witness.f15Cfg) (Witness.f15Prefix ++ Witness.f15Rest.take 20)).status.numStarted = 3 ∧
    (run (init Witness.f15Cfg) (Witness.f15Prefix ++ Witness.f15Rest.take 20)).status.numCompleted = 2 ∧
    (run (init Witness.f15Cfg) (Witness.f15Prefix ++ Witness.f15Rest.take 20)).status.numRunning = 1 := by
  decide +kernel

/-- `started_keys`, `started_count`: the PBT run right after `start_trial(2)` returned (pc = `on_trial_add`): the backend
has three trials, two are recorded, three `start_trial` commands were issued -/
example :
    (run (init Witness.pbtCfg) (Witness.pbtPrefix ++ Witness.pbtRest.take 1)).pc = .addS ∧
    addPend (run (init Witness.pbtCfg) (Witness.pbtPrefix ++ Witness.pbtRest.take 1)).pc = 1 ∧
    (run (init Witness.pbtCfg) (Witness.pbtPrefix ++ Witness.pbtRest.take 1)).nStarted = 3 ∧
    keys (run (init Witness.pbtCfg) (Witness.pbtPrefix ++ Witness.pbtRest.take 1)).status.last = [0, 1] ∧
    startIds (run (init Witness.pbtCfg) (Witness.pbtPrefix ++ Witness.pbtRest.take 1)).log = [0, 1, 2] := by
  decide +kernel

example : keys (run (init Witness.pbtCfg) (Witness.pbtPrefix ++ Witness.pbtRest)).status.last = List.range 3 := by
  have := started_keys Witness.pbtCfg (Witness.pbtPrefix ++ Witness.pbtRest)
    (along_of bOk_of (by decide +kernel)) (along_of kOk_of (by decide +kernel))
  rwa [show (run (init Witness.pbtCfg) (Witness.pbtPrefix ++ Witness.pbtRest)).status.numStarted = 3 by decide +kernel] at this

/-- `started_end` on the whole PBT run and the whole two-worker run (normal returns) -/
example :
    (run (init Witness.pbtCfg) (Witness.pbtPrefix ++ Witness.pbtRest)).pc = .done ∧
    (run (init Witness.pbtCfg) (Witness.pbtPrefix ++ Witness.pbtRest)).err = none ∧
    (run (init Witness.cwCfg) (Witness.twoPrefix ++ Witness.twoWaitRest)).pc = .done ∧
    (run (init Witness.cwCfg) (Witness.twoPrefix ++ Witness.twoWaitRest)).err = none ∧
    startIds (run (init Witness.cwCfg) (Witness.twoPrefix ++ Witness.twoWaitRest)).log = [0, 1, 2, 3] := by
  decide +kernel

example : startIds (run (init Witness.cwCfg) (Witness.twoPrefix ++ Witness.twoWaitRest)).log
    = keys (run (init Witness.cwCfg) (Witness.twoPrefix ++ Witness.twoWaitRest)).status.last :=
  (started_end Witness.cwCfg _ (along_of bOk_of (by decide +kernel)) (along_of kOk_of (by decide +kernel))
    (by decide +kernel) (by decide +kernel)).2.2

/-- `started_at_boundary`, `running_count_partial`, `running_count_eq` at the `while` test of the two-worker run:
4 started = 4 in the backend = 4 commands; 2 recorded as running = |{2, 3}| -/
example :
    (run (init Witness.cwCfg) Witness.twoPrefix).pc = .loopHead ∧
    (run (init Witness.cwCfg) Witness.twoPrefix).status.numStarted = 4 ∧
    (run (init Witness.cwCfg) Witness.twoPrefix).nStarted = 4 ∧
    (run (init Witness.cwCfg) Witness.twoPrefix).status.numRunning = 2 ∧
    (run (init Witness.cwCfg) Witness.twoPrefix).running = [2, 3] := by
  decide +kernel

example : (run (init Witness.cwCfg) Witness.twoPrefix).status.numRunning = (run (init Witness.cwCfg) Witness.twoPrefix).running.length :=
  running_count_eq Witness.cwCfg _ (along_of bOk_of (by decide +kernel)) (along_of kOk_of (by decide +kernel))
    (rebindOk_of_swd _ rfl _) (by decide +kernel) (by decide +kernel)

/-- `started_fin` with the upper bound attained: the `on_trial_add`-raises run inside the `finally` block -/
example :
    finPc (run (init Witness.addRaiseCfg) (Witness.addRaiseRun.take 15)).pc = true ∧
    (run (init Witness.addRaiseCfg) (Witness.addRaiseRun.take 15)).nStarted =
      (run (init Witness.addRaiseCfg) (Witness.addRaiseRun.take 15)).status.numStarted + 1 := by
  decide +kernel

end SyneTune.C01b
