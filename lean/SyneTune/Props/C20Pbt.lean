import SyneTune.Lemmas.PBTStep
/-
C20 (population-based training, scheduler level) and C15 for the same scheduler.

Model: `Model/PBT.lean` (`PopulationBasedTraining.on_trial_add / on_trial_result / _quantiles /
_get_trial_id_to_continue / _suggest`; `on_trial_error / remove / complete` are no-ops on PBT's
state).  All theorems are about EVERY history of operations from the initial state (or about one
operation in an arbitrary well-formed state, `WF` = every trial id is a key of `_trial_state`
once — which `run_wf` shows for every reachable state).

C20 says: when a new trial is started from another trial's checkpoint, that checkpoint has not
been deleted before.  With checkpoint removal on, the backend deletes the checkpoint of a trial
when the scheduler answers STOP for it.  What the scheduler guarantees, and what it does not:

* at the moment a clone decision `(src, config)` is PUSHED, `src` is not stopped, has a score, is
  not the trial being stopped, and is a member of the upper quantile (`push_spec`, `stack_origin`,
  `clone_origin`, `stopped_never_pushed`, `never_pushed_after_stop`);
* between the push and the POP by the next `suggest` the source can be answered STOP — it reaches
  `max_t`, or falls into the lower quantile itself: `pbt_source_may_be_stopped_before_pop_counterexample`,
  `pbt_source_in_lower_quantile_before_pop_counterexample` (the known open finding
  `c20:pbt-source-checkpoint-deleted`; loop-level twin: `C20Loop.pbt_counterexample`);
* if no result of the source arrives between push and pop, it is not stopped at the pop:
  `source_alive_at_pop_partial`.

Degenerate quantiles: for `quantile_fraction = 0` the code's `trials[-0:]` is the whole list
(`quantiles_zero_fraction_counterexample`; harmless, `no_push_when_fraction_zero`); the constructor
does not reject NEGATIVE fractions (`Float(0.0, 0.5)` skips a falsy lower bound), for which the two
quantiles overlap, a trial can be asked to clone itself (the code's `assert` fires) or a worse
trial (`quantiles_negative_fraction_counterexample`).

The perturbed configuration (`_explore`) is outside the model.  The random pick
`random_state.choice(upper_quantile)` is an input; the model rejects a pick outside the upper
quantile, so every statement about "the source" holds for whatever the generator returns.
-/
namespace SyneTune.C20Pbt
open SyneTune SyneTune.PBT

/-! ### witnesses -/

namespace W

/-- `max_t = 4`, `perturbation_interval = 1`, `quantile_fraction = 0.5`, `mode = "max"` -/
def p : Params := { maxT := 4, interval := 1, frac := 1/2, mode := .max }

/-- two trials; trial 1 is replaced by a clone of trial 0; before the `suggest` that starts the
clone, trial 0 reports at `max_t` and is stopped -/
def hMaxT : List Op :=
  [.suggest, .add 0, .suggest, .add 1,
   .result 0 3 5 none none,          -- first score: CONTINUE
   .result 1 1 3 (some 0) none,      -- lower quantile: STOP, push "clone from 0"
   .result 0 4 6 none none,          -- trial 0 reaches max_t: STOP
   .suggest]                         -- pops "clone from 0"

/-- three trials; trial 1 is replaced by a clone of trial 2 (the best); before that entry is
popped trial 2 reports a bad value, falls into the lower quantile and is stopped itself -/
def hLower : List Op :=
  [.suggest, .add 0, .suggest, .add 1, .suggest, .add 2,
   .result 0 1 5 none none,          -- CONTINUE (single candidate)
   .result 2 1 9 none none,          -- CONTINUE (upper quantile)
   .result 1 1 3 (some 2) none,      -- lower quantile [1], upper [2]: STOP, push "clone from 2"
   .result 2 2 1 (some 0) none,      -- trial 2 now worst of {0, 2}: STOP, push "clone from 0"
   .suggest,                         -- pops "clone from 0" (alive)
   .add 3,
   .suggest]                         -- pops "clone from 2" (stopped)

/-- a negative fraction, accepted by the constructor -/
def pNeg : Params := { maxT := 10, interval := 1, frac := -1/4, mode := .max }

/-- four trials with scores 1, 2, 3, 4 -/
def hNeg : List Op :=
  [.suggest, .add 0, .add 1, .add 2, .add 3,
   .result 0 1 1 none none, .result 1 1 2 none none, .result 2 1 3 none none, .result 3 1 4 none none]

def pZero : Params := { maxT := 10, interval := 1, frac := 0, mode := .max }

/-- three trials with scores 1, 2, 3 -/
def hZero : List Op :=
  [.suggest, .add 0, .add 1, .add 2, .result 0 1 1 none none, .result 1 1 2 none none, .result 2 1 3 none none]

end W

/-! ### reachable states -/

/-- **Every reachable state is well formed**: each trial id is a key of `_trial_state` once. -/
theorem run_wf (p : Params) (ops : List Op) : WF (run p State.init ops) := run_wf' init_wf ops

/-- **Answers never depend on the future**: the answers to a history followed by more operations
begin with the answers to the history alone; model answers are a function of the parameters,
the operations so far and the picks they carry — nothing else. -/
theorem outs_append (p : Params) (s : State) (a b : List Op) :
    outs p s (a ++ b) = outs p s a ++ outs p (run p s a) b := by
  induction a generalizing s with
  | nil => rfl
  | cons op a ih =>
    show (step p s op).2 :: outs p (step p s op).1 (a ++ b) = (step p s op).2 :: outs p (step p s op).1 a ++ _
    rw [ih]; rfl

example : outs W.p State.init W.hMaxT =
    [.fresh, .done, .fresh, .done, .decision .continue (some ([], [])), .decision .stop (some ([1], [0])),
     .decision .stop none, .clone 0] := by decide +kernel

/-! ### what is on the stack -/

/-- What holds at the moment `on_trial_result(tid, cost, metric)` pushes "clone from `src`":
in the state in which `_quantiles()` runs (score of `tid` saved) `src` is not the reporting
trial, the reporting trial is in the lower quantile, `src` is in the upper quantile, is not
stopped and has a score `v`, and `v` is no worse than the score of every non-stopped scored
trial outside the upper quantile. -/
def PushOK (p : Params) (s : State) (tid : Nat) (cost metric : Rat) (kh : Option Int) (src : Nat) : Prop :=
  ∃ st v, alookup tid s.trials = some st ∧ src ≠ tid ∧
    tid ∈ (quantiles p (saved p s tid st cost metric) kh).1 ∧
    src ∈ (quantiles p (saved p s tid st cost metric) kh).2 ∧
    Scored (saved p s tid st cost metric) src v ∧
    ∀ t w, t ∉ (quantiles p (saved p s tid st cost metric) kh).2 →
      Scored (saved p s tid st cost metric) t w → w ≤ v

/-- **A push is a STOP of a lower-quantile trial with a live, scored, upper-quantile source.**
If an operation puts `src` on the decision stack, the operation is a `result` carrying the pick
`src`, it is answered STOP, and `PushOK` holds. -/
theorem push_spec {p : Params} {s : State} (hw : WF s) {op : Op} {src : Nat} (h : Pushes p s op src) :
    ∃ tid cost metric kh, op = .result tid cost metric (some src) kh ∧ PushOK p s tid cost metric kh src ∧
      ∃ q, (step p s op).2 = .decision .stop (some q) := by
  obtain ⟨tid, cost, metric, kh, st, hop, hl, _, _, hlo, hup, hne, hstep⟩ := pushes_spec h
  have hw1 : WF (saved p s tid st cost metric) := saved_wf hw tid st cost metric
  obtain ⟨v, hv⟩ := (mem_sortedIds hw1).mp (upper_sub p _ kh hup)
  refine ⟨tid, cost, metric, kh, hop, ⟨st, v, hl, hne, hlo, hup, hv, ?_⟩, ⟨_, by rw [hstep]⟩⟩
  intro t w ht hwt
  exact upper_dominates hw1 kh hup hv ht hwt

example : Pushes W.p (run W.p State.init (W.hMaxT.take 5)) (.result 1 1 3 (some 0) none) 0 := by
  unfold Pushes; decide +kernel

/-- **The source is alive BEFORE the call as well**: the trial pushed as clone source was, in the
state before the `on_trial_result` call that pushed it, not stopped and had a score. -/
theorem push_source_alive_before {p : Params} {s : State} (hw : WF s) {op : Op} {src : Nat}
    (h : Pushes p s op src) : ∃ v, Scored s src v := by
  obtain ⟨tid, cost, metric, kh, _, ⟨st, v, _, hne, _, _, hv, _⟩, _⟩ := push_spec hw h
  obtain ⟨st', h1, h2, h3⟩ := hv
  rw [saved_lookup_ne p s hne] at h1
  exact ⟨v, st', h1, h2, h3⟩

/-- **Every entry of the decision stack, after every history**, was pushed by an earlier `result`
operation of that history which satisfied `PushOK` in the state reached just before it. -/
theorem stack_origin (p : Params) (ops : List Op) (src : Nat) (h : src ∈ (run p State.init ops).stack) :
    ∃ pre tid cost metric kh post, ops = pre ++ .result tid cost metric (some src) kh :: post ∧
      PushOK p (run p State.init pre) tid cost metric kh src := by
  obtain ⟨pre, op, post, he, hp⟩ := stack_origin' p State.init rfl ops src h
  obtain ⟨tid, cost, metric, kh, hop, hok, _⟩ := push_spec (run_wf p pre) hp
  exact ⟨pre, tid, cost, metric, kh, post, by rw [he, hop], hok⟩

example : 2 ∈ (run W.p State.init (W.hLower.take 11)).stack := by decide +kernel

/-- **Every clone source `suggest` names** comes from such a push: if, after any history,
`suggest` answers "start from the checkpoint of `src`", then an earlier `result` of the history
pushed `src` with `PushOK`. -/
theorem clone_origin (p : Params) (ops : List Op) (src : Nat)
    (h : (step p (run p State.init ops) .suggest).2 = .clone src) :
    ∃ pre tid cost metric kh post, ops = pre ++ .result tid cost metric (some src) kh :: post ∧
      PushOK p (run p State.init pre) tid cost metric kh src := by
  apply stack_origin
  change (onSuggest (run p State.init ops)).2 = .clone src at h
  rcases onSuggest_cases (run p State.init ops) with ⟨_, h2⟩ | ⟨x, rest, h1, h2⟩
  · rw [h2] at h; exact nomatch h
  · rw [h2] at h
    simp only [Out.clone.injEq] at h
    rw [h1, h]; exact List.mem_cons_self

example : (step W.p (run W.p State.init (W.hMaxT.take 7)) .suggest).2 = .clone 0 := by decide +kernel

/-! ### the two quantiles -/

/-- **Fewer than two candidates: both quantiles empty** (`if len(trials) <= 1: return [], []`). -/
theorem quantiles_short (p : Params) (s : State) (kh : Option Int) (h : (sortedIds s).length ≤ 1) :
    quantiles p s kh = ([], []) := PBT.quantiles_short kh h

example : (sortedIds (run W.p State.init (W.hMaxT.take 5))).length ≤ 1 := by decide +kernel

/-- **Lower and upper quantile are disjoint** for every fraction in the documented range
(`0 ≤ quantile_fraction`; the upper end is enforced by the guard `> len/2` anyway). -/
theorem quantiles_disjoint (p : Params) (s : State) (hw : WF s) (kh : Option Int) (hf : 0 ≤ p.frac) :
    List.Disjoint (quantiles p s kh).1 (quantiles p s kh).2 := quantiles_disjoint' hw kh hf

/-- **Sizes, exactly as the code guarantees them** (`0 ≤ quantile_fraction`): the lower quantile
holds at most half of the candidates; the upper quantile has the same size — or the lower one
is empty and the upper one is the WHOLE candidate list (`trials[-0:]`, when
`num_trials_in_quantile = 0`). -/
theorem quantiles_sizes (p : Params) (s : State) (kh : Option Int) (hf : 0 ≤ p.frac) :
    2 * (quantiles p s kh).1.length ≤ (sortedIds s).length ∧
    ((quantiles p s kh).2.length = (quantiles p s kh).1.length ∨
     ((quantiles p s kh).1 = [] ∧ (quantiles p s kh).2 = sortedIds s)) := quantiles_sizes' kh hf

/-- **Equal size, at least one, at most half** when `0 < quantile_fraction` and there are at
least two candidates. -/
theorem quantiles_equal_size (p : Params) (s : State) (kh : Option Int) (hf : 0 < p.frac)
    (hn : 2 ≤ (sortedIds s).length) :
    (quantiles p s kh).1.length = (quantiles p s kh).2.length ∧ 1 ≤ (quantiles p s kh).1.length ∧
    2 * (quantiles p s kh).1.length ≤ (sortedIds s).length := quantiles_equal_size' kh hf hn

example : 0 < W.p.frac ∧ 2 ≤ (sortedIds (run W.p State.init (W.hLower.take 9))).length ∧
    WF (run W.p State.init (W.hLower.take 9)) :=
  ⟨by decide +kernel, by decide +kernel, run_wf _ _⟩

example : quantiles W.p (run W.p State.init (W.hLower.take 9)) none = ([0], [2]) := by decide +kernel

/-- **`quantile_fraction = 0` (the documented lower end): the quantiles are NOT of equal size.**
Three candidates with scores 1, 2, 3: `num_trials_in_quantile = 0`, the lower quantile is
`trials[:0] = []`, the upper quantile is `trials[-0:]` = all three. -/
theorem quantiles_zero_fraction_counterexample :
    W.pZero.documented ∧
    quantiles W.pZero (run W.pZero State.init W.hZero) none = ([], [0, 1, 2]) := by
  refine ⟨by decide +kernel, by decide +kernel⟩

/-- **… which is harmless**: with `quantile_fraction = 0` no operation ever pushes a clone
decision ("doing no exploitation at all", as the docstring of the class says). -/
theorem no_push_when_fraction_zero (p : Params) (hf : p.frac = 0) (s : State) (op : Op) (src : Nat) :
    ¬ Pushes p s op src := by
  intro h
  obtain ⟨tid, cost, metric, kh, st, _, _, _, _, hlo, _⟩ := pushes_spec h
  rw [lower_empty_of_frac_zero kh hf] at hlo
  exact absurd hlo List.not_mem_nil

example : W.pZero.frac = 0 := rfl

/-- **A negative `quantile_fraction` passes the constructor's check and breaks the quantiles.**
`Float(0.0, 0.5).assert_valid` skips the falsy lower bound `0.0`; `-0.25` is accepted.  With four
candidates (scores 1, 2, 3, 4 for trials 0, 1, 2, 3) `num_trials_in_quantile = ceil(-1) = -1`, the
lower quantile is `trials[:-1] = [0, 1, 2]`, the upper one `trials[1:] = [1, 2, 3]`: they overlap.
When trial 2 (second best) reports again it is in the lower quantile; if the generator picks
trial 2 itself the code's `assert trial_id != trial_id_to_clone` fires; if it picks trial 1 the
second best trial is stopped and replaced by a clone of a WORSE one. -/
theorem quantiles_negative_fraction_counterexample :
    W.pNeg.accepted = true ∧ ¬ W.pNeg.documented ∧
    quantiles W.pNeg (run W.pNeg State.init W.hNeg) none = ([0, 1, 2], [1, 2, 3]) ∧
    (step W.pNeg (run W.pNeg State.init W.hNeg) (.result 2 2 3 (some 2) none)).2 = .err .selfPick ∧
    (step W.pNeg (run W.pNeg State.init W.hNeg) (.result 2 2 3 (some 1) none)).2
      = .decision .stop (some ([0, 1, 2], [1, 2, 3])) ∧
    Pushes W.pNeg (run W.pNeg State.init W.hNeg) (.result 2 2 3 (some 1) none) 1 := by
  refine ⟨by decide +kernel, by decide +kernel, by decide +kernel, by decide +kernel, by decide +kernel, ?_⟩
  unfold Pushes; decide +kernel

/-! ### STOP, `stopped`, and what is never pushed -/

/-- **A trial answered STOP is marked stopped** (both STOP branches of `on_trial_result`). -/
theorem stop_marks_stopped (p : Params) (s : State) (tid : Nat) (cost metric : Rat) (pick : Option Nat)
    (kh : Option Int) (q : Option (List Nat × List Nat))
    (h : (step p s (.result tid cost metric pick kh)).2 = .decision .stop q) :
    IsStopped (step p s (.result tid cost metric pick kh)).1 tid := by
  change (onResult p s tid cost metric pick kh).2 = _ at h
  show IsStopped (onResult p s tid cost metric pick kh).1 tid
  have hc := onResult_cases p s tid cost metric pick kh
  generalize onResult p s tid cost metric pick kh = r at h hc
  cases hc with
  | unknown _ => exact nomatch h
  | maxT st h1 _ => exact ⟨_, markStopped_lookup_self h1, rfl⟩
  | inside st _ _ _ => simp at h
  | keep st _ _ _ _ => simp at h
  | bad st e _ _ _ _ _ => exact nomatch h
  | push st src _ _ _ _ _ _ _ =>
    exact ⟨_, markStopped_lookup_self (saved_lookup_self p s tid st cost metric), rfl⟩

example : (step W.p (run W.p State.init (W.hMaxT.take 6)) (.result 0 4 6 none none)).2 = .decision .stop none := by
  decide +kernel

/-- **Stopped stays stopped**, along every continuation that does not `add` the same trial id
again (`on_trial_add` overwrites the record; the tuner never reuses an id). -/
theorem stopped_stays_stopped (p : Params) (s : State) (t : Nat) (h : IsStopped s t) (ops : List Op)
    (hops : ∀ op ∈ ops, op ≠ .add t) : IsStopped (run p s ops) t := run_stopped h ops hops

/-- **A stopped trial is never pushed as clone source**: `_quantiles` skips stopped trials. -/
theorem stopped_never_pushed (p : Params) (s : State) (hw : WF s) (t : Nat) (h : IsStopped s t) (op : Op) :
    ¬ Pushes p s op t := by
  intro hp
  obtain ⟨v, hv⟩ := push_source_alive_before hw hp
  exact not_both h hv.notStopped

/-- **After STOP, never a source again — every history.**  If a `result` of trial `t` is
answered STOP after the history `pre`, then whatever follows (`mid`, not re-adding the id `t`),
no later operation pushes `t` as clone source. -/
theorem never_pushed_after_stop (p : Params) (pre mid : List Op) (t : Nat) (cost metric : Rat)
    (pick : Option Nat) (kh : Option Int) (q : Option (List Nat × List Nat))
    (h : (step p (run p State.init pre) (.result t cost metric pick kh)).2 = .decision .stop q)
    (hmid : ∀ op ∈ mid, op ≠ .add t) (op : Op) :
    ¬ Pushes p (run p State.init (pre ++ .result t cost metric pick kh :: mid)) op t := by
  apply stopped_never_pushed p _ (run_wf p _)
  rw [run_append, run_cons]
  exact run_stopped (stop_marks_stopped p _ t cost metric pick kh q h) mid hmid

example : (step W.p (run W.p State.init (W.hMaxT.take 5)) (.result 1 1 3 (some 0) none)).2
    = .decision .stop (some ([1], [0])) ∧ ∀ op ∈ [Op.result 0 4 6 none none, Op.suggest], op ≠ .add 1 := by
  constructor <;> decide +kernel

/-! ### the gap: the source can be stopped between push and pop -/

/-- **Known gap (open finding `c20:pbt-source-checkpoint-deleted`), `max_t` variant.**
History `W.hMaxT` (`max_t = 4`, interval 1, fraction 1/2, mode max, two trials): the 6th
operation — trial 1 reports 3 against trial 0's 5 — is answered STOP and pushes "clone from
trial 0" while trial 0 is alive; the 7th — trial 0 reports at resource 4 = `max_t` — is
answered STOP (with checkpoint removal on, the backend deletes trial 0's checkpoint now); the
8th, `suggest`, pops the entry: start a new trial from the checkpoint of trial 0, which is
marked stopped. -/
theorem pbt_source_may_be_stopped_before_pop_counterexample :
    Pushes W.p (run W.p State.init (W.hMaxT.take 5)) (.result 1 1 3 (some 0) none) 0 ∧
    NotStopped (run W.p State.init (W.hMaxT.take 6)) 0 ∧
    (step W.p (run W.p State.init (W.hMaxT.take 6)) (.result 0 4 6 none none)).2 = .decision .stop none ∧
    IsStopped (run W.p State.init (W.hMaxT.take 7)) 0 ∧
    (step W.p (run W.p State.init (W.hMaxT.take 7)) .suggest).2 = .clone 0 := by
  refine ⟨by unfold Pushes; decide +kernel,
    ⟨{ lastScore := some 5, lastPert := 3, stopped := false }, by decide +kernel, rfl⟩,
    by decide +kernel,
    ⟨{ lastScore := some 5, lastPert := 3, stopped := true }, by decide +kernel, rfl⟩,
    by decide +kernel⟩

/-- the history of the witness is the prefix used above followed by the three operations -/
example : W.hMaxT = W.hMaxT.take 5 ++ [.result 1 1 3 (some 0) none, .result 0 4 6 none none, .suggest] := by
  decide +kernel

/-- **Known gap, lower-quantile variant.**  History `W.hLower` (three trials): trial 1 is
stopped and "clone from trial 2" (the best) is pushed; before any `suggest`, trial 2 reports a
bad value, is now the worst of the two live candidates, is answered STOP itself (and pushes
"clone from trial 0"); the first `suggest` pops "clone from 0", the second pops "clone from 2" —
a trial stopped by PBT's own exploit step. -/
theorem pbt_source_in_lower_quantile_before_pop_counterexample :
    Pushes W.p (run W.p State.init (W.hLower.take 8)) (.result 1 1 3 (some 2) none) 2 ∧
    NotStopped (run W.p State.init (W.hLower.take 9)) 2 ∧
    (step W.p (run W.p State.init (W.hLower.take 9)) (.result 2 2 1 (some 0) none)).2
      = .decision .stop (some ([2], [0])) ∧
    IsStopped (run W.p State.init (W.hLower.take 12)) 2 ∧
    (step W.p (run W.p State.init (W.hLower.take 12)) .suggest).2 = .clone 2 := by
  refine ⟨by unfold Pushes; decide +kernel,
    ⟨{ lastScore := some 9, lastPert := 1, stopped := false }, by decide +kernel, rfl⟩,
    by decide +kernel,
    ⟨{ lastScore := some 1, lastPert := 2, stopped := true }, by decide +kernel, rfl⟩,
    by decide +kernel⟩

example : W.hLower = W.hLower.take 8 ++
    [.result 1 1 3 (some 2) none, .result 2 2 1 (some 0) none, .suggest, .add 3, .suggest] := by decide +kernel

/-- **Positive part (`_partial`): no result of the source between push and pop ⇒ the source is
not stopped.**  If the operation after history `pre` pushes "clone from `src`" and none of the
operations `mid` that follow is a result reported by `src`, then `src` is not marked stopped
after `pre ++ op :: mid` — in particular at the `suggest` that pops the entry, whenever that is.
Results of OTHER trials, further pushes and pops, failures, removals may all happen in `mid`.
Without the hypothesis the statement is false: the two counterexamples above. -/
theorem source_alive_at_pop_partial (p : Params) (pre mid : List Op) (op : Op) (src : Nat)
    (hpush : Pushes p (run p State.init pre) op src)
    (hmid : ∀ o ∈ mid, isResultOf src o = false) :
    NotStopped (run p State.init (pre ++ op :: mid)) src := by
  rw [run_append, run_cons]
  apply run_notStopped _ mid hmid
  obtain ⟨v, st', h1, h2, _⟩ := push_source_alive_before (run_wf p pre) hpush
  obtain ⟨tid, cost, metric, kh, st, hop, _, _, _, _, _, hne, _⟩ := pushes_spec hpush
  subst hop
  exact ⟨st', by
    show alookup src (onResult p (run p State.init pre) tid cost metric (some src) kh).1.trials = _
    rw [onResult_frame p _ hne]; exact h1, h2⟩

/-- the hypotheses hold on the first witness with two operations of another trial in between -/
example : NotStopped (run W.p State.init
    (W.hMaxT.take 5 ++ .result 1 1 3 (some 0) none :: [.suggest, .add 2, .result 2 1 7 none none])) 0 :=
  source_alive_at_pop_partial W.p _ _ _ 0 (by unfold Pushes; decide +kernel) (by decide +kernel)

/-- what the counterexample breaks is exactly that hypothesis -/
example : isResultOf 0 (.result 0 4 6 none none) = true := rfl

/-! ### forced decisions -/

/-- **STOP at `max_t`**: a result of a known trial with `cost ≥ max_t` is answered STOP, the
trial is marked stopped, nothing else changes (no score saved, no quantiles, no push). -/
theorem stop_at_max_t (p : Params) (s : State) (tid : Nat) (st : TState) (cost metric : Rat)
    (pick : Option Nat) (kh : Option Int) (hk : alookup tid s.trials = some st) (hc : p.maxT ≤ cost) :
    step p s (.result tid cost metric pick kh) = (markStopped s tid, .decision .stop none) ∧
    IsStopped (markStopped s tid) tid ∧ (markStopped s tid).stack = s.stack := by
  refine ⟨?_, ⟨_, markStopped_lookup_self hk, rfl⟩, markStopped_stack s tid⟩
  show onResult p s tid cost metric pick kh = _
  unfold onResult
  simp only [hk, hc, if_true]

example : alookup 0 (run W.p State.init (W.hMaxT.take 6)).trials
    = some { lastScore := some 5, lastPert := 3, stopped := false } ∧ W.p.maxT ≤ 4 := by
  constructor <;> decide +kernel

/-- **CONTINUE strictly inside the perturbation interval**: below `max_t` and with
`cost - last_perturbation_time < perturbation_interval` the answer is CONTINUE and the state
does not change at all. -/
theorem continue_inside_interval (p : Params) (s : State) (tid : Nat) (st : TState) (cost metric : Rat)
    (pick : Option Nat) (kh : Option Int) (hk : alookup tid s.trials = some st) (hc : cost < p.maxT)
    (hi : cost - st.lastPert < p.interval) :
    step p s (.result tid cost metric pick kh) = (s, .decision .continue none) := by
  show onResult p s tid cost metric pick kh = _
  unfold onResult
  simp only [hk, not_le.mpr hc, if_false, hi, if_true]

example : alookup 0 (run W.p State.init (W.hMaxT.take 5)).trials
    = some { lastScore := some 5, lastPert := 3, stopped := false } ∧ (7/2 : Rat) < W.p.maxT ∧
    (7/2 : Rat) - 3 < W.p.interval := by
  refine ⟨by decide +kernel, by decide +kernel, by decide +kernel⟩

/-- **Below `max_t`, STOP happens only by the exploit step**: a STOP at `cost < max_t` means the
trial was in the lower quantile and a clone decision for the supplied pick was pushed. -/
theorem stop_below_max_t_only_from_lower_quantile (p : Params) (s : State) (tid : Nat) (cost metric : Rat)
    (pick : Option Nat) (kh : Option Int) (q : Option (List Nat × List Nat)) (hc : cost < p.maxT)
    (h : (step p s (.result tid cost metric pick kh)).2 = .decision .stop q) :
    ∃ src, pick = some src ∧ Pushes p s (.result tid cost metric pick kh) src := by
  unfold Pushes
  change (onResult p s tid cost metric pick kh).2 = _ at h
  show ∃ src, _ ∧ (onResult p s tid cost metric pick kh).1.stack = _
  have hcs := onResult_cases p s tid cost metric pick kh
  generalize onResult p s tid cost metric pick kh = r at h hcs
  cases hcs with
  | unknown _ => exact nomatch h
  | maxT st _ hc' => exact absurd hc' (not_le.mpr hc)
  | inside st _ _ _ => simp at h
  | keep st _ _ _ _ => simp at h
  | bad st e _ _ _ _ _ => exact nomatch h
  | push st src _ _ _ _ hp _ _ => exact ⟨src, hp, rfl⟩

/-- **The random pick only names the source.**  Two admissible picks (both calls answered with a
decision, not rejected) give the same decision, the same quantiles and the same trial records;
the stacks are equal, or differ exactly in the entry pushed. -/
theorem pick_only_names_the_source (p : Params) (s : State) (tid : Nat) (cost metric : Rat) (a b : Nat)
    (kh : Option Int) (da db : Decision) (qa qb : Option (List Nat × List Nat))
    (ha : (step p s (.result tid cost metric (some a) kh)).2 = .decision da qa)
    (hb : (step p s (.result tid cost metric (some b) kh)).2 = .decision db qb) :
    da = db ∧ qa = qb ∧
    (step p s (.result tid cost metric (some a) kh)).1.trials = (step p s (.result tid cost metric (some b) kh)).1.trials ∧
    ((step p s (.result tid cost metric (some a) kh)).1.stack = (step p s (.result tid cost metric (some b) kh)).1.stack ∨
     ((step p s (.result tid cost metric (some a) kh)).1.stack = a :: s.stack ∧
      (step p s (.result tid cost metric (some b) kh)).1.stack = b :: s.stack)) := by
  change (onResult p s tid cost metric (some a) kh).2 = _ at ha
  change (onResult p s tid cost metric (some b) kh).2 = _ at hb
  show _ ∧ _ ∧ (onResult p s tid cost metric (some a) kh).1.trials = (onResult p s tid cost metric (some b) kh).1.trials ∧
    ((onResult p s tid cost metric (some a) kh).1.stack = (onResult p s tid cost metric (some b) kh).1.stack ∨
     ((onResult p s tid cost metric (some a) kh).1.stack = _ ∧ (onResult p s tid cost metric (some b) kh).1.stack = _))
  have hca := onResult_cases p s tid cost metric (some a) kh
  have hcb := onResult_cases p s tid cost metric (some b) kh
  generalize onResult p s tid cost metric (some a) kh = ra at ha hca
  generalize onResult p s tid cost metric (some b) kh = rb at hb hcb
  cases hca with
  | unknown _ => exact nomatch ha
  | bad st e _ _ _ _ _ => exact nomatch ha
  | maxT st h1 h2 =>
    cases hcb with
    | unknown _ => exact nomatch hb
    | bad st' e _ _ _ _ _ => exact nomatch hb
    | maxT st' _ _ => simp_all
    | inside st' _ h3 _ => exact absurd h2 h3
    | keep st' _ h3 _ _ => exact absurd h2 h3
    | push st' src _ h3 _ _ _ _ _ => exact absurd h2 h3
  | inside st h1 h2 h3 =>
    cases hcb with
    | unknown _ => exact nomatch hb
    | bad st' e _ _ _ _ _ => exact nomatch hb
    | maxT st' _ h4 => exact absurd h4 h2
    | inside st' _ _ _ => simp_all
    | keep st' h4 _ h5 _ => rw [h1] at h4; cases h4; exact absurd h3 h5
    | push st' src h4 _ h5 _ _ _ _ => rw [h1] at h4; cases h4; exact absurd h3 h5
  | keep st h1 h2 h3 h4 =>
    cases hcb with
    | unknown _ => exact nomatch hb
    | bad st' e _ _ _ _ _ => exact nomatch hb
    | maxT st' _ h5 => exact absurd h5 h2
    | inside st' h5 _ h6 => rw [h1] at h5; cases h5; exact absurd h6 h3
    | keep st' h5 _ _ _ => rw [h1] at h5; cases h5; simp_all
    | push st' src h5 _ _ h6 _ _ _ => rw [h1] at h5; cases h5; exact absurd h6 h4
  | push st src h1 h2 h3 h4 h5 h6 h7 =>
    cases hcb with
    | unknown _ => exact nomatch hb
    | bad st' e _ _ _ _ _ => exact nomatch hb
    | maxT st' _ h8 => exact absurd h8 h2
    | inside st' h8 _ h9 => rw [h1] at h8; cases h8; exact absurd h9 h3
    | keep st' h8 _ _ h9 => rw [h1] at h8; cases h8; exact absurd h4 h9
    | push st' src' h8 _ _ _ h9 _ _ =>
      rw [h1] at h8; cases h8
      cases h5; cases h9
      simp only [Out.decision.injEq] at ha hb
      exact ⟨ha.1.symm.trans hb.1, ha.2.symm.trans hb.2, rfl, Or.inr ⟨rfl, rfl⟩⟩

example : (step W.p (run W.p State.init (W.hLower.take 8)) (.result 1 1 3 (some 2) none)).2
    = .decision .stop (some ([1], [2])) := by decide +kernel

/-- **No pick needed, none used**: when the call without a pick is answered with a decision
(the trial is not in the lower quantile, or the call ends before `_quantiles`), a supplied pick
changes nothing — state and answer are the same. -/
theorem pick_ignored_outside_lower_quantile (p : Params) (s : State) (tid : Nat) (cost metric : Rat)
    (pick : Option Nat) (kh : Option Int) (d : Decision) (q : Option (List Nat × List Nat))
    (h : (step p s (.result tid cost metric none kh)).2 = .decision d q) :
    step p s (.result tid cost metric pick kh) = step p s (.result tid cost metric none kh) := by
  change (onResult p s tid cost metric none kh).2 = _ at h
  show onResult p s tid cost metric pick kh = onResult p s tid cost metric none kh
  unfold onResult at h ⊢
  rcases hk : alookup tid s.trials with _ | st
  · rfl
  · rw [hk] at h
    simp only at h ⊢
    by_cases hc : p.maxT ≤ cost
    · simp only [hc, if_true]
    · simp only [hc, if_false] at h ⊢
      by_cases hi : cost - st.lastPert < p.interval
      · simp only [hi, if_true]
      · simp only [hi, if_false] at h ⊢
        by_cases hl : tid ∈ (quantiles p (saved p s tid st cost metric) kh).1
        · simp only [hl, if_true] at h
          exact nomatch h
        · simp only [hl, if_false]

example : (step W.p (run W.p State.init (W.hLower.take 7)) (.result 2 1 9 none none)).2
    = .decision .continue (some ([0], [2])) := by decide +kernel

/-- **`on_trial_error`, `on_trial_remove`, `on_trial_complete` do not touch PBT's state**: a failed,
removed or completed trial keeps its record (and, unless it was answered STOP, remains a
candidate for the quantiles). -/
theorem bookkeeping_ops_are_noops (p : Params) (s : State) (t : Nat) :
    step p s (.error t) = (s, .done) ∧ step p s (.remove t) = (s, .done) ∧ step p s (.complete t) = (s, .done) :=
  ⟨rfl, rfl, rfl⟩

/-! ### C15: minimising f and maximising −f are the same experiment -/

/-- **One step of the mirrored experiment equals one step of the original**: with the mode flipped
and the reported metric negated (same cost, same pick, same round-off hint) the answer and the
new state are IDENTICAL — the state stores `_metric_op * metric`, which is the same number in both
experiments. -/
theorem step_symm (p : Params) (s : State) (op : Op) : step (negParams p) s (negOp op) = step p s op :=
  step_symm' p s op

/-- **C15 for the whole PBT scheduler, every history**: same final state. -/
theorem run_symm (p : Params) (s : State) (ops : List Op) :
    run (negParams p) s (ops.map negOp) = run p s ops := by
  induction ops generalizing s with
  | nil => rfl
  | cons op ops ih =>
    show run (negParams p) (step (negParams p) s (negOp op)).1 (ops.map negOp) = run p (step p s op).1 ops
    rw [step_symm, ih]

/-- **… and the same answers** (decisions, quantiles, clone sources, errors), every history. -/
theorem outs_symm (p : Params) (s : State) (ops : List Op) :
    outs (negParams p) s (ops.map negOp) = outs p s ops := by
  induction ops generalizing s with
  | nil => rfl
  | cons op ops ih =>
    show (step (negParams p) s (negOp op)).2 :: outs (negParams p) (step (negParams p) s (negOp op)).1 (ops.map negOp)
      = (step p s op).2 :: outs p (step p s op).1 ops
    rw [step_symm, ih]

example : (negParams W.p).mode = .min ∧
    negOp (.result 1 1 3 (some 0) none) = .result 1 1 (-3) (some 0) none := ⟨rfl, by decide +kernel⟩

example : outs (negParams W.p) State.init (W.hLower.map negOp) = outs W.p State.init W.hLower := by decide +kernel

end SyneTune.C20Pbt
