import SyneTune.Lemmas.RandomRestrictClone
/-
C16 for the random searcher WITH `restrict_configurations` — a saved and restored searcher
continues exactly like the original (`get_state` / `clone_from_state`), including the
states in which the remaining list is empty.
Property theorems only; helper lemmas are in `Lemmas/RandomRestrict{,Run,Clone}.lean`.
Model: `Model/RandomRestrict.lean`.

As in `C16`: the generator is an input tape shared by the original and the clone, the state
holds the position on it; the order in which the snapshot lists the set of match strings is
an arbitrary permutation `order`.  The snapshot is taken between two calls (any point of
any history); the clone is built by `clone_from_state` on ANY searcher object (the fresh
`RandomSearcher` it creates has no list and takes every mutable field from the snapshot).
-/
namespace SyneTune.C16R
open SyneTune SyneTune.Srch

/-- **Random searcher with `restrict_configurations`.**  Take the snapshot at ANY point of
ANY history (`pre`) from the constructor, listing the exclusion set in ANY order, and
re-create the searcher from it (code after the fixes dc67087 / 4e9ab8a).  The clone exists,
holds the same remaining list as the original — an emptied list stays the empty list — and,
for EVERY continuation `ops` and all draws, returns exactly the outputs — or raises exactly
the error — of the searcher that was never interrupted. -/
theorem random_restricted (imm : RImm) (dc : Nat → Config) (di : Nat → Nat) (init l : List Config)
    (w : World) (hc : construct imm init (some l) = .ok w) (pre : List ROp) (s : XState)
    (outs0 : List (Option Config)) (hpre : XState.run imm dc di w.s pre = .ok (s, outs0))
    (keys order : List String) (hord : order.Perm s.base.excl) (ops : List ROp) :
    ∃ t, XState.clone imm (s.getState imm keys order) = .ok t ∧ XState.Equiv imm s t ∧ t.rc = s.rc ∧
      (XState.run imm dc di t ops).map Prod.snd = (XState.run imm dc di s ops).map Prod.snd := by
  obtain ⟨_, _, _, hpos, mss, rc, _, hrc, _, hbase, _, _⟩ := construct_spec imm init l w hc
  have hn : s.base.excl.Nodup :=
    xrun_excl_nodup imm dc di pre w.s s rc outs0 hpre hrc hpos (by rw [hbase]; simp [RState.init])
  obtain ⟨_, hpos', _, _⟩ := xrun_members imm dc di pre w.s s rc outs0 hpre hrc hpos
  obtain ⟨t, hcl, he, hrc'⟩ := xclone_equiv imm s keys order hn hord hpos'
  exact ⟨t, hcl, he, hrc', outputs_of_relX imm _ _ (xrun_equiv imm dc di ops s t he)⟩

/-- equivalent states (equal up to the representation of the exclusion set; same list, same
marked positions) are indistinguishable by any continuation: a bisimulation — with or
without a list -/
theorem restricted_bisimulation (imm : RImm) (dc : Nat → Config) (di : Nat → Nat) (s t : XState)
    (he : XState.Equiv imm s t) (ops : List ROp) :
    RelX imm (XState.run imm dc di s ops) (XState.run imm dc di t ops) :=
  xrun_equiv imm dc di ops s t he

/-- **`get_state` / `clone_from_state` keep `None`, `[]` and a longer list apart.**  The
snapshot carries the list exactly as it is (the key is present iff the list is not `None`),
and whatever snapshot is restored, the restored searcher holds the snapshot's list and an
empty `_rc_returned_pos`.  In particular an emptied list round-trips as the empty list. -/
theorem empty_list_roundtrip (imm : RImm) (s : XState) (keys order : List String) :
    (s.getState imm keys order).rc = s.rc ∧
    (∀ (snap : XSnap) (t : XState), XState.clone imm snap = .ok t → t.rc = snap.rc ∧ t.pos = []) ∧
    (s.rc = some [] → ∀ t, XState.clone imm (s.getState imm keys order) = .ok t → t.rc = some []) := by
  have h2 : ∀ (snap : XSnap) (t : XState), XState.clone imm snap = .ok t → t.rc = snap.rc ∧ t.pos = [] := by
    intro snap t h
    unfold XState.clone at h
    cases hb : RState.clone imm snap.base with
    | error e => simp [hb] at h
    | ok b =>
      simp only [hb] at h
      injection h with h; subst h
      exact ⟨rfl, rfl⟩
  refine ⟨rfl, h2, ?_⟩
  intro hs t ht
  rw [(h2 _ t ht).1]
  exact hs

/-- **A used-up searcher stays used up.**  With the list emptied (`[]`, not `None`) and no
initial configuration left, every later `get_config` answers `None`, whatever else happens
— for the original and, by `random_restricted`, for every clone. -/
theorem used_up_answers_none (imm : RImm) (dc : Nat → Config) (di : Nat → Nat) (s s' : XState)
    (ops : List ROp) (outs : List (Option Config)) (h : XState.run imm dc di s ops = .ok (s', outs))
    (hrc : s.rc = some []) (hpos : s.pos = []) (hp : s.base.p2e = []) :
    (∀ o ∈ outs, o = none) ∧ s'.rc = some [] :=
  xrun_used_up imm dc di ops s s' outs h hrc hpos hp

def exMk : MK := fun c => match cget "x" c with
  | some (.int 0) => .ok "0"
  | some (.int 1) => .ok "1"
  | some (.int 2) => .ok "2"
  | _ => .error (.keyError "x")

def cfg (i : Int) : Config := [("x", .int i)]

def exImm : RImm := { mkf := exMk, allowDup := false, maxRetries := 100, size := some 3, debugLog := false }

/-- the searcher restricted to `[x=1]` after its only configuration has been suggested -/
def usedUp : XState :=
  { base := { p2e := [], excl := ["1"], cfgFor := [], rng := 1 }, rc := some [], pos := [] }

/-- **A snapshot that maps `[]` to "no restriction" (seed C16-b1)** on the model: the state
`usedUp` is reached from the constructor by one `get_config`; the original answers `None`
from then on; a clone restored from a snapshot that drops the emptied list
(`getStateTruthy`: `if self._restrict_configurations:`) has no list and suggests `x=0`,
which the caller never allowed; the clone of the real snapshot answers `None`.  The twin
monitor of `c16.py` reports the former as `c16:random-clone-diverges`, the correspondence
stream as a disagreement on `rc_kind`. -/
theorem empty_list_dropped_counterexample :
    ((construct exImm [] (some [cfg 1])).toOption.bind fun w =>
        (XState.run exImm (fun _ => cfg 0) (fun _ => 0) w.s [.get]).toOption) = some (usedUp, [some (cfg 1)]) ∧
    (XState.run exImm (fun _ => cfg 0) (fun _ => 0) usedUp [.get, .get]).toOption.map Prod.snd = some [none, none] ∧
    ((XState.clone exImm (usedUp.getStateTruthy exImm ["x"] ["1"])).toOption.map fun t => t.rc) = some none ∧
    ((XState.clone exImm (usedUp.getStateTruthy exImm ["x"] ["1"])).toOption.bind fun t =>
        ((XState.run exImm (fun _ => cfg 0) (fun _ => 0) t [.get, .get]).toOption.map Prod.snd)) =
      some [some (cfg 0), none] ∧
    ((XState.clone exImm (usedUp.getState exImm ["x"] ["1"])).toOption.bind fun t =>
        ((XState.run exImm (fun _ => cfg 0) (fun _ => 0) t [.get, .get]).toOption.map Prod.snd)) =
      some [none, none] := by
  refine ⟨by decide +kernel, by decide +kernel, by decide +kernel, by decide +kernel, by decide +kernel⟩

/-- **Failed trials never shorten the list.**  `register_pending`, `evaluation_failed` and
result updates leave `_restrict_configurations` and `_rc_returned_pos` untouched — with
`allow_duplicates = True` the configuration of a failed trial enters the exclusion set but
stays in the list (it is skipped by the retry loop).  So the list in a snapshot is the
constructor's list minus what `get_config` popped, whatever failed in between; and
`random_restricted` holds for `allow_duplicates = True` with failed trials before and after
the snapshot (`imm` and the histories are arbitrary there). -/
theorem failures_keep_list (imm : RImm) (dc : Nat → Config) (di : Nat → Nat) (s s' : XState) (op : ROp)
    (o : Option (Option Config)) (hop : op ≠ .get) (h : XState.step imm dc di s op = .ok (s', o)) :
    s'.rc = s.rc ∧ s'.pos = s.pos ∧ o = none := by
  obtain ⟨a, b, c, _⟩ := xstep_other imm dc di s s' op o hop h
  exact ⟨b, c, a⟩

def exImmDup : RImm := { exImm with allowDup := true }

/-- `allow_duplicates = True`, list `[x=0, x=1, x=2]`, the trial that was given `x=0` has failed -/
def afterFailure : XState :=
  { base := { p2e := [], excl := ["0"], cfgFor := [(0, cfg 0)], rng := 1 }, rc := some [cfg 0, cfg 1, cfg 2], pos := [] }

/-- **A restore that filters the list by the exclusion set** ("cannot be suggested anymore";
seeded change) on the model: `afterFailure` is reached from the constructor by suggest /
pending / failed; the next draw is position 1: the original (whose list still holds the
failed `x=0`) suggests `x=1`, and so does the real clone; the filtering clone holds
`[x=1, x=2]` and suggests `x=2`.  The correspondence stream reports this as a disagreement
on the restored list, the twin monitor as `c16:random-clone-diverges`. -/
theorem filtered_restore_counterexample :
    ((construct exImmDup [] (some [cfg 0, cfg 1, cfg 2])).toOption.bind fun w =>
        (XState.run exImmDup (fun _ => []) (fun i => if i = 0 then 0 else 1) w.s
          [.get, .pending 0 (some (cfg 0)), .failed 0]).toOption.map Prod.fst) = some afterFailure ∧
    (XState.run exImmDup (fun _ => []) (fun i => if i = 0 then 0 else 1) afterFailure [.get]).toOption.map Prod.snd =
      some [some (cfg 1)] ∧
    ((XState.clone exImmDup (afterFailure.getState exImmDup ["x"] ["0"])).toOption.bind fun t =>
        ((XState.run exImmDup (fun _ => []) (fun i => if i = 0 then 0 else 1) t [.get]).toOption.map Prod.snd)) =
      some [some (cfg 1)] ∧
    ((XState.cloneFiltered exImmDup (afterFailure.getState exImmDup ["x"] ["0"])).toOption.map fun t => t.rc) =
      some (some [cfg 1, cfg 2]) ∧
    ((XState.cloneFiltered exImmDup (afterFailure.getState exImmDup ["x"] ["0"])).toOption.bind fun t =>
        ((XState.run exImmDup (fun _ => []) (fun i => if i = 0 then 0 else 1) t [.get]).toOption.map Prod.snd)) =
      some [some (cfg 2)] := by
  refine ⟨by decide +kernel, by decide +kernel, by decide +kernel, by decide +kernel, by decide +kernel⟩

/-! ### non-vacuity -/

/-- a history with initial configuration, pending and failed trials after which list,
exclusion set, trial map and generator position are all non-trivial (hypothesis `hpre` of
`random_restricted`, `allow_duplicates = True`); the snapshot may list the set as `["0"]` -/
def exPre : Option (XState × List (Option Config)) :=
  (construct exImmDup [cfg 1, cfg 2] (some [cfg 0, cfg 1])).toOption.bind fun w =>
    (XState.run exImmDup (fun _ => []) (fun _ => 0) w.s
      [.get, .pending 0 (some (cfg 1)), .get, .pending 1 (some (cfg 0)), .failed 1]).toOption

example :
    exPre.map (fun r => r.1.base) =
      some { p2e := [], excl := ["0"], cfgFor := [(0, cfg 1), (1, cfg 0)], rng := 1 } ∧
    exPre.map (fun r => (r.1.rc, r.1.pos)) = some (some [cfg 0, cfg 1], []) ∧
    exPre.map (fun r => r.2) = some [some (cfg 1), some (cfg 0)] := by
  refine ⟨by decide +kernel, by decide +kernel, by decide +kernel⟩

/-- `allow_duplicates = False`: a snapshot in the middle (list `[x=2]` left), and one with
the list used up; clone and original continue alike (instances of `random_restricted`) -/
def exMid : XState :=
  { base := { p2e := [], excl := ["1", "0"], cfgFor := [], rng := 1 }, rc := some [cfg 2], pos := [] }

example :
    ((construct exImm [cfg 0] (some [cfg 0, cfg 1, cfg 2])).toOption.bind fun w =>
        (XState.run exImm (fun _ => []) (fun _ => 0) w.s [.get, .get]).toOption.map Prod.fst) = some exMid ∧
    ((XState.clone exImm (exMid.getState exImm ["x"] ["0", "1"])).toOption.bind fun t =>
        ((XState.run exImm (fun _ => []) (fun _ => 0) t [.get, .get]).toOption.map Prod.snd)) =
      some [some (cfg 2), none] ∧
    (XState.run exImm (fun _ => []) (fun _ => 0) exMid [.get, .get]).toOption.map Prod.snd =
      some [some (cfg 2), none] := by
  refine ⟨by decide +kernel, by decide +kernel, by decide +kernel⟩

example : (["0", "1"] : List String).Perm ["1", "0"] := List.Perm.swap "1" "0" []

end SyneTune.C16R
