import SyneTune.Lemmas.TunerBudget
import SyneTune.Lemmas.TunerIds
import SyneTune.Lemmas.TunerLife
import SyneTune.Lemmas.TunerNotify
import SyneTune.Lemmas.TunerPolled
import SyneTune.Lemmas.TunerWitness
/-
C01 — worker budget and legal trial life cycle in every tuning run.
Property theorems only.  Model: `Model/Tuner.lean` (the tuning loop as a machine that calls
its environment and is answered by it), helper lemmas: `Lemmas/Tuner*.lean`.

All theorems quantify over ALL sequences `as : List Ans` of environment answers (poll
outcomes, scheduler decisions and suggestions, busy lists, clock readings, exceptions at any
call); `run (init c) as` is the state of `Tuner.run()` after these answers.
The contracts on the environment are explicit hypotheses:
* `BOk` (backend, contract B): a poll answers with one status per trial, only for trials that
  were asked for, and never reports `paused` for a running trial;
* `KOk` (scheduler, contract K): `resume(id)` is only suggested for a trial whose run this
  scheduler ended with PAUSE and which was not resumed / reported failed since;
* `NCOk`: no STOP / PAUSE decision on a result of a trial that the same poll reports as failed
  (no PAUSE for one reported as stopped from outside) — see `notify_end_clash_counterexample`;
* `RebindOk`: the answer of `busy_trial_ids` is never shorter than the loop's running set (always
  true with `start_jobs_without_delay=True`, where the question is not asked) — see
  `notify_polled_counterexample` (F15).
The witnesses of the counterexamples are in `Lemmas/TunerWitnessData.lean`; the check replays them
on the real `Tuner`.
-/
namespace SyneTune.C01
open SyneTune SyneTune.Tuner

/-- **Worker budget.** In every reachable state — for every scheduler, backend, answer
sequence and exception placement, with no contract at all — the running set is duplicate
free and holds at most `n_workers` trials; the `assert len(running_trials_ids) <= n_workers`
of `_process_new_results` never fires. -/
theorem budget (c : Cfg) (as : List Ans) :
    (run (init c) as).running.Nodup ∧ (run (init c) as).running.length ≤ c.nWorkers ∧
    (run (init c) as).err ≠ some .assertion := by
  have h := run_inv (Inv := BudgetInv) budget_step as (init c) (budget_init c)
  have hc := run_cfg (init c) as
  exact ⟨h.1.nodup, by have := h.1.le; rw [hc] at this; exact this, h.1.noAssert⟩

/-- **Trial ids.** The k-th `start_trial` command of a run carries id `k`: ids are issued in
sequence, never reused (a `resume_trial` does not take one). -/
theorem ids (c : Cfg) (as : List Ans) :
    startIds (run (init c) as).log = List.range (startIds (run (init c) as).log).length :=
  (run_inv (Inv := IdsInv) IdsInv_step as (init c) (IdsInv_init c)).ids

/-- the id handed to `scheduler.suggest` and used by the next `start_trial` is the number of
trials started so far -/
theorem ids_next (c : Cfg) (as : List Ans) (h : finPc (run (init c) as).pc = false) :
    (startIds (run (init c) as).log).length = (run (init c) as).nStarted + startPend (run (init c) as).pc :=
  (run_inv (Inv := IdsInv) IdsInv_step as (init c) (IdsInv_init c)).cnt h

/-- **Life cycle.** Under the contracts B and K every step of the loop moves the status it
records for a trial (`tuning_status.last_trial_status_seen`) along a legal edge only:
new → in progress; in progress / stopping → anything; paused → in progress (resume) or paused;
stopped, completed, failed never change again. -/
theorem lifecycle (c : Cfg) (as : List Ans) (a : Ans)
    (hB : Along BOk (init c) as) (hK : Along KOk (init c) as) (t : Nat) :
    Edge (alookup t (run (init c) as).status.last) (alookup t (run (init c) (as ++ [a])).status.last) := by
  obtain ⟨hS, hI⟩ := SK_run c as hB hK
  rw [run_append]
  show Edge _ (alookup t (step (run (init c) as) a).status.last)
  have : (step (run (init c) as) a).status = (next (run (init c) as) a).status := by
    rw [step_eq]; split <;> rfl
  rw [this]
  exact edge_next _ a hS hI t

/-- **Only a paused trial is resumed.** Under B and K, whenever `backend.resume_trial(id)` is
the pending call, the backend status of `id` (as far as the loop's commands and the polls
tell) is `paused`: the `assert trial.status == Status.paused` of `resume_trial` cannot fire.
Also: the loop's record of the trial says `paused` and the trial is not in the running set. -/
theorem resume_only_paused (c : Cfg) (as : List Ans)
    (hB : Along BOk (init c) as) (hK : Along KOk (init c) as) (h : (run (init c) as).pc = .resumeCmd) :
    pending (run (init c) as) = .resume (run (init c) as).sId (run (init c) as).sRCfg ∧
    alookup (run (init c) as).sId (run (init c) as).bst = some .paused ∧
    alookup (run (init c) as).sId (run (init c) as).status.last = some .paused ∧
    (run (init c) as).sId ∉ (run (init c) as).running := by
  obtain ⟨_, hI⟩ := SK_run c as hB hK
  have hb := hI (by rw [h]; rfl)
  have hpz := hb.rg.regResume h
  have hnu : updPc (run (init c) as).pc = false := by rw [h]; rfl
  refine ⟨by unfold pending; rw [h], hb.bs.pausedBst _ hpz, ?_, ?_⟩
  · rcases hb.ls.pausedSt _ hpz with h1 | h1
    · rw [h1.1] at hnu; cases hnu
    · exact h1.2
  · rcases hb.lv.pausedRun _ hpz with h1 | h1
    · exact h1
    · rw [h1.1] at hnu; cases hnu

/-- **Notifications (safety part), partial.** Under B, K and the no-end-clash hypothesis, whenever
a scheduler callback is the pending call the trial's run is open for the scheduler:
`on_trial_result`, `on_trial_remove`, `on_trial_complete`, `on_trial_error` are only called for
a trial whose run was opened (`on_trial_add` returned / it was resumed) and not yet closed by
one of remove / complete / error; `on_trial_add` is only called for a trial the scheduler has
never heard of.  So each run gets add-or-resume, then results, then exactly one end.
Full statement (without `hN`) is false: `notify_end_clash_counterexample`. -/
theorem notify_partial (c : Cfg) (as : List Ans)
    (hB : Along BOk (init c) as) (hK : Along KOk (init c) as) (hN : Along NCOk (init c) as) :
    NotifyOK (run (init c) as) := by
  obtain ⟨hS, hI, hD⟩ := SKD_run c as hB hK hN
  exact notifyOK_of_inv hS hI hD

/-- **Notifications (completeness part), partial.** If the local `running_trials_ids` of
`_schedule_new_tasks` is never rebound (`RebindOk`), then at every poll every trial whose run
is open for the scheduler (started or resumed, end not yet notified) is among the trials
polled: `fetch_status_results` is called with the running set and that set holds all of them.
So its results, and its end, reach the scheduler as soon as the backend reports them.
Full statement (without `hR`) is false: `notify_polled_counterexample`. -/
theorem notify_polled_partial (c : Cfg) (as : List Ans) (hR : Along RebindOk (init c) as)
    (hp : (run (init c) as).pc = .fetch) :
    pending (run (init c) as) = .fetch (run (init c) as).running ∧
    ∀ t, alookup t (run (init c) as).kst = some .live → t ∈ (run (init c) as).running := by
  refine ⟨by unfold pending; rw [hp], fun t ht => ?_⟩
  have hb := (PInv_run c as hR).body (by rw [hp]; rfl)
  rcases hb.tracked t ht with h1 | h1
  · exact h1
  · rcases h1.1 with h2 | h2 <;> (rw [hp] at h2; cases h2)

/-- the hypothesis of `notify_polled_partial` holds for free with `start_jobs_without_delay=True` -/
theorem notify_polled_swd (c : Cfg) (hs : c.swd = true) (as : List Ans) (hp : (run (init c) as).pc = .fetch) :
    ∀ t, alookup t (run (init c) as).kst = some .live → t ∈ (run (init c) as).running :=
  (notify_polled_partial c as (rebindOk_of_swd c hs as) hp).2

/-- **F15 — a started trial is never polled.** With `start_jobs_without_delay=False`, two
workers: the backend's busy list `[1]` is shorter than the running set `{0, 1}`, so
`_schedule_new_tasks` rebinds its local `running_trials_ids`; trial 2 is started and added to the
rebound set only.  All contracts hold (B, K, no end clash), yet at the next poll trial 2 — started,
known to the scheduler as live, in progress in the backend and in the tuning status — is not in the
running set; and in the rest of the run (`f15Rest`: the other trials complete, `run()` returns
normally) no poll ever names trial 2 and the scheduler never hears of its end. -/
theorem notify_polled_counterexample :
    Witness.f15Cfg.swd = false ∧
    Along BOk (init Witness.f15Cfg) (Witness.f15Prefix ++ Witness.f15Rest) ∧
    Along KOk (init Witness.f15Cfg) (Witness.f15Prefix ++ Witness.f15Rest) ∧
    Along NCOk (init Witness.f15Cfg) (Witness.f15Prefix ++ Witness.f15Rest) ∧
    (run (init Witness.f15Cfg) Witness.f15Prefix).pc = .fetch ∧
    pending (run (init Witness.f15Cfg) Witness.f15Prefix) = .fetch [0, 1] ∧
    alookup 2 (run (init Witness.f15Cfg) Witness.f15Prefix).kst = some .live ∧
    alookup 2 (run (init Witness.f15Cfg) Witness.f15Prefix).bst = some .inProgress ∧
    alookup 2 (run (init Witness.f15Cfg) Witness.f15Prefix).status.last = some .inProgress ∧
    -- the whole run
    (run (init Witness.f15Cfg) (Witness.f15Prefix ++ Witness.f15Rest)).pc = .done ∧
    (run (init Witness.f15Cfg) (Witness.f15Prefix ++ Witness.f15Rest)).err = none ∧
    alookup 2 (run (init Witness.f15Cfg) (Witness.f15Prefix ++ Witness.f15Rest)).kst = some .live ∧
    noCall (fun c => match c with
        | .fetch ids => ids.contains 2 | .schedComplete t _ => t == 2 | .schedError t => t == 2
        | .schedRemove t => t == 2 | .schedResult t _ => t == 2 | _ => false)
      (run (init Witness.f15Cfg) (Witness.f15Prefix ++ Witness.f15Rest)).log = true := by
  refine ⟨rfl, along_of bOk_of (by decide +kernel), along_of kOk_of (by decide +kernel),
    along_of ncOk_of (by decide +kernel), ?_, ?_, ?_, ?_, ?_, ?_, ?_, ?_, ?_⟩ <;> decide +kernel

/-- the hypothesis that `notify_polled_partial` adds is exactly what the witness breaks -/
example : alongB rebindOkB (init Witness.f15Cfg) Witness.f15Prefix = false := by decide +kernel

/-- **The end of a run is notified twice.** One worker; the poll reports trial 0 as failed
together with a result on which the scheduler decides STOP.  B and K hold, yet
`on_trial_error(0)` is the pending call for a trial whose run the loop has already closed with
`on_trial_remove(0)` (`kst 0 = dead`): `NotifyOK` fails. -/
theorem notify_end_clash_counterexample :
    Along BOk (init Witness.clashCfg) Witness.clashPrefix ∧
    Along KOk (init Witness.clashCfg) Witness.clashPrefix ∧
    Along RebindOk (init Witness.clashCfg) Witness.clashPrefix ∧
    pending (run (init Witness.clashCfg) Witness.clashPrefix) = .schedError 0 ∧
    alookup 0 (run (init Witness.clashCfg) Witness.clashPrefix).kst = some .dead ∧
    (run (init Witness.clashCfg) Witness.clashPrefix).log.contains (.schedRemove 0) = true ∧
    ¬ NotifyOK (run (init Witness.clashCfg) Witness.clashPrefix) := by
  have h1 : (run (init Witness.clashCfg) Witness.clashPrefix).pc = .errorS := by decide +kernel
  have h2 : (run (init Witness.clashCfg) Witness.clashPrefix).t = 0 := by decide +kernel
  have h3 : alookup 0 (run (init Witness.clashCfg) Witness.clashPrefix).kst = some .dead := by decide +kernel
  refine ⟨along_of bOk_of (by decide +kernel), along_of kOk_of (by decide +kernel),
    along_of rebindOk_of (by decide +kernel), by decide +kernel, h3, by decide +kernel, fun hN => ?_⟩
  have := hN.error h1
  rw [h2, h3] at this
  cases this

/-- the hypothesis that `notify_partial` adds is exactly what the witness breaks -/
example : alongB ncOkB (init Witness.clashCfg) Witness.clashPrefix = false := by decide +kernel

/-! ### concrete instances -/

/-- the state the F15 witness reaches: two trials in the running set, three started -/
example : (run (init Witness.f15Cfg) Witness.f15Prefix).running = [0, 1] ∧
    startIds (run (init Witness.f15Cfg) Witness.f15Prefix).log = [0, 1, 2] ∧
    (run (init Witness.f15Cfg) Witness.f15Prefix).status.last = [(0, .inProgress), (1, .inProgress), (2, .inProgress)] := by
  decide +kernel

example : (run (init Witness.f15Cfg) Witness.f15Prefix).running.length ≤ 2 :=
  (budget Witness.f15Cfg Witness.f15Prefix).2.1

example : startIds (run (init Witness.f15Cfg) Witness.f15Prefix).log = List.range 3 := by
  have := ids Witness.f15Cfg Witness.f15Prefix
  rwa [show (startIds (run (init Witness.f15Cfg) Witness.f15Prefix).log).length = 3 by decide +kernel] at this

/-- a life-cycle step of the end-clash witness: trial 0 moves in progress → failed when the
iteration's `tuning_status.update` runs -/
example : alookup 0 (run (init Witness.clashCfg) (Witness.clashPrefix ++ [.ret, Witness.τ])).status.last = some .inProgress ∧
    alookup 0 (run (init Witness.clashCfg) (Witness.clashPrefix ++ [.ret, Witness.τ, Witness.τ])).status.last = some .failed := by
  decide +kernel

end SyneTune.C01
