import SyneTune.Model.Tuner
/- placeholder: theorems follow -/
