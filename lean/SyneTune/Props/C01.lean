import SyneTune.Lemmas.TunerBudget
import SyneTune.Lemmas.TunerIds
import SyneTune.Lemmas.TunerLife
import SyneTune.Lemmas.TunerNotify
/-
C01 — worker budget and legal trial life cycle in every tuning run.
Property theorems only.  Model: `Model/Tuner.lean` (the tuning loop as a machine that calls
its environment and is answered by it), helper lemmas: `Lemmas/Tuner*.lean`.

All theorems quantify over ALL sequences `as : List Ans` of environment answers (poll
outcomes, scheduler decisions and suggestions, busy lists, clock readings, exceptions at any
call); `run (init c) as` is the state of `Tuner.run()` after these answers.
The contracts on the environment are explicit hypotheses:
* `BOk` (backend, contract B): a poll answers with one status per trial, only for trials that
  were asked for, and never reports `paused` for a running trial;
* `KOk` (scheduler, contract K): `resume(id)` is only suggested for a trial whose run this
  scheduler ended with PAUSE and which was not resumed / reported failed since;
* `NCOk`: no STOP / PAUSE decision on a result of a trial that the same poll reports as failed
  (no PAUSE for one reported as stopped from outside) — see `notify_end_clash_counterexample`.
-/
namespace SyneTune.C01
open SyneTune SyneTune.Tuner

/-- **Worker budget.** In every reachable state — for every scheduler, backend, answer
sequence and exception placement, with no contract at all — the running set is duplicate
free and holds at most `n_workers` trials; the `assert len(running_trials_ids) <= n_workers`
of `_process_new_results` never fires. -/
theorem budget (c : Cfg) (as : List Ans) :
    (run (init c) as).running.Nodup ∧ (run (init c) as).running.length ≤ c.nWorkers ∧
    (run (init c) as).err ≠ some .assertion := by
  have h := run_inv (Inv := BudgetInv) budget_step as (init c) (budget_init c)
  have hc := run_cfg (init c) as
  exact ⟨h.1.nodup, by have := h.1.le; rw [hc] at this; exact this, h.1.noAssert⟩

/-- **Trial ids.** The k-th `start_trial` command of a run carries id `k`: ids are issued in
sequence, never reused (a `resume_trial` does not take one). -/
theorem ids (c : Cfg) (as : List Ans) :
    startIds (run (init c) as).log = List.range (startIds (run (init c) as).log).length :=
  (run_inv (Inv := IdsInv) IdsInv_step as (init c) (IdsInv_init c)).ids

/-- the id handed to `scheduler.suggest` and used by the next `start_trial` is the number of
trials started so far -/
theorem ids_next (c : Cfg) (as : List Ans) (h : finPc (run (init c) as).pc = false) :
    (startIds (run (init c) as).log).length = (run (init c) as).nStarted + startPend (run (init c) as).pc :=
  (run_inv (Inv := IdsInv) IdsInv_step as (init c) (IdsInv_init c)).cnt h

/-- **Life cycle.** Under the contracts B and K every step of the loop moves the status it
records for a trial (`tuning_status.last_trial_status_seen`) along a legal edge only:
new → in progress; in progress / stopping → anything; paused → in progress (resume) or paused;
stopped, completed, failed never change again. -/
theorem lifecycle (c : Cfg) (as : List Ans) (a : Ans)
    (hB : Along BOk (init c) as) (hK : Along KOk (init c) as) (t : Nat) :
    Edge (alookup t (run (init c) as).status.last) (alookup t (run (init c) (as ++ [a])).status.last) := by
  obtain ⟨hS, hI⟩ := SK_run c as hB hK
  rw [run_append]
  show Edge _ (alookup t (step (run (init c) as) a).status.last)
  have : (step (run (init c) as) a).status = (next (run (init c) as) a).status := by
    rw [step_eq]; split <;> rfl
  rw [this]
  exact edge_next _ a hS hI t

/-- **Only a paused trial is resumed.** Under B and K, whenever `backend.resume_trial(id)` is
the pending call, the backend status of `id` (as far as the loop's commands and the polls
tell) is `paused`: the `assert trial.status == Status.paused` of `resume_trial` cannot fire.
Also: the loop's record of the trial says `paused` and the trial is not in the running set. -/
theorem resume_only_paused (c : Cfg) (as : List Ans)
    (hB : Along BOk (init c) as) (hK : Along KOk (init c) as) (h : (run (init c) as).pc = .resumeCmd) :
    pending (run (init c) as) = .resume (run (init c) as).sId (run (init c) as).sRCfg ∧
    alookup (run (init c) as).sId (run (init c) as).bst = some .paused ∧
    alookup (run (init c) as).sId (run (init c) as).status.last = some .paused ∧
    (run (init c) as).sId ∉ (run (init c) as).running := by
  obtain ⟨_, hI⟩ := SK_run c as hB hK
  have hb := hI (by rw [h]; rfl)
  have hpz := hb.rg.regResume h
  have hnu : updPc (run (init c) as).pc = false := by rw [h]; rfl
  refine ⟨by unfold pending; rw [h], hb.bs.pausedBst _ hpz, ?_, ?_⟩
  · rcases hb.ls.pausedSt _ hpz with h1 | h1
    · rw [h1.1] at hnu; cases hnu
    · exact h1.2
  · rcases hb.lv.pausedRun _ hpz with h1 | h1
    · exact h1
    · rw [h1.1] at hnu; cases hnu

/-- **Notifications (safety part), partial.** Under B, K and the no-end-clash hypothesis, whenever
a scheduler callback is the pending call the trial's run is open for the scheduler:
`on_trial_result`, `on_trial_remove`, `on_trial_complete`, `on_trial_error` are only called for
a trial whose run was opened (`on_trial_add` returned / it was resumed) and not yet closed by
one of remove / complete / error; `on_trial_add` is only called for a trial the scheduler has
never heard of.  So each run gets add-or-resume, then results, then exactly one end.
Full statement (without `hN`) is false: `notify_end_clash_counterexample`. -/
theorem notify_partial (c : Cfg) (as : List Ans)
    (hB : Along BOk (init c) as) (hK : Along KOk (init c) as) (hN : Along NCOk (init c) as) :
    NotifyOK (run (init c) as) := by
  obtain ⟨hS, hI, hD⟩ := SKD_run c as hB hK hN
  exact notifyOK_of_inv hS hI hD

end SyneTune.C01
