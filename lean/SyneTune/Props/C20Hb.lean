import SyneTune.Props.C04K
/-
C20 (asynchronous promotion-type Hyperband part, ASHA / PASHA) — a checkpoint exists whenever
a trial is resumed.  The loop deletes a trial's checkpoint (with `delete_checkpoints`) only
after the scheduler's STOP decision for it.  A promotion-type scheduler answers STOP only at
`resource ≥ max_t` (`C03.decision_follows_report`); at that moment the trial has no unpromoted
rung entry (it is running, `KInv`).  `dead_stays_dead`: a trial that is not running and has no
unpromoted rung entry is never resumed again, over every continuation.
-/
namespace SyneTune.C20Hb
open SyneTune SyneTune.C04K SyneTune.C13Hb

/-- the scheduler will never touch `t` again: not running and nothing left to promote -/
def Dead (s : Sched) (t : Nat) : Prop := NotRunning s t ∧ t ∉ unpromotedSys s.mgr.systems

theorem notRunning_cleanup (s : Sched) (tid : Nat) (d : Decision) (hd : d ≠ .continue) (t : Nat)
    (h : NotRunning s t) : NotRunning (s.cleanup tid d) t := by
  obtain ⟨rec, hr, hdec⟩ := h
  unfold Sched.cleanup NotRunning
  by_cases he : t = tid
  · subst he
    simp only [hr]
    exact ⟨{ rec with decision := d }, C14_alookup_aset_self _ _ _, hd⟩
  · cases hl : alookup tid s.active with
    | none => exact ⟨rec, hr, hdec⟩
    | some r2 => simp only; exact ⟨rec, by rw [alookup_aset_ne _ _ _ _ he]; exact hr, hdec⟩

theorem cleanup_dead (s : Sched) (tid : Nat) (d : Decision) (hd : d ≠ .continue) (t : Nat)
    (h : Dead s t) : Dead (s.cleanup tid d) t := by
  refine ⟨notRunning_cleanup s tid d hd t h.1, ?_⟩
  have := (taskRemove_fields s.mgr tid).2.2.1
  unfold Sched.cleanup; simp only [this]; exact h.2

/-- one step: a dead trial stays dead, and is not the subject of a `resume` -/
theorem step_dead (s : Sched) (op : SOp) (hk : KInv s) (t : Nat) (h : Dead s t) :
    Dead (stepS s op) t ∧
    (∀ n b hint s' f m calls fr, op = .suggest n b hint →
        s.suggest n b hint = .ok (s', .resume t f m, calls, fr) → False) := by
  cases op with
  | remove x => exact ⟨cleanup_dead s x .pause (by simp) t h, by intros; simp_all⟩
  | error x => exact ⟨cleanup_dead s x .stop (by simp) t h, by intros; simp_all⟩
  | complete x r v =>
    refine ⟨?_, by intros; simp_all⟩
    simp only [stepS]
    unfold Sched.onComplete
    cases alookup x s.active with
    | none => exact h
    | some rec => exact cleanup_dead s x .stop (by simp) t h
  | suggest n b hint =>
    have key : ∀ s' sg calls fr, s.suggest n b hint = .ok (s', sg, calls, fr) →
        Dead s' t ∧ (∀ f m, sg ≠ .resume t f m) := by
      intro s' sg calls fr hs
      unfold Sched.suggest at hs
      cases hts : s.mgr.taskSchedule b hint with
      | error e => simp [hts] at hs
      | ok res =>
        obtain ⟨g, so, ms, fr0⟩ := res
        simp only [hts] at hs
        obtain ⟨_, _, _, t4⟩ := taskSchedule_plain s.mgr g b hint so ms fr0 hk.pr hts
        obtain ⟨rec, hr, hd⟩ := h.1
        cases so with
        | none =>
          simp only at hs t4
          unfold Sched.suggestStart at hs
          by_cases hex : (alookup n s.active).isSome = true
          · simp [hex] at hs
          · simp only [hex, Bool.false_eq_true, if_false] at hs
            have hnone : alookup n s.active = none := by
              cases hl : alookup n s.active with
              | none => rfl
              | some x => simp [hl] at hex
            cases hta : g.taskAdd n b none with
            | error e => simp [hta] at hs
            | ok r2 =>
              obtain ⟨g2, first⟩ := r2
              simp only [hta] at hs
              injection hs with hs
              simp only [Prod.mk.injEq] at hs
              obtain ⟨h1, h2, _, _⟩ := hs
              subst h1
              obtain ⟨_, a2, _⟩ := taskAdd_fields g g2 n b none first hta
              have hne : t ≠ n := by intro he; subst he; rw [hnone] at hr; cases hr
              refine ⟨⟨⟨rec, by simp only; rw [alookup_aset_ne _ _ _ _ hne]; exact hr, hd⟩, ?_⟩, ?_⟩
              · simp only [a2, t4]; exact h.2
              · intro f m hsg; rw [← h2] at hsg; cases hsg
        | some o =>
          simp only at hs t4
          unfold Sched.suggestResume at hs
          cases hta : g.taskAdd o.trial b (some (o.milestone, o.resumeFrom)) with
          | error e => simp [hta] at hs
          | ok r2 =>
            obtain ⟨g2, first⟩ := r2
            simp only [hta] at hs
            have hmem : o.trial ∈ unpromotedSys s.mgr.systems := t4.mem_iff.mpr (by simp)
            have hne : t ≠ o.trial := by intro he; rw [he] at h; exact h.2 hmem
            obtain ⟨rec2, hr2, hd2⟩ := hk.paused o.trial hmem
            simp only [hr2, hd2, if_false] at hs
            injection hs with hs
            simp only [Prod.mk.injEq] at hs
            obtain ⟨h1, h2, _, _⟩ := hs
            subst h1
            obtain ⟨_, a2, _⟩ := taskAdd_fields g g2 o.trial b _ first hta
            refine ⟨⟨⟨rec, by simp only; rw [alookup_aset_ne _ _ _ _ hne]; exact hr, hd⟩, ?_⟩, ?_⟩
            · simp only [a2]
              intro hm
              exact h.2 (t4.mem_iff.mpr (List.mem_cons_of_mem _ hm))
            · intro f m hsg; rw [← h2] at hsg; injection hsg with e1 _ _; exact hne e1.symm
    constructor
    · simp only [stepS]
      cases hs : s.suggest n b hint with
      | error e => exact h
      | ok res => obtain ⟨s', sg, calls, fr⟩ := res; exact (key s' sg calls fr hs).1
    · intro n' b' hint' s' f m calls fr hop hs
      injection hop with e1 e2 e3
      subst e1; subst e2; subst e3
      exact (key s' _ calls fr hs).2 f m rfl
  | result x r v hint c e =>
    refine ⟨?_, by intros; simp_all⟩
    simp only [stepS]
    cases hs : s.onResult x r v hint c e with
    | error er => exact h
    | ok res =>
      obtain ⟨s', out⟩ := res
      simp only
      obtain ⟨rec, hr, hd⟩ := h.1
      unfold Sched.onResult at hs
      cases hrec : alookup x s.active with
      | none => simp [hrec] at hs
      | some recx =>
        simp only [hrec] at hs
        by_cases hlive : recx.decision ≠ .continue
        · simp only [hlive, ne_eq, not_false_eq_true, if_true] at hs
          injection hs with hs; injection hs with h1 _; subst h1; exact h
        · have hcont : recx.decision = .continue := by simpa using hlive
          have hne : t ≠ x := by
            intro he; subst he; rw [hrec] at hr; injection hr with hr; subst hr; exact hd hcont
          simp only [hcont, ne_eq, not_true_eq_false, if_false] at hs
          cases htr : s.mgr.taskReport x r v hint (s.totalCost x c) e with
          | error er => simp [htr] at hs
          | ok res2 =>
            obtain ⟨g, o⟩ := res2
            simp only [htr] at hs
            obtain ⟨_, _, _, t4⟩ := taskReport_plain s.mgr g x r v hint _ e o hk.pr hk.runok htr
            have hnotin : t ∉ unpromotedSys g.systems := by
              rcases t4 with h4 | ⟨_, _, c3⟩
              · rw [h4]; exact h.2
              · intro hm
                rcases List.mem_cons.mp (c3.mem_iff.mp hm) with h5 | h5
                · exact hne h5
                · exact h.2 h5
            unfold Sched.afterReport at hs
            cases hco : s.costOffsetAfter x (s.totalCost x c) o with
            | error er => simp [hco] at hs
            | ok co =>
              simp only [hco] at hs
              by_cases hig : o.ignoreData = true
              · simp only [hig, if_true] at hs
                injection hs with hs; injection hs with h1 _; subst h1
                exact ⟨⟨rec, hr, hd⟩, hnotin⟩
              · simp only [hig, Bool.false_eq_true, if_false] at hs
                dsimp only [Sched.onResultLive] at hs
                split at hs
                · cases hs
                · injection hs with hs; injection hs with h1 _
                  by_cases hc : o.continues = true
                  · simp only [hc, if_true] at h1
                    subst h1
                    exact ⟨⟨rec, by simp only; rw [alookup_aset_ne _ _ _ _ hne]; exact hr, hd⟩, hnotin⟩
                  · simp only [hc, Bool.false_eq_true, if_false] at h1
                    subst h1
                    have f3 := (taskRemove_fields g x).2.2.1
                    unfold Sched.cleanup
                    simp only [C14_alookup_aset_self]
                    refine ⟨⟨rec, ?_, hd⟩, by simp only [f3]; exact hnotin⟩
                    rw [alookup_aset_ne _ _ _ _ hne, alookup_aset_ne _ _ _ _ hne]; exact hr

/-- **A dead trial is never resumed** (ASHA / PASHA): over every continuation of the history. -/
theorem dead_stays_dead (s : Sched) (hk : KInv s) (t : Nat) (h : Dead s t) (ops : List SOp) :
    Dead (runS s ops) t := by
  induction ops generalizing s with
  | nil => exact h
  | cons op ops ih => exact ih (stepS s op) (step_KInv s op hk) (step_dead s op hk t h).1

/-- **Checkpoint safety for ASHA / PASHA.**  If trial `t` is dead at some point (in particular:
it was stopped by the scheduler while running — the only situation in which the loop deletes
its checkpoint), no `suggest` at any later point of any history resumes it. -/
theorem stopped_never_resumed (s : Sched) (hk : KInv s) (t : Nat) (h : Dead s t) (ops : List SOp)
    (n b : Nat) (hint : Option Nat) (s' : Sched) (f m : Nat) (calls : List SCall) (fr : Bool) :
    (runS s ops).suggest n b hint ≠ .ok (s', .resume t f m, calls, fr) := by
  intro hs
  have hk' := kinv_all_histories s hk ops
  have hd' := dead_stays_dead s hk t h ops
  exact (step_dead (runS s ops) (.suggest n b hint) hk' t hd').2 n b hint s' f m calls fr rfl hs

/-- a running trial that receives STOP (resource ≥ max_t) becomes dead: it had no unpromoted
entry (it was running) and the report at `max_t` touches no rung. -/
theorem stop_at_max_makes_dead (s s' : Sched) (hk : KInv s) (tid r : Nat) (v : Rat) (hint : Bool) (c e : Rat)
    (out : ResOut) (rec : TrialInfo) (hrec : alookup tid s.active = some rec) (hlive : rec.decision = .continue)
    (hr : s.mgr.maxT ≤ r) (h : s.onResult tid r v hint c e = .ok (s', out)) : Dead s' tid := by
  have hk' := onResult_KInv s s' tid r v hint c e out hk h
  have hnotin : tid ∉ unpromotedSys s.mgr.systems := by
    intro hm
    obtain ⟨rec2, hr2, hd2⟩ := hk.paused tid hm
    rw [hrec] at hr2; injection hr2 with hr2; subst hr2; exact hd2 hlive
  unfold Sched.onResult at h
  simp only [hrec, hlive, ne_eq, not_true_eq_false, if_false] at h
  cases htr : s.mgr.taskReport tid r v hint (s.totalCost tid c) e with
  | error er => simp [htr] at h
  | ok res2 =>
    obtain ⟨g, o⟩ := res2
    simp only [htr] at h
    obtain ⟨oc, og⟩ := C03_stop_at_max s.mgr g tid r v hint _ e o htr hr
    subst og
    have hig : o.ignoreData = false := by
      unfold Manager.taskReport at htr
      cases h1 : alookup tid s.mgr.taskInfo with
      | none => simp [h1] at htr
      | some b =>
        simp only [h1] at htr
        cases h2 : s.mgr.systems[(s.mgr.sysFor b).1]? with
        | none => simp [h2] at htr
        | some sys =>
          have : ¬ r < s.mgr.maxT := by omega
          simp only [h2, this, if_false] at htr
          injection htr with htr; injection htr with _ h3; rw [← h3]
    unfold Sched.afterReport at h
    cases hco : s.costOffsetAfter tid (s.totalCost tid c) o with
    | error er => simp [hco] at h
    | ok co =>
      simp only [hco, hig, Bool.false_eq_true, if_false] at h
      dsimp only [Sched.onResultLive] at h
      split at h
      · cases h
      · injection h with h; injection h with h1 _
        simp only [oc, Bool.false_eq_true, if_false] at h1
        subst h1
        have f3 := (taskRemove_fields s.mgr tid).2.2.1
        unfold Sched.cleanup
        simp only [C14_alookup_aset_self]
        refine ⟨⟨_, C14_alookup_aset_self _ _ _, ?_⟩, by simp only [f3]; exact hnotin⟩
        unfold Sched.decisionFor
        simp only [oc, Bool.false_eq_true, if_false]
        split <;> simp

end SyneTune.C20Hb
