import SyneTune.Lemmas.SimProv
import SyneTune.Lemmas.SimClock
/-
C10 — Simulated experiments replay the benchmark table faithfully in values and time.
Property theorems only.  Models: `Model/Simulator.lean`, `Model/TabularBackend.lean`; lemmas:
`Lemmas/Sim*.lean`.  `A : Arith` is the floating-point arithmetic of the code (the
correspondence driver uses IEEE-754 binary64 `Arith.ieee`; `Arith.exact` is real arithmetic);
assumptions about it (`AddGe`: adding a non-negative number does not decrease) are explicit.
-/
namespace SyneTune.C10
open SyneTune SyneTune.Backend SyneTune.SimL SyneTune.SimTab

/-- `s` is reachable: the state of the tabular simulator backend (`UserBlackboxBackend` /
`BlackboxRepositoryBackend`) after some history of operations, none of which raised -/
def Reach (A : Arith) (cfg : SimCfg) (js : TabState) (s : TB) : Prop :=
  ∃ ops, TB.run A (tabJob A) (TB.init cfg js) ops = .ok s

/-- **values.**  Every result returned by `fetch_status_results` is the `idx`-th result of a
recorded run `ρ` of its trial, and carries the table's row for: the trial's configuration at
the start of that run, the trial's seed, and the position of its level among the table's
fidelities.  The seed is the backend's fixed seed, or else the trial's entry in
`_seed_for_trial` of the current state — which never changes once set (`seed_stable`), so all
runs of a trial use the same seed. -/
theorem values (A : Arith) (cfg : SimCfg) (js : TabState) (s s' : TB) (hr : Reach A cfg js s)
    (ids : List Nat) (sts : List (Nat × St)) (res : List (Nat × Arrived))
    (hf : s.fetch A (tabJob A) ids = .ok (s', sts, res)) :
    ∀ p ∈ res, ∃ (ρ : RunRec TabState) (cfgT : Cfg) (sd : Nat) (rows : List (List Rat)) (i : Nat),
      ρ ∈ s'.runs ∧ ρ.trial = p.1 ∧ ρ.run = p.2.tag.run ∧ ρ.results[p.2.tag.idx]? = some p.2.res ∧
      alookup p.1 ρ.jsBefore.cfgs = some cfgT ∧
      sd < js.table.numSeeds ∧ js.table.rows cfgT.idx sd = some rows ∧
      js.table.fids[i]? = some p.2.res.level ∧ rows[i]? = some p.2.res.row ∧
      (js.seedFix = some sd ∨ (js.seedFix = none ∧ alookup p.1 s'.js.seedFor = some sd)) := by
  obtain ⟨ops, hops⟩ := hr
  have hprov := prov_run A (tabJob A) cfg js ops s hops
  obtain ⟨_, hres⟩ := fetch_prov A (tabJob A) s s' ids sts res hprov hf
  -- the state after the poll is reachable too
  have hops' : TB.run A (tabJob A) (TB.init cfg js) (ops ++ [.fetch ids]) = .ok s' :=
    run_snoc ops _ s s' _ hops (step_fetch hf)
  have htab := tabRuns_run A cfg js (ops ++ [.fetch ids]) s' hops'
  have hconst := const_run A (ops ++ [.fetch ids]) (TB.init cfg js) s' hops'
  simp only [TB.init] at hconst
  intro p hp
  obtain ⟨ρ, hρ, htr, hrun, hidx, ⟨st, hjob⟩, _⟩ := hres p hp
  obtain ⟨cfgT, sd, rows, hcfg, hseed, hsd, hrows, hall⟩ := tabJob_values A ρ.jsBefore ρ.jsAfter p.1 st ρ.results hjob
  have hmem : p.2.res ∈ ρ.results := List.mem_of_getElem? hidx
  obtain ⟨i, hi1, hi2⟩ := hall _ hmem
  have htb := (htab.table ρ hρ)
  have htable : ρ.jsBefore.table = js.table := by rw [htb.1, hconst.2.1]
  refine ⟨ρ, cfgT, sd, rows, i, hρ, htr, hrun, hidx, hcfg, by rw [← htable]; exact hsd,
    by rw [← htable]; exact hrows, by rw [← htable]; exact hi1, hi2, ?_⟩
  have hfix : ρ.jsBefore.seedFix = js.seedFix := by rw [htb.2.2.1, hconst.2.2.1]
  rcases seedOf_spec ρ.jsBefore ρ.jsAfter p.1 sd hseed with h1 | h1 | h1
  · left; rw [← hfix]; exact h1.1
  · right
    refine ⟨by rw [← hfix]; exact h1.1, ?_⟩
    exact htab.seeds ρ hρ p.1 sd ((seedOf_stable _ _ _ _ hseed).2.1 h1.1)
  · right
    refine ⟨by rw [← hfix]; exact h1.1, ?_⟩
    exact htab.seeds ρ hρ p.1 sd ((seedOf_stable _ _ _ _ hseed).2.1 h1.1)

/-- the per-trial seed, the table and the constants never change along a history -/
theorem seed_stable (A : Arith) (ops : List SOp) (s s' : TB) (h : TB.run A (tabJob A) s ops = .ok s') :
    s'.js.table = s.js.table ∧ s'.js.seedFix = s.js.seedFix ∧
    ∀ u sd, alookup u s.js.seedFor = some sd → alookup u s'.js.seedFor = some sd := by
  have := const_run A ops s s' h
  exact ⟨this.2.1, this.2.2.1, this.2.2.2.2.2.2.1⟩

/-- **levels.**  The levels reported by a run (the run every delivered result belongs to) are
the table's fidelity values inside `[min fidelity, config[max_resource_attr]]` (all of them
when the attribute is not used), above the paused level when the trial is resumed with
checkpointing, in table order.  For fidelities `1, …, F` these are the consecutive levels
`p+1, …, min(F, max_resource)` (`levels_consecutive`); which of them are delivered is the
subject of C02 (`sim_prefix`: a gap-free prefix). -/
theorem levels (A : Arith) (cfg : SimCfg) (js : TabState) (s s' : TB) (hr : Reach A cfg js s)
    (ids : List Nat) (sts : List (Nat × St)) (res : List (Nat × Arrived))
    (hf : s.fetch A (tabJob A) ids = .ok (s', sts, res)) :
    ∀ p ∈ res, ∃ (ρ : RunRec TabState) (cfgT : Cfg) (lo hi0 : Nat),
      ρ ∈ s'.runs ∧ ρ.trial = p.1 ∧ ρ.run = p.2.tag.run ∧ ρ.results[p.2.tag.idx]? = some p.2.res ∧
      alookup p.1 ρ.jsBefore.cfgs = some cfgT ∧
      listMin ρ.jsBefore.table.fids = some lo ∧ listMax ρ.jsBefore.table.fids = some hi0 ∧
      ((∀ cfgI sdI rowsI, ρ.jsBefore.table.rows cfgI sdI = some rowsI → ρ.jsBefore.table.fids.length ≤ rowsI.length) →
        ρ.results.map (·.level) = ρ.jsBefore.table.fids.filter
          (keepLevel lo (match ρ.jsBefore.maxResAttr, cfgT.maxRes with | true, some m => m | _, _ => hi0)
                     (if ρ.jsBefore.checkpointing then alookup p.1 ρ.jsBefore.paused else none))) := by
  obtain ⟨ops, hops⟩ := hr
  have hprov := prov_run A (tabJob A) cfg js ops s hops
  obtain ⟨_, hres⟩ := fetch_prov A (tabJob A) s s' ids sts res hprov hf
  intro p hp
  obtain ⟨ρ, hρ, htr, hrun, hidx, ⟨st, hjob⟩, _⟩ := hres p hp
  obtain ⟨cfgT, sd, rows, lo, hi0, hcfg, _, hrows, hlo, hhi, hlev⟩ :=
    tabJob_levels A ρ.jsBefore ρ.jsAfter p.1 st ρ.results hjob
  exact ⟨ρ, cfgT, lo, hi0, hρ, htr, hrun, hidx, hcfg, hlo, hhi, fun hwf => hlev (hwf _ _ _ hrows)⟩

/-- fidelities `1, …, F`: the kept levels are consecutive, `p+1, …, min(F, max_resource)` -/
theorem levels_consecutive (F hi : Nat) (p : Option Nat) :
    (List.range' 1 F).filter (keepLevel 1 hi p) = List.range' (p.getD 0 + 1) (min F hi - p.getD 0) :=
  filter_range_consecutive F hi p

/-- **timestamp.**  The `st_tuner_time` of a delivered result is
`(start ⊕ elapsed') ⊕ delay_on_trial_result`, where `start` is the time of the start event of
its run (pushed at `now ⊕ delay_start` by `start_trial` / `resume_trial`) and `elapsed'` is the
result's elapsed time as the job hands it to the simulator: the table's elapsed-time column,
rebased by the elapsed time at the paused level for a checkpointed resume
(`resumeFilter`: `e ⊖ e_paused`), then repaired (`repair`: `e'_0 = max(e_0, 0.01)`,
`e'_{i+1} = max(e_{i+1}, e'_i ⊕ 0.01)` — `SimTab.repair_elapsed`). -/
theorem timestamp (A : Arith) (cfg : SimCfg) (js : TabState) (s s' : TB) (hr : Reach A cfg js s)
    (ids : List Nat) (sts : List (Nat × St)) (res : List (Nat × Arrived))
    (hf : s.fetch A (tabJob A) ids = .ok (s', sts, res)) :
    ∀ p ∈ res, ∃ (ρ : RunRec TabState) (cfgT : Cfg) (sd : Nat) (all : List Res),
      ρ ∈ s'.runs ∧ ρ.trial = p.1 ∧ ρ.run = p.2.tag.run ∧ ρ.results[p.2.tag.idx]? = some p.2.res ∧
      p.2.time = A.add (A.add ρ.start p.2.res.elapsed) cfg.dResult ∧
      alookup p.1 ρ.jsBefore.cfgs = some cfgT ∧
      ρ.jsAfter.allResults cfgT sd = .ok all ∧
      repair A ρ.jsBefore.minStep
        (match alookup p.1 ρ.jsBefore.paused with
         | some lvl => if ρ.jsBefore.checkpointing then resumeFilter A lvl all else all
         | none => all) = .ok ρ.results := by
  obtain ⟨ops, hops⟩ := hr
  have hprov := prov_run A (tabJob A) cfg js ops s hops
  obtain ⟨_, hres⟩ := fetch_prov A (tabJob A) s s' ids sts res hprov hf
  have hops' : TB.run A (tabJob A) (TB.init cfg js) (ops ++ [.fetch ids]) = .ok s' :=
    run_snoc ops _ s s' _ hops (step_fetch hf)
  have hcfg' : s'.cfg = cfg := (const_run A (ops ++ [.fetch ids]) (TB.init cfg js) s' hops').1
  intro p hp
  obtain ⟨ρ, hρ, htr, hrun, hidx, ⟨st, hjob⟩, htime⟩ := hres p hp
  obtain ⟨_, cfgT, sd, all, hcfg, _, hall, hrep⟩ := tabJob_spec A ρ.jsBefore ρ.jsAfter p.1 st ρ.results hjob
  exact ⟨ρ, cfgT, sd, all, hρ, htr, hrun, hidx, by rw [htime, hcfg'], hcfg, hall, hrep⟩

/-- **monotone clock (1).**  Along any history the simulated clock never decreases
(`advance` asserts `step ≥ 0`, `advance_to` takes the maximum). -/
theorem monotone_clock (A : Arith) (hA : AddGe A) (ops : List SOp) (s s' : TB)
    (h : TB.run A (tabJob A) s ops = .ok s') : s.now ≤ s'.now :=
  now_le_run hA ops h

/-- **monotone clock (2).**  The time stamp of a delivered result is not before the start of
its run (non-negative `delay_on_trial_result` and repair step). -/
theorem stamp_after_start (A : Arith) (hA : AddGe A) (cfg : SimCfg) (js : TabState) (s s' : TB)
    (hr : Reach A cfg js s) (hd : 0 ≤ cfg.dResult) (hm : 0 ≤ js.minStep)
    (ids : List Nat) (sts : List (Nat × St)) (res : List (Nat × Arrived))
    (hf : s.fetch A (tabJob A) ids = .ok (s', sts, res)) :
    ∀ p ∈ res, ∃ ρ ∈ s'.runs, ρ.trial = p.1 ∧ ρ.run = p.2.tag.run ∧ ρ.start ≤ p.2.time := by
  obtain ⟨ops, hops⟩ := hr
  have hprov := prov_run A (tabJob A) cfg js ops s hops
  obtain ⟨_, hres⟩ := fetch_prov A (tabJob A) s s' ids sts res hprov hf
  have hops' : TB.run A (tabJob A) (TB.init cfg js) (ops ++ [.fetch ids]) = .ok s' :=
    run_snoc ops _ s s' _ hops (step_fetch hf)
  have htab := tabRuns_run A cfg js (ops ++ [.fetch ids]) s' hops'
  have hconst := const_run A (ops ++ [.fetch ids]) (TB.init cfg js) s' hops'
  simp only [TB.init] at hconst
  intro p hp
  obtain ⟨ρ, hρ, htr, hrun, hidx, ⟨st, hjob⟩, htime⟩ := hres p hp
  refine ⟨ρ, hρ, htr, hrun, ?_⟩
  -- the repaired elapsed time is at least the repair step, hence non-negative
  have hstep : 0 ≤ ρ.jsBefore.minStep := by
    rw [(htab.table ρ hρ).2.2.2.1, hconst.2.2.2.2.2.1]; exact hm
  have hel := (tabJob_sorted A ρ.jsBefore ρ.jsAfter p.1 st ρ.results (fun a => hA a _ hstep) hjob).2.1
    p.2.res (List.mem_of_getElem? hidx)
  rw [htime]
  exact le_trans (hA _ _ (le_trans hstep hel)) (hA _ _ (by rw [hconst.1]; exact hd))

/-- **FIFO on ties.**  In every reachable state the event heap is strictly ordered by
`(time, insertion counter)`: events with equal time are processed in the order in which they
were pushed (`_process_events_until_now` pops the first entry while it is due), and every
counter is below `events_added`. -/
theorem fifo_ties (A : Arith) (cfg : SimCfg) (js : TabState) (s : TB) (hr : Reach A cfg js s) :
    s.heap.Pairwise (fun a b => a.time < b.time ∨ (a.time = b.time ∧ a.cnt < b.cnt)) ∧
    ∀ e ∈ s.heap, e.cnt < s.added := by
  obtain ⟨ops, hops⟩ := hr
  have := HeapOK.run ops (HeapOK.init cfg js) hops
  exact ⟨this.sorted, this.cnt_lt⟩

/-- **waiting is charged once (1).**  `on_tuning_sleep` advances the clock by exactly
`tuner_sleep_time` (one floating-point addition) and changes nothing else that matters. -/
theorem wait_once_sleep (A : Arith) (s s' : TB) (h : TB.step A (tabJob A) s .sleep = .ok s') :
    s'.now = A.add s.now s.cfg.sleep ∧ s'.heap = s.heap ∧ s'.next = s.next ∧ s'.trials = s.trials := by
  obtain ⟨_, rfl⟩ := advance_inv h
  exact ⟨rfl, rfl, rfl, rfl⟩

/-- **waiting is charged once (2).**  A stop / pause command issued at clock `t` (after the
real time spent outside has been added) leaves the clock at
`max(max(t, t ⊕ delay_stop ⊕ 1e-3), · ⊕ delay_complete_after_stop ⊕ 1e-3)` (`stopClock`): both
delays and both guards are charged exactly once, nothing is subtracted.  With exact arithmetic
and non-negative delays this is `t + delay_stop + 1e-3 + delay_complete_after_stop + 1e-3`. -/
theorem wait_once_stop (A : Arith) (s s' : TB) (t : Nat) (st : St)
    (h : s.stopOrPause A (tabJob A) t st = .ok s') :
    s'.now = stopClock A s ∧
    (∀ (x : TB), x.realNow = x.lastExit → 0 ≤ x.cfg.dStop → 0 ≤ x.cfg.dCompleteStop → 0 ≤ x.cfg.guard →
      stopClock Arith.exact x = x.now + x.cfg.dStop + x.cfg.guard + x.cfg.dCompleteStop + x.cfg.guard) :=
  ⟨stopOrPause_now h, fun x h1 h2 h3 h4 => stopClock_exact x h1 h2 h3 h4⟩

theorem tabJob_statusOK (A : Arith) : JobStatusOK (tabJob A) := by
  intro js t js' st rs h
  have := (tabJob_spec A js js' t st rs h).1
  rw [this]; simp

/-- **stop removes.**  In every reachable state: from a `pause_trial` / `stop_trial` command
until the trial is resumed (`commanded`), the event heap contains no event of that trial — the
stop event removed the pending results and the completion event of the old run, and the
completion event pushed by the command itself has been processed. -/
theorem stop_removes (A : Arith) (hA : AddGe A) (cfg : SimCfg) (js : TabState) (hg : 0 ≤ cfg.guard)
    (s : TB) (hr : Reach A cfg js s) (t : Nat) (x : STrial) (hx : s.trials[t]? = some x)
    (hc : x.commanded = true) : ∀ e ∈ s.heap, e.trial ≠ t := by
  obtain ⟨ops, hops⟩ := hr
  exact (CmdInv.run hA (tabJob_statusOK A) ops (CmdInv.init cfg js hg) hops).quiet t x hx hc

/-! ### the hypotheses are satisfiable -/

example : AddGe Arith.exact := addGe_exact

/-- a concrete reachable state with a stopped (commanded) trial: the hypotheses of
`stop_removes`, `values`, … are satisfiable -/
example : ∃ s, Reach Arith.exact ⟨0, 0, 0, 0, 1/2, 1/4, 1/1000⟩
      { table := ⟨[1, 2], 0, 1, [[[[1], [2]]]]⟩, maxResAttr := false, seedFix := some 0, checkpointing := true,
        minStep := 1/100 } s ∧
    ∃ x, s.trials[0]? = some x ∧ x.commanded = true := by
  have key : (match TB.run Arith.exact (tabJob Arith.exact)
        (TB.init ⟨0, 0, 0, 0, 1/2, 1/4, 1/1000⟩
          { table := ⟨[1, 2], 0, 1, [[[[1], [2]]]]⟩, maxResAttr := false, seedFix := some 0, checkpointing := true,
            minStep := 1/100 })
        [.start ⟨0, none⟩, .sleep, .fetch [0], .stop 0] with
      | .ok s => s.trials.map (·.commanded)
      | .error _ => []) = [true] := by decide +kernel
  cases h : TB.run Arith.exact (tabJob Arith.exact)
        (TB.init ⟨0, 0, 0, 0, 1/2, 1/4, 1/1000⟩
          { table := ⟨[1, 2], 0, 1, [[[[1], [2]]]]⟩, maxResAttr := false, seedFix := some 0, checkpointing := true,
            minStep := 1/100 })
        [.start ⟨0, none⟩, .sleep, .fetch [0], .stop 0] with
  | error e => rw [h] at key; cases key
  | ok s =>
    rw [h] at key
    simp only at key
    refine ⟨s, ⟨_, h⟩, ?_⟩
    cases ht : s.trials with
    | nil => rw [ht] at key; cases key
    | cons x xs =>
      rw [ht] at key
      simp only [List.map_cons, List.cons.injEq] at key
      exact ⟨x, by simp, key.1⟩

end SyneTune.C10
