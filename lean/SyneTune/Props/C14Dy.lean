import SyneTune.Lemmas.DyHPOSched
import SyneTune.Props.C14Comp
/-
C14 / C04 for DyHPO — `HyperbandScheduler(type="dyhpo", searcher="dyhpo")`.

The model of `DyHPORungSystem` (`Model/DyHPO.lean`) sits on top of the promotion rung system of
`Model/HB.lean`: `_suggest` goes through `Sched.suggestDy`, whose `on_task_schedule` first tries
the successive-halving rule (if the coin `sh` says so) and otherwise resumes the paused trial
the searcher picked (`pick = some t`, an ORACLE whose answer must be in the paused list handed to
it) or starts a new trial (`pick = none`).  All other operations are the inherited ones.
`DOp` = the operations of `C04K.SOp` + `suggestDy`; `stepD`/`runD` is the scheduler alone,
`stepCD`/`runCD` the scheduler composed with the searcher's data bookkeeping (`C14Comp.Sys`).

The invariants of `Props/C04K.lean` (`KInv`) and `Props/C14Comp.lean` (`CInv`) are lifted to
every history of `DOp` operations; the theorems for the old operations are reused unchanged.
Property theorems only; the lemmas are in `Lemmas/DyHPO*.lean`.
-/
namespace SyneTune.C14Dy
open SyneTune SyneTune.C04K SyneTune.C14 SyneTune.C14Comp SyneTune.DyHPO

/-! ### the embedding: histories without `suggestDy` are the old histories -/

/-- A history made of old operations only runs exactly as in `Props/C14Comp.lean`, and its
contract is the old contract: the DyHPO system extends the Hyperband system, it does not
change it. -/
theorem runCD_old (y : Sys) (ops : List SOp) :
    runCD y (ops.map DOp.old) = runC y ops ∧ (OpsOKD y (ops.map DOp.old) ↔ OpsOK y ops) := by
  induction ops generalizing y with
  | nil => exact ⟨rfl, Iff.rfl⟩
  | cons op ops ih =>
    obtain ⟨i1, i2⟩ := ih (stepC y op)
    exact ⟨i1, and_congr Iff.rfl i2⟩

/-! ### the scheduler invariant `KInv` (contract K) -/

/-- One operation of a DyHPO scheduler — an inherited one or `_suggest` through
`DyHPORungSystem.on_task_schedule` — preserves the scheduler invariant `KInv` of
`Props/C04K.lean` (every not-yet-promoted rung entry belongs to a trial the scheduler records as
not running, each at most once; resumed runs have `resume_from < milestone`). -/
theorem step_KInv_dy (s : Sched) (op : DOp) (h : KInv s) : KInv (stepD s op) := stepD_KInv s op h

/-- **`KInv` holds after every history** of DyHPO scheduler operations. -/
theorem kinv_all_histories_dy (s : Sched) (h : KInv s) (ops : List DOp) : KInv (runD s ops) := by
  induction ops generalizing s with
  | nil => exact h
  | cons op ops ih => exact ih (stepD s op) (step_KInv_dy s op h)

/-- **Contract K for DyHPO.**  After any history, if `_suggest` answers `resume(t, from, to)` —
whether the successive-halving rule or the searcher's scoring chose `t` — the scheduler has `t`
recorded with a decision other than CONTINUE (it was paused and has not been resumed since), so
the assertions "Paused trial must be in _active_trials" / "marked as running" of
`_promote_trial` are unreachable; and it never answers `start` with an id it already knows. -/
theorem resume_only_not_running_dy (s : Sched) (h : KInv s) (ops : List DOp) (newTid bracket : Nat) (sh : Bool)
    (hint pick : Option Nat) (s' : Sched) (sg : Suggestion) (calls : List SCall) (fr : Bool)
    (hs : (runD s ops).suggestDy newTid bracket sh hint pick = .ok (s', sg, calls, fr)) :
    (∀ t f m, sg = .resume t f m → NotRunning (runD s ops) t) ∧
    (∀ t b m, sg = .start t b m → alookup t (runD s ops).active = none) := by
  have hk := kinv_all_histories_dy s h ops
  obtain ⟨_, h2, h3⟩ := suggestDy_KInv _ s' newTid bracket sh hint pick sg calls fr hk hs
  exact ⟨h2, fun t b m e => by obtain ⟨e1, e2⟩ := h3 t b m e; rw [e1]; exact e2⟩

/-! ### DyHPO promotes only eligible trials -/

/-- **What the searcher is asked to score.**  The trial ids of `_paused_trials_and_milestones`
are exactly the ids of the not-yet-promoted rung entries (in rung order, with multiplicity):
nothing else can be picked. -/
theorem paused_list_is_unpromoted (sys : RungSys) : sys.pausedTrials.map (·.1) = unpromotedOf sys.rungs :=
  pausedTrials_tids sys

/-- **The searcher's pick is checked.**  When the DyHPO branch runs (no successive-halving
attempt) with the oracle answer `pick = some t` and the model accepts it, then `t` is one of the
paused trials handed to the searcher and `t` is the trial promoted; a pick outside the list is
rejected (an error the correspondence check reports). -/
theorem pick_is_paused (sys sys' : RungSys) (m : Mode) (hint : Option Nat) (t : Nat) (so : Option SchedOut) (fr : Bool)
    (h : sys.dyhpoSchedule m false hint (some t) = .ok (sys', so, fr)) :
    t ∈ sys.pausedTrials.map (·.1) ∧ ∃ o, so = some o ∧ o.trial = t := by
  cases so with
  | none =>
    unfold RungSys.dyhpoSchedule at h
    simp only [Bool.false_eq_true, if_false] at h
    cases hp : sys.dyhpoPromote m t with
    | error e => simp [hp] at h
    | ok res => simp [hp] at h
  | some o =>
    rcases dyhpoSchedule_some sys sys' m false hint (some t) o fr h with ⟨hsh, _⟩ | ⟨s1, t', hrs, hmx, hpk, hp⟩
    · cases hsh
    · injection hpk with hpk; subst hpk
      obtain ⟨p, _, _, _, hf, _, _, _, _, _, _, h8, _, _⟩ := dyhpoPromote_spec s1 sys' m t o hp
      obtain ⟨g1, g2⟩ := findPaused_some t _ p hf
      have hpt : s1.pausedTrials = sys.pausedTrials := by unfold RungSys.pausedTrials; rw [hrs, hmx]
      rw [hpt] at g1
      exact ⟨List.mem_map.mpr ⟨p, g1, g2⟩, o, rfl, h8⟩

/-- **DyHPO promotes only eligible trials.**  For a well-formed scheduler (`MgrWF`: strictly
decreasing rung levels below `max_t`, as the constructor builds them): if `_suggest` answers
`resume(t, f, m)` — by the SH rule or by the searcher's pick — then in the rung system of the
sampled bracket trial `t` was paused in the rung of level `f` (it has an entry there) and had NOT
been promoted from it (`promoted = false`); the step marks exactly that entry (`promoted = true`
afterwards: `PromotedAt … f t`); the trial is told to run exactly to the next rung level above `f`
(`nextAbove`: the level of the rung before it in `_rungs`, `max_t` from the top rung), `f < m`;
and `_running[t] = (m, f)`. -/
theorem resume_only_eligible_dy (s s' : Sched) (hw : MgrWF s.mgr) (n b : Nat) (sh : Bool) (hint pick : Option Nat)
    (t f m : Nat) (calls : List SCall) (fr : Bool)
    (h : s.suggestDy n b sh hint pick = .ok (s', .resume t f m, calls, fr)) :
    ∃ sys sys' i rg pos e,
      s.mgr.systems[(s.mgr.sysFor b).1]? = some sys ∧ s'.mgr.systems[(s.mgr.sysFor b).1]? = some sys' ∧
      rungPos sys.rungs f = some i ∧ sys.rungs[i]? = some rg ∧ rg.level = f ∧
      rg.data[pos]? = some e ∧ e.tid = t ∧ e.promoted = false ∧
      sys'.rungs = sys.rungs.set i (markPromoted s.mgr.mode rg pos) ∧ PromotedAt sys'.rungs f t ∧
      m = nextAbove sys.rungs i sys.maxT ∧ f < m ∧ alookup t sys'.running = some (m, some f) :=
  suggestDy_resume_spec s s' hw n b sh hint pick t f m calls fr h

/-- **A resumed trial leaves the paused list.**  On a state satisfying `KInv`, after `_suggest`
answered `resume(t, …)` trial `t` is in no rung system's paused list any more: until it pauses
again (at a higher level) neither the SH rule nor the searcher can choose it. -/
theorem resumed_trial_leaves_paused_list (s s' : Sched) (hk : KInv s) (n b : Nat) (sh : Bool) (hint pick : Option Nat)
    (t f m : Nat) (calls : List SCall) (fr : Bool)
    (h : s.suggestDy n b sh hint pick = .ok (s', .resume t f m, calls, fr)) :
    ∀ sys ∈ s'.mgr.systems, t ∉ sys.pausedTrials.map (·.1) := by
  have h' := h
  rw [suggestDy_eq] at h'
  cases hts : s.mgr.taskScheduleDy b sh hint pick with
  | error e => simp [hts] at h'
  | ok r1 =>
    obtain ⟨g1, so, ms, fr0⟩ := r1
    simp only [hts] at h'
    obtain ⟨_, _, _, t4⟩ := taskScheduleDy_plain s.mgr g1 b sh hint pick so ms fr0 hts
    rcases afterSchedule_cases s s' g1 so n b ms fr0 _ calls fr h' with
      ⟨_, _, _, _, _, _, _, hsg⟩ | ⟨o, rec, g2, first, rfl, hta, _, _, rfl, _, hsg⟩
    · cases hsg
    · injection hsg with e1 _ _
      subst e1
      simp only at t4
      obtain ⟨_, a2, _⟩ := taskAdd_fields g1 g2 o.trial b _ first hta
      have hnd : (o.trial :: unpromotedSys g1.systems).Nodup := (t4.nodup_iff).mp hk.nodup
      rw [List.nodup_cons] at hnd
      intro sys hsys hmem
      rw [paused_list_is_unpromoted] at hmem
      apply hnd.1
      rw [← a2]
      exact List.mem_flatMap.mpr ⟨sys, hsys, hmem⟩

/-- **A trial is promoted from a rung at most once — over every history.**  Rung system with
each trial at most once per rung and strictly decreasing levels (true of the constructor's,
preserved by every operation).  Once trial `t` is recorded as promoted from the rung of level
`level`, then after ANY history of rung-system operations (inherited `on_task_schedule` /
`on_task_report` / `on_task_add` / `on_task_remove`, and DyHPO's `on_task_schedule` with
arbitrary coin and oracle answers) no `DyHPORungSystem.on_task_schedule` promotes `t` from
`level` again — neither by the SH rule nor for any answer of the searcher. -/
theorem promoted_once_dy (m : Mode) (s : RungSys) (ops : List DPOp) (hnd : AllNodup s.rungs) (hdec : RungsDecr s.rungs)
    (level t : Nat) (hp : PromotedAt s.rungs level t) (sh : Bool) (hint pick : Option Nat) (s' : RungSys)
    (o : SchedOut) (fr : Bool) (h : (runDP m s ops).dyhpoSchedule m sh hint pick = .ok (s', some o, fr))
    (ht : o.trial = t) : o.resumeFrom ≠ level := by
  obtain ⟨i1, i2, i3⟩ := history_invariant_dy' m s ops
  have hdec2 : RungsDecr (runDP m s ops).rungs := by
    have : ((runDP m s ops).rungs.map (·.level)).Pairwise (fun a b => b < a) := by
      rw [i3]; unfold RungsDecr at hdec; exact List.pairwise_map.mpr hdec
    exact List.pairwise_map.mp this
  subst ht
  exact dyhpoSchedule_not_again _ s' m sh hint pick o fr (i1 hnd) hdec2 level (i2 level _ hp) h

/-- the invariant used by `promoted_once_dy`, over every history of rung-system operations:
each trial at most once per rung, rung levels never change, a promotion record is never lost -/
theorem history_invariant_dy (m : Mode) (s : RungSys) (ops : List DPOp) :
    (AllNodup s.rungs → AllNodup (runDP m s ops).rungs) ∧
    (∀ level t, PromotedAt s.rungs level t → PromotedAt (runDP m s ops).rungs level t) ∧
    (runDP m s ops).rungs.map (·.level) = s.rungs.map (·.level) :=
  history_invariant_dy' m s ops

/-! ### the composed invariant `CInv`: searcher data, pending evaluations -/

/-- **The searcher accepts every call a DyHPO scheduler makes.**  From a state satisfying the
invariant, for an operation within the contract (`OpOKD`: the old contract; `suggestDy` needs
nothing), none of the emitted calls hits an assertion of the searcher's data bookkeeping. -/
theorem calls_accepted_dy (y : Sys) (h : CInv y) (op : DOp) (hok : OpOKD y op) :
    ∃ st', y.st.applyAll (opStepD y.sched op).2 = .ok st' := by
  cases op with
  | old op => exact calls_accepted y h op hok
  | suggestDy n b sh hint pick => exact (cinv_suggestDy y n b sh hint pick h).2

/-- one DyHPO operation within the contract preserves the invariant `CInv` of
`Lemmas/C14CompDefs.lean` -/
theorem cinv_step_dy (y : Sys) (h : CInv y) (op : DOp) (hok : OpOKD y op) : CInv (stepCD y op) := by
  cases op with
  | old op => exact cinv_step y h op hok
  | suggestDy n b sh hint pick => exact (cinv_suggestDy y n b sh hint pick h).1

/-- **`CInv` holds after every history** of DyHPO scheduler operations within the contract,
whatever the coin and the searcher's scoring answered along the way. -/
theorem cinv_all_histories_dy (y0 : Sys) (h : CInv y0) (ops : List DOp) (hok : OpsOKD y0 ops) :
    CInv (runCD y0 ops) := by
  induction ops generalizing y0 with
  | nil => exact h
  | cons op ops ih => exact ih (stepCD y0 op) (cinv_step_dy y0 h op hok.1) hok.2

/-- **Only live pending entries (DyHPO).**  After every history within the contract, every
pending evaluation `(t, r)` the searcher holds belongs to a trial the scheduler currently
considers running (decision CONTINUE — not paused, stopped, completed, failed or removed), `r` is
above the last level the trial reported, not above the milestone it is running to, and has no
observation yet. -/
theorem pending_only_running_dy (y0 : Sys) (h0 : CInv y0) (ops : List DOp) (hok : OpsOKD y0 ops) (t r : Nat)
    (hp : (t, r) ∈ (runCD y0 ops).st.pending) :
    ∃ rec, alookup t (runCD y0 ops).sched.active = some rec ∧ rec.decision = .continue ∧
      lastRep rec < r ∧ r ≤ milestoneOf (runCD y0 ops).sched.mgr t (lastRep rec) ∧
      (runCD y0 ops).st.isLabeled t r = false := by
  have h := cinv_all_histories_dy y0 h0 ops hok
  obtain ⟨rec, h1, h2, h3, h4, _⟩ := h.pend (t, r) hp
  refine ⟨rec, h1, h2, h3, h4, ?_⟩
  cases hl : (runCD y0 ops).st.isLabeled t r with
  | false => rfl
  | true =>
    obtain ⟨rec', k1, k2⟩ := h.obs t r hl
    rw [h1] at k1; injection k1 with k1; subst k1
    simp only at h3; omega

/-- for `searcher_data = "rungs"` the only pending level of a running trial is its milestone;
and no pending entry occurs twice (DyHPO) -/
theorem pending_rungs_milestone_nodup_dy (y0 : Sys) (h0 : CInv y0) (ops : List DOp) (hok : OpsOKD y0 ops) :
    (runCD y0 ops).st.pending.Nodup ∧
    ((runCD y0 ops).sched.searcherData = .rungs → ∀ t r, (t, r) ∈ (runCD y0 ops).st.pending →
      ∀ rec, alookup t (runCD y0 ops).sched.active = some rec →
        r = milestoneOf (runCD y0 ops).sched.mgr t (lastRep rec)) := by
  have h := cinv_all_histories_dy y0 h0 ops hok
  refine ⟨h.pnd, ?_⟩
  intro hsd t r hp rec hrec
  obtain ⟨rec', h1, _, _, _, h5⟩ := h.pend (t, r) hp
  rw [hrec] at h1; injection h1 with h1; subst h1
  exact h5 hsd

/-- no pending evaluation for a trial which is not running: paused, stopped, completed, failed,
removed or unknown (DyHPO) -/
theorem no_pending_unless_running_dy (y0 : Sys) (h0 : CInv y0) (ops : List DOp) (hok : OpsOKD y0 ops) (t : Nat)
    (hnr : NotRunning (runCD y0 ops).sched t ∨ alookup t (runCD y0 ops).sched.active = none) :
    ∀ p ∈ (runCD y0 ops).st.pending, p.1 ≠ t := by
  intro p hp he
  obtain ⟨a, b⟩ := p
  simp only at he; subst he
  obtain ⟨rec, h1, h2, _⟩ := pending_only_running_dy y0 h0 ops hok a b hp
  rcases hnr with ⟨rec', k1, k2⟩ | hn
  · rw [h1] at k1; injection k1 with k1; subst k1; exact k2 h2
  · rw [h1] at hn; cases hn

/-- **Each observation once, equal to what was reported (DyHPO).**  After every history (no
contract needed) started without data: the data set holds at most one record per trial and one
value per level, and every stored value for trial `t` at level `r` is the criterion (`1 - x` for
mode max) of a metric value which some `on_trial_result` / `on_trial_complete` call of the
history reported for `t` at level `r`; `suggestDy` never writes an observation. -/
theorem observed_once_dy (y0 : Sys) (hemp : y0.st.observed = []) (ops : List DOp) :
    ObsWF (runCD y0 ops).st ∧
    ∀ t r c, obsAt (runCD y0 ops).st t r = some c →
      ∃ v, (t, r, v) ∈ ops.flatMap opReportsD ∧ c = y0.st.crit v := by
  have key : ∀ (ops : List DOp) (y : Sys), ObsWF y.st →
      ObsWF (runCD y ops).st ∧ (runCD y ops).st.mode = y.st.mode ∧
      ∀ t r c, obsAt (runCD y ops).st t r = some c →
        obsAt y.st t r = some c ∨ ∃ v, (t, r, v) ∈ ops.flatMap opReportsD ∧ c = y.st.crit v := by
    intro ops
    induction ops with
    | nil => intro y hw; exact ⟨hw, rfl, fun t r c hc => Or.inl hc⟩
    | cons op ops ih =>
      intro y hw
      obtain ⟨w1, m1⟩ := stepCD_wf y op hw
      obtain ⟨i1, i2, i3⟩ := ih (stepCD y op) w1
      refine ⟨i1, i2.trans m1, ?_⟩
      intro t r c hc
      rcases i3 t r c hc with hc' | ⟨v, hv, hcv⟩
      · obtain ⟨_, _, k⟩ := stepCD_obsAt y op hw t r c hc'
        rcases k with k | ⟨v, hv, hcv⟩
        · exact Or.inl k
        · exact Or.inr ⟨v, by simp only [List.flatMap_cons, List.mem_append]; exact Or.inl hv, hcv⟩
      · exact Or.inr ⟨v, by simp only [List.flatMap_cons, List.mem_append]; exact Or.inr hv,
          by rw [hcv, crit_of_mode m1]⟩
  have hw0 : ObsWF y0.st := by
    unfold ObsWF; rw [hemp]; exact ⟨by simp [KeysNodup], by simp⟩
  obtain ⟨k1, _, k3⟩ := key ops y0 hw0
  refine ⟨k1, ?_⟩
  intro t r c hc
  rcases k3 t r c hc with h | h
  · unfold obsAt at h; rw [hemp] at h; simp [alookup] at h
  · exact h

/-- observations exist only for levels the trial has reported (DyHPO, within the contract) -/
theorem observed_only_reported_levels_dy (y0 : Sys) (h0 : CInv y0) (ops : List DOp) (hok : OpsOKD y0 ops) (t r : Nat)
    (hl : (runCD y0 ops).st.isLabeled t r = true) :
    ∃ rec, alookup t (runCD y0 ops).sched.active = some rec ∧ r ≤ lastRep rec :=
  (cinv_all_histories_dy y0 h0 ops hok).obs t r hl

/-- **No pending evaluation survives the end of a trial (DyHPO).**  In the state reached by any
history within the contract: after `on_trial_complete(t)` and after `on_trial_error(t)` no
pending entry of `t` remains; and after an `on_trial_result` (within the contract) whose answer
is STOP or PAUSE no pending entry of the reporting trial remains. -/
theorem no_pending_after_end_dy (y0 : Sys) (h0 : CInv y0) (ops : List DOp) (hok : OpsOKD y0 ops) :
    (∀ t r v, ∀ p ∈ (stepCD (runCD y0 ops) (.old (.complete t r v))).st.pending, p.1 ≠ t) ∧
    (∀ t, ∀ p ∈ (stepCD (runCD y0 ops) (.old (.error t))).st.pending, p.1 ≠ t) ∧
    (∀ t r v hint c e s' out, OpOKD (runCD y0 ops) (.old (.result t r v hint c e)) →
      (runCD y0 ops).sched.onResult t r v hint c e = .ok (s', out) → out.decision ≠ .continue →
      ∀ p ∈ (stepCD (runCD y0 ops) (.old (.result t r v hint c e))).st.pending, p.1 ≠ t) :=
  no_pending_after_end (runCD y0 ops) (cinv_all_histories_dy y0 h0 ops hok)

/-! ### non-vacuity -/

/-- DyHPO as recommended: linearly spaced rung levels 1, 2, 3, `max_t = 4`, one bracket,
`searcher_data = "all"` -/
def exDy : Sys :=
  { sched := { mgr := Manager.init .promotion .min 4 [1, 2, 3] 1 false, searcherData := .all }, st := { mode := .min } }

example : CInv exDy := init_CInv .promotion .min 4 [1, 2, 3] 1 false 0 .all false false false (by decide) (by decide) (by decide)
example : KInv exDy.sched := init_KInv .promotion rfl .min 4 [1, 2, 3] 1 false 0 .all false false false
example : MgrWF exDy.sched.mgr :=
  (init_CInv .promotion .min 4 [1, 2, 3] 1 false 0 .all false false false (by decide) (by decide) (by decide)).wf

/-- Trials 0 and 1 are started by DyHPO (`pick = none`) and pause at rung 1 (values 1/2, 1/4).
The searcher then picks trial 0 (`pick = some 0`) — NOT the one the SH rule would take — which
is resumed from 1 to 2 and pauses at rung 2.  The next `_suggest` tries the SH rule (`sh`),
which promotes trial 1 from rung 1 (the only unpromoted entry there; 1/4 is below the cutoff 3/8);
it reports level 2. -/
def histDy : List DOp :=
  [.suggestDy 0 0 false none none, .old (.result 0 1 (1/2) false 0 0), .old (.remove 0),
   .suggestDy 1 0 false none none, .old (.result 1 1 (1/4) false 0 0), .old (.remove 1),
   .suggestDy 2 0 false none (some 0), .old (.result 0 2 (1/3) false 0 0), .old (.remove 0),
   .suggestDy 2 0 true (some 1) none, .old (.result 1 2 (1/8) false 0 0)]

/-- the suggestion of an answer of `_suggest` -/
def sgOf (r : Except Err (Sched × Suggestion × List SCall × Bool)) : Option Suggestion :=
  match r with | .ok res => some res.2.1 | .error _ => none

/-- the history is within the contract; the 7th operation (`pick = some 0`) resumes the paused
trial 0 from level 1 to level 2 — the paused list handed to the searcher was
`[(1, 0, 2), (0, 1, 2)]` — and registers the pending evaluation `(0, 2)`; the 10th (SH rule)
resumes trial 1; a pick which is not paused (trial 5) is rejected; at the end nothing is pending
and every reported level is observed once. -/
example : OpsOKD exDy histDy ∧
    (runCD exDy (histDy.take 6)).sched.mgr.systems.map (·.pausedTrials) = [[(1, 0, 2), (0, 1, 2)]] ∧
    sgOf ((runCD exDy (histDy.take 6)).sched.suggestDy 2 0 false none (some 0)) = some (.resume 0 1 2) ∧
    (runCD exDy (histDy.take 7)).st.pending = [(0, 2)] ∧
    (runCD exDy (histDy.take 9)).sched.mgr.systems.map (·.pausedTrials) = [[(0, 0, 3), (1, 0, 2)]] ∧
    sgOf ((runCD exDy (histDy.take 9)).sched.suggestDy 2 0 true (some 1) none) = some (.resume 1 1 2) ∧
    sgOf ((runCD exDy (histDy.take 9)).sched.suggestDy 2 0 false none (some 5)) = none ∧
    (runCD exDy (histDy.take 10)).st.pending = [(1, 2)] ∧
    (runCD exDy histDy).st.pending = [] ∧
    (runCD exDy histDy).st.observed = [(0, [(1, 1/2), (2, 1/3)]), (1, [(1, 1/4), (2, 1/8)])] := by
  decide +kernel

end SyneTune.C14Dy
