import SyneTune.Lemmas.SyncRun
/-
C05 — synchronous Hyperband fills rungs exactly and promotes exactly the top trials.
Property theorems only.  Models: `Model/SyncBracket.lean`, `Model/SyncManager.lean`,
`Model/SyncScheduler.lean`; helper lemmas and the invariants (`BWF` of a bracket, `MWF` of
the manager, `Inv` of the scheduler) are in `Lemmas/Sync*.lean`.

`Reachable mode systems s`: `s` is the state of the scheduler constructed for the rung
systems `systems` after ANY list of operations (`suggest` with a trial id not yet known to
the scheduler / `on_trial_result` / `on_trial_error` / `on_trial_complete` /
`on_trial_remove` / `trials_checkpoints_can_be_removed`, in any order, for any trials, any
metrics, any resources) — every interleaving of the results of several open brackets and
every subset of failing jobs is such a list.  The theorems are proved by induction over
that list (`Lemmas/SyncRun.lean: run_inv`).
-/
namespace SyneTune.C05
open SyneTune SyneTune.Sync

/-- **Never raises.**  On a reachable state every operation that respects the loop's
contract (fresh id for `suggest`) returns normally; the only exception possible is the
assertion "training script must not skip rung levels" (a report beyond the milestone). -/
theorem run_total (mode : Mode) (systems : List (List (Nat × Nat))) (s : Sched)
    (h : Reachable mode systems s) (op : Op) (hl : LegalOp s op) :
    (∃ s' o, s.step op = .ok (s', o)) ∨
    (∃ tid r v id sl, op = .result tid r v ∧ alookup tid s.pending = some (id, sl) ∧ sl.level < r) :=
  (step_spec (reachable_inv h).1 op hl).2.2

/-- **Distinct trials.**  In every reachable state the slots of a rung hold pairwise
distinct trials, and no trial occurs in two brackets. -/
theorem distinct (mode : Mode) (systems : List (List (Nat × Nat))) (s : Sched)
    (h : Reachable mode systems s) :
    (∀ br ∈ s.mgr.brackets, ∀ rg ∈ br.rungs, (rg.slots.filterMap (·.tid)).Nodup) ∧
    (∀ (i j : Nat) (bi bj : Bracket) (t : Nat), s.mgr.brackets[i]? = some bi → s.mgr.brackets[j]? = some bj →
      bi.HasId t → bj.HasId t → i = j) := by
  have hI := (reachable_inv h).1
  refine ⟨?_, hI.disjoint⟩
  intro br hbr rg hrg
  obtain ⟨id, hid⟩ := List.mem_iff_getElem?.mp hbr
  obtain ⟨spec, _, hb, _⟩ := hI.mwf.wf id br hid
  exact hb.nodup rg hrg

/-- **Rungs of exactly the configured size; brackets cycle through the rung systems.**
Bracket `id` is built from rung system `id mod num_offsets`: its rungs (materialised or
not yet) have exactly the sizes and levels of that system, and the recorded offset is
`id mod num_offsets`. -/
theorem cycle (mode : Mode) (systems : List (List (Nat × Nat))) (s : Sched)
    (h : Reachable mode systems s) (id : Nat) (br : Bracket) (hbr : s.mgr.brackets[id]? = some br) :
    ∃ spec, systems[id % systems.length]? = some spec ∧
      br.rungs.map (fun r => (r.slots.length, r.level)) ++ br.todo = spec ∧
      s.mgr.idToOffset[id]? = some (id % systems.length) ∧ br.mode = mode := by
  obtain ⟨hI, hsys, hmode⟩ := reachable_inv h
  obtain ⟨spec, hspec, hb, hm⟩ := hI.mwf.wf id br hbr
  have hn : s.mgr.numOffsets = systems.length := by unfold Manager.numOffsets; rw [hsys]
  refine ⟨spec, by rw [← hn, ← hsys]; exact hspec, hb.shape, ?_, hm.trans hmode⟩
  have hidlt : id < s.mgr.idToOffset.length := by rw [hI.mwf.lenEq]; exact getElem?_lt hbr
  rw [List.getElem?_eq_getElem hidlt, ← hn]
  congr 1
  exact hI.mwf.cycle id _ (List.getElem?_eq_getElem hidlt)

/-- **Barrier.**  A rung `k+1` of a bracket exists (has slots) only if every slot of rung
`k` is occupied by a result; only the current rung has unoccupied slots, and it always has
one (a complete rung is advanced immediately). -/
theorem barrier (mode : Mode) (systems : List (List (Nat × Nat))) (s : Sched)
    (h : Reachable mode systems s) (br : Bracket) (hbr : br ∈ s.mgr.brackets) :
    (∀ (k : Nat) (rgk next : Rung), br.rungs[k]? = some rgk → br.rungs[k + 1]? = some next →
      ∀ x ∈ rgk.slots, x.metric.isSome = true) ∧
    (∀ (k : Nat) (rgk : Rung) (x : Slot), br.rungs[k]? = some rgk → x ∈ rgk.slots → x.metric = none →
      k = br.current) ∧
    (∀ rg, br.rungs[br.current]? = some rg → ∃ x ∈ rg.slots, x.metric = none) := by
  have hI := (reachable_inv h).1
  obtain ⟨id, hid⟩ := List.mem_iff_getElem?.mp hbr
  obtain ⟨spec, _, hb, _⟩ := hI.mwf.wf id br hid
  refine ⟨?_, ?_, hb.open_⟩
  · intro k rgk next hk hn x hx
    have hlt := getElem?_lt hn
    exact hb.done k rgk (by have := hb.len; omega) hk x hx
  · intro k rgk x hk hx hxm
    have hlt := getElem?_lt hk
    by_contra hne
    have hk' : k < br.current := by have := hb.len; omega
    have := hb.done k rgk hk' hk x hx
    rw [hxm] at this; cases this

/-- **The next rung is the top list.**  Whenever rung `k+1` of a bracket exists, its slots
hold, position by position, the ids `get_top_list` selects from the completed rung `k`
(`topList`, characterised by `top_list_best` below).  A position whose top-list entry is
`None` (a failed slot that never had a trial, promoted only under shortfall) may instead
hold a trial that was started into that slot later; such a trial has reported there and
occurs in no lower rung. -/
theorem top (mode : Mode) (systems : List (List (Nat × Nat))) (s : Sched)
    (h : Reachable mode systems s) (br : Bracket) (hbr : br ∈ s.mgr.brackets)
    (k : Nat) (prev next : Rung) (hprev : br.rungs[k]? = some prev) (hnext : br.rungs[k + 1]? = some next) :
    ∃ es, entriesOf prev.slots = some es ∧ es.length = prev.slots.length ∧
      (topList es next.slots.length mode).length = next.slots.length ∧
      ∀ (p : Nat) (o : Option Nat) (x : Slot),
        (topList es next.slots.length mode)[p]? = some o → next.slots[p]? = some x →
        x.tid = o ∨ (o = none ∧ ∀ t, x.tid = some t → x.metric.isSome = true ∧
                      ∀ r ∈ br.rungs.take (k + 1), t ∉ r.slots.filterMap (·.tid)) := by
  obtain ⟨hI, _, hmode⟩ := reachable_inv h
  obtain ⟨id, hid⟩ := List.mem_iff_getElem?.mp hbr
  obtain ⟨spec, _, hb, hm⟩ := hI.mwf.wf id br hid
  obtain ⟨es, hes, hlen, hpt⟩ := hb.top k prev next hprev hnext
  rw [hm.trans hmode] at hlen hpt
  exact ⟨es, hes, (entriesOf_spec _ es hes).1, hlen, hpt⟩

/-- **`get_top_list` selects exactly the best entries.**  `topSel rung n m` are the selected
entries with their positions in the completed rung, in the order of the new rung
(`topList` = their ids).  For `n ≤ |rung|` (rung sizes decrease):
* exactly `n` entries at pairwise distinct positions of the rung are selected;
* if the rung has at least `n` valid (non-NaN) entries: only valid entries are selected,
  they are ordered by (metric key, position), and every selected entry ranks strictly
  before every valid entry which is not selected — key = metric (`min`) / −metric (`max`),
  ties by position;
* otherwise all valid entries are selected; hence a failed (NaN) entry is selected only
  when fewer than `n` valid ones exist. -/
theorem top_list_best (rung : List TEntry) (n : Nat) (m : Mode) (hn : n ≤ rung.length) :
    topList rung n m = (topSel rung n m).map (·.1.1) ∧
    (topSel rung n m).length = n ∧
    ((topSel rung n m).map (·.2)).Nodup ∧
    (∀ x ∈ topSel rung n m, rung[x.2]? = some x.1) ∧
    (n ≤ (rung.filter (fun e => !e.2.isNan)).length →
      (∀ x ∈ topSel rung n m, IsValid x.1) ∧
      (topSel rung n m).Pairwise (Better m) ∧
      (∀ x ∈ topSel rung n m, ∀ (j : Nat) (e : TEntry), rung[j]? = some e → IsValid e →
        j ∉ (topSel rung n m).map (·.2) → Better m x (e, j))) ∧
    ((rung.filter (fun e => !e.2.isNan)).length < n →
      ∀ (j : Nat) (e : TEntry), rung[j]? = some e → IsValid e → (e, j) ∈ topSel rung n m) ∧
    (∀ x ∈ topSel rung n m, ¬ IsValid x.1 → (rung.filter (fun e => !e.2.isNan)).length < n) := by
  rw [← validPos_length]
  refine ⟨rfl, topSel_length rung n m hn, topSel_nodup rung n m, topSel_mem rung n m, ?_, ?_, ?_⟩
  · intro hv
    exact ⟨topSel_valid rung n m hv, topSel_sorted rung n m hv, topSel_best rung n m hv⟩
  · intro hv
    exact topSel_all_valid rung n m (by omega)
  · intro x hx hnv
    by_contra hc
    exact hnv (topSel_valid rung n m (by omega) x hx)

/-- **A request for work never blocks.**  `next_job` returns a job on every reachable state:
the first free slot of the first bracket from the primary on that has a free slot in its
current rung — and exactly when no open bracket has one, a new bracket is created (its
first slot is the job). -/
theorem never_blocks (mode : Mode) (systems : List (List (Nat × Nat))) (s : Sched)
    (h : Reachable mode systems s) :
    ∃ g' id sl, s.mgr.nextJob = .ok (g', id, sl) ∧
      ((∃ br, s.mgr.brackets[id]? = some br ∧ s.mgr.primary ≤ id ∧ br.HasFree ∧
          (∀ j b, s.mgr.primary ≤ j → j < id → s.mgr.brackets[j]? = some b → ¬ b.HasFree) ∧
          g'.brackets.length = s.mgr.brackets.length ∧
          sl.rungIndex = br.current ∧ sl.slotIndex = br.firstFree) ∨
       (id = s.mgr.brackets.length ∧
          (∀ j b, s.mgr.primary ≤ j → s.mgr.brackets[j]? = some b → ¬ b.HasFree) ∧
          g'.brackets.length = s.mgr.brackets.length + 1 ∧ sl.rungIndex = 0 ∧ sl.slotIndex = 0)) := by
  have hI := (reachable_inv h).1
  obtain ⟨g', id, sl, hjob, hcase, _⟩ := nextJob_spec hI.mwf
  refine ⟨g', id, sl, hjob, ?_⟩
  cases hcase with
  | existing id br rg x hge hbr hbefore hf hrg hsl =>
    exact Or.inl ⟨br, hbr, hge, hf, hbefore, by simp [Manager.setBracket], rfl, rfl⟩
  | fresh br rg x hnone hok hcur hff hid hf hrg hsl =>
    exact Or.inr ⟨rfl, hnone, by simp [Manager.setBracket], hcur, hff⟩

/-- `suggest` (scheduler level) always answers: a new trial, a trial to resume, or —
only when the searcher has no configuration — nothing. -/
theorem suggest_total (mode : Mode) (systems : List (List (Nat × Nat))) (s : Sched)
    (h : Reachable mode systems s) (tid : Nat) (c : Bool) (hfresh : tid ∉ s.configs) :
    ∃ s' sg calls, s.suggest tid c = .ok (s', sg, calls) ∧ (sg = .none → c = false) := by
  obtain ⟨s', sg, calls, hs, _, hf⟩ := suggest_spec (reachable_inv h).1 tid c hfresh
  refine ⟨s', sg, calls, hs, ?_⟩
  intro hsg
  obtain ⟨_, _, _, _, _, _, _, _, _, _, hc⟩ := hf.job
  rcases hc with ⟨_, _, h1, _⟩ | ⟨_, _, h1, _⟩ | ⟨_, h1, _⟩
  · rw [hsg] at h1; cases h1
  · rw [hsg] at h1; cases h1
  · exact h1

/-- **Primary bracket.**  The primary bracket is the one with the least id among the
incomplete brackets: all brackets below it are complete, it is not. -/
theorem primary (mode : Mode) (systems : List (List (Nat × Nat))) (s : Sched)
    (h : Reachable mode systems s) :
    s.mgr.primary < s.mgr.brackets.length ∧
    (∀ id br, id < s.mgr.primary → s.mgr.brackets[id]? = some br → br.isComplete = true) ∧
    (∀ br, s.mgr.brackets[s.mgr.primary]? = some br → br.isComplete = false) := by
  have hw := (reachable_inv h).1.mwf
  exact ⟨hw.primLt, hw.below, hw.primOpen⟩

/-- **A trial is resumed only after its whole rung has reported, and only from the top
list.**  If `suggest` answers "resume `t` to level `lvl`", then in the resulting state `t`
sits in the current rung `k+1 ≥ 1` of some bracket, at level `lvl`; every slot of rung `k`
holds a result; and `t` is an element of the top list of rung `k`. -/
theorem resume_is_top (mode : Mode) (systems : List (List (Nat × Nat))) (s : Sched)
    (h : Reachable mode systems s) (tid : Nat) (c : Bool) (hfresh : tid ∉ s.configs)
    (s' : Sched) (t lvl : Nat) (cl : Option Nat) (calls : List SCall)
    (hs : s.suggest tid c = .ok (s', .resume t lvl cl, calls)) :
    ∃ (id : Nat) (br : Bracket) (k : Nat) (prev rg : Rung) (es : List TEntry),
      s'.mgr.brackets[id]? = some br ∧ br.current = k + 1 ∧
      br.rungs[k]? = some prev ∧ br.rungs[k + 1]? = some rg ∧ rg.level = lvl ∧
      (∀ y ∈ prev.slots, y.metric.isSome = true) ∧
      entriesOf prev.slots = some es ∧ some t ∈ topList es rg.slots.length br.mode := by
  have hI := (reachable_inv h).1
  obtain ⟨s2, sg, calls2, hs2, hI2, hf⟩ := suggest_spec hI tid c hfresh
  rw [hs] at hs2
  simp only [Except.ok.injEq, Prod.mk.injEq] at hs2
  obtain ⟨rfl, rfl, rfl⟩ := hs2
  obtain ⟨g1, id, sl, br1, rg, x, _, _, hh, _, hc⟩ := hf.job
  rcases hc with ⟨t', hx, hsg, hm, _⟩ | ⟨_, _, hsg, _⟩ | ⟨_, _, hsg, _⟩
  · simp only [Suggestion.resume.injEq] at hsg
    obtain ⟨rfl, rfl, _⟩ := hsg
    have hbr : s'.mgr.brackets[id]? = some br1 := by rw [hm]; exact hh.hbr
    obtain ⟨spec, _, hb, _⟩ := hI2.mwf.wf id br1 hbr
    -- the current rung is not the base rung: there a slot with an id holds a result
    have hpos : br1.current ≠ 0 := by
      intro h0
      have := hb.base rg (h0 ▸ hh.hrg) x (List.mem_of_getElem? hh.hsl) (by rw [hx]; rfl)
      rw [hh.empty] at this; cases this
    obtain ⟨k, hk⟩ : ∃ k, br1.current = k + 1 := ⟨br1.current - 1, by omega⟩
    have hprevlt : k < br1.rungs.length := by have := getElem?_lt hh.hrg; omega
    have hprev := List.getElem?_eq_getElem hprevlt
    have hrg' : br1.rungs[k + 1]? = some rg := hk ▸ hh.hrg
    obtain ⟨es, hes, hlen, hpt⟩ := hb.top k _ rg hprev hrg'
    have hqlt : sl.slotIndex < (topList es rg.slots.length br1.mode).length := by
      rw [hlen]; exact getElem?_lt hh.hsl
    have ho := List.getElem?_eq_getElem hqlt
    refine ⟨id, br1, k, _, rg, es, hbr, hk, hprev, hrg', hh.lvl.symm, ?_, hes, ?_⟩
    · exact hb.done k _ (by omega) hprev
    · rcases hpt sl.slotIndex _ x ho hh.hsl with h1 | ⟨_, h2⟩
      · rw [← hx, h1]; exact List.getElem_mem hqlt
      · have := (h2 t hx).1
        rw [hh.empty] at this; cases this
  · cases hsg
  · cases hsg

/-! ### non-vacuity: concrete reachable states -/

/-- two brackets' worth of history on the system `[[(2,1),(1,2)],[(1,2)]]`: both trials of
the base rung report, the better one (trial 1, metric 1/4 < 1/2) is promoted. -/
example :
    ∃ s0 s, Sched.init .min [[(2, 1), (1, 2)], [(1, 2)]] false false = .ok s0 ∧
      s0.run [.suggest 0 true, .suggest 1 true, .result 0 1 (.val (1/2)), .result 1 1 (.val (1/4))] = s ∧
      s.mgr.brackets.map (fun b => (b.current, b.rungs.map (fun r => r.slots))) =
        [(1, [[⟨some 0, some (.val (1/2))⟩, ⟨some 1, some (.val (1/4))⟩], [⟨some 1, none⟩]])] ∧
      s.removable = [some 0] :=
  ⟨_, _, rfl, rfl, by decide +kernel, by decide +kernel⟩

/-- `Reachable` itself: three `suggest`s on the same system; the third finds both base slots
of bracket 0 handed out and opens bracket 1 (rung system 1 mod 2), two brackets are open. -/
example :
    ∃ s, Reachable .min [[(2, 1), (1, 2)], [(1, 2)]] s ∧ s.mgr.brackets.length = 2 ∧ s.mgr.primary = 0 ∧
      s.mgr.idToOffset = [0, 1] ∧ s.pending.map (·.1) = [0, 1, 2] :=
  ⟨_, ⟨false, false, _, [.suggest 0 true, .suggest 1 true, .suggest 2 true], rfl, by decide +kernel, rfl⟩,
    by decide +kernel, by decide +kernel, by decide +kernel, by decide +kernel⟩

example : topList [(some 0, .val 3), (some 1, .nan), (some 2, .val 1), (some 3, .val 3)] 2 .min = [some 2, some 0] := by
  decide +kernel

example : topList [(some 0, .val 3), (some 1, .nan), (none, .nan)] 2 .max = [some 0, some 1] := by
  decide +kernel

end SyneTune.C05
