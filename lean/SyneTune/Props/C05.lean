import SyneTune.Model.SyncScheduler
/- placeholder, theorems follow -/
