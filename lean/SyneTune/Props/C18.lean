import SyneTune.Lemmas.ReportChannelRun
/-
C18 — metrics reported by a training script arrive unchanged at the tuner.
Property theorems only; helper lemmas are in `Lemmas/ReportChannel.lean`
(reader side: the regex scanner) and `Lemmas/ReportChannelRun.lean` (writer side).
Model: `Model/ReportChannel.lean`.

Trusted (hypotheses, exercised by the correspondence check): `json.dumps` produces a text
without line terminators that starts with `{` and ends with `}` (`PayloadOK`), and
`json.loads (json.dumps d) = d` for normalised `d` (`hdec` below); a report line including
its `'\n'` reaches the file in one piece (the `'\n'` is part of `render`); the clock.
-/
namespace SyneTune.C18
open SyneTune.Report

/-! ### the shipped tag -/

/-- `ST_SAGEMAKER_METRIC_TAG = "tune-metric"`: no line terminator inside, and the marker
`"[tune-metric]: {"` has no proper border (does not overlap itself). -/
theorem tag_ok : MarkerOK tuneMetricTag := markerOK_of_B (by decide +kernel)

/-- the diagnostics printed by `_serialize_report_dict` on a rejected report cannot
contribute to an occurrence of the marker. -/
theorem diag_ok : DiagOK tuneMetricTag := diagOK_of_B (by decide +kernel)

/-! ### framing -/

/-- **Framing, as the local back-end reads it.**  For every list of report texts `p₁ … p_k`
(each satisfying J1/J2) and all noise chunks `n₁ … n_k`, `tail` none of which contains the
marker `"[tag]: {"` — a chunk being *everything* written between two consecutive report
lines, empty or not, with or without trailing newline, so in particular noise directly in
front of a report on the same line — the file `n₁ line(p₁) n₂ line(p₂) … tail`, read with
`open(…).readlines()` (universal newlines, lines keep their `'\n'`) and parsed by
`retrieve` (`re.findall(r"\[tag\]: (\{.*\})", "\n".join(lines))`), yields exactly
`p₁ … p_k`, in order. -/
theorem framing (tag : List Char) (hm : MarkerOK tag)
    (segs : List (List Char × List Char)) (tail : List Char)
    (hp : ∀ s ∈ segs, PayloadOK s.2)
    (hn : ∀ s ∈ segs, ¬ marker tag <:+: s.1) (ht : ¬ marker tag <:+: tail) :
    retrieve tag (localRead (streamText tag segs tail)) = segs.map (·.2) := by
  unfold localRead
  rw [retrieve_readlines (marker_nl hm.nl)]
  exact framing_univ_aux hm segs tail hp hn ht false

/-- the same for lines obtained without newline translation (`readlines` of a `StringIO`,
`splitlines(keepends=True)` on `'\n'`). -/
theorem framing_readlines (tag : List Char) (hm : MarkerOK tag)
    (segs : List (List Char × List Char)) (tail : List Char)
    (hp : ∀ s ∈ segs, PayloadOK s.2)
    (hn : ∀ s ∈ segs, ¬ marker tag <:+: s.1) (ht : ¬ marker tag <:+: tail) :
    retrieve tag (readlines (streamText tag segs tail)) = segs.map (·.2) := by
  rw [retrieve_readlines (marker_nl hm.nl)]
  exact framing_text_aux hm segs tail hp hn ht

/-- the same for the regular expression applied to the raw text (what `retrieve` computes
when the lines come from `text.split("\n")`). -/
theorem framing_text (tag : List Char) (hm : MarkerOK tag)
    (segs : List (List Char × List Char)) (tail : List Char)
    (hp : ∀ s ∈ segs, PayloadOK s.2)
    (hn : ∀ s ∈ segs, ¬ marker tag <:+: s.1) (ht : ¬ marker tag <:+: tail) :
    findall tag (streamText tag segs tail) = segs.map (·.2) :=
  framing_text_aux hm segs tail hp hn ht

/-- the property's wording: noise that does not contain the *tag* (`tune-metric`) at all. -/
theorem framing_tag_free (tag : List Char) (hm : MarkerOK tag)
    (segs : List (List Char × List Char)) (tail : List Char)
    (hp : ∀ s ∈ segs, PayloadOK s.2)
    (hn : ∀ s ∈ segs, ¬ tag <:+: s.1) (ht : ¬ tag <:+: tail) :
    retrieve tag (localRead (streamText tag segs tail)) = segs.map (·.2) := by
  have htm : tag <:+: marker tag := ⟨['['], [']', ':', ' ', '{'], by simp [marker]⟩
  exact framing tag hm segs tail hp (fun s hs h => hn s hs (htm.trans h)) (fun h => ht (htm.trans h))

/-- extra line breaks are invisible to the regex: `"\n".join(f.readlines())` (which doubles
every newline) contains the same reports as the text itself — for *every* text. -/
theorem join_readlines_invisible (tag : List Char) (hnl : '\n' ∉ tag) (s : List Char) :
    retrieve tag (readlines s) = findall tag s :=
  retrieve_readlines (marker_nl hnl) s

/-- matches never cross a line break — for *every* text. -/
theorem findall_lines (tag : List Char) (hnl : '\n' ∉ tag) (a b : List Char) :
    findall tag (a ++ '\n' :: b) = findall tag a ++ findall tag b :=
  scan_append_nl (marker_nl hnl) (by simp [marker]) a 0 b (Nat.zero_le _)

/-- **The line break that ends a report line is essential.**  The statement of `framing`
with report lines *not* terminated (noise may follow the report on the same line) is
false: with noise `" done}"` behind `{"a": 1}` the greedy `.*\}` runs to the noise's
brace.  (Replayed on the real `retrieve`: `json.loads` raises on the group, see
`harness/props/c18.py`.)  In the code the terminator is written by the same `print` call
as the line; that this `print` is not interleaved with other writers is an assumption. -/
theorem framing_needs_line_end_counterexample :
    ¬ (∀ (payload noise : List Char), PayloadOK payload → ¬ marker tuneMetricTag <:+: noise →
        findall tuneMetricTag (linePrefix tuneMetricTag ++ payload ++ noise) = [payload]) := by
  intro h
  have hp : PayloadOK "{\"a\": 1}".toList :=
    ⟨by decide +kernel, by decide +kernel, ⟨"\"a\": 1".toList, by decide +kernel⟩⟩
  have := h "{\"a\": 1}".toList " done}".toList hp (by decide +kernel)
  revert this
  decide +kernel

/-- **A forged marker is a report** (the hypothesis on noise in `framing` cannot be
dropped; this is the protocol, not a defect). -/
theorem forged_marker_is_a_report :
    findall tuneMetricTag "x[tune-metric]: {}\n".toList = ["{}".toList] := by
  decide +kernel

/-! ### rejection at the reporting side -/

/-- **Reserved namespace.**  If any key of the report starts with `st_`, the call fails with
an assertion error *before* anything is written, and the reporter is unchanged (the
counter is not consumed).  (`noneValue` is the earlier assertion on `None` values.) -/
theorem reject_reserved (c : Cfg) (enc : PDict → List Char) (st : St)
    (kw : List (List Nat × Val)) (now perf : Rat)
    (k : List Nat) (v : Val) (hmem : (k, v) ∈ kw) (hk : reservedPrefix <+: k) :
    (st.call c enc kw now perf = (st, some .reserved) ∨
      st.call c enc kw now perf = (st, some .noneValue)) ∧
    (hasNone kw = false → st.call c enc kw now perf = (st, some .reserved)) := by
  have hr : hasReserved kw = true := by
    unfold hasReserved
    rw [List.any_eq_true]
    exact ⟨(k, v), hmem, List.isPrefixOf_iff_prefix.mpr hk⟩
  constructor
  · cases h0 : hasNone kw with
    | true => exact Or.inr (call_none c enc st kw now perf h0)
    | false => exact Or.inl (call_reserved c enc st kw now perf h0 hr)
  · intro h0; exact call_reserved c enc st kw now perf h0 hr

/-- a `None` value is rejected before anything is written. -/
theorem reject_none (c : Cfg) (enc : PDict → List Char) (st : St)
    (kw : List (List Nat × Val)) (now perf : Rat)
    (k : List Nat) (hmem : (k, Val.leaf .null) ∈ kw) :
    st.call c enc kw now perf = (st, some .noneValue) := by
  apply call_none
  unfold hasNone
  rw [List.any_eq_true]
  exact ⟨_, hmem, rfl⟩

/-- **Unserialisable values.**  A report (with admissible keys) is rejected with
`TypeError` iff some value contains — at any depth — an object that is neither natively
JSON-encodable nor a numpy scalar whose `.item()` is, or a dictionary key of a
non-JSON type.  No report line is written: the only output is the diagnostic line, which
is marker-free (`diag_ok`). -/
theorem reject_unserialisable (c : Cfg) (enc : PDict → List Char) (st : St)
    (kw : List (List Nat × Val)) (now perf : Rat)
    (h0 : hasNone kw = false) (h1 : hasReserved kw = false) :
    ((∃ kv ∈ kw, kv.2.bad = true) ↔ (st.call c enc kw now perf).2 = some .typeError) ∧
    ((∃ kv ∈ kw, kv.2.bad = true) →
      st.call c enc kw now perf =
        ({ st with iter := st.iter + 1, cur := st.cur ++ diagType }, some .typeError)) := by
  have key := normKw_none_iff kw
  constructor
  · constructor
    · intro h; rw [call_type c enc st kw now perf h0 h1 (key.mpr h)]
    · intro h
      apply key.mp
      cases hn : normKw kw with
      | none => rfl
      | some dkw =>
        exfalso
        by_cases hs : c.overhead + (enc (sentDict c st dkw now perf)).length < sizeLimit
        · rw [call_ok c enc st kw now perf dkw h0 h1 hn hs] at h; cases h
        · rw [call_large c enc st kw now perf dkw h0 h1 hn hs] at h; cases h
  · intro h; exact call_type c enc st kw now perf h0 h1 (key.mpr h)

/-- **Size limit.**  A serialisable report whose JSON text has
`sys.getsizeof(text) = overhead + len(text) ≥ 50000` is rejected with an assertion error;
no report line is written (only the marker-free diagnostic). -/
theorem size (c : Cfg) (enc : PDict → List Char) (st : St)
    (kw : List (List Nat × Val)) (now perf : Rat) (dkw : PDict)
    (h0 : hasNone kw = false) (h1 : hasReserved kw = false) (h : normKw kw = some dkw)
    (hs : sizeLimit ≤ c.overhead + (enc (sentDict c st dkw now perf)).length) :
    st.call c enc kw now perf =
      ({ st with iter := st.iter + 1, cur := st.cur ++ diagSize }, some .tooLarge) :=
  call_large c enc st kw now perf dkw h0 h1 h (by omega)

/-- **What is sent.**  Every other report is accepted: exactly one line is appended after
the noise written so far, carrying the reported dictionary with every value normalised
(`Val.norm`: numpy scalars replaced by their `.item()`, nothing else changed), followed by
the time stamp, [the elapsed time, [the cost]] and the counter. -/
theorem accepted (c : Cfg) (enc : PDict → List Char) (st : St)
    (kw : List (List Nat × Val)) (now perf : Rat) (dkw : PDict)
    (h0 : hasNone kw = false) (h1 : hasReserved kw = false) (h : normKw kw = some dkw)
    (hs : c.overhead + (enc (sentDict c st dkw now perf)).length < sizeLimit) :
    st.call c enc kw now perf =
      ({ st with iter := st.iter + 1,
                 segs := st.segs ++ [(st.cur, dkw ++ (extras c st now perf st.iter).map
                                                fun e => (e.1, Plain.leaf e.2))],
                 cur := [] }, none) :=
  call_ok c enc st kw now perf dkw h0 h1 h hs

/-- a numpy scalar arrives as the plain number its `.item()` is; a plain value arrives
as it is; ndarray / set / arbitrary objects are not serialisable. -/
theorem numpy_scalar_plain (l : Leaf) :
    (Val.np (.leaf l)).norm = some (.leaf l) ∧ (Val.leaf l).norm = some (.leaf l) ∧
    Val.other.norm = none ∧ (Val.np .other).norm = none := by
  simp [Val.norm]

/-- a value is rejected iff it contains something unserialisable, at any depth. -/
theorem norm_none_iff_bad (v : Val) : v.norm = none ↔ v.bad = true := Val.norm_none_iff v

/-! ### counter and time stamps over whole histories -/

/-- **Counter strictly increasing.**  After any history of reports (accepted or rejected in
any way) and noise, the `st_worker_iter` values of the delivered dictionaries, in order of
delivery, are natural numbers in strictly increasing order, all below the reporter's
counter. -/
theorem counter_increasing (c : Cfg) (hc : CfgOK c) (enc : PDict → List Char) (perf0 : Rat)
    (ops : List Op) :
    ∃ is : List Nat,
      (St.run c enc (St.init c perf0) ops).segs.map (fun s => iterOf c s.2) =
        is.map (fun i : Nat => some (i : Int)) ∧
      is.Pairwise (· < ·) ∧ ∀ i ∈ is, i < (St.run c enc (St.init c perf0) ops).iter :=
  run_invariant c enc (CounterInv c) (fun st op h => counterInv_step c hc enc st op h) _ ops
    ⟨[], by simp [St.init], List.Pairwise.nil, by simp⟩

/-- **Counter = 0, 1, 2, …** as long as no report fails inside `_serialize_report_dict`
(`TypeError` / size): the k-th delivered dictionary carries `st_worker_iter = k`.
(A report failing there has already consumed a counter value — the code increments
`self.iter` before serialising — so afterwards the sequence has a gap but stays strictly
increasing, `counter_increasing`.) -/
theorem counter_contiguous (c : Cfg) (hc : CfgOK c) (enc : PDict → List Char) (perf0 : Rat)
    (ops : List Op) (hs : serialOK c enc (St.init c perf0) ops = true) :
    (St.run c enc (St.init c perf0) ops).segs.map (fun s => iterOf c s.2) =
      (List.range (St.run c enc (St.init c perf0) ops).iter).map (fun i : Nat => some (i : Int)) :=
  contig_run c hc enc ops _ (by simp [ContigInv, St.init]) hs

/-- the configuration of a default `Reporter()` with the constants of `constants.py`
(CPython 3.12: `sys.getsizeof("") = 41`), used in the examples -/
def shipped : Cfg where
  tag := tuneMetricTag
  kTimestamp := cps "st_worker_timestamp"
  kTime := cps "st_worker_time"
  kCost := cps "st_worker_cost"
  kIter := cps "st_worker_iter"
  overhead := 41
  addTime := true
  dollarCost := none

/-- the gap after a serialisation failure is real (model level): report an ndarray, then a
number — the delivered counter is 1, not 0. -/
theorem counter_gap_example :
    let c := shipped
    (St.run c (fun _ => "{}".toList) (St.init c 0)
      [.report [(cps "a", .other)] 1 1, .report [(cps "a", .leaf (.int 5))] 2 2]).segs.map
        (fun s => iterOf c s.2) = [some 1] := by
  decide +kernel

/-- **Time stamps non-decreasing.**  If the readings of `time()` at successive report calls
are non-decreasing (trusted: the clock), the `st_worker_timestamp` values of the delivered
dictionaries are non-decreasing in order of delivery. -/
theorem timestamps_nondecreasing (c : Cfg) (hc : CfgOK c) (enc : PDict → List Char)
    (perf0 : Rat) (ops : List Op) (hclock : (nows ops).Pairwise (· ≤ ·)) :
    ∃ L : List Rat,
      (St.run c enc (St.init c perf0) ops).segs.map (fun s => tsOf c s.2) = L.map some ∧
      L.Pairwise (· ≤ ·) := by
  obtain ⟨L, h1, h2⟩ := ts_run c hc enc ops (St.init c perf0)
  exact ⟨L, by simpa [St.init] using h1, hclock.sublist h2⟩

/-- the same for `st_worker_time = perf_counter() - start` (when `add_time`). -/
theorem times_nondecreasing (c : Cfg) (hc : CfgOK c) (hat : c.addTime = true)
    (enc : PDict → List Char) (perf0 : Rat) (ops : List Op)
    (hclock : (perfs ops).Pairwise (· ≤ ·)) :
    ∃ L : List Rat,
      (St.run c enc (St.init c perf0) ops).segs.map (fun s => timeOf c s.2) = L.map some ∧
      L.Pairwise (· ≤ ·) := by
  obtain ⟨L, h1, h2⟩ := time_run c hc hat enc ops (St.init c perf0)
  refine ⟨L.map (fun p => p - (St.init c perf0).start), by simpa [St.init, Function.comp_def] using h1, ?_⟩
  rw [List.pairwise_map]
  exact (hclock.sublist h2).imp (fun h => by grind)

/-! ### end to end -/

/-- **End to end.**  Let a training script produce any history of report calls (accepted or
rejected for any of the reasons above) and other output, such that the other output never
completes an occurrence of the marker (`cleanRun`).  Then reading the captured file the way
the local back-end does and applying `retrieve` finds exactly the JSON texts of the accepted
reports, in order; and with `json.loads` inverting `json.dumps` on normalised dictionaries
(trusted), the tuner obtains exactly the dictionaries described by `accepted`. -/
theorem end_to_end (c : Cfg) (hm : MarkerOK c.tag) (hd : DiagOK c.tag)
    (enc : PDict → List Char) (henc : ∀ d, PayloadOK (enc d))
    (dec : List Char → Option PDict) (hdec : ∀ d, dec (enc d) = some d)
    (perf0 : Rat) (ops : List Op) (hclean : cleanRun c enc (St.init c perf0) ops) :
    retrieve c.tag (localRead ((St.run c enc (St.init c perf0) ops).out c enc)) =
      (St.run c enc (St.init c perf0) ops).segs.map (fun s => enc s.2) ∧
    (retrieve c.tag (localRead ((St.run c enc (St.init c perf0) ops).out c enc))).map dec =
      (St.run c enc (St.init c perf0) ops).segs.map (fun s => some s.2) := by
  have hfree := free_run c hd enc ops (St.init c perf0)
    ⟨by simp [St.init], by simpa [St.init] using marker_not_infix_nil c.tag⟩ hclean
  have h1 : retrieve c.tag (localRead ((St.run c enc (St.init c perf0) ops).out c enc)) =
      (St.run c enc (St.init c perf0) ops).segs.map (fun s => enc s.2) := by
    unfold St.out
    rw [framing c.tag hm _ _ ?_ ?_ hfree.2]
    · simp
    · intro s hs
      obtain ⟨s', _, rfl⟩ := List.mem_map.mp hs
      exact henc _
    · intro s hs
      obtain ⟨s', hs', rfl⟩ := List.mem_map.mp hs
      exact hfree.1 s' hs'
  exact ⟨h1, by rw [h1]; simp [hdec]⟩

/-! ### non-vacuity: concrete objects meeting the hypotheses -/

/-- a concrete stream: noise without newline directly in front of a report, a partial
marker `"[tune-"` glued to a report, a payload containing the marker, braces and an
escaped newline inside strings, `'\r'` line ends, trailing noise containing `'}'`. -/
example :
    let segs : List (List Char × List Char) :=
      [("epoch 1 }{ ".toList, "{\"a\": {\"s\": \"}[tune-metric]: {x\\n\"}}".toList),
       ("\rlog\r\n[tune-".toList, "{}".toList)]
    let tail := "} bye".toList
    (∀ s ∈ segs, PayloadOK s.2) ∧ (∀ s ∈ segs, ¬ marker tuneMetricTag <:+: s.1) ∧
      ¬ marker tuneMetricTag <:+: tail ∧
      retrieve tuneMetricTag (localRead (streamText tuneMetricTag segs tail)) = segs.map (·.2) := by
  refine ⟨?_, by decide +kernel, by decide +kernel, by decide +kernel⟩
  intro s hs
  simp only [List.mem_cons, List.not_mem_nil, or_false] at hs
  rcases hs with rfl | rfl
  · exact ⟨by decide +kernel, by decide +kernel,
      ⟨"\"a\": {\"s\": \"}[tune-metric]: {x\\n\"}".toList, by decide +kernel⟩⟩
  · exact ⟨by decide +kernel, by decide +kernel, ⟨[], by decide +kernel⟩⟩

/-- the configuration used by the shipped constants satisfies `CfgOK`. -/
example : CfgOK shipped :=
  ⟨by decide +kernel, by decide +kernel, by decide +kernel, by decide +kernel,
   by decide +kernel, by decide +kernel, by decide +kernel⟩

/-- a clean history with an accepted report (numpy scalar inside a list), a reserved key,
an ndarray and noise: one line is delivered, the counter is 0, the numpy scalar is plain. -/
example :
    let c := shipped
    let enc : PDict → List Char := fun _ => "{}".toList
    let ops : List Op :=
      [.noise "hello ".toList,
       .report [(cps "st_x", .leaf (.int 1))] 1 1,
       .report [(cps "a", .list [.np (.leaf (.int 3))])] 2 2,
       .noise "}\n".toList,
       .report [(cps "b", .dict [(.str (cps "k"), .other)])] 3 3]
    cleanRun c enc (St.init c 0) ops ∧ serialOK c enc (St.init c 0) ops = false ∧
      (St.run c enc (St.init c 0) ops).segs.map (fun s => pget (cps "a") s.2) =
        [some (.list [.leaf (.int 3)])] ∧
      (St.run c enc (St.init c 0) ops).segs.map (fun s => iterOf c s.2) = [some 0] ∧
      (St.run c enc (St.init c 0) ops).iter = 2 := by
  refine ⟨?_, by decide +kernel, by rfl, by decide +kernel, by decide +kernel⟩
  simp only [cleanRun]
  refine ⟨by decide +kernel, by decide +kernel, trivial⟩

end SyneTune.C18
